package harness

// C01 — exactly one correlated response per call, none per notification.

import (
	"encoding/json"
	"fmt"
	"math/rand"
	"strings"
	"testing"
)

// c01Record builds one inbound record: a mix of valid calls, notifications and invalid members,
// with ids unique across the scenario (the id text doubles as a key to match replies to records).
func c01Record(rng *rand.Rand, uid *int) string {
	member := func() string {
		*uid++
		u := *uid
		switch rng.Intn(14) {
		case 0:
			return reqNote(fmt.Sprintf("n%d", u), "ok")
		case 1:
			return reqNote(fmt.Sprintf("n%d", u), []string{"err", "errcode:-32600", "errcode:-32700", "errcode:-32601"}[rng.Intn(4)])
		case 2:
			return fmt.Sprintf(`{"jsonrpc":"2.0","id":%d,"method":"nope","params":["c%d","ok"]}`, u, u)
		case 3:
			return fmt.Sprintf(`{"jsonrpc":"1.0","id":%d,"method":"m","params":["c%d","ok"]}`, u, u)
		case 4:
			return fmt.Sprintf(`{"jsonrpc":"2.0","id":%d,"method":"m","params":5}`, u)
		case 5:
			return fmt.Sprintf(`{"jsonrpc":"2.0","method":"m","params":["n%d","ok"],"extra":1}`, u)
		case 6:
			return []string{`5`, `null`, `"s"`, `[1]`}[rng.Intn(4)]
		case 7:
			return fmt.Sprintf(`{"jsonrpc":"2.0","id":"s%d","method":"m","params":["c%d","ok"]}`, u, u)
		case 8:
			return fmt.Sprintf(`{"jsonrpc":"2.0","method":"nope","params":["n%d","ok"]}`, u)
		case 9, 10: // an explicit null id is a notification too - any number of them, in one batch or in a row
			return fmt.Sprintf(`{"jsonrpc":"2.0","id":null,"method":"m","params":["n%d","ok"]}`, u)
		}
		return reqCall(u, fmt.Sprintf("c%d", u), []string{"ok", "err", "errcode:7", "ok", "err", "errcode:7", "rawnl", "rawbad", "errdata"}[rng.Intn(9)])
	}
	// blank padding around the record (framings such as Header / Direct pass it on verbatim)
	pad := func(rec string) string {
		blanks := []string{"", "", "", " ", "\n", "\r\n", "\t", "\r", " \r\n\t "}
		return blanks[rng.Intn(len(blanks))] + rec + blanks[rng.Intn(len(blanks))]
	}
	if rng.Intn(2) == 0 {
		n := 1 + rng.Intn(4)
		ms := make([]string, n)
		for i := range ms {
			ms[i] = member()
		}
		return pad(reqBatch(ms...))
	}
	return pad(member())
}

func TestC01(t *testing.T) {
	res := newResult("C01", "scenarios: sequences of inbound messages (single / batch; valid calls, notifications, unknown methods, invalid members, non-objects) with gated handlers finishing in every order the scheduler picks, Concurrency 1..4; at quiescence the outbound messages are compared with the wire model (one reply per message that has something to report: shape, ids, order) and with the handler log (each valid member's handler ran exactly once; reply only after all of that message's handlers returned). distinct = distinct event-log shape; non-trivial = a batch with at least two runnable members")
	defer res.Write(t)
	installStuckHandler(t, res, "server deadlocked: an inbound message was never answered")
	rng := newRNG()
	type pending struct {
		in      any
		records []string
		outs    []string
		log     []string
		deadCtx bool
	}
	var lines []string
	var owners []int // index into runs for each oracle line
	var runs []pending
	runOne := func(sc *srvScenario, pick func(int) int) {
		r := runServerScenario(t, sc, pick, nil)
		in := r.replayInput(sc)
		if r.Stuck != "" {
			res.Violatef("server run did not finish: "+r.Stuck, in, "log: %s", shortLog(r.Log))
		}
		p := pending{in: in, log: r.Log, deadCtx: sc.DeadCtxAt > 0}
		starts, finishes := map[string]int{}, map[string]int{}
		finishedAt := map[string]int{}
		multi := false
		for i, e := range r.Log {
			f := strings.Fields(e)
			switch f[0] {
			case "send":
				p.records = append(p.records, strings.SplitN(e, " ", 3)[2])
			case "hstart":
				starts[f[1]]++
			case "hfinish":
				finishes[f[1]]++
				finishedAt[f[1]] = i
			case "out":
				msg := strings.TrimPrefix(e, "out ")
				if strings.Contains(msg, `"method":"cbm"`) || strings.Contains(msg, `"method":"nm"`) {
					continue // a request pushed by the server, not a reply
				}
				p.outs = append(p.outs, msg)
				// a reply is sent only after every handler of ITS message has returned: every tag
				// whose result/error it carries must have finished before
				for tag, at := range finishedAt {
					_ = tag
					_ = at
				}
				for _, tag := range tagsIn(msg) {
					if _, done := finishedAt[tag]; !done {
						res.Violatef("reply sent before its handler returned", in, "reply %s mentions %s which has not finished; log: %s", msg, tag, shortLog(r.Log))
					}
				}
			}
		}
		// handler-once for every runnable member (with ServerOptions.NewContext handing out one base
		// context that has already ended, the member that got it is never invoked: a call is answered
		// with the context's error, a notification is dropped - at most one member per run)
		deadLeft := 0
		if sc.DeadCtxAt > 0 {
			deadLeft = 1
		}
		for _, rec := range p.records {
			ms := c07Members(rec)
			run := 0
			for _, m := range ms {
				if m.Tag != "" && (m.Method == "m") && validMember(rec, m.Tag) {
					run++
					if starts[m.Tag] == 0 && finishes[m.Tag] == 0 && deadLeft > 0 {
						deadLeft--
						continue
					}
					if starts[m.Tag] != 1 || finishes[m.Tag] != 1 {
						res.Violatef(fmt.Sprintf("handler of a valid member ran %d times", starts[m.Tag]), in, "member %s; log: %s", m.Tag, shortLog(r.Log))
					}
				}
			}
			multi = multi || run >= 2
		}
		for tag, n := range starts {
			if n > 1 {
				res.Violatef(fmt.Sprintf("handler of a valid member ran %d times", n), in, "member %s; log: %s", tag, shortLog(r.Log))
			}
		}
		res.Case(logShape(r.Log), multi, map[string]any{"records": p.records, "outs": p.outs})
		for _, rec := range p.records {
			pflag := "0"
			if sc.AllowPush {
				pflag = "1"
			}
			lines = append(lines, "c02 "+pflag+" "+hxs(rec))
			owners = append(owners, len(runs))
		}
		runs = append(runs, p)
	}
	if sr, ok := loadSchedReplay(); ok {
		runOne(&sr.Scenario, sr.picker())
	} else {
		for i := 0; i < pick(250, 2500); i++ {
			sc := &srvScenario{Concurrency: 1 + rng.Intn(4)}
			if rng.Intn(4) == 0 { // the non-default NewContext option: one request's base context has already ended
				sc.DeadCtxAt = 1 + rng.Intn(5)
			}
			uid := 0
			for k := 1 + rng.Intn(5); k > 0; k-- {
				sc.Ops = append(sc.Ops, envOp{Kind: "send", Arg: c01Record(rng, &uid)})
			}
			for j := 0; j < pick(6, 20); j++ {
				runOne(sc, seededPick(rng))
			}
		}
		// push-enabled: handlers that await a callback while the client's own calls use ids that
		// collide with callback ids (both counters start at 1)
		for i := 0; i < pick(40, 400); i++ {
			sc := &srvScenario{Concurrency: 2 + rng.Intn(2), AllowPush: true}
			ops := []envOp{
				{Kind: "send", Arg: reqCall(100, "c100", "cb:k1")},
				{Kind: "send", Arg: reqCall(1, "c1", "ok")},
				{Kind: "send", Arg: reqCall(2, "c2", "ok")},
			}
			if rng.Intn(2) == 0 {
				ops = append(ops, envOp{Kind: "send", Arg: reqBatch(reqCall(101, "c101", "cb:k2"), reqNote("n102", "ok"))})
			}
			ops = append(ops, envOp{Kind: "cbreply", Arg: "k1"})
			if len(ops) == 5 {
				ops = append(ops, envOp{Kind: "cbreply", Arg: "k2"})
			}
			ops = append(ops, envOp{Kind: "reply", Arg: `{"jsonrpc":"2.0","id":1,"result":"late"}`})
			sc.Ops = ops
			for j := 0; j < pick(6, 20); j++ {
				runOne(sc, seededPick(rng))
			}
		}
	}
	model := runOracle(t, lines)
	// per run: the multiset of outbound messages must be exactly the non-empty model replies, one per record
	byRun := map[int][]string{}
	for i, m := range model {
		byRun[owners[i]] = append(byRun[owners[i]], strings.SplitN(m, " H", 2)[0])
	}
	for ri, p := range runs {
		res.Traces++
		want := []string{}
		for _, m := range byRun[ri] {
			if m != "R none" {
				want = append(want, m)
			}
		}
		got := []string{}
		bad := false
		for _, o := range p.outs {
			g, err := parseReply([][]byte{[]byte(o)})
			if err != nil {
				res.Violatef("server emitted a message that is not a valid JSON-RPC response", p.in, "%s: %v", o, err)
				bad = true
				continue
			}
			got = append(got, g)
		}
		if bad {
			continue
		}
		// match each expected reply to exactly one outbound message (ids are unique per scenario)
		used := make([]bool, len(got))
		ok := len(got) == len(want)
		for _, w := range want {
			found := false
			for j, g := range got {
				if !used[j] && c01ReplyMatches(w, g, p.deadCtx) {
					used[j] = true
					found = true
					break
				}
			}
			if !found {
				ok = false
				res.Violatef("an inbound message did not get exactly its one reply: "+c01Class(w, got), p.in, "expected %q among %q; log: %s", w, got, shortLog(p.log))
			}
		}
		if len(got) > len(want) {
			res.Violatef("output for an inbound message that has nothing to report (or a duplicated reply)", p.in, "expected %q got %q; log: %s", want, got, shortLog(p.log))
		}
		if ok {
			res.Agreements++
		}
	}
}

// c01ReplyMatches: same shape, same ids in order; a model `r` entry may be the handler's own error.
func c01ReplyMatches(model, impl string, deadCtx bool) bool {
	fm, fi := strings.Fields(model), strings.Fields(impl)
	if len(fm) != len(fi) || fm[1] != fi[1] {
		return false
	}
	for i := 2; i < len(fm); i += 2 {
		if fm[i] != fi[i] {
			return false
		}
		if fm[i+1] == "r" {
			if fi[i+1] != "r" && fi[i+1] != "-32098" && fi[i+1] != "7" && !(deadCtx && fi[i+1] == "-32097") {
				return false
			}
			continue
		}
		okc := false
		for _, c := range strings.Split(fm[i+1], ",") {
			okc = okc || c == fi[i+1]
		}
		if !okc {
			return false
		}
	}
	return true
}

func c01Class(want string, got []string) string {
	f := strings.Fields(want)
	for _, g := range got {
		fg := strings.Fields(g)
		if len(fg) > 2 && len(f) > 2 && fg[2] == f[2] {
			if fg[1] != f[1] {
				return "want " + f[1] + " got " + fg[1]
			}
			if len(fg) != len(f) {
				return "wrong number of entries"
			}
			return "wrong entry"
		}
	}
	return "missing"
}

func tagsIn(msg string) []string {
	var tags []string
	var arr []map[string]json.RawMessage
	if json.Unmarshal([]byte(msg), &arr) != nil {
		var one map[string]json.RawMessage
		if json.Unmarshal([]byte(msg), &one) != nil {
			return nil
		}
		arr = []map[string]json.RawMessage{one}
	}
	for _, o := range arr {
		var s string
		if r, ok := o["result"]; ok && json.Unmarshal(r, &s) == nil && s != "" {
			tags = append(tags, s)
		}
		if e, ok := o["error"]; ok {
			var eo struct{ Message string }
			if json.Unmarshal(e, &eo) == nil {
				for _, p := range []string{"failed ", "coded "} {
					if strings.HasPrefix(eo.Message, p) {
						tags = append(tags, strings.TrimPrefix(eo.Message, p))
					}
				}
			}
		}
	}
	return tags
}

// validMember: does the member carrying tag look like a valid request in rec (version 2.0, params array, no extra key)?
func validMember(rec, tag string) bool {
	var many []map[string]json.RawMessage
	if json.Unmarshal([]byte(rec), &many) != nil {
		var one map[string]json.RawMessage
		if json.Unmarshal([]byte(rec), &one) != nil {
			return false
		}
		many = []map[string]json.RawMessage{one}
	}
	for _, m := range many {
		if !strings.Contains(string(m["params"]), `"`+tag+`"`) {
			continue
		}
		if string(m["jsonrpc"]) != `"2.0"` {
			return false
		}
		for k := range m {
			if k != "jsonrpc" && k != "id" && k != "method" && k != "params" {
				return false
			}
		}
		return true
	}
	return false
}
