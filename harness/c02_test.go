package harness

// C02 — JSON-RPC conformance and survival on arbitrary inbound records (and the pure half of C01).

import (
	"context"
	"encoding/json"
	"fmt"
	"math/rand"
	"sort"
	"strings"
	"sync"
	"testing"
	"testing/synctest"

	"github.com/creachadair/jrpc2"
	"github.com/creachadair/jrpc2/handler"
)

// strictResponse validates one emitted response object against JSON-RPC 2.0, independently of the
// library, and returns (id text, "r" or the error code).
func strictResponse(raw json.RawMessage) (id string, outcome string, err error) {
	var obj map[string]json.RawMessage
	if e := json.Unmarshal(raw, &obj); e != nil {
		return "", "", fmt.Errorf("not an object: %v", e)
	}
	var ver string
	if json.Unmarshal(obj["jsonrpc"], &ver) != nil || ver != "2.0" {
		return "", "", fmt.Errorf("version is not \"2.0\"")
	}
	idr, ok := obj["id"]
	if !ok {
		return "", "", fmt.Errorf("response without id")
	}
	_, hasR := obj["result"]
	er, hasE := obj["error"]
	if hasR == hasE {
		return "", "", fmt.Errorf("needs exactly one of result / error")
	}
	for k := range obj {
		if k != "jsonrpc" && k != "id" && k != "result" && k != "error" {
			return "", "", fmt.Errorf("unknown member %q", k)
		}
	}
	if hasR {
		return string(idr), "r", nil
	}
	var eo map[string]json.RawMessage
	if json.Unmarshal(er, &eo) != nil {
		return "", "", fmt.Errorf("error is not an object")
	}
	var code json.Number
	if c, ok := eo["code"]; !ok || json.Unmarshal(c, &code) != nil || strings.ContainsAny(code.String(), ".eE") {
		return "", "", fmt.Errorf("error.code is not an integer")
	}
	var msg string
	if m, ok := eo["message"]; !ok || len(m) == 0 || m[0] != '"' || json.Unmarshal(m, &msg) != nil {
		return "", "", fmt.Errorf("error.message is not a string")
	}
	return string(idr), code.String(), nil
}

// parseReply renders the server's output for one record in the oracle's format.
func parseReply(outs [][]byte) (string, error) {
	if len(outs) == 0 {
		return "R none", nil
	}
	if len(outs) > 1 {
		return "", fmt.Errorf("%d outbound messages for one inbound record", len(outs))
	}
	b := outs[0]
	if strings.ContainsAny(string(b), "\n\r") {
		return "", fmt.Errorf("emitted message is not on a single line")
	}
	t := strings.TrimSpace(string(b))
	if strings.HasPrefix(t, "[") {
		var arr []json.RawMessage
		if err := json.Unmarshal(b, &arr); err != nil || len(arr) == 0 {
			return "", fmt.Errorf("bad array reply: %v", err)
		}
		parts := []string{"R array"}
		for _, e := range arr {
			id, o, err := strictResponse(e)
			if err != nil {
				return "", err
			}
			parts = append(parts, hxs(id), o)
		}
		return strings.Join(parts, " "), nil
	}
	id, o, err := strictResponse(b)
	if err != nil {
		return "", err
	}
	return "R single " + hxs(id) + " " + o, nil
}

// matches reports whether the implementation's reply is one the model allows (the model lists
// every code the map iteration order could select).
func replyAllowed(model, impl string) bool {
	fm, fi := strings.Fields(model), strings.Fields(impl)
	if len(fm) != len(fi) {
		return false
	}
	for i := range fm {
		if fm[i] == fi[i] {
			continue
		}
		ok := false
		for _, c := range strings.Split(fm[i], ",") {
			if c == fi[i] && c != "r" && i >= 3 {
				ok = true
			}
		}
		if !ok {
			return false
		}
	}
	return true
}

type c02Server struct {
	srv    *jrpc2.Server
	sch    *vend
	cli    *vend
	mu     sync.Mutex
	called []string
}

func newC02Server(allowPush bool) *c02Server {
	s := &c02Server{}
	h := func(ctx context.Context, req *jrpc2.Request) (any, error) {
		s.mu.Lock()
		s.called = append(s.called, req.Method())
		s.mu.Unlock()
		var v json.RawMessage
		req.UnmarshalParams(&v)
		if v == nil {
			return "ok", nil
		}
		return v, nil
	}
	cli, sch := newVPair()
	s.cli = cli
	s.sch = sch
	s.srv = jrpc2.NewServer(handler.Map{"ok": h, "echo": h}, &jrpc2.ServerOptions{AllowPush: allowPush, Concurrency: 2}).Start(sch)
	return s
}

func (s *c02Server) takeCalled() []string {
	s.mu.Lock()
	defer s.mu.Unlock()
	c := s.called
	s.called = nil
	return c
}

// ---- generators

var (
	c02Jsonrpc = []string{"", `"2.0"`, `"1.0"`, `2.0`, `null`, `"2.0"`, `"2.0 "`, `["2.0"]`}
	c02ID      = []string{"", `1`, `"s"`, `null`, `true`, `[1]`, `{}`, `1.5`, `-0`, `1e3`, `"1"`, `false`, `""`, `0`, `"null"`, `-7`}
	c02Method  = []string{"", `"ok"`, `"nope"`, `"rpc.serverInfo"`, `"rpc.x"`, `""`, `null`, `5`, `"echo"`, `"ok"`, `["ok"]`, `"OK"`, `"rpc"`, `"no\u0007pe"`, `"\u001b[0m"`, `"a\u0000b"`, `"\ud83d\ude00x"`, `"q\"uo\\te<&>"`, `"é\u2028"`, `"\u007f\u0080"`}
	c02Params  = []string{"", `[]`, `{}`, `null`, `5`, `"x"`, `[1,{"a":[2]}]`, `{"k":null}`, `true`, ` [ 1 ] `}
	c02Result  = []string{"", `1`, `null`, `{"a":1}`}
	c02Error   = []string{"", `{"code":1,"message":"m"}`, `5`, `null`, `{"code":"x"}`, `{}`, `"e"`, `{"code":1.5}`, `{"CODE":2,"Message":"m","data":[1]}`, `{"code":3000000000}`, `[]`, `{"message":7}`}
	c02Extra   = []string{"", `"zz":1`, `"Jsonrpc":"2.0"`, `"id ":1`, `"":0`}
)

type c02Variant [7]int

func (v c02Variant) object(rng *rand.Rand) string {
	var fields []string
	add := func(k, val string) {
		if val != "" {
			fields = append(fields, fmt.Sprintf("%q:%s", k, val))
		}
	}
	add("jsonrpc", c02Jsonrpc[v[0]])
	add("id", c02ID[v[1]])
	add("method", c02Method[v[2]])
	add("params", c02Params[v[3]])
	add("result", c02Result[v[4]])
	add("error", c02Error[v[5]])
	if c02Extra[v[6]] != "" {
		fields = append(fields, c02Extra[v[6]])
	}
	if rng != nil {
		rng.Shuffle(len(fields), func(i, j int) { fields[i], fields[j] = fields[j], fields[i] })
	}
	return "{" + strings.Join(fields, ",") + "}"
}

func (v c02Variant) key() string { return fmt.Sprint([7]int(v)) }

func c02RandomVariant(rng *rand.Rand, valid bool) c02Variant {
	if valid { // mostly valid request
		v := c02Variant{1, []int{0, 1, 2, 13, 15}[rng.Intn(5)], []int{1, 1, 2, 8, 3, 13, 14, 15, 16, 17, 18, 19}[rng.Intn(12)], []int{0, 1, 2, 3, 6}[rng.Intn(5)], 0, 0, 0}
		if rng.Intn(3) == 0 { // one defect
			f := rng.Intn(7)
			v[f] = rng.Intn([]int{len(c02Jsonrpc), len(c02ID), len(c02Method), len(c02Params), len(c02Result), len(c02Error), len(c02Extra)}[f])
		}
		return v
	}
	return c02Variant{rng.Intn(len(c02Jsonrpc)), rng.Intn(len(c02ID)), rng.Intn(len(c02Method)), rng.Intn(len(c02Params)), rng.Intn(len(c02Result)), rng.Intn(len(c02Error)), rng.Intn(len(c02Extra))}
}

func c02Junk(rng *rand.Rand) string {
	pool := []string{``, ` `, `{`, `}`, `[`, `]`, `[]`, `[ ]`, `{}`, `null`, `5`, `"x"`, `true`, `[1]`, `[[]]`, `[null]`, `[{}]`, `{"a"}`, `{"jsonrpc":"2.0"`, `nul`, `[1,]`, `{,}`, "\x00", "\xff\xfe", `{"jsonrpc":"2.0","id":1,"method":"ok"}x`,
		`{"jsonrpc":"2.0","id":1,"method":"ok"} {"jsonrpc":"2.0","id":2,"method":"ok"}`, ` [ {"jsonrpc":"2.0","id":1,"method":"ok"} ] `, "\n[{\"jsonrpc\":\"2.0\",\"id\":1,\"method\":\"ok\"}]\r\n", "\t{\"jsonrpc\":\"2.0\",\"id\":1,\"method\":\"ok\"}",
		`{"jsonrpc":"2.0","id":1,"method":"ok","method":"nope"}`, `{"jsonrpc":"2.0","id":1,"id":2,"method":"ok"}`, `{"jsonrpc":"1.0","jsonrpc":"2.0","id":1,"method":"ok"}`, `{"jsonrpc":"2.0","id":1,"method":"ok"}`,
		`{"jsonrpc":"2.0","id":1,"method":"ok"}`, `{"jsonrpc":"2.0","id":"😀","method":"ok"}`, `{"jsonrpc":"2.0","id":123456789012345678901234567890,"method":"ok"}`, `{"jsonrpc":"2.0","id":1,"method":"ok","params":[` + strings.Repeat("[", 50) + strings.Repeat("]", 50) + `]}`,
		`[` + strings.Repeat(`{"jsonrpc":"2.0","method":"ok"},`, 5) + `{"jsonrpc":"2.0","id":9,"method":"ok"}]`, `{"jsonrpc":"2.0","id":1,"method":"ok"`, `[{"jsonrpc":"2.0","id":1,"method":"ok"},`, `{"jsonrpc":"2.0","id":1,"method":"ok","params":{"a":1,"a":2}}`}
	return pool[rng.Intn(len(pool))]
}

func TestC02(t *testing.T) {
	res := newResult("C02", "inbound records: the product of per-field variants of a request object (jsonrpc x id x method x params x result x error x extra key; exhaustive in thorough, stratified sample in quick), key order shuffled, batches of <=4 such members, junk / truncated / duplicated-key / escaped-key / padded records; each sent to a running Server (plain and push-enabled) inside a synctest bubble, reply collected at quiescence, followed by a liveness probe. distinct = distinct (push, variant vector | record text); non-trivial = anything but the plain valid single call")
	defer res.Write(t)
	rng := newRNG()

	type rec struct {
		push bool
		text string
		key  string
	}
	var recs []rec
	add := func(text, key string) {
		for _, p := range []bool{false, true} {
			recs = append(recs, rec{p, text, key})
		}
	}
	if in, ok := replayInput(); ok {
		var r struct {
			Push   bool
			Record string
		}
		if json.Unmarshal(in, &r) == nil && r.Record != "" {
			b, _ := hexDecode(r.Record)
			recs = append(recs, rec{r.Push, string(b), "replay"})
		}
	}
	if recs == nil {
		if thorough() {
			// exhaustive over a reduced product (full product would be 8*16*13*10*4*12*5 = 4e6)
			for a := 0; a < len(c02Jsonrpc); a++ {
				for b := 0; b < len(c02ID); b++ {
					for c := 0; c < len(c02Method); c++ {
						for d := 0; d < 6; d++ {
							for e := 0; e < 3; e++ {
								for f := 0; f < 5; f++ {
									for g := 0; g < 2; g++ {
										v := c02Variant{a, b, c, d, e, f, g}
										recs = append(recs, rec{rng.Intn(2) == 0, v.object(nil), v.key()})
									}
								}
							}
						}
					}
				}
			}
		}
		for i := 0; i < pick(1500, 20000); i++ {
			v := c02RandomVariant(rng, i%2 == 0)
			add(v.object(rng), v.key())
		}
		// every single-field deviation from the valid call and the valid notification
		for base := 0; base < 2; base++ {
			for f, n := range []int{len(c02Jsonrpc), len(c02ID), len(c02Method), len(c02Params), len(c02Result), len(c02Error), len(c02Extra)} {
				for k := 0; k < n; k++ {
					v := c02Variant{1, 1 - base, 1, 0, 0, 0, 0}
					v[f] = k
					add(v.object(nil), v.key())
				}
			}
		}
		for i := 0; i < pick(600, 8000); i++ { // batches
			n := 1 + rng.Intn(4)
			var ms []string
			keys := ""
			for j := 0; j < n; j++ {
				if rng.Intn(8) == 0 {
					ms = append(ms, []string{`5`, `null`, `"s"`, `[]`, `[1]`, `true`}[rng.Intn(6)])
					keys += "|raw"
					continue
				}
				v := c02RandomVariant(rng, rng.Intn(3) != 0)
				ms = append(ms, v.object(rng))
				keys += "|" + v.key()
			}
			sep := []string{",", " , ", ",\n"}[rng.Intn(3)]
			add([]string{"[", " [", "\n["}[rng.Intn(3)]+strings.Join(ms, sep)+"]", "batch"+keys)
		}
		for i := 0; i < pick(300, 3000); i++ {
			j := c02Junk(rng)
			add(j, "junk:"+j)
		}
		// blank padding around single records and batches: every string of <= 2 blanks (JSON white
		// space plus VT / FF, which bytes.TrimSpace strips but JSON rejects) before, a few after
		blanks := []string{" ", "\t", "\n", "\r", "\v", "\f"}
		pads := []string{"", " \r\n\t "}
		for _, a := range blanks {
			pads = append(pads, a)
			for _, b := range blanks {
				pads = append(pads, a+b)
			}
		}
		for _, pre := range pads {
			for _, post := range []string{"", "\n", " \r\n"} {
				add(pre+`[{"jsonrpc":"2.0","id":1,"method":"ok"},{"jsonrpc":"2.0","method":"ok"},{"jsonrpc":"2.0","id":2,"method":"nope"}]`+post, fmt.Sprintf("padbatch:%q:%q", pre, post))
				add(pre+`{"jsonrpc":"2.0","id":1,"method":"ok"}`+post, fmt.Sprintf("padsingle:%q:%q", pre, post))
			}
		}
		// long records: a complete request (or batch) whose text ends at - or is followed by blanks up
		// to - a power-of-two-ish offset (the read sizes of buffered decoders: 512, 1536, 3584, 4096,
		// 7680 ...), followed by more non-blank bytes. Not valid JSON as a whole: one -32700, no call.
		{
			call := func(n int) string { // a valid call of exactly n bytes (padded inside a string parameter)
				base := `{"jsonrpc":"2.0","id":1,"method":"ok","params":[""]}`
				return strings.Replace(base, `[""]`, `["`+strings.Repeat("p", n-len(base))+`"]`, 1)
			}
			for _, n := range []int{511, 512, 513, 1024, 1536, 2048, 3584, 4096, 7680, 8192} {
				for _, tail := range []string{`}`, `]`, `{"jsonrpc":"2.0","id":2,"method":"ok"}`, `garbage`, `,`, ` x`} {
					add(call(n)+tail, fmt.Sprintf("long-exact:%d:%s", n, tail))
					short := call(n / 2)
					add(short+strings.Repeat(" ", n-len(short))+tail, fmt.Sprintf("long-padded:%d:%s", n, tail))
					add("["+call(n-2)+"]"+tail, fmt.Sprintf("long-batch:%d:%s", n, tail))
				}
				add(call(n), fmt.Sprintf("long-valid:%d", n))
				add(call(n/2)+strings.Repeat("\n", n), fmt.Sprintf("long-valid-padded:%d", n))
			}
		}
	}

	// run: group by push setting, one server each, all inside one bubble
	type obs struct {
		reply  string
		rerr   error
		called []string
		alive  bool
		outs   int
	}
	results := make([]obs, len(recs))
	synctest.Test(t, func(t *testing.T) {
		servers := map[bool]*c02Server{false: newC02Server(false), true: newC02Server(true)}
		probe := 0
		for i, r := range recs {
			s := servers[r.push]
			if strings.ContainsAny(r.text, "") { // records travel as-is on the in-memory channel
			}
			s.cli.Send([]byte(r.text))
			synctest.Wait()
			outs := s.cli.in.drain()
			results[i].outs = len(outs)
			results[i].reply, results[i].rerr = parseReply(outs)
			results[i].called = s.takeCalled()
			// liveness probe
			probe++
			s.cli.Send([]byte(fmt.Sprintf(`{"jsonrpc":"2.0","id":"probe%d","method":"ok"}`, probe)))
			synctest.Wait()
			po := s.cli.in.drain()
			want := fmt.Sprintf(`"id":"probe%d"`, probe)
			results[i].alive = len(po) == 1 && strings.Contains(string(po[0]), want) && strings.Contains(string(po[0]), `"result"`)
			s.takeCalled()
			if !results[i].alive {
				// the server is no longer serving: restart to keep going
				s.cli.Close()
				servers[r.push] = newC02Server(r.push)
			}
		}
		for _, s := range servers {
			s.cli.Close()
			s.srv.Wait()
			for _, p := range s.sch.st.Problems() {
				res.Violatef("channel discipline: "+p, nil, "%s", p)
			}
		}
	})

	lines := make([]string, len(recs))
	for i, r := range recs {
		p := "0"
		if r.push {
			p = "1"
		}
		lines[i] = fmt.Sprintf("c02 %s %s", p, hxs(r.text))
	}
	model := runOracle(t, lines)
	for i, r := range recs {
		in := map[string]any{"push": r.push, "record": hxs(r.text), "text": r.text}
		o := results[i]
		trivial := strings.HasPrefix(model[i], "R single") && strings.HasSuffix(model[i], " r H 6f6b")
		res.Case(fmt.Sprintf("%v/%s", r.push, r.key), !trivial, in)
		res.Count("model:" + strings.Join(strings.Fields(model[i])[:2], " "))
		if !o.alive {
			res.Violatef("server stopped serving after a record", in, "record %q: liveness probe failed", r.text)
		}
		if o.rerr != nil {
			res.Violatef("server emitted a message that is not a valid JSON-RPC 2.0 response", in, "record %q: %v", r.text, o.rerr)
			continue
		}
		sort.Strings(o.called)
		hs := make([]string, len(o.called))
		for j, m := range o.called {
			hs[j] = hxs(m)
		}
		fm := strings.SplitN(model[i], " H", 2)
		var mh []string
		for _, m := range strings.Fields(fm[1]) {
			if m != hxs("rpc.serverInfo") { // the built-in is not observable through the harness handlers
				mh = append(mh, m)
			}
		}
		sort.Strings(mh)
		res.Traces++
		if replyAllowed(fm[0], o.reply) && strings.Join(mh, " ") == strings.Join(hs, " ") {
			res.Agreements++
			continue
		}
		what := "reply"
		if strings.Join(mh, " ") != strings.Join(hs, " ") {
			what = "handler invocations"
		}
		res.Violatef("server "+what+" differ from the JSON-RPC 2.0 / README rules: "+c02Class(fm[0], o.reply), in,
			"record %q push=%v: rules (model) give %q handlers %v; server gave %q handlers %v", r.text, r.push, fm[0], mh, o.reply, hs)
	}
}

func c02Class(model, impl string) string {
	fm, fi := strings.Fields(model), strings.Fields(impl)
	if len(fm) < 2 || len(fi) < 2 {
		return "shape"
	}
	if fm[1] != fi[1] {
		return "want " + fm[1] + " got " + fi[1]
	}
	if len(fm) != len(fi) {
		return fmt.Sprintf("want %d entries got %d", (len(fm)-2)/2, (len(fi)-2)/2)
	}
	for i := 2; i < len(fm); i++ {
		if fm[i] != fi[i] {
			if i%2 == 0 {
				return "id echo"
			}
			return "want " + fm[i] + " got " + fi[i]
		}
	}
	return "other"
}
