package harness

// C03 — a notification completes before any later-arriving request starts.

import (
	"encoding/json"
	"fmt"
	"math/rand"
	"strconv"
	"strings"
	"testing"
)

// genTraffic builds a script of valid notifications / calls / batches. Tags are <kind><uid> with
// kind n|c (H prefix = handler held until the first quiescence). Returns ops and the number of uids.
func genTraffic(rng *rand.Rand, nMsgs int, heldProb int, idPool int) []envOp {
	var ops []envOp
	uid := 0
	member := func() string {
		uid++
		held := ""
		if heldProb > 0 && rng.Intn(heldProb) == 0 {
			held = "H"
		}
		if rng.Intn(2) == 0 {
			if rng.Intn(4) == 0 { // an explicit null id is a notification too
				return fmt.Sprintf(`{"jsonrpc":"2.0","id":null,"method":"m","params":[%q,"ok"]}`, fmt.Sprintf("%sn%d", held, uid))
			}
			return reqNote(fmt.Sprintf("%sn%d", held, uid), "ok")
		}
		var id any = uid
		if idPool > 0 {
			id = 1 + rng.Intn(idPool)
		}
		return reqCall(id, fmt.Sprintf("%sc%d", held, uid), []string{"ok", "ok", "err"}[rng.Intn(3)])
	}
	for i := 0; i < nMsgs; i++ {
		if rng.Intn(3) == 0 {
			n := 1 + rng.Intn(3)
			ms := make([]string, n)
			for j := range ms {
				ms[j] = member()
			}
			ops = append(ops, envOp{Kind: "send", Arg: reqBatch(ms...)})
		} else {
			ops = append(ops, envOp{Kind: "send", Arg: member()})
		}
	}
	return ops
}

func insertOp(rng *rand.Rand, ops []envOp, op envOp) []envOp {
	p := rng.Intn(len(ops) + 1)
	out := append([]envOp{}, ops[:p]...)
	out = append(out, op)
	return append(out, ops[p:]...)
}

type c03Info struct {
	msg  int // inbound message index
	note bool
}

func tagUID(tag string) (uid int, note bool) {
	t := strings.TrimPrefix(tag, "H")
	if len(t) < 2 {
		return -1, false
	}
	n, err := strconv.Atoi(t[1:])
	if err != nil {
		return -1, false
	}
	return n, t[0] == 'n'
}

// c03Project turns an event log into the observable trace of the Barrier machine and checks the
// ordering clause directly on the log.
func c03Project(res *Result, sc *srvScenario, r *srvRun) (trace []string, ok bool) {
	info := map[string]c03Info{}
	finished := map[string]bool{}
	started := map[string]bool{}
	arrived := []string{}
	stopped := false
	ok = true
	for _, e := range r.Log {
		f := strings.Fields(e)
		switch f[0] {
		case "read":
			if stopped {
				continue // discarded by a stopped server
			}
			k, _ := strconv.Atoi(f[1])
			var ms []string
			if len(f) > 2 {
				for _, tag := range strings.Split(f[2], ",") {
					u, note := tagUID(tag)
					if u < 0 {
						continue
					}
					info[tag] = c03Info{k, note}
					arrived = append(arrived, tag)
					kind := "c"
					if note {
						kind = "n"
					}
					ms = append(ms, fmt.Sprintf("%d%s", u, kind))
				}
			}
			trace = append(trace, "a:"+strings.Join(ms, ","))
		case "run":
			if f[1] == "srv.stop.enter" && !stopped {
				stopped = true
				trace = append(trace, "x")
			}
		case "readerr":
			if !stopped {
				stopped = true
				trace = append(trace, "x")
			}
		case "hstart":
			tag := f[1]
			u, _ := tagUID(tag)
			started[tag] = true
			trace = append(trace, fmt.Sprintf("s:%d", u))
			me, known := info[tag]
			if !known {
				res.Violatef("handler started for a request that was never received", r.replayInput(sc), "tag %s", tag)
				ok = false
				continue
			}
			for _, n := range arrived {
				ni := info[n]
				if ni.note && ni.msg < me.msg && !finished[n] {
					res.Violatef("request started while an earlier notification was unfinished", r.replayInput(sc),
						"%s (message %d) started before notification %s (message %d) had returned; log: %s", tag, me.msg, n, ni.msg, shortLog(r.Log))
					ok = false
				}
			}
		case "hfinish":
			finished[f[1]] = true
			u, _ := tagUID(f[1])
			trace = append(trace, fmt.Sprintf("f:%d", u))
		case "held-quiescent":
			// only held handlers are running; below the limit, every received request must have started
			var held int
			fmt.Sscanf(f[1], "held=%d", &held)
			hasCancel := false
			for _, op := range sc.Ops {
				hasCancel = hasCancel || op.Kind == "cancel" // a cancelled waiter is answered without running (C06)
			}
			if held < sc.Concurrency && !stopped && !hasCancel {
				for _, a := range arrived {
					blocked := false
					for _, n := range arrived {
						if info[n].note && info[n].msg < info[a].msg && !finished[n] {
							blocked = true // legitimately waiting for an earlier notification
						}
					}
					if !started[a] && !blocked {
						res.Violatef("a running call delays a later request below the concurrency limit", r.replayInput(sc),
							"%d handler(s) held, limit %d, but %s has not started; log: %s", held, sc.Concurrency, a, shortLog(r.Log))
						ok = false
					}
				}
			}
		}
	}
	return trace, ok
}

func (r *srvRun) replayInput(sc *srvScenario) any {
	return map[string]any{"scenario": sc, "choices": r.Choices}
}

type schedReplay struct {
	Scenario srvScenario `json:"scenario"`
	Choices  []int       `json:"choices"`
	PickSeed int64       `json:"pickseed"`
}

// picker returns the recorded choice list, or — for a run that crashed before it could record
// one — the picker seed it was started with.
func (sr *schedReplay) picker() func(int) int {
	if len(sr.Choices) == 0 && sr.PickSeed != 0 {
		return rngPick(rand.New(rand.NewSource(sr.PickSeed)))
	}
	return sr.picker()
}

func loadSchedReplay() (*schedReplay, bool) {
	in, ok := replayInput()
	if !ok {
		return nil, false
	}
	var sr schedReplay
	if json.Unmarshal(in, &sr) != nil || len(sr.Scenario.Ops) == 0 {
		return nil, false
	}
	return &sr, true
}

func logShape(log []string) string {
	var sb strings.Builder
	for _, e := range log {
		f := strings.Fields(e)
		switch f[0] {
		case "out", "send":
			sb.WriteString(f[0] + ";")
		case "run":
			sb.WriteString(f[1][4:] + ";")
		default:
			sb.WriteString(f[0] + ";")
		}
	}
	return sb.String()
}

func TestC03(t *testing.T) {
	res := newResult("C03", "scenarios: random scripts of valid notifications / calls / batches (some handlers held open), optionally with Stop, CancelRequest or pushes at a random position, Concurrency 1..4; each run under many schedules of a deterministic scheduler (testing/synctest + verif hooks: reader, dispatcher, barrier wait/pass, semaphore acquire, nbar.Done, deliver, stop). distinct = distinct event-log shape; non-trivial = at least one notification followed by a later message")
	defer res.Write(t)
	installStuckHandler(t, res, "server deadlocked: requests never dispatched")
	rng := newRNG()
	var lines []string
	var metas []any
	runOne := func(sc *srvScenario, pick func(int) int) {
		r := runServerScenario(t, sc, pick, nil)
		trace, _ := c03Project(res, sc, r)
		nontrivial := false
		seenNote := false
		for _, e := range trace {
			if strings.HasPrefix(e, "a:") {
				if seenNote {
					nontrivial = true
				}
				if strings.Contains(e, "n") {
					seenNote = true
				}
			}
		}
		res.Case(logShape(r.Log), nontrivial, map[string]any{"trace": strings.Join(trace, " "), "choices": len(r.Choices)})
		res.Count(fmt.Sprintf("concurrency:%d", sc.Concurrency))
		if r.Stuck != "" {
			res.Violatef("server run did not finish: "+r.Stuck, r.replayInput(sc), "log: %s", shortLog(r.Log))
		}
		lines = append(lines, "c03 "+strings.Join(trace, " "))
		metas = append(metas, r.replayInput(sc))
	}
	if sr, ok := loadSchedReplay(); ok {
		runOne(&sr.Scenario, sr.picker())
	} else {
		nScen, nSched := pick(300, 3000), pick(10, 30)
		for i := 0; i < nScen; i++ {
			sc := &srvScenario{Concurrency: 1 + rng.Intn(4), AllowPush: rng.Intn(3) == 0}
			held := 0
			if i%3 == 0 {
				held = 4
			}
			sc.Ops = genTraffic(rng, 2+rng.Intn(5), held, 0)
			switch rng.Intn(6) {
			case 0:
				sc.Ops = insertOp(rng, sc.Ops, envOp{Kind: "stop"})
			case 1:
				sc.Ops = insertOp(rng, sc.Ops, envOp{Kind: "cancel", Arg: fmt.Sprint(1 + rng.Intn(6))})
			case 2:
				if sc.AllowPush {
					sc.Ops = insertOp(rng, sc.Ops, envOp{Kind: "notify", Arg: "p1"})
				}
			}
			if sc.AllowPush && rng.Intn(2) == 0 {
				// a handler (mostly of a notification) that awaits a callback while later messages
				// arrive; the peer answers at the end
				u := 500 + i
				var m string
				if rng.Intn(4) != 0 {
					m = reqNote(fmt.Sprintf("n%d", u), fmt.Sprintf("cb:k%d", u))
				} else {
					m = reqCall(u, fmt.Sprintf("c%d", u), fmt.Sprintf("cb:k%d", u))
				}
				at := rng.Intn(len(sc.Ops))
				ops := append([]envOp{}, sc.Ops[:at]...)
				ops = append(ops, envOp{Kind: "send", Arg: m})
				ops = append(ops, sc.Ops[at:]...)
				sc.Ops = append(ops, envOp{Kind: "cbreply", Arg: fmt.Sprintf("k%d", u)})
			}
			for j := 0; j < nSched; j++ {
				runOne(sc, seededPick(rng))
			}
		}
		// corpus: the barrier-skipping shapes
		corpus := []*srvScenario{
			{Concurrency: 2, Ops: []envOp{{Kind: "send", Arg: reqNote("n1", "ok")}, {Kind: "send", Arg: reqBatch(reqCall(1, "c2", "ok"), reqNote("n3", "ok"))}, {Kind: "send", Arg: reqCall(2, "c4", "ok")}}},
			{Concurrency: 2, Ops: []envOp{{Kind: "send", Arg: reqBatch(reqCall(1, "Hc1", "ok"), reqNote("n2", "ok"))}, {Kind: "send", Arg: reqCall(2, "c3", "ok")}}},
			{Concurrency: 2, Ops: []envOp{{Kind: "send", Arg: reqCall(1, "Hc1", "ok")}, {Kind: "send", Arg: reqNote("n2", "ok")}, {Kind: "send", Arg: reqCall(2, "c3", "ok")}}},
			{Concurrency: 1, Ops: []envOp{{Kind: "send", Arg: reqNote("n1", "ok")}, {Kind: "send", Arg: reqNote("n2", "ok")}, {Kind: "stop"}, {Kind: "send", Arg: reqNote("n3", "ok")}}},
			// a notification handler waiting for a callback still holds later messages back
			{Concurrency: 2, AllowPush: true, Ops: []envOp{{Kind: "send", Arg: reqNote("n1", "cb:k1")}, {Kind: "send", Arg: reqCall(1, "c2", "ok")}, {Kind: "send", Arg: reqNote("n3", "ok")}, {Kind: "cbreply", Arg: "k1"}}},
			{Concurrency: 3, AllowPush: true, Ops: []envOp{{Kind: "send", Arg: reqBatch(reqNote("n1", "cb:k1"), reqCall(1, "c2", "ok"))}, {Kind: "send", Arg: reqBatch(reqCall(2, "c3", "ok"), reqNote("n4", "ok"))}, {Kind: "cbreply", Arg: "k1"}}},
			{Concurrency: 2, AllowPush: true, Ops: []envOp{{Kind: "send", Arg: `{"jsonrpc":"2.0","id":null,"method":"m","params":["n1","ok"]}`}, {Kind: "send", Arg: reqCall(1, "c2", "ok")}}},
		}
		for _, sc := range corpus {
			for j := 0; j < pick(40, 400); j++ {
				runOne(sc, seededPick(rng))
			}
		}
	}
	model := runOracle(t, lines)
	for i, m := range model {
		res.Traces++
		if strings.HasPrefix(m, "accept") {
			res.Agreements++
		} else {
			res.Disagreef("observed trace is not a trace of the queue+barrier machine", metas[i], m, lines[i])
		}
	}
}
