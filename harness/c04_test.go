package harness

// C04 — client: replies are matched to requests by id, whatever the peer's ordering.
// C05 — client: every operation completes exactly once under cancel, Close and failure.

import (
	"context"
	"encoding/json"
	"sync"
	"sync/atomic"
	"time"

	"fmt"
	"github.com/creachadair/jrpc2"
	"github.com/creachadair/jrpc2/jhttp"
	"math/rand"
	"strings"
	"testing"
)

type cliExpect struct {
	in       any
	log      []string
	obsTags  []string       // per observe: operation tag (or tag.i for batch entries)
	obsGot   []string       // what the operation returned for it
	payloads map[int]string // payload number -> class/text of the member
	idOfTag  map[string]string
}

// cliProject builds the event trace for the Client machine from a run's log.
func cliProject(res *Result, sc *cliScenario, r *cliRun, prop string) (string, *cliExpect) {
	in := map[string]any{"cliscenario": sc, "choices": r.Choices}
	ex := &cliExpect{in: in, log: r.Log, payloads: map[int]string{}, idOfTag: map[string]string{}}
	var trace []string
	for t, id := range r.ids {
		ex.idOfTag[t] = id
	}
	peerSends := []string{}
	accepts := 0
	npay := 0
	returns := map[string]int{}
	ops := map[string]bool{}
	stoppedKind := ""
	var pendingStop []string
	shutdown := false
	cancelledTags := map[string]bool{}
	deliveredIDs := map[string]bool{}
	consumed := map[string]bool{} // ids whose operation has returned
	tagOfID := map[string]string{}
	for tg, id := range r.ids {
		tagOfID[id] = tg
	}
	for i, e := range r.Log {
		f := strings.Fields(e)
		if f[0] == "quiescent" {
			shutdown = true
		}
		switch f[0] {
		case "cancel":
			cancelledTags[f[1]] = true
		case "call", "callres", "notify", "batch":
			ops[f[1]] = true
		case "peer-send":
			peerSends = append(peerSends, strings.TrimPrefix(e, "peer-send "))
		case "ret":
			returns[f[1]]++
		}
		if shutdown {
			continue
		}
		switch f[0] {
		case "run":
			switch f[1] {
			case "cli.req.enter":
				trace = append(trace, "a")
			case "cli.send.enter":
				var ids []string
				if len(f) > 2 {
					for _, m := range strings.Split(f[2], ";") {
						p := strings.SplitN(m, "/", 3)
						if p[0] != "-" {
							ids = append(ids, p[0])
						}
					}
				}
				ok := "0"
				for _, later := range r.Log[i+1:] {
					if strings.HasPrefix(later, "peer-got ") {
						if len(ids) == 0 || strings.Contains(later, `"id":`+ids[0]+`,`) {
							ok = "1"
						}
						break
					}
					if strings.HasPrefix(later, "run ") || strings.HasPrefix(later, "release ") {
						break
					}
				}
				if len(ids) == 0 {
					ok = "1"
				}
				trace = append(trace, "s:"+strings.Join(ids, ",")+":"+ok)
			case "cli.deliver.enter":
				if len(f) > 2 {
					for _, m := range strings.Split(f[2], ";") {
						p := strings.SplitN(m, "/", 3)
						if len(p) != 3 || p[1] == "q" || p[0] == "-" {
							continue
						}
						npay++
						deliveredIDs[p[0]] = true
						txt, _ := hexDecode(p[2])
						ex.payloads[npay] = p[1] + "/" + string(txt)
						trace = append(trace, fmt.Sprintf("d:%s:%d", p[0], npay))
					}
				}
			case "cli.wait.enter":
				if len(f) > 2 {
					trace = append(trace, "w:"+f[2])
					id := f[2]
					tg := tagOfID[id]
					opTag := strings.SplitN(tg, ".", 2)[0]
					if !deliveredIDs[id] && !consumed[id] && !cancelledTags[opTag] && stoppedKind == "" {
						res.Violatef("a request's context ended although nobody cancelled it, no reply had arrived and the client was running", in,
							"request id %s (%s); log: %s", id, tg, shortLog(r.Log))
					}
				}
			case "cli.close.enter":
				pendingStop = append(pendingStop, "x:1")
				if stoppedKind == "" {
					stoppedKind = "close"
				}
			case "cli.accept.recv":
				if len(f) > 2 { // Recv error
					pendingStop = append(pendingStop, "x:2")
					if stoppedKind == "" {
						stoppedKind = strings.TrimPrefix(f[2], "err=")
					}
				} else {
					if accepts < len(peerSends) && !json.Valid([]byte(peerSends[accepts])) {
						pendingStop = append(pendingStop, "x:3")
						if stoppedKind == "" {
							stoppedKind = "parse"
						}
					}
					accepts++
				}
			}
		case "onstop":
			// the client stops when stopLocked runs, which is when the OnStop hook fires - not when
			// the goroutine that will cause it passed its hook (user code such as the Logger may
			// run, and other goroutines with it, in between)
			if len(pendingStop) > 0 {
				trace = append(trace, pendingStop[0])
			} else {
				trace = append(trace, "x:1")
			}
			pendingStop = nil
		case "ret":
			tag := f[1]
			got := strings.Join(f[2:], " ")
			if strings.HasPrefix(got, "batch[") {
				entries := strings.Split(strings.TrimSuffix(strings.TrimPrefix(got, "batch["), "]"), "\x1f")
				if got == "batch[]" {
					entries = nil
				}
				for _, en := range entries {
					p := strings.SplitN(en, ":", 2)
					id := strings.TrimPrefix(p[0], "id=")
					trace = append(trace, "o:"+id)
					consumed[id] = true
					ex.obsTags = append(ex.obsTags, tag+"#"+id)
					ex.obsGot = append(ex.obsGot, p[1])
				}
				continue
			}
			id, sent := r.ids[tag]
			if !sent {
				// never transmitted: must be an error
				if got == "nil" || strings.HasPrefix(got, "ok:") {
					for _, op := range sc.Ops {
						if op.Arg == tag && (op.Kind == "call" || op.Kind == "callres" || op.Kind == "batch") {
							res.Violatef("operation reported success although nothing was transmitted", in, "%s; log: %s", e, shortLog(r.Log))
						}
					}
				}
				continue
			}
			trace = append(trace, "o:"+id)
			consumed[id] = true
			ex.obsTags = append(ex.obsTags, tag)
			ex.obsGot = append(ex.obsGot, got)
		}
	}
	// what the PEER wrote decides, not what the client's parser made of it: a well-formed reply
	// (or group of replies, with or without blanks around it) to requests that are outstanding on a
	// running client must reach their callers. Checked on fault-free scenarios only.
	faultFree := sc.RecvFailAt == 0 && sc.SendFailAt == 0
	for _, op := range sc.Ops {
		if op.Kind == "cancel" || op.Kind == "close" || op.Kind == "peerclose" || op.Kind == "setid" {
			faultFree = false
		}
	}
	if faultFree {
		outstanding := map[string]bool{} // ids seen by the peer, not yet answered
		stoppedNow := false
		expected := map[string]string{} // tag -> result text the peer sent first
		for _, e := range r.Log {
			switch {
			case strings.HasPrefix(e, "peer-got "):
				var many []struct {
					ID json.RawMessage `json:"id"`
				}
				txt := strings.TrimPrefix(e, "peer-got ")
				if json.Unmarshal([]byte(txt), &many) != nil {
					var one struct {
						ID json.RawMessage `json:"id"`
					}
					json.Unmarshal([]byte(txt), &one)
					many = append(many[:0], one)
				}
				for _, m := range many {
					if len(m.ID) > 0 {
						outstanding[string(m.ID)] = true
					}
				}
			case strings.HasPrefix(e, "onstop"):
				stoppedNow = true
			case strings.HasPrefix(e, "peer-send "):
				txt := strings.TrimSpace(strings.TrimPrefix(e, "peer-send "))
				type rep struct {
					ID     json.RawMessage `json:"id"`
					Method string          `json:"method"`
					Result *string         `json:"result"`
					Error  json.RawMessage `json:"error"`
					V      string          `json:"jsonrpc"`
				}
				var many []rep
				if !json.Valid([]byte(txt)) {
					stoppedNow = true // an undecodable record stops the client
					continue
				}
				if json.Unmarshal([]byte(txt), &many) != nil {
					var one rep
					if json.Unmarshal([]byte(txt), &one) != nil {
						continue
					}
					many = append(many[:0], one)
				}
				if len(many) == 0 {
					stoppedNow = true // "[]" is refused as a whole
				}
				for _, m := range many {
					id := string(m.ID)
					if stoppedNow || m.Method != "" || m.Result == nil || len(m.Error) != 0 || m.V != "2.0" || !outstanding[id] {
						continue
					}
					delete(outstanding, id)
					if tg := tagOfID[id]; tg != "" && expected[tg] == "" {
						expected[tg] = *m.Result
					}
				}
			}
		}
		// deliveries of different messages run concurrently: the expectation is only firm for an id
		// that the peer mentioned exactly once in the whole run
		mentions := map[string]int{}
		for _, e := range r.Log {
			if strings.HasPrefix(e, "peer-send ") {
				for id := range tagOfID {
					mentions[id] += strings.Count(e, `"id":`+id+`,`) + strings.Count(e, `"id":`+id+`}`)
				}
			}
		}
		// a record the client cannot decode stops it, and the stop may overtake the delivery of a reply
		// that was received before it (C05: "the peer's reply if one was delivered first"): when the
		// client stopped during the run, only replies whose delivery had started by then are firm
		// (only a record written by a `raw` op can be undecodable; when the script has none, nothing
		// may stop the client and every expectation is firm)
		peerBreaks := false
		for _, op := range sc.Ops {
			peerBreaks = peerBreaks || op.Kind == "raw"
		}
		firstStop := len(r.Log)
		for i, e := range r.Log {
			if strings.HasPrefix(e, "onstop") {
				firstStop = i
				break
			}
		}
		deliveryStarted := func(id string) int {
			for i, e := range r.Log {
				if strings.HasPrefix(e, "run cli.deliver.enter ") {
					f := strings.TrimPrefix(e, "run cli.deliver.enter ")
					for _, part := range strings.Split(f, ";") {
						if strings.HasPrefix(part, id+"/") {
							return i
						}
					}
				}
			}
			return len(r.Log)
		}
		for tg, want := range expected {
			if mentions[r.ids[tg]] != 1 {
				continue
			}
			if peerBreaks && firstStop < len(r.Log) && deliveryStarted(r.ids[tg]) > firstStop {
				continue
			}
			opTag := strings.SplitN(tg, ".", 2)[0]
			got := ""
			for _, e := range r.Log {
				if strings.HasPrefix(e, "ret "+opTag+" ") {
					got = e
				}
			}
			if !strings.Contains(got, want) {
				res.Violatef("a well-formed reply to an outstanding request did not reach its caller", in, "request %s: the peer answered %q, the operation returned %q; log: %s", tg, want, got, shortLog(r.Log))
			}
		}
	}
	// exactly-once completion of every operation
	for tag := range ops {
		if returns[tag] != 1 {
			res.Violatef(fmt.Sprintf("operation returned %d times", returns[tag]), in, "%s; log: %s", tag, shortLog(r.Log))
		}
	}
	_ = stoppedKind
	_ = prop
	return "c04 " + strings.Join(trace, " "), ex
}

// cliCompare checks the machine's answers against what the operations returned.
func cliCompare(res *Result, model string, ex *cliExpect) bool {
	parts := strings.SplitN(model, "|", 2)
	if len(parts) != 2 {
		res.Disagreef("client machine rejected the event sequence", ex.in, model, shortLog(ex.log))
		return false
	}
	mobs := strings.Fields(parts[0])
	ok := true
	for i, mo := range mobs {
		if i >= len(ex.obsGot) {
			break
		}
		want := strings.SplitN(mo, "=", 2)[1]
		got := ex.obsGot[i]
		bad := ""
		switch {
		case strings.HasPrefix(want, "reply:"):
			var p int
			fmt.Sscanf(want, "reply:%d", &p)
			pl := ex.payloads[p]
			cls, txt := pl[:1], pl[2:]
			switch cls {
			case "r":
				if got != "ok:"+txt {
					bad = "wrong reply: want result " + txt
				}
			case "e":
				if !strings.Contains(got, "jerr(") || !strings.Contains(got, txt) {
					bad = "wrong reply: want error " + txt
				}
			case "b", "i", "n":
				// either outcome accepted (outside the statement)
			}
		case want == "ctx":
			batchEntry := strings.Contains(ex.obsTags[i], "#") // Batch reports per-entry *Error values, not the sentinel
			if got != "ctx-canceled" && got != "ctx-deadline" && !(batchEntry && (strings.HasPrefix(got, "jerr(-32097,") || strings.HasPrefix(got, "jerr(-32096,"))) {
				bad = "context ended first but the operation did not return the context's error"
			}
		case want == "stop":
			if got == "nil" || strings.HasPrefix(got, "ok:") {
				bad = "client stopped first but the operation reported success"
			}
		case want == "none":
			// the machine has no completion for it: the op returned although nothing completed it
			bad = "operation completed without a reply, a context end or a stop"
		}
		if bad != "" {
			ok = false
			res.Violatef("client completion differs from the matching rules: "+strings.SplitN(bad, ":", 2)[0], ex.in,
				"%s: %s; model %s, got %q; log: %s", ex.obsTags[i], bad, mo, got, shortLog(ex.log))
		}
	}
	return ok
}

func cliTraffic(rng *rand.Rand, nOps int, faults bool) *cliScenario {
	sc := &cliScenario{Callbacks: rng.Intn(3) == 0}
	var ops []cliOp
	var live []string // tags of call-like operations, not yet answered by the script
	tagN := 0
	for i := 0; i < nOps; i++ {
		tagN++
		tag := fmt.Sprintf("t%d", tagN)
		switch rng.Intn(6) {
		case 0:
			ops = append(ops, cliOp{Kind: "notify", Arg: tag})
		case 1:
			pat := []string{"cc", "cnc", "ncn", "c", "ccc"}[rng.Intn(5)]
			ops = append(ops, cliOp{Kind: "batch", Arg: tag, Arg2: pat})
			for j, c := range pat {
				if c == 'c' {
					live = append(live, fmt.Sprintf("%s.%d", tag, j))
				}
			}
		case 2:
			ops = append(ops, cliOp{Kind: "callres", Arg: tag})
			live = append(live, tag)
		default:
			ops = append(ops, cliOp{Kind: "call", Arg: tag})
			live = append(live, tag)
		}
	}
	// peer script: answer in a random order / grouping, with junk in between
	rng.Shuffle(len(live), func(i, j int) { live[i], live[j] = live[j], live[i] })
	for len(live) > 0 {
		n := 1 + rng.Intn(3)
		if n > len(live) {
			n = len(live)
		}
		group := live[:n]
		live = live[n:]
		mod := []string{"", "", "err", "dup", "arr", "both", "pad", "arr pad", "mixed"}[rng.Intn(9)]
		if rng.Intn(5) == 0 {
			continue // never answered
		}
		if rng.Intn(5) == 0 { // server request colliding with an outstanding id, before the real reply
			ops = append(ops, cliOp{Kind: "reply", Arg: group[rng.Intn(len(group))], Arg2: []string{"push", "pushbad"}[rng.Intn(2)]})
		}
		ops = append(ops, cliOp{Kind: "reply", Arg: strings.Join(group, ","), Arg2: mod})
		if rng.Intn(3) == 0 {
			junk := []string{`{"jsonrpc":"2.0","id":9999,"result":"unknown"}`, `[{"jsonrpc":"2.0","id":"zz","result":1},5]`, `{"jsonrpc":"2.0","method":"srvnote","params":[1]}`,
				`{"jsonrpc":"2.0","id":77,"method":"srvcall","params":[1]}`, `{"jsonrpc":"1.0","id":1,"result":1}`, `{"id":2,"result":1,"error":{"code":1,"message":"m"},"jsonrpc":"2.0"}`, `[]`, `{}`, `null`}
			ops = append(ops, cliOp{Kind: "raw", Arg: junk[rng.Intn(len(junk))]})
		}
	}
	if faults {
		// cancellations, close, peer close, failures at random positions
		for k := rng.Intn(3); k > 0; k-- {
			tg := fmt.Sprintf("t%d", 1+rng.Intn(tagN))
			ops = insertCliOp(rng, ops, cliOp{Kind: "cancel", Arg: tg})
		}
		switch rng.Intn(7) {
		case 0:
			ops = insertCliOp(rng, ops, cliOp{Kind: "close"})
		case 1:
			ops = insertCliOp(rng, ops, cliOp{Kind: "peerclose"})
		case 2:
			sc.RecvFailAt = 1 + rng.Intn(4)
			sc.RecvFailEOF = rng.Intn(2) == 0
		case 3:
			sc.SendFailAt = 1 + rng.Intn(3)
		case 4:
			ops = insertCliOp(rng, ops, cliOp{Kind: "raw", Arg: `{not json`})
		}
	}
	sc.Ops = ops
	return sc
}

func insertCliOp(rng *rand.Rand, ops []cliOp, op cliOp) []cliOp {
	p := rng.Intn(len(ops) + 1)
	out := append([]cliOp{}, ops[:p]...)
	out = append(out, op)
	return append(out, ops[p:]...)
}

type cliReplay struct {
	Scenario cliScenario `json:"cliscenario"`
	Choices  []int       `json:"choices"`
	PickSeed int64       `json:"pickseed"`
}

func loadCliReplay() (*cliReplay, bool) {
	in, ok := replayInput()
	if !ok {
		return nil, false
	}
	var cr cliReplay
	if json.Unmarshal(in, &cr) != nil || len(cr.Scenario.Ops) == 0 {
		return nil, false
	}
	return &cr, true
}

func (cr *cliReplay) picker() func(int) int {
	if len(cr.Choices) == 0 && cr.PickSeed != 0 {
		return rngPick(rand.New(rand.NewSource(cr.PickSeed)))
	}
	return replayPick(cr.Choices)
}

func runCliProperty(t *testing.T, res *Result, prop string, faults bool) {
	rng := newRNG()
	var lines []string
	var exps []*cliExpect
	runOne := func(sc *cliScenario, pick func(int) int) {
		r := runClientScenario(t, sc, pick)
		line, ex := cliProject(res, sc, r, prop)
		if r.Stuck != "" {
			res.Violatef("client run did not finish: "+r.Stuck, ex.in, "log: %s", shortLog(r.Log))
		}
		if len(r.Leaked) > 0 {
			res.Violatef("goroutine left behind after Close returned: "+r.Leaked[0], ex.in, "%v; log: %s", r.Leaked, shortLog(r.Log))
		}
		for _, p := range r.cch.st.Problems() {
			res.Violatef("channel contract broken by the client: "+firstWords(p, 6), ex.in, "%s", p)
		}
		if prop == "C05" {
			c05Hooks(res, sc, r, ex)
		}
		res.Case(logShape(r.Log), len(ex.obsGot) >= 2, map[string]any{"trace": line, "got": ex.obsGot})
		lines = append(lines, line)
		exps = append(exps, ex)
	}
	if cr, ok := loadCliReplay(); ok {
		runOne(&cr.Scenario, cr.picker())
	} else {
		for i := 0; i < pick(250, 2500); i++ {
			sc := cliTraffic(rng, 1+rng.Intn(4), faults)
			for j := 0; j < pick(6, 20); j++ {
				runOne(sc, seededPick(rng))
			}
		}
		if prop == "C05" {
			// a callback handler is still running when the peer hangs up and Close is called
			for _, sc := range []*cliScenario{
				{Callbacks: true, Ops: []cliOp{{Kind: "raw", Arg: `{"jsonrpc":"2.0","id":77,"method":"srvcall","params":[1]}`}, {Kind: "peerclose"}, {Kind: "close"}}},
				{Callbacks: true, Ops: []cliOp{{Kind: "call", Arg: "t1"}, {Kind: "raw", Arg: `{"jsonrpc":"2.0","id":78,"method":"srvcall"}`}, {Kind: "close"}, {Kind: "reply", Arg: "t1"}}},
				{Ops: []cliOp{{Kind: "batch", Arg: "t1", Arg2: "ccc"}, {Kind: "reply", Arg: "t1.1"}, {Kind: "cancel", Arg: "t1"}, {Kind: "reply", Arg: "t1.0,t1.2"}}},
			} {
				for j := 0; j < pick(40, 400); j++ {
					runOne(sc, seededPick(rng))
				}
			}
		}
		// a completed response is relabelled (SetID) with the id of a call still in flight, before the
		// first call's context watcher has run: the watcher must not touch the other call
		for _, sc := range []*cliScenario{
			{Ops: []cliOp{{Kind: "call", Arg: "t1"}, {Kind: "call", Arg: "t2"}, {Kind: "reply", Arg: "t1"}, {Kind: "setid", Arg: "t1", Arg2: "t2"}, {Kind: "reply", Arg: "t2"}}},
			{Ops: []cliOp{{Kind: "call", Arg: "t1"}, {Kind: "batch", Arg: "t2", Arg2: "cc"}, {Kind: "reply", Arg: "t1"}, {Kind: "setid", Arg: "t1", Arg2: "t2.1"}, {Kind: "reply", Arg: "t2.0,t2.1"}}},
		} {
			for j := 0; j < pick(40, 400); j++ {
				runOne(sc, seededPick(rng))
			}
		}
		if prop == "C04" {
			// batch whose replies come in separate messages, reversed; duplicate in between
			sc := &cliScenario{Ops: []cliOp{{Kind: "batch", Arg: "t1", Arg2: "cccc"}, {Kind: "reply", Arg: "t1.0"}, {Kind: "reply", Arg: "t1.3,t1.2", Arg2: "dup"}, {Kind: "reply", Arg: "t1.1", Arg2: "err"}}}
			for j := 0; j < pick(40, 400); j++ {
				runOne(sc, seededPick(rng))
			}
		}
	}
	model := runOracle(t, lines)
	for i, m := range model {
		res.Traces++
		if cliCompare(res, m, exps[i]) {
			res.Agreements++
		}
		if prop == "C05" {
			c05Cancel(res, m, exps[i])
		}
	}
}

// c04Stress: many goroutines issue batches concurrently against an echoing peer, with real
// parallelism: ids on the wire must be pairwise distinct and every entry must get its own echo.
func c04Stress(res *Result, rounds int) {
	for round := 0; round < rounds; round++ {
		peer, cch := newVPair()
		cli := jrpc2.NewClient(cch, nil)
		seen := map[string]int{}
		var mu sync.Mutex
		go func() {
			for {
				b, err := peer.Recv()
				if err != nil {
					return
				}
				var reqs []struct {
					ID     json.RawMessage `json:"id"`
					Params json.RawMessage `json:"params"`
				}
				if json.Unmarshal(b, &reqs) != nil {
					continue
				}
				var out []string
				mu.Lock()
				for _, q := range reqs {
					seen[string(q.ID)]++
					out = append(out, fmt.Sprintf(`{"jsonrpc":"2.0","id":%s,"result":%s}`, q.ID, q.Params))
				}
				mu.Unlock()
				peer.Send([]byte("[" + strings.Join(out, ",") + "]"))
			}
		}()
		var wg sync.WaitGroup
		bad := make(chan string, 64)
		for g := 0; g < 8; g++ {
			wg.Add(1)
			go func(g int) {
				defer wg.Done()
				for k := 0; k < 6; k++ {
					specs := make([]jrpc2.Spec, 16)
					for i := range specs {
						specs[i] = jrpc2.Spec{Method: "m", Params: []int{g, k, i}}
					}
					ctx, cancel := context.WithTimeout(context.Background(), 500*time.Millisecond)
					rsps, err := cli.Batch(ctx, specs)
					cancel()
					if err != nil {
						continue
					}
					for i, rsp := range rsps {
						want := fmt.Sprintf("[%d,%d,%d]", g, k, i)
						if rsp.Error() != nil || rsp.ResultString() != want {
							select {
							case bad <- fmt.Sprintf("entry %s got %s / %v", want, rsp.ResultString(), rsp.Error()):
							default:
							}
						}
					}
				}
			}(g)
		}
		// a request shadowed by another with the same id is never completed: bound the wait
		done := make(chan struct{})
		go func() { wg.Wait(); close(done) }()
		hung := false
		select {
		case <-done:
			cli.Close()
		case <-time.After(5 * time.Second):
			hung = true
			go cli.Close()
		}
		peer.Close()
		res.Case(fmt.Sprintf("stress/%d", round), true, "8 goroutines x 6 batches x 16 entries")
		res.Count("free-running-stress")
		mu.Lock()
		for id, n := range seen {
			if n > 1 {
				res.Violatef("two requests in flight shared an id", fmt.Sprintf("free-running stress round %d", round), "id %s used %d times", id, n)
				break
			}
		}
		mu.Unlock()
		select {
		case m := <-bad:
			res.Violatef("a batch entry completed with another request's reply", fmt.Sprintf("free-running stress round %d", round), "%s", m)
		default:
		}
		if hung && len(res.Violations) == 0 {
			res.Violatef("a batch never completed although every request was answered and its context ended", fmt.Sprintf("free-running stress round %d", round), "8 goroutines x 6 batches x 16 entries, 500ms contexts; still waiting after 5s")
		}
		if len(res.Violations) > 0 {
			return
		}
	}
}

func TestC04(t *testing.T) {
	res := newResult("C04", "scenarios: sets of concurrently outstanding Call / CallResult / Batch / Notify operations against a scripted raw peer that answers in any order and grouping (bare objects, arrays), with error replies, duplicates, unknown ids, malformed members, replies carrying both result and error, server notifications and callbacks interleaved; under many schedules of reader, per-message delivery goroutines and callers. distinct = distinct event-log shape; non-trivial = at least two requests outstanding")
	defer res.Write(t)
	runCliProperty(t, res, "C04", false)
	c04Stress(res, pick(10, 100))
}

// c05HTTPFailure: a Client over jhttp.Channel; the HTTP transport fails for one request while
// another is still in flight. Every outstanding call must still be completed (with an error) and
// Close must return: the failure stops the client, which closes the channel while the other
// request's goroutine is still busy.
func c05HTTPFailure(res *Result) {
	for round := 0; round < 6; round++ {
		waits := []chan struct{}{make(chan struct{}), make(chan struct{}), make(chan struct{})}
		hc := &inprocHTTP{}
		hc.gate = func(n int) (chan struct{}, func() (int, bool)) {
			if n > len(waits) {
				return nil, func() (int, bool) { return 204, false }
			}
			// the first request fails - in transport, or with a body-less HTTP failure status - the others are answered
			return waits[n-1], func() (int, bool) {
				if n == 1 && round%3 != 0 {
					return []int{0, 503, 401}[round%3], false
				}
				return 200, n == 1
			}
		}
		cli := jrpc2.NewClient(jhttp.NewChannel("http://x/", &jhttp.ChannelOptions{Client: hc}), nil)
		ncalls := 2 + round%2
		done := make(chan error, ncalls)
		for k := 0; k < ncalls; k++ {
			go func() { _, err := cli.Call(context.Background(), "m", nil); done <- err }()
		}
		deadline := time.Now().Add(5 * time.Second)
		for {
			hc.mu.Lock()
			n := hc.n
			hc.mu.Unlock()
			if n >= ncalls || time.Now().After(deadline) {
				break
			}
			time.Sleep(time.Millisecond)
		}
		close(waits[0]) // transport failure of the first request
		time.Sleep(time.Duration(round%3) * 2 * time.Millisecond)
		for _, w := range waits[1:] {
			close(w)
		}
		in := fmt.Sprintf("client over jhttp.Channel: %d calls in flight, the first HTTP request fails (%s)", ncalls, []string{"transport error", "status 503 without a body", "status 401 without a body"}[round%3])
		res.Case(fmt.Sprintf("http-failure/%d", round), true, in)
		res.Count("http-transport-failure")
		got := 0
		timeout := time.After(5 * time.Second)
	wait:
		for got < ncalls {
			select {
			case <-done:
				got++
			case <-timeout:
				break wait
			}
		}
		if got < ncalls {
			res.Violatef("client run did not finish: outstanding calls were never completed after the channel failed", in, "%d of %d calls still blocked after 5s", ncalls-got, ncalls)
			return // the client is wedged; Close would block too
		}
		closed := make(chan struct{})
		go func() { cli.Close(); close(closed) }()
		select {
		case <-closed:
		case <-time.After(5 * time.Second):
			res.Violatef("client run did not finish: Close never returned after the channel failed", in, "")
			return
		}
	}
}

// slowClose delays Close, as a network connection that flushes on close does; the window between
// the start and the end of a stop is then wide enough for other operations to fall into it.
type slowClose struct {
	*vend
	d time.Duration
}

func (c slowClose) Close() error { time.Sleep(c.d); return c.vend.Close() }

// c05StopRace: operations issued WHILE the client is being stopped (Close by the user, or the
// reader failing on peer EOF). Whatever the overlap, an operation that reports success must have
// transmitted its message, and one that did not transmit must report an error.
func c05StopRace(res *Result) {
	for round := 0; round < pick(40, 400); round++ {
		peer, cch := newVPair()
		go func() { // the peer reads everything and never answers
			for {
				if _, err := peer.Recv(); err != nil {
					return
				}
			}
		}()
		cli := jrpc2.NewClient(slowClose{cch, time.Duration(200+100*(round%4)) * time.Microsecond}, nil)
		var okNotes atomic.Int32
		var wg sync.WaitGroup
		stop := make(chan struct{})
		for g := 0; g < 4; g++ {
			wg.Add(1)
			go func() {
				defer wg.Done()
				for {
					select {
					case <-stop:
						return
					default:
					}
					var err error
					if g%2 == 0 {
						err = cli.Notify(context.Background(), "n", nil)
					} else {
						_, err = cli.Batch(context.Background(), []jrpc2.Spec{{Method: "n", Notify: true}})
					}
					if err == nil {
						okNotes.Add(1)
					} else {
						return // stopped: every later operation fails too
					}
				}
			}()
		}
		time.Sleep(time.Duration(50+50*(round%5)) * time.Microsecond)
		how := "Close"
		if round%2 == 1 {
			how = "peer EOF"
			peer.Close()
			time.Sleep(time.Millisecond)
		}
		cli.Close()
		close(stop)
		wg.Wait()
		peer.Close()
		sent, ok := cch.st.sends.Load(), okNotes.Load()
		in := fmt.Sprintf("4 goroutines issuing Notify / notification-only Batch while the client is stopped by %s (the channel's Close takes a few hundred microseconds)", how)
		res.Case(fmt.Sprintf("stop-race/%d", round), true, in)
		res.Count("stop-race")
		res.Traces++
		if ok > sent {
			res.Violatef("an operation on a stopping client reported success without transmitting", in, "%d operations returned nil, %d messages were handed to the channel", ok, sent)
			return
		}
		res.Agreements++
	}
}

func TestC05(t *testing.T) {
	res := newResult("C05", "scenarios: as C04 plus, at random positions, context cancellation of individual operations, Close, peer EOF, Recv errors (EOF / other), Send errors, undecodable inbound records; OnCancel / OnStop / OnCallback hooks installed; under many schedules. distinct = distinct event-log shape; non-trivial = at least two requests outstanding")
	defer res.Write(t)
	runCliProperty(t, res, "C05", true)
	c05HTTPFailure(res)
	c05StopRace(res)
}

// c05Hooks: OnStop exactly once after a stop (never without), Close returns after callbacks.
func c05Hooks(res *Result, sc *cliScenario, r *cliRun, ex *cliExpect) {
	onstop, closedAt, lastCb := 0, -1, -1
	for i, e := range r.Log {
		switch {
		case strings.HasPrefix(e, "onstop "):
			onstop++
		case strings.HasPrefix(e, "closed "):
			if closedAt < 0 {
				closedAt = i
			}
		case strings.HasPrefix(e, "cbfinish "):
			lastCb = i
		}
	}
	if onstop != 1 {
		res.Violatef(fmt.Sprintf("OnStop ran %d times", onstop), ex.in, "log: %s", shortLog(r.Log))
	}
	if closedAt >= 0 && lastCb > closedAt {
		res.Violatef("Close returned before a callback handler had returned", ex.in, "log: %s", shortLog(r.Log))
	}
	cbStarts, cbFins := 0, 0
	for _, e := range r.Log {
		if strings.HasPrefix(e, "cbstart ") {
			cbStarts++
		}
		if strings.HasPrefix(e, "cbfinish ") {
			cbFins++
		}
	}
	if cbStarts != cbFins {
		res.Violatef("a callback handler never returned", ex.in, "log: %s", shortLog(r.Log))
	}
}

// c05Cancel: OnCancel exactly once for each request the machine says ended without a reply
// (restricted to the scheduled part of the run), never for an answered one.
func c05Cancel(res *Result, model string, ex *cliExpect) {
	parts := strings.SplitN(model, "|", 2)
	if len(parts) != 2 {
		return
	}
	var want []string
	for _, f := range strings.Fields(parts[1]) {
		if strings.HasPrefix(f, "cancel=") {
			body := strings.Trim(strings.TrimPrefix(f, "cancel="), "[]")
			for _, x := range strings.Split(body, ",") {
				if x = strings.TrimSpace(x); x != "" {
					want = append(want, x)
				}
			}
		}
	}
	counts := map[string]int{}
	pre := map[string]int{}
	seenQ := false
	for _, e := range ex.log {
		if e == "quiescent" {
			seenQ = true
		}
		if strings.HasPrefix(e, "oncancel id=") {
			id := strings.TrimPrefix(e, "oncancel id=")
			counts[id]++
			if !seenQ {
				pre[id]++
			}
		}
	}
	for _, id := range want {
		if counts[id] != 1 {
			res.Violatef(fmt.Sprintf("OnCancel ran %d times for a request that ended without a reply", counts[id]), ex.in, "id %s; log: %s", id, shortLog(ex.log))
		}
	}
	// answered requests: ids with a reply in the model must not get OnCancel
	for _, mo := range strings.Fields(parts[0]) {
		kv := strings.SplitN(mo, "=", 2)
		if len(kv) == 2 && strings.HasPrefix(kv[1], "reply:") && counts[kv[0]] > 0 {
			res.Violatef("OnCancel ran for an answered request", ex.in, "id %s; log: %s", kv[0], shortLog(ex.log))
		}
	}
	for id, n := range counts {
		if n > 1 {
			res.Violatef(fmt.Sprintf("OnCancel ran %d times for one request", n), ex.in, "id %s; log: %s", id, shortLog(ex.log))
		}
	}
}
