package harness

// C06 — handler concurrency stays within the limit and is work-conserving.
// C07 — cancellation hits only its target; ids reserved only while in flight.

import (
	"encoding/json"
	"fmt"
	"math/rand"
	"regexp"
	"strconv"
	"strings"
	"testing"
)

var runningRe = regexp.MustCompile(`running=(\d+)`)

func TestC06(t *testing.T) {
	res := newResult("C06", "scenarios: scripts of calls / notifications / batches larger and smaller than the limit (Concurrency 1,2,3,5), handlers gated (some held), failing notifications, built-in rpc.serverInfo calls, CancelRequest of calls waiting for a slot; each under many schedules. distinct = distinct event-log shape; non-trivial = more runnable requests than the limit at some point")
	defer res.Write(t)
	installStuckHandler(t, res, "not work-conserving: a request waits for ever although nothing is executing")
	rng := newRNG()
	var lines []string
	var metas []any
	runOne := func(sc *srvScenario, pick func(int) int, corr bool) {
		r := runServerScenario(t, sc, pick, nil)
		in := r.replayInput(sc)
		if r.Stuck != "" {
			res.Violatef("server run did not finish: "+r.Stuck, in, "log: %s", shortLog(r.Log))
		}
		// ---- spec on the real log
		running, maxRunning := 0, 0
		var trace []string
		arrived := map[string]bool{}
		started := map[string]bool{}
		finished := map[string]bool{}
		cancelledIDs := map[string]bool{}
		stopped := false
		busySince := -1 // log index since which running >= limit continuously
		infoReadAt := -1
		// with ServerOptions.NewContext handing out a base context that has already ended, the call
		// that gets it is answered with the context's error and never runs (clause 3 of C06); it is
		// recognised by that answer. Everything else in its batch must still run.
		deadCtxTags := map[string]bool{}
		if sc.DeadCtxAt > 0 {
			idTag := map[string]string{}
			for _, e := range r.Log {
				if strings.HasPrefix(e, "send ") {
					for _, m := range c07Members(strings.SplitN(e, " ", 3)[2]) {
						idTag[m.ID] = m.Tag
					}
				}
				if strings.HasPrefix(e, "out ") {
					var entries []struct {
						ID    json.RawMessage
						Error *struct{ Code int }
					}
					txt := strings.TrimPrefix(e, "out ")
					if json.Unmarshal([]byte(txt), &entries) != nil {
						entries = make([]struct {
							ID    json.RawMessage
							Error *struct{ Code int }
						}, 1)
						json.Unmarshal([]byte(txt), &entries[0])
					}
					for _, en := range entries {
						if en.Error != nil && en.Error.Code == -32097 && len(deadCtxTags) == 0 {
							deadCtxTags[idTag[string(en.ID)]] = true
						}
					}
				}
			}
		}
		for i, e := range r.Log {
			f := strings.Fields(e)
			switch f[0] {
			case "read":
				if !stopped && len(f) > 2 {
					runnable := map[string]bool{}
					for _, m := range c07Members(r.readText(f[1])) {
						if m.Method == "m" && validMember(r.readText(f[1]), m.Tag) { // unknown methods and invalid members are answered without running
							runnable[m.Tag] = true
						}
					}
					for _, tag := range strings.Split(f[2], ",") {
						if runnable[tag] {
							arrived[tag] = true
						}
					}
				}
				if strings.Contains(r.readText(f[1]), "rpc.serverInfo") {
					infoReadAt = i
				}
			case "hstart":
				running++
				if m := runningRe.FindStringSubmatch(e); m != nil {
					n, _ := strconv.Atoi(m[1])
					if n > sc.Concurrency {
						res.Violatef("more handlers executing than the Concurrency limit", in, "%d running, limit %d; log: %s", n, sc.Concurrency, shortLog(r.Log))
					}
				}
				if running > maxRunning {
					maxRunning = running
				}
				if running >= sc.Concurrency && busySince < 0 {
					busySince = i
				}
				started[f[1]] = true
				u, _ := tagUID(f[1])
				trace = append(trace, fmt.Sprintf("s:%d", u))
			case "builtinwork":
				// the built-in method is executing now, next to `running` user handlers
				if m := runningRe.FindStringSubmatch(e); m != nil {
					if n, _ := strconv.Atoi(m[1]); n+1 > sc.Concurrency {
						res.Violatef("more handlers executing than the Concurrency limit", in, "the built-in rpc.serverInfo did its work while %d handlers were executing, limit %d; log: %s", n, sc.Concurrency, shortLog(r.Log))
					}
				}
			case "hfinish":
				running--
				busySince = -1
				finished[f[1]] = true
				u, _ := tagUID(f[1])
				trace = append(trace, fmt.Sprintf("f:%d", u))
			case "run":
				switch f[1] {
				case "srv.invoke.acquire":
					if len(f) > 2 {
						if u, _ := tagUID(f[2]); u >= 0 {
							trace = append(trace, fmt.Sprintf("q:%d", u))
						}
					}
				case "srv.stop.enter":
					stopped = true
				case "srv.cancel.enter":
					if len(f) > 2 {
						cancelledIDs[f[2]] = true
					}
				}
			case "readerr":
				stopped = true
			case "out":
				// a built-in answered while every slot was held by a handler the whole time since it was read
				if strings.Contains(e, `"methods"`) && infoReadAt >= 0 && busySince >= 0 && busySince < infoReadAt && running >= sc.Concurrency {
					res.Violatef("built-in method executed while the limit was exhausted", in, "limit %d, %d handlers running since before the request was read; log: %s", sc.Concurrency, running, shortLog(r.Log))
				}
			case "held-quiescent":
				var held int
				fmt.Sscanf(f[1], "held=%d", &held)
				if held < sc.Concurrency && !stopped && len(cancelledIDs) == 0 {
					for a := range arrived {
						if !started[a] && !c03Blocked(r.Log[:i], a) && !deadCtxTags[a] {
							res.Violatef("not work-conserving: a request waits although a slot is free", in, "%d held, limit %d, %s not started; log: %s", held, sc.Concurrency, a, shortLog(r.Log))
						}
					}
				}
			case "quiescent":
				if !stopped && len(cancelledIDs) == 0 {
					for a := range arrived {
						if !finished[a] && !deadCtxTags[a] {
							res.Violatef("not work-conserving: a request never ran although nothing is executing", in, "%s never finished; log: %s", a, shortLog(r.Log))
						}
					}
				}
			}
		}
		// cancelled waiter: answered with the cancellation code, handler never ran
		for id := range cancelledIDs {
			for _, e := range r.Log {
				if strings.HasPrefix(e, "out ") && strings.Contains(e, `"id":`+id+`,"error":{"code":-32097`) {
					// find the tag with that id: it must not have started after the cancel… (checked by the model trace below when corr)
				}
			}
		}
		nontrivial := len(arrived) > sc.Concurrency
		res.Case(logShape(r.Log), nontrivial, map[string]any{"limit": sc.Concurrency, "maxRunning": maxRunning, "trace": strings.Join(trace, " ")})
		res.Count(fmt.Sprintf("limit:%d", sc.Concurrency))
		if corr && !stopped && len(cancelledIDs) == 0 {
			lines = append(lines, fmt.Sprintf("c06 %d %s", sc.Concurrency, strings.Join(trace, " ")))
			metas = append(metas, in)
		}
	}
	if sr, ok := loadSchedReplay(); ok {
		runOne(&sr.Scenario, sr.picker(), true)
	} else {
		for i := 0; i < pick(250, 2500); i++ {
			// the limit does not depend on the other options (push enabled or not)
			sc := &srvScenario{Concurrency: []int{1, 2, 3, 5}[rng.Intn(4)], AllowPush: rng.Intn(3) == 0}
			held := 0
			if i%3 == 0 {
				held = 3
			}
			sc.Ops = genTrafficOpts(rng, 2+rng.Intn(5), held, 0, 1+rng.Intn(2*sc.Concurrency+1), true)
			if i%5 == 0 {
				sc.Ops = insertOp(rng, sc.Ops, envOp{Kind: "send", Arg: `{"jsonrpc":"2.0","id":"info","method":"rpc.serverInfo"}`})
			}
			for j := 0; j < pick(8, 25); j++ {
				runOne(sc, seededPick(rng), true)
			}
		}
		// corpus
		corpus := []*srvScenario{
			// built-in while the only slot is held
			{Concurrency: 1, Ops: []envOp{{Kind: "send", Arg: reqCall(1, "Hc1", "ok")}, {Kind: "send", Arg: `{"jsonrpc":"2.0","id":"info","method":"rpc.serverInfo"}`}}},
			// failing notifications must give their slots back
			{Concurrency: 2, Ops: []envOp{{Kind: "send", Arg: reqNote("n1", "err")}, {Kind: "send", Arg: reqNote("n2", "err")}, {Kind: "send", Arg: reqNote("n3", "errcode:-32600")}, {Kind: "send", Arg: reqCall(1, "c4", "ok")}}},
			{Concurrency: 1, Ops: []envOp{{Kind: "send", Arg: reqBatch(reqNote("n1", "err"), reqCall(1, "c2", "err"), reqCall(2, "c3", "ok"))}, {Kind: "send", Arg: reqCall(3, "c4", "ok")}}},
			// a member that failed validation does not use up the batch's dispatch budget: the runnable
			// members after it are all started (one of them held, so that the other needs its own slot)
			{Concurrency: 2, Ops: []envOp{{Kind: "send", Arg: reqBatch(`{"jsonrpc":"2.0","id":1,"method":"nope","params":["c1","ok"]}`, reqCall(2, "Hc2", "ok"), reqCall(3, "c3", "ok"))}}},
			{Concurrency: 3, Ops: []envOp{{Kind: "send", Arg: reqBatch(`{"jsonrpc":"2.0","id":1,"params":["c1","ok"]}`, `{"jsonrpc":"1.0","id":9,"method":"m","params":["c9","ok"]}`, reqCall(2, "Hc2", "ok"), reqNote("n3", "ok"), reqCall(4, "c4", "ok"))}}},
			// a serial server stays serial when pushes are enabled, also while a handler awaits a callback
			{Concurrency: 1, AllowPush: true, Ops: []envOp{{Kind: "send", Arg: reqCall(1, "Hc1", "ok")}, {Kind: "send", Arg: reqCall(2, "c2", "ok")}, {Kind: "send", Arg: reqBatch(reqCall(3, "c3", "ok"), reqCall(4, "c4", "ok"))}}},
			{Concurrency: 1, AllowPush: true, Ops: []envOp{{Kind: "send", Arg: reqCall(1, "c1", "cb:k1")}, {Kind: "send", Arg: reqCall(2, "c2", "ok")}, {Kind: "cbreply", Arg: "k1"}}},
		}
		for _, sc := range corpus {
			for j := 0; j < pick(30, 300); j++ {
				runOne(sc, seededPick(rng), true)
			}
		}
		// a batch one of whose calls gets a base context that has already ended: that call is answered
		// with the context's error, the others are dispatched and must start while slots are free
		for _, sc := range []*srvScenario{
			{Concurrency: 4, DeadCtxAt: 1, Ops: []envOp{{Kind: "send", Arg: reqBatch(reqCall(1, "c1", "ok"), reqCall(2, "c2", "ok"), reqCall(3, "c3", "ok"))}, {Kind: "send", Arg: reqCall(4, "c4", "ok")}}},
			// a notification whose base context ends the moment it is first consulted: once it holds a
			// slot it runs (or at least gives the slot back); the calls behind it are not starved
			{Concurrency: 1, LateCtxAt: 1, Ops: []envOp{{Kind: "send", Arg: reqNote("n1", "ok")}, {Kind: "send", Arg: reqCall(2, "c2", "ok")}, {Kind: "send", Arg: reqCall(3, "c3", "ok")}}},
			{Concurrency: 2, LateCtxAt: 2, Ops: []envOp{{Kind: "send", Arg: reqCall(1, "c1", "ok")}, {Kind: "send", Arg: reqBatch(reqNote("n2", "ok"), reqNote("n3", "ok"))}, {Kind: "send", Arg: reqBatch(reqCall(4, "c4", "ok"), reqCall(5, "c5", "ok"), reqCall(6, "c6", "ok"))}}},
			{Concurrency: 2, DeadCtxAt: 2, Ops: []envOp{{Kind: "send", Arg: reqBatch(reqCall(1, "Hc1", "ok"), reqCall(2, "c2", "ok"), reqNote("n3", "ok"), reqCall(4, "c4", "err"))}, {Kind: "send", Arg: reqCall(5, "c5", "ok")}}},
			{Concurrency: 3, DeadCtxAt: 3, Ops: []envOp{{Kind: "send", Arg: reqCall(1, "c1", "ok")}, {Kind: "send", Arg: reqBatch(reqCall(2, "c2", "ok"), reqCall(3, "c3", "ok"), reqCall(4, "c4", "ok"), reqCall(5, "c5", "ok"))}}},
		} {
			for j := 0; j < pick(30, 300); j++ {
				runOne(sc, seededPick(rng), false)
			}
		}
		// cancelled waiter: c2 waits behind held c1; CancelRequest("2"); c2 must be answered -32097 without running
		csc := &srvScenario{Concurrency: 1, Ops: []envOp{{Kind: "send", Arg: reqCall(1, "Hc1", "ok")}, {Kind: "send", Arg: reqCall(2, "c2", "ok")}, {Kind: "cancel", Arg: "2"}}}
		for j := 0; j < pick(60, 600); j++ {
			r := runServerScenario(t, csc, seededPick(rng), nil)
			res.Case(logShape(r.Log), true, "cancelled-waiter")
			cancelAt, c2start, c2acq := -1, -1, -1
			reply := ""
			for i, e := range r.Log {
				switch {
				case strings.HasPrefix(e, "run srv.cancel.enter"):
					cancelAt = i
				case strings.HasPrefix(e, "hstart c2"):
					c2start = i
				case strings.HasPrefix(e, "run srv.invoke.acquire c2"):
					c2acq = i
				case strings.HasPrefix(e, "out ") && strings.Contains(e, `"id":2`):
					reply = e
				}
			}
			// if the cancel took effect while c2 had not started (it cannot start: the slot is held), c2 must never run
			if cancelAt >= 0 && c2acq >= 0 && cancelAt > c2acq && (c2start < 0 || c2start > cancelAt) {
				heldDone := false
				for _, e := range r.Log[:max(cancelAt, 0)] {
					heldDone = heldDone || strings.HasPrefix(e, "hfinish Hc1")
				}
				if !heldDone && c2start >= 0 {
					res.Violatef("handler ran although its call was cancelled while waiting for a slot", r.replayInput(csc), "log: %s", shortLog(r.Log))
				}
				if !heldDone && !strings.Contains(reply, "-32097") {
					res.Violatef("cancelled waiter not answered with the cancellation code", r.replayInput(csc), "reply %q; log: %s", reply, shortLog(r.Log))
				}
			}
		}
	}
	model := runOracle(t, lines)
	for i, m := range model {
		res.Traces++
		if strings.HasPrefix(m, "ok") {
			res.Agreements++
		} else {
			res.Disagreef("observed acquire/start/finish trace is not a trace of the semaphore machine", metas[i], m, lines[i])
		}
	}
}

func c03Blocked(log []string, tag string) bool {
	// tag is legitimately waiting if a notification from an earlier message is unfinished
	msgOf := map[string]int{}
	fin := map[string]bool{}
	for _, e := range log {
		f := strings.Fields(e)
		if f[0] == "read" && len(f) > 2 {
			k, _ := strconv.Atoi(f[1])
			for _, tg := range strings.Split(f[2], ",") {
				msgOf[tg] = k
			}
		}
		if f[0] == "hfinish" {
			fin[f[1]] = true
		}
	}
	for n, k := range msgOf {
		if _, note := tagUID(n); note && k < msgOf[tag] && !fin[n] {
			return true
		}
	}
	return false
}

// logSend returns the text of the k-th sent record.
func (r *srvRun) logSend(k string) string {
	for _, e := range r.Log {
		if strings.HasPrefix(e, "send "+k+" ") {
			return e
		}
	}
	return ""
}

// genTrafficOpts: like genTraffic, with batch sizes up to maxBatch and optionally failing notifications.
func genTrafficOpts(rng *rand.Rand, nMsgs, heldProb, idPool, maxBatch int, noteErrs bool) []envOp {
	var ops []envOp
	uid := 0
	member := func() string {
		uid++
		held := ""
		if heldProb > 0 && rng.Intn(heldProb) == 0 {
			held = "H"
		}
		if rng.Intn(2) == 0 {
			out := "ok"
			if noteErrs {
				out = []string{"ok", "err", "errcode:-32600", "errcode:-32700"}[rng.Intn(4)]
			}
			if rng.Intn(4) == 0 { // an explicit null id is a notification too
				return fmt.Sprintf(`{"jsonrpc":"2.0","id":null,"method":"m","params":[%q,%q]}`, fmt.Sprintf("%sn%d", held, uid), out)
			}
			return reqNote(fmt.Sprintf("%sn%d", held, uid), out)
		}
		var id any = uid
		if idPool > 0 {
			id = 1 + rng.Intn(idPool)
		}
		return reqCall(id, fmt.Sprintf("%sc%d", held, uid), []string{"ok", "ok", "err"}[rng.Intn(3)])
	}
	for i := 0; i < nMsgs; i++ {
		if rng.Intn(3) == 0 {
			n := 1 + rng.Intn(maxBatch)
			ms := make([]string, n)
			for j := range ms {
				ms[j] = member()
			}
			ops = append(ops, envOp{Kind: "send", Arg: reqBatch(ms...)})
		} else {
			ops = append(ops, envOp{Kind: "send", Arg: member()})
		}
	}
	return ops
}

// ---------------------------------------------------------------------------------------------
// C07

type c07Member struct {
	Tag    string
	UID    int
	ID     string // raw id text, "" for a notification
	Method string
}

func c07Members(rec string) []c07Member {
	type m struct {
		ID     json.RawMessage `json:"id"`
		Method string          `json:"method"`
		Params []string        `json:"params"`
	}
	var many []m
	if json.Unmarshal([]byte(rec), &many) != nil {
		var one m
		if json.Unmarshal([]byte(rec), &one) != nil {
			return nil
		}
		many = []m{one}
	}
	var out []c07Member
	for _, x := range many {
		tag := ""
		if len(x.Params) > 0 {
			tag = x.Params[0]
		}
		u, _ := tagUID(tag)
		out = append(out, c07Member{tag, u, string(x.ID), x.Method})
	}
	// a member with unknown keys is invalid: it is answered with an error whatever its method
	var raws []map[string]json.RawMessage
	if json.Unmarshal([]byte(rec), &raws) != nil {
		var one map[string]json.RawMessage
		if json.Unmarshal([]byte(rec), &one) == nil {
			raws = []map[string]json.RawMessage{one}
		}
	}
	for i, rm := range raws {
		for k := range rm {
			if k != "jsonrpc" && k != "id" && k != "method" && k != "params" && i < len(out) {
				out[i].Method = "!invalid"
			}
		}
	}
	return out
}

func TestC07(t *testing.T) {
	defer func() { stuckHandler = nil }()
	res := newResult("C07", "scenarios: histories of calls with ids drawn from a pool of 3 (frequent reuse), notifications, calls to unknown and reserved methods, in-batch duplicate ids, CancelRequest for in-flight / finished / unknown ids, optional Stop; handlers gated; each under many schedules. The inferred admit / deliver / cancel / stop events are replayed on the id-table machine and its verdicts and cancellations compared with the replies and with ctx.Err() seen by each handler. distinct = distinct event-log shape; non-trivial = some id used at least twice")
	defer res.Write(t)
	installStuckHandler(t, res, "server deadlocked while handling id reuse / cancellation")
	rng := newRNG()
	var lines []string
	type expect struct {
		in       any
		obs      []string       // per observe event: "<uid>=<live|cancelled>"
		verdicts map[int]string // observed verdict per uid
		log      []string
	}
	var exps []expect
	runOne := func(sc *srvScenario, pick func(int) int) {
		r := runServerScenario(t, sc, pick, nil)
		in := r.replayInput(sc)
		if r.Stuck != "" {
			res.Violatef("server run did not finish: "+r.Stuck, in, "log: %s", shortLog(r.Log))
		}
		idNum := map[string]int{}
		num := func(id string) int {
			if n, ok := idNum[id]; ok {
				return n
			}
			idNum[id] = len(idNum) + 1
			return idNum[id]
		}
		var queue [][]c07Member // kept batches awaiting pop
		var admitted [][]c07Member
		var trace, obs []string
		verdicts := map[int]string{}
		stopped := false
		idUse := map[string]int{}
		reuse := false
		startedAfterCancel := map[int]bool{}
		startedTag := map[string]bool{}
		for _, e := range r.Log {
			f := strings.Fields(e)
			switch f[0] {
			case "read":
				if stopped {
					continue
				}
				ms := c07Members(r.readText(f[1]))
				if len(ms) > 0 {
					queue = append(queue, ms)
				}
				for _, m := range ms {
					if m.ID != "" {
						idUse[m.ID]++
						reuse = reuse || idUse[m.ID] > 1
					}
				}
			case "parked":
				if len(queue) == 0 {
					continue
				}
				b := queue[0]
				queue = queue[1:]
				admitted = append(admitted, b)
				var cs []string
				for _, m := range b {
					if m.ID == "" {
						continue
					}
					k := "k"
					if m.Method != "m" {
						k = "u"
					}
					cs = append(cs, fmt.Sprintf("%d.%d.%s", m.UID, num(m.ID), k))
				}
				trace = append(trace, "A:"+strings.Join(cs, ","))
			case "run":
				switch f[1] {
				case "srv.cancel.enter":
					if len(f) > 2 {
						trace = append(trace, fmt.Sprintf("C:%d", num(f[2])))
					}
				case "srv.stop.enter":
					if !stopped {
						stopped = true
						trace = append(trace, "X")
						// queued calls are dropped, queued notifications kept
						var keep [][]c07Member
						for _, b := range queue {
							for _, m := range b {
								if m.ID == "" && m.Method == "m" {
									keep = append(keep, []c07Member{m})
								}
							}
						}
						queue = keep
					}
				}
			case "readerr":
				if !stopped {
					stopped = true
					trace = append(trace, "X")
				}
			case "hstart":
				u, _ := tagUID(f[1])
				verdicts[u] = "run"
				startedTag[f[1]] = true
				_ = startedAfterCancel
			case "hfinish":
				u, _ := tagUID(f[1])
				trace = append(trace, fmt.Sprintf("o:%d", u))
				st := "live"
				if strings.Contains(e, `ctx="context canceled"`) {
					st = "cancelled"
				}
				obs = append(obs, fmt.Sprintf("%d=%s", u, st))
			case "out", "outfail":
				// match the reply to an admitted batch by its ids, record verdicts, emit the delivery
				// (a reply whose Send failed has been disposed of all the same: the calls are over)
				rep := []byte(strings.TrimPrefix(strings.TrimPrefix(e, "outfail "), "out "))
				var entries []struct {
					ID    json.RawMessage `json:"id"`
					Error *struct {
						Code    int    `json:"code"`
						Message string `json:"message"`
					} `json:"error"`
				}
				if json.Unmarshal(rep, &entries) != nil {
					entries = entries[:0]
					var one struct {
						ID    json.RawMessage `json:"id"`
						Error *struct {
							Code    int    `json:"code"`
							Message string `json:"message"`
						} `json:"error"`
					}
					if json.Unmarshal(rep, &one) == nil {
						entries = append(entries, one)
					}
				}
				for bi, b := range admitted {
					var calls []c07Member
					for _, m := range b {
						if m.ID != "" {
							calls = append(calls, m)
						}
					}
					if len(calls) != len(entries) || len(calls) == 0 {
						continue
					}
					match := true
					for i := range calls {
						match = match && calls[i].ID == string(entries[i].ID)
					}
					if !match {
						continue
					}
					// two admitted messages can carry the same id list (a non-batch request that reuses an
					// id while an earlier one is still running): the reply names the handler runs it
					// reports (result / error text carry the tag), and a reply that names none belongs to a
					// message none of whose members was started
					if rt := tagsIn(string(rep)); len(rt) > 0 {
						has := map[string]bool{}
						for _, c := range calls {
							has[c.Tag] = true
						}
						for _, tg := range rt {
							match = match && has[tg]
						}
					} else {
						for _, c := range calls {
							match = match && !startedTag[c.Tag]
						}
					}
					if !match {
						continue
					}
					var us []string
					for i, c := range calls {
						us = append(us, fmt.Sprint(c.UID))
						switch {
						case entries[i].Error != nil && entries[i].Error.Code == -32600 && strings.Contains(entries[i].Error.Message, "duplicate"):
							verdicts[c.UID] = "dup"
						case entries[i].Error != nil && (entries[i].Error.Code == -32601 || (entries[i].Error.Code == -32600 && c.Method != "m")):
							verdicts[c.UID] = "notfound" // answered without running and without reserving the id

						default:
							verdicts[c.UID] = "run"
						}
					}
					trace = append(trace, "D:"+strings.Join(us, ","))
					admitted = append(admitted[:bi], admitted[bi+1:]...)
					break
				}
			case "quiescent":
				if !stopped && len(r.Snap.Reserved) != 0 {
					res.Violatef("ids still reserved although nothing is in flight", in, "reserved %v; log: %s", r.Snap.Reserved, shortLog(r.Log))
				}
			}
		}
		res.Case(logShape(r.Log), reuse, map[string]any{"trace": strings.Join(trace, " ")})
		lines = append(lines, "c07 "+strings.Join(trace, " "))
		exps = append(exps, expect{in, obs, verdicts, r.Log})
	}
	if sr, ok := loadSchedReplay(); ok {
		runOne(&sr.Scenario, sr.picker())
	} else {
		for i := 0; i < pick(250, 2500); i++ {
			sc := &srvScenario{Concurrency: 1 + rng.Intn(3)}
			if rng.Intn(5) == 0 {
				sc.DeadCtxAt = 1 + rng.Intn(4)
			}
			if rng.Intn(5) == 0 {
				sc.SendFailAt = 1 + rng.Intn(4) // one reply is lost in transport; the server carries on
			}
			sc.Ops = c07Traffic(rng, 3+rng.Intn(5))
			for k := rng.Intn(3); k > 0; k-- {
				sc.Ops = insertOp(rng, sc.Ops, envOp{Kind: "cancel", Arg: []string{"1", "2", "3", "9", `"x"`, `"1"`, `"2"`, "1", "2"}[rng.Intn(9)]})
			}
			if rng.Intn(8) == 0 {
				sc.Ops = insertOp(rng, sc.Ops, envOp{Kind: "stop"})
			}
			for j := 0; j < pick(8, 25); j++ {
				runOne(sc, seededPick(rng))
			}
		}
		corpus := []*srvScenario{
			{Concurrency: 2, Ops: []envOp{{Kind: "send", Arg: c07Mark(0, `{"jsonrpc":"2.0","id":7,"method":"nope","params":["c1","ok"]}`)}, {Kind: "send", Arg: c07Mark(1, reqCall(7, "c2", "ok"))}}},
			{Concurrency: 2, Ops: []envOp{{Kind: "send", Arg: c07Mark(0, reqCall(1, "c1", "ok"))}, {Kind: "cancel", Arg: "1"}, {Kind: "send", Arg: c07Mark(1, reqCall(1, "c2", "ok"))}}},
			{Concurrency: 2, Ops: []envOp{{Kind: "send", Arg: c07Mark(0, `{"jsonrpc":"2.0","id":1,"method":"nope","params":["c1","ok"]}`, reqCall(2, "c2", "ok"))}, {Kind: "send", Arg: c07Mark(1, reqCall(1, "c3", "ok"))}}},
			{Concurrency: 2, Ops: []envOp{{Kind: "send", Arg: c07Mark(0, reqCall(1, "c1", "ok"), reqCall(1, "c2", "ok"), reqCall(2, "c3", "ok"))}, {Kind: "send", Arg: c07Mark(1, reqCall(1, "c4", "ok"))}}},
		}
		corpus = append(corpus,
			// a call whose base context has already ended is answered with an error at once, but it is
			// in flight - and its id reserved - until its batch has been answered
			&srvScenario{Concurrency: 2, DeadCtxAt: 1, Ops: []envOp{{Kind: "send", Arg: c07Mark(0, reqCall(1, "c1", "ok"), reqCall(2, "Hc2", "ok"))}, {Kind: "send", Arg: c07Mark(1, reqCall(1, "c3", "ok"))}}},
			&srvScenario{Concurrency: 3, DeadCtxAt: 2, Ops: []envOp{{Kind: "send", Arg: c07Mark(0, reqCall(2, "Hc1", "ok"), reqCall(1, "c2", "ok"))}, {Kind: "send", Arg: c07Mark(1, reqCall(1, "c3", "ok"))}, {Kind: "send", Arg: c07Mark(2, reqCall(1, "c4", "ok"))}}},
			&srvScenario{Concurrency: 2, Ops: []envOp{{Kind: "send", Arg: c07Mark(0, `{"jsonrpc":"2.0","id":7,"params":["c1","ok"]}`)}, {Kind: "send", Arg: c07Mark(1, reqCall(7, "c2", "ok"))}}},
			// a batch, fully answered, followed by NON-batch requests that reuse its ids one after the other
			&srvScenario{Concurrency: 2, AutoRelease: true, Ops: []envOp{{Kind: "send", Arg: c07Mark(0, reqCall(1, "c1", "ok"), reqCall(2, "c2", "err"))}, {Kind: "send", Arg: reqCall(1, "c3", "ok")}, {Kind: "send", Arg: reqCall(2, "c4", "ok")}, {Kind: "send", Arg: reqCall(1, "c5", "ok")}}},
			&srvScenario{Concurrency: 2, Ops: []envOp{{Kind: "send", Arg: c07Mark(0, reqCall(1, "c1", "ok"), reqCall(2, "c2", "ok"))}, {Kind: "send", Arg: reqCall(2, "c3", "ok")}, {Kind: "send", Arg: c07Mark(1, reqCall(2, "c4", "ok"))}, {Kind: "send", Arg: reqCall(1, "c5", "ok")}}},
			// the reply to a batch is lost in transport: its calls are over, their ids free again
			&srvScenario{Concurrency: 2, SendFailAt: 1, Ops: []envOp{{Kind: "send", Arg: c07Mark(0, reqCall(1, "c1", "ok"), reqCall(2, "c2", "err"))}, {Kind: "send", Arg: c07Mark(1, reqCall(1, "c3", "ok"))}, {Kind: "send", Arg: c07Mark(2, reqCall(2, "c4", "ok"))}}},
			&srvScenario{Concurrency: 2, Ops: []envOp{{Kind: "send", Arg: c07Mark(0, `{"jsonrpc":"2.0","id":"x","method":"m","params":["c1","ok"],"zz":1}`)}, {Kind: "send", Arg: c07Mark(1, reqCall("x", "c2", "ok"))}}},
		)
		corpus = append(corpus,
			// the number 7 and the string "7" are different ids: cancelling the one that is not in flight
			// leaves the other alone
			&srvScenario{Concurrency: 2, Ops: []envOp{{Kind: "send", Arg: c07Mark(0, reqCall("7", "Hc1", "ok"))}, {Kind: "cancel", Arg: "7"}, {Kind: "send", Arg: c07Mark(1, reqCall(7, "c2", "ok"))}}},
			&srvScenario{Concurrency: 2, Ops: []envOp{{Kind: "send", Arg: c07Mark(0, reqCall(7, "Hc1", "ok"))}, {Kind: "cancel", Arg: `"7"`}, {Kind: "send", Arg: c07Mark(1, reqCall("7", "c2", "ok"))}}},
		)
		for _, sc := range corpus {
			for j := 0; j < pick(40, 400); j++ {
				runOne(sc, seededPick(rng))
			}
		}
	}
	model := runOracle(t, lines)
	for i, m := range model {
		res.Traces++
		ex := exps[i]
		parts := strings.SplitN(m, "V", 2)
		if len(parts) != 2 {
			res.Disagreef("id-table machine rejected the inferred event sequence", ex.in, m, lines[i])
			continue
		}
		mobs := strings.Fields(parts[0])
		ok := true
		if strings.Join(mobs, " ") != strings.Join(ex.obs, " ") {
			ok = false
			// the model says which contexts may be cancelled: a mismatch is a cancellation that hit the wrong call (or missed its target)
			res.Violatef("a handler's context was cancelled without cause (or a targeted cancel missed): "+firstObsDiff(mobs, ex.obs), ex.in,
				"model %v observed %v; log: %s", mobs, ex.obs, shortLog(ex.log))
		}
		for _, kv := range strings.Fields(parts[1]) {
			p := strings.SplitN(kv, "=", 2)
			if len(p) != 2 || p[0] == "used" {
				continue
			}
			u, _ := strconv.Atoi(p[0])
			if got, seen := ex.verdicts[u]; seen && got != p[1] {
				ok = false
				res.Violatef("id reservation differs from the in-flight rule: want "+p[1]+" got "+got, ex.in,
					"call %d: model %s, server %s; log: %s", u, p[1], got, shortLog(ex.log))
			}
		}
		if ok {
			res.Agreements++
		}
	}
}

func firstObsDiff(a, b []string) string {
	for i := 0; i < len(a) && i < len(b); i++ {
		if a[i] != b[i] {
			return "want " + strings.SplitN(a[i], "=", 2)[1] + " got " + strings.SplitN(b[i], "=", 2)[1]
		}
	}
	return "length"
}

func (r *srvRun) logSendText(k string) string {
	p := "send " + k + " "
	for _, e := range r.Log {
		if strings.HasPrefix(e, p) {
			return e[len(p):]
		}
	}
	return ""
}

func c07Traffic(rng *rand.Rand, n int) []envOp {
	var ops []envOp
	uid := 0
	member := func() string {
		uid++
		switch rng.Intn(8) {
		case 0:
			return reqNote(fmt.Sprintf("n%d", uid), "ok")
		case 1:
			return fmt.Sprintf(`{"jsonrpc":"2.0","id":%d,"method":"nope","params":["c%d","ok"]}`, 1+rng.Intn(3), uid)
		case 2:
			return fmt.Sprintf(`{"jsonrpc":"2.0","id":%d,"method":"rpc.other","params":["c%d","ok"]}`, 1+rng.Intn(3), uid)
		case 3:
			if rng.Intn(2) == 0 { // a member with an id but no method, or an invalid one: answered with an error, id never reserved
				return fmt.Sprintf(`{"jsonrpc":"2.0","id":%d,"params":["c%d","ok"]}`, 1+rng.Intn(3), uid)
			}
			return fmt.Sprintf(`{"jsonrpc":"2.0","id":%d,"method":"m","params":["c%d","ok"],"zz":1}`, 1+rng.Intn(3), uid)
		}
		if rng.Intn(4) == 0 { // a STRING id spelling the same digits as a numeric one: a different id
			return reqCall(fmt.Sprint(1+rng.Intn(3)), fmt.Sprintf("c%d", uid), []string{"ok", "err", "ok"}[rng.Intn(3)])
		}
		return reqCall(1+rng.Intn(3), fmt.Sprintf("c%d", uid), []string{"ok", "err", "ok"}[rng.Intn(3)])
	}
	for i := 0; i < n; i++ {
		k := 1
		if rng.Intn(3) == 0 {
			k = 1 + rng.Intn(3)
		}
		ms := make([]string, k)
		for j := range ms {
			ms[j] = member()
		}
		ops = append(ops, envOp{Kind: "send", Arg: c07Mark(i, ms...)})
	}
	return ops
}

// c07Mark wraps members into a batch ending with a marker call (unique id, unknown method) so that
// the reply identifies the inbound message it answers.
func c07Mark(k int, ms ...string) string {
	uidMarker := 1000 + k
	return reqBatch(append(ms, fmt.Sprintf(`{"jsonrpc":"2.0","id":"mk%d","method":"nope","params":["c%d","ok"]}`, k, uidMarker))...)
}

func shortLog(log []string) string {
	s := strings.Join(log, " | ")
	if len(s) > 1500 {
		s = s[:700] + " …… " + s[len(s)-700:]
	}
	return s
}
