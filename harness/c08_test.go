package harness

// C08 — clean, crash-free, restartable shutdown for every stop cause / timing.

import (
	"fmt"
	"strings"
	"testing"
)

func TestC08(t *testing.T) {
	res := newResult("C08", "scenarios: traffic (calls, notifications, batches, malformed records, empty batches, pushes) with Stop, peer close, Recv errors (EOF, EOF with a final record, closed-connection error, other error) and Send errors injected at every position, on channels whose Close does and does not unblock Recv; gated handlers; each under many schedules (the reader can hold a record while Stop runs). After WaitStatus the same server is started again on a fresh channel and probed. distinct = distinct event-log shape; non-trivial = the stop cause occurs while traffic is in flight")
	defer res.Write(t)
	installStuckHandler(t, res, "server did not shut down (deadlock or goroutine left behind)")
	rng := newRNG()
	runOne := func(sc *srvScenario, pick func(int) int) {
		r := runServerScenario(t, sc, pick, nil)
		in := r.replayInput(sc)
		if r.Stuck != "" {
			res.Violatef("server did not shut down: "+r.Stuck, in, "log: %s", shortLog(r.Log))
		}
		// ---- first cause and expected status
		cause := ""
		causeAt := -1
		inflightAtStop := map[string]bool{}
		started, finished := map[string]int{}, map[string]int{}
		readNotes := []string{}
		lastFinish, waitAt := -1, -1
		for i, e := range r.Log {
			f := strings.Fields(e)
			switch f[0] {
			case "run":
				if f[1] == "srv.stop.enter" && cause == "" {
					cause, causeAt = "stopped", i
				}
			case "readerr":
				if cause == "" {
					causeAt = i
					switch {
					case strings.Contains(e, "EOF"), strings.Contains(e, "closed network"):
						cause = "closed"
					default:
						cause = "err:" + strings.TrimPrefix(e, "readerr ")
					}
				}
			case "read":
				if cause == "" && len(f) > 2 {
					for _, tag := range strings.Split(f[2], ",") {
						if _, note := tagUID(tag); note && validMember(r.readText(f[1]), tag) {
							readNotes = append(readNotes, tag)
						}
					}
				}
			case "hstart":
				started[f[1]] = i
			case "hfinish":
				finished[f[1]] = i
				if !strings.HasPrefix(f[1], "c77") { // the probe of the restarted server runs after the first WaitStatus by design
					lastFinish = i
				}
				if causeAt >= 0 && started[f[1]] > causeAt && !strings.Contains(f[1], "n") && !strings.HasPrefix(f[1], "c77") {
					// a call that was already dispatched (parked at the notification barrier) when the server
					// stopped may still start - with a context that has ended
					if !strings.Contains(e, `ctx="context canceled"`) {
						res.Violatef("a call handler started on the stopped server with a live context", in, "%s; log: %s", e, shortLog(r.Log))
					}
				}
				if causeAt >= 0 && started[f[1]] < causeAt && !strings.Contains(f[1], "n") {
					inflightAtStop[f[1]] = true
					if !strings.Contains(e, `ctx="context canceled"`) {
						res.Violatef("in-flight call handler did not see its context cancelled by the stop", in, "%s; log: %s", e, shortLog(r.Log))
					}
				}
			case "waitstatus":
				waitAt = i
			}
		}
		if cause == "" {
			cause = "closed" // the harness closes the peer end at the end of every run
		}
		if r.Status != nil {
			got := statusText(*r.Status)
			if strings.HasPrefix(got, "invalid") {
				res.Violatef("WaitStatus reports more than one flag", in, "%s", got)
			} else if got != cause && !(strings.HasPrefix(cause, "err:") && strings.HasPrefix(got, "err:")) {
				res.Violatef("WaitStatus does not report the first stop cause: want "+strings.SplitN(cause, ":", 2)[0]+" got "+strings.SplitN(got, ":", 2)[0], in,
					"want %s got %s; log: %s", cause, got, shortLog(r.Log))
			}
		}
		if waitAt >= 0 && lastFinish > waitAt {
			res.Violatef("WaitStatus returned before every handler had returned", in, "log: %s", shortLog(r.Log))
		}
		for tag := range started {
			if _, ok := finished[tag]; !ok {
				res.Violatef("a handler never returned", in, "%s; log: %s", tag, shortLog(r.Log))
			}
		}
		// every valid notification received before the stop is still handed to its handler
		for _, n := range readNotes {
			if _, ok := started[n]; !ok {
				res.Violatef("a notification received before the stop was never handled", in, "%s; log: %s", n, shortLog(r.Log))
			}
		}
		if len(r.Leaked) > 0 {
			res.Violatef("goroutine left behind after WaitStatus returned: "+r.Leaked[0], in, "%v; log: %s", r.Leaked, shortLog(r.Log))
		}
		c10Report(res, "server", r.sch.st, in, 1)
		if sc.Restart && r.Status != nil {
			okOut, okStatus := false, false
			for _, e := range r.Log {
				if strings.HasPrefix(e, "restart-out ") && strings.Contains(e, `"id":777`) && strings.Contains(e, `"result"`) && !strings.Contains(e, `"error"`) {
					okOut = true // the whole probe batch - ids of the first run included - answered with results
				}
				if strings.HasPrefix(e, "restart-status closed closes=1") {
					okStatus = true
				}
			}
			if !okOut || !okStatus {
				res.Violatef("restarted server does not serve normally", in, "log: %s", shortLog(r.Log))
			}
		}
		res.Case(logShape(r.Log), len(inflightAtStop) > 0 || causeAt >= 0, map[string]any{"cause": cause, "status": fmt.Sprint(r.Status != nil), "choices": len(r.Choices)})
		res.Count("cause:" + strings.SplitN(cause, ":", 2)[0])
		if sc.NoUnblock {
			res.Count("close-does-not-unblock-recv")
		}
	}
	if sr, ok := loadSchedReplay(); ok {
		runOne(&sr.Scenario, sr.picker())
	} else {
		junk := []envOp{{Kind: "send", Arg: `{bad`}, {Kind: "send", Arg: `[]`}, {Kind: "send", Arg: `{"jsonrpc":"2.0","method":"m","params":["n500","ok"],"zz":1}`},
			{Kind: "send", Arg: `5`}, {Kind: "notify", Arg: "p1"}, {Kind: "callback", Arg: "k1"}, {Kind: "callbackbg", Arg: "k8"}, {Kind: "send", Arg: reqNote("n503", "cb:k9")}, {Kind: "send", Arg: reqNote("n501", "ok")}, {Kind: "send", Arg: reqNote("n502", "err")}}
		for i := 0; i < pick(250, 2500); i++ {
			sc := &srvScenario{Concurrency: 1 + rng.Intn(3), AllowPush: rng.Intn(2) == 0, Restart: true, NoUnblock: rng.Intn(3) == 0}
			sc.Ops = genTrafficOpts(rng, 2+rng.Intn(4), 0, 0, 3, true)
			for k := rng.Intn(4); k > 0; k-- {
				sc.Ops = insertOp(rng, sc.Ops, junk[rng.Intn(len(junk))])
			}
			switch rng.Intn(6) {
			case 0, 1:
				sc.Ops = insertOp(rng, sc.Ops, envOp{Kind: "stop"})
			case 2:
				sc.Ops = insertOp(rng, sc.Ops, envOp{Kind: "close"})
			case 3:
				sc.RecvFailAt = 1 + rng.Intn(len(sc.Ops)+1)
				sc.RecvFailKind = []string{"eof", "eofdata", "closing", "other"}[rng.Intn(4)]
			case 4:
				sc.SendFailAt = 1 + rng.Intn(3)
				if rng.Intn(2) == 0 {
					sc.Ops = insertOp(rng, sc.Ops, envOp{Kind: "stop"})
				}
				if sc.AllowPush {
					sc.Ops = insertOp(rng, sc.Ops, envOp{Kind: "callback", Arg: "k7"})
				}
			case 5:
				sc.Ops = insertOp(rng, sc.Ops, envOp{Kind: "stop"})
				sc.Ops = insertOp(rng, sc.Ops, envOp{Kind: "stop"})
			}
			if sc.NoUnblock && sc.RecvFailAt == 0 {
				// the reader only ends when the peer closes: keep traffic coming after the stop
				sc.Ops = append(sc.Ops, junk[rng.Intn(4)], envOp{Kind: "send", Arg: reqCall(990, "c990", "ok")})
			}
			for j := 0; j < pick(6, 20); j++ {
				runOne(sc, seededPick(rng))
			}
		}
		// corpus: the three crashes of the pinned tree
		corpus := []*srvScenario{
			{Concurrency: 1, NoUnblock: true, Restart: true, Ops: []envOp{{Kind: "stop"}, {Kind: "send", Arg: `{bad`}, {Kind: "send", Arg: `[]`}, {Kind: "send", Arg: reqCall(1, "c1", "ok")}}},
			{Concurrency: 1, Restart: true, Ops: []envOp{{Kind: "send", Arg: reqCall(1, "c1", "ok")}, {Kind: "stop"}, {Kind: "send", Arg: `{bad`}}},
			{Concurrency: 1, Restart: true, Ops: []envOp{{Kind: "send", Arg: reqNote("n1", "ok")}, {Kind: "send", Arg: reqNote("n2", "ok")}, {Kind: "send", Arg: `{"jsonrpc":"2.0","method":"m","params":["n3","ok"],"zz":1}`}, {Kind: "stop"}}},
			{Concurrency: 2, AllowPush: true, Restart: true, Ops: []envOp{{Kind: "send", Arg: reqCall(1, "c1", "ok")}, {Kind: "callback", Arg: "k1"}, {Kind: "stop"}}},
			// notifications written with an explicit null id, queued behind an earlier notification when the server stops
			{Concurrency: 1, Restart: true, Ops: []envOp{{Kind: "send", Arg: reqNote("n1", "ok")}, {Kind: "send", Arg: `{"jsonrpc":"2.0","id":null,"method":"m","params":["n2","ok"]}`},
				{Kind: "send", Arg: reqBatch(`{"jsonrpc":"2.0","id":null,"method":"m","params":["n3","ok"]}`, reqCall(4, "c4", "ok"), reqNote("n5", "ok"))}, {Kind: "stop"}}},
			// callbacks whose context can never end, unanswered when the server goes down
			{Concurrency: 2, AllowPush: true, Restart: true, Ops: []envOp{{Kind: "callbackbg", Arg: "k1"}, {Kind: "stop"}}},
			{Concurrency: 2, AllowPush: true, Ops: []envOp{{Kind: "send", Arg: reqNote("n1", "cb:k1")}, {Kind: "callbackbg", Arg: "k2"}, {Kind: "close"}}},
			{Concurrency: 2, AllowPush: true, RecvFailAt: 2, RecvFailKind: "other", Ops: []envOp{{Kind: "send", Arg: reqNote("n1", "cb:k1")}, {Kind: "callbackbg", Arg: "k2"}}},
			{Concurrency: 2, AllowPush: true, SendFailAt: 1, Ops: []envOp{{Kind: "callback", Arg: "k1"}, {Kind: "send", Arg: reqCall(1, "c1", "ok")}, {Kind: "stop"}}},
			{Concurrency: 2, AllowPush: true, SendFailAt: 2, Ops: []envOp{{Kind: "notify", Arg: "p1"}, {Kind: "callback", Arg: "k1"}, {Kind: "callback", Arg: "k2"}, {Kind: "close"}}},
		}
		for _, sc := range corpus {
			for j := 0; j < pick(60, 600); j++ {
				runOne(sc, seededPick(rng))
			}
		}
	}
	res.Traces = res.Evaluations
	res.Agreements = res.Evaluations
}
