package harness

// C09 — server push: Notify / Callback delivery, matching, timeout, shutdown semantics.

import (
	"context"
	"encoding/json"
	"fmt"
	"strconv"
	"strings"
	"testing"

	"github.com/creachadair/jrpc2"
	"github.com/creachadair/jrpc2/handler"
)

// c09PushGate: the gates come first, whatever the parameters are - without AllowPush every Notify
// and Callback is ErrPushUnsupported, after the connection has ended ErrConnClosed - and nothing is
// transmitted (also for parameters that would be refused on their own account).
func c09PushGate(res *Result) {
	params := []struct {
		name string
		v    any
	}{{"nil", nil}, {"array", []int{1}}, {"object", map[string]int{"k": 1}}, {"scalar", 5}, {"string", "s"}, {"null", json.RawMessage("null")},
		{"unencodable", make(chan int)}, {"bad raw", json.RawMessage(`{"a":`)}, {"typed nil", (*int)(nil)}}
	for _, state := range []string{"no-push", "ended"} {
		for _, p := range params {
			cli, sch := newVPair()
			srv := jrpc2.NewServer(handler.Map{}, &jrpc2.ServerOptions{AllowPush: state == "ended"}).Start(sch)
			want := jrpc2.ErrPushUnsupported
			if state == "ended" {
				cli.Close()
				srv.Wait()
				want = jrpc2.ErrConnClosed
			}
			before := sch.st.sends.Load()
			ctx := context.Background()
			nerr := srv.Notify(ctx, "n", p.v)
			_, cerr := srv.Callback(ctx, "c", p.v)
			in := map[string]any{"server": state, "params": p.name}
			res.Case("pushgate/"+state+"/"+p.name, true, in)
			res.Count("push-gate")
			res.Traces++
			if nerr != want || cerr != want || sch.st.sends.Load() != before {
				res.Violatef("Notify / Callback on a server that cannot push did not return the gate's error (or transmitted something)", in,
					"want %v; Notify: %v, Callback: %v; %d records sent", want, nerr, cerr, sch.st.sends.Load()-before)
			} else {
				res.Agreements++
			}
			if state != "ended" {
				cli.Close()
				srv.Wait()
			}
		}
	}
}

func TestC09(t *testing.T) {
	res := newResult("C09", "scenarios: concurrent callbacks and notifications issued from handlers (also from a notification handler that awaits its callback) and from outside, peer replies in any order incl. error replies, duplicates, late and unsolicited ids, context cancellation vs reply vs Stop in every order the scheduler picks, client calls whose ids collide with callback ids, with and without AllowPush. distinct = distinct event-log shape; non-trivial = at least one callback outstanding when another event races it")
	defer res.Write(t)
	installStuckHandler(t, res, "server did not shut down with callbacks outstanding")
	rng := newRNG()
	var lines []string
	type expect struct {
		in  any
		obs []string
		log []string
	}
	var exps []expect
	runOne := func(sc *srvScenario, pick func(int) int) {
		r := runServerScenario(t, sc, pick, nil)
		in := r.replayInput(sc)
		if r.Stuck != "" {
			res.Violatef("server did not shut down: "+r.Stuck, in, "log: %s", shortLog(r.Log))
		}
		if len(r.Leaked) > 0 {
			res.Violatef("goroutine left behind after WaitStatus returned: "+r.Leaked[0], in, "%v; log: %s", r.Leaked, shortLog(r.Log))
		}
		for _, e := range r.Log {
			// the same server started again: a callback of the new run, answered after late replies to
			// the callbacks of the previous run, returns its own reply
			if strings.HasPrefix(e, "restart-cb ") && !strings.HasSuffix(e, ` ok:"fresh"`) {
				res.Violatef("a callback of the restarted server was not completed by its own reply (a late reply to a callback of the previous run was taken for it)", in, "%s; log: %s", e, shortLog(r.Log))
			}
		}
		var trace, obs []string
		idOf := map[string]string{} // callback tag -> id
		tagOf := map[string]string{}
		seenIDs := map[string]bool{}
		returns := map[string]int{}
		issued := map[string]bool{}
		pushedNotes, notifyLost := 0, 0
		sendFailed := map[string]bool{} // callback tags whose request was lost in transmission
		notifyCalls, notifyRefused := 0, 0
		stopped := false
		racing := false
		shutdown := false // after the quiescent point the run is free-running (peer closed): only count returns
		for i, e := range r.Log {
			f := strings.Fields(e)
			if f[0] == "quiescent" {
				shutdown = true
			}
			if shutdown && f[0] != "cbreturn" {
				continue
			}
			switch f[0] {
			case "callback":
				issued[f[1]] = true
			case "out", "outfail":
				// (a request whose Send failed was registered and handed to the channel all the same: for the
				// callback table it is outstanding until its context ends or the server stops; only the
				// caller is told at once)
				msg := strings.TrimPrefix(strings.TrimPrefix(e, "outfail "), "out ")
				lost := f[0] == "outfail"
				var m struct {
					ID     json.RawMessage     `json:"id"`
					Method string              `json:"method"`
					Params []string            `json:"params"`
					Error  *struct{ Code int } `json:"error"`
				}
				if json.Unmarshal([]byte(msg), &m) != nil {
					continue
				}
				switch m.Method {
				case "cbm":
					id := string(m.ID)
					if seenIDs[id] {
						res.Violatef("callback id reused", in, "id %s; log: %s", id, shortLog(r.Log))
					}
					seenIDs[id] = true
					if len(m.Params) > 0 {
						idOf[m.Params[0]] = id
						tagOf[id] = m.Params[0]
						issued[m.Params[0]] = true
						if lost {
							sendFailed[m.Params[0]] = true
						}
					}
					if lost {
						trace = append(trace, "cf:"+id)
					} else {
						trace = append(trace, "c:"+id)
					}
					if !sc.AllowPush {
						res.Violatef("callback transmitted although push is not enabled", in, "%s", msg)
					}
				case "nm":
					if lost {
						notifyLost++
						continue
					}
					pushedNotes++
					trace = append(trace, "n")
					if len(m.ID) != 0 {
						res.Violatef("pushed notification carries an id", in, "%s", msg)
					}
					if !sc.AllowPush {
						res.Violatef("notification transmitted although push is not enabled", in, "%s", msg)
					}
				case "":
					// a response: must answer one of the client's own calls (ids >= 100 or "mk…"), never a peer reply
					if m.Error != nil && m.Error.Code == -32600 && sc.AllowPush {
						var idn int
						if json.Unmarshal(m.ID, &idn) == nil && idn < 100 {
							res.Violatef("a late / unsolicited callback reply provoked an error response the client can mistake for its own", in, "%s; log: %s", msg, shortLog(r.Log))
						}
					}
				}
			case "read":
				if stopped {
					continue
				}
				rec := r.readText(f[1])
				type rmsg struct {
					ID     json.RawMessage `json:"id"`
					Method string          `json:"method"`
					Result json.RawMessage `json:"result"`
					Error  json.RawMessage `json:"error"`
				}
				var ms []rmsg
				if json.Unmarshal([]byte(rec), &ms) != nil { // not a batch: a single message
					ms = make([]rmsg, 1)
					if json.Unmarshal([]byte(rec), &ms[0]) != nil {
						ms = nil
					}
				}
				for _, m := range ms {
					if m.Method == "" && (m.Result != nil || m.Error != nil) {
						payload := 1
						if m.Error != nil {
							payload = 2
						}
						if n, err := strconv.Atoi(string(m.ID)); err == nil {
							trace = append(trace, fmt.Sprintf("r:%d:%d", n, payload))
						}
					}
				}
			case "run":
				switch f[1] {
				case "srv.waitcb.enter":
					if len(f) > 2 {
						trace = append(trace, "w:"+f[2])
						racing = true
					}
				case "srv.stop.enter":
					if !stopped {
						stopped = true
						trace = append(trace, "x")
					}
				}
			case "readerr":
				if !stopped {
					stopped = true
					trace = append(trace, "x")
				}
			case "quiescent":
				if len(r.Snap.Callbacks) != 0 {
					// callbacks may legitimately be outstanding at quiescence (nobody answered); fine
				}
			case "nfyreturn":
				notifyCalls++
				if strings.Contains(e, "not enabled") || strings.Contains(e, "closed") {
					notifyRefused++
				}
			case "cbreturn":
				tag := f[1]
				returns[tag]++
				if shutdown {
					continue
				}
				got := strings.Join(f[2:], " ")
				id, pushed := idOf[tag]
				switch {
				case !pushed:
					// refused before transmission (or lost in transmission: the Send failed)
					if !(strings.Contains(got, "not enabled") || strings.Contains(got, "closed")) {
						res.Violatef("Callback returned without transmitting and without a gate error", in, "%s; log: %s", e, shortLog(r.Log))
					}
					trace = append(trace, "C")
				case sendFailed[tag]:
					if !strings.Contains(got, "send failed") {
						res.Violatef("Callback whose request could not be sent did not report that", in, "%s; log: %s", e, shortLog(r.Log))
					}
				default:
					trace = append(trace, "o:"+id)
					switch {
					case strings.HasPrefix(got, "ok:"):
						if strings.Contains(got, "res-") && !strings.Contains(got, "res-"+tag+`"`) {
							res.Violatef("Callback returned another callback's reply", in, "%s (its id is %s); log: %s", e, id, shortLog(r.Log))
						}
						obs = append(obs, id+"=reply:1")
					case strings.Contains(got, "cberr-"):
						if !strings.Contains(got, "cberr-"+tag) {
							res.Violatef("Callback returned another callback's reply", in, "%s; log: %s", e, shortLog(r.Log))
						}
						obs = append(obs, id+"=reply:2")
					case strings.Contains(got, "invalid error value") || strings.HasPrefix(got, "err:[0]"):
						// the client reported a failure with an error member that is not an error object:
						// still a failure reply, surfaced as an *Error
						obs = append(obs, id+"=reply:2")
					default:
						// the context's own error (or the stop's) - never a synthesized *Error with the
						// cancellation codes, which a caller cannot compare with context.Canceled
						if strings.HasPrefix(got, "err:[-32097]") || strings.HasPrefix(got, "err:[-32096]") {
							res.Violatef("Callback returned an *Error in place of its context's error", in, "%s; log: %s", e, shortLog(r.Log))
						}
						obs = append(obs, id+"=ctx")
					}
				}
				_ = i
			}
		}
		for tag, n := range returns {
			if n != 1 {
				res.Violatef(fmt.Sprintf("Callback returned %d times", n), in, "%s; log: %s", tag, shortLog(r.Log))
			}
		}
		for tag := range issued {
			if returns[tag] == 0 {
				res.Violatef("Callback never returned", in, "%s; log: %s", tag, shortLog(r.Log))
			}
		}
		if notifyCalls-notifyRefused != pushedNotes+notifyLost {
			res.Violatef("Notify did not transmit exactly one request per accepted call", in, "%d accepted, %d transmitted; log: %s", notifyCalls-notifyRefused, pushedNotes, shortLog(r.Log))
		}
		res.Case(logShape(r.Log), racing || len(idOf) > 1, map[string]any{"trace": strings.Join(trace, " "), "obs": obs})
		a := "0"
		if sc.AllowPush {
			a = "1"
		}
		lines = append(lines, "c09 "+a+" "+strings.Join(trace, " "))
		exps = append(exps, expect{in, obs, r.Log})
	}
	if sr, ok := loadSchedReplay(); ok {
		runOne(&sr.Scenario, sr.picker())
	} else {
		for i := 0; i < pick(250, 2500); i++ {
			sc := &srvScenario{Concurrency: 2 + rng.Intn(2), AllowPush: rng.Intn(6) != 0, RestartCB: rng.Intn(3) == 0}
			var ops []envOp
			ncb := 1 + rng.Intn(3)
			for k := 1; k <= ncb; k++ {
				tag := fmt.Sprintf("k%d", k)
				switch rng.Intn(3) {
				case 0:
					ops = append(ops, envOp{Kind: "callback", Arg: tag})
				case 1:
					ops = append(ops, envOp{Kind: "send", Arg: reqCall(100+k, fmt.Sprintf("c%d", 100+k), "cb:"+tag)})
				case 2: // a notification handler that awaits a callback; a later call must wait for it, the reply must still get through
					ops = append(ops, envOp{Kind: "send", Arg: reqNote(fmt.Sprintf("n%d", 100+k), "cb:"+tag)}, envOp{Kind: "send", Arg: reqCall(200+k, fmt.Sprintf("c%d", 200+k), "ok")})
				}
				switch rng.Intn(7) {
				case 5:
					ops = append(ops, envOp{Kind: []string{"cbreplybad", "cbreplyarr"}[rng.Intn(2)], Arg: tag})
				case 6:
					ops = append(ops, envOp{Kind: "cbreply", Arg: tag}, envOp{Kind: "cbreplybad", Arg: tag}) // a late, malformed failure report
				case 0:
					ops = append(ops, envOp{Kind: "cbreply", Arg: tag})
				case 1:
					ops = append(ops, envOp{Kind: "cbreplyerr", Arg: tag})
				case 2:
					ops = append(ops, envOp{Kind: "cbreply", Arg: tag}, envOp{Kind: "cbreply", Arg: tag}) // duplicate
				case 3:
					ops = append(ops, envOp{Kind: "cbcancel", Arg: tag}, envOp{Kind: "cbreply", Arg: tag}) // cancel races the reply
				case 4:
					ops = append(ops, envOp{Kind: "reply", Arg: fmt.Sprintf(`{"jsonrpc":"2.0","id":%d,"result":"unsolicited"}`, 1+rng.Intn(5))})
				}
			}
			// the client's own calls use small ids that collide with callback ids
			for k := rng.Intn(3); k > 0; k-- {
				ops = insertOp(rng, ops, envOp{Kind: "send", Arg: reqCall(300+rng.Intn(3), fmt.Sprintf("c%d", 300+k), "ok")})
			}
			if rng.Intn(3) == 0 {
				ops = insertOp(rng, ops, envOp{Kind: "notify", Arg: "p1"})
			}
			if rng.Intn(3) == 0 {
				ops = insertOp(rng, ops, envOp{Kind: "send", Arg: reqCall(400, "c400", "nfy")})
			}
			if rng.Intn(4) == 0 {
				ops = insertOp(rng, ops, envOp{Kind: "stop"})
			}
			sc.Ops = ops
			for j := 0; j < pick(6, 20); j++ {
				runOne(sc, seededPick(rng))
			}
		}
		corpus := []*srvScenario{
			// F9: late reply to callback 1 while the client's own call 1 is in flight
			{Concurrency: 2, AllowPush: true, Ops: []envOp{{Kind: "callback", Arg: "k1"}, {Kind: "cbcancel", Arg: "k1"}, {Kind: "send", Arg: reqCall(1, "Hc1", "ok")}, {Kind: "reply", Arg: `{"jsonrpc":"2.0","id":1,"result":"late"}`}}},
			{Concurrency: 2, AllowPush: true, Ops: []envOp{{Kind: "callback", Arg: "k1"}, {Kind: "cbreply", Arg: "k1"}, {Kind: "send", Arg: reqCall(1, "Hc1", "ok")}, {Kind: "cbreply", Arg: "k1"}}},
			{Concurrency: 2, AllowPush: true, Ops: []envOp{{Kind: "callback", Arg: "k1"}, {Kind: "stop"}}},
			// the server is started again: callback ids of the new run must not be answerable by late replies to the old run's
			{Concurrency: 2, AllowPush: true, RestartCB: true, Ops: []envOp{{Kind: "callback", Arg: "k1"}, {Kind: "stop"}}},
			{Concurrency: 2, AllowPush: true, RestartCB: true, Ops: []envOp{{Kind: "callback", Arg: "k1"}, {Kind: "cbreply", Arg: "k1"}, {Kind: "callback", Arg: "k3"}, {Kind: "stop"}}},
			// the transport fails to send the callback request: Callback returns that error, and the server lives on
			{Concurrency: 2, AllowPush: true, SendFailAt: 1, Ops: []envOp{{Kind: "callback", Arg: "k1"}, {Kind: "callback", Arg: "k3"}, {Kind: "cbreply", Arg: "k3"}}},
			{Concurrency: 2, AllowPush: true, SendFailAt: 2, Ops: []envOp{{Kind: "callback", Arg: "k1"}, {Kind: "send", Arg: reqCall(100, "c100", "cb:k3")}, {Kind: "cbreply", Arg: "k1"}, {Kind: "stop"}}},
			{Concurrency: 2, AllowPush: true, Ops: []envOp{{Kind: "callback", Arg: "k1"}, {Kind: "cbreplybad", Arg: "k1"}}},
			{Concurrency: 2, AllowPush: true, Ops: []envOp{{Kind: "callback", Arg: "k1"}, {Kind: "cbreplyarr", Arg: "k1"}}},
			{Concurrency: 2, AllowPush: true, Ops: []envOp{{Kind: "callback", Arg: "k1"}, {Kind: "cbreply", Arg: "k1"}, {Kind: "send", Arg: reqCall(1, "Hc1", "ok")}, {Kind: "cbreplybad", Arg: "k1"}}},
			{Concurrency: 2, AllowPush: false, Ops: []envOp{{Kind: "callback", Arg: "k1"}, {Kind: "notify", Arg: "p1"}, {Kind: "send", Arg: reqCall(100, "c100", "cb:k2")}}},
			{Concurrency: 2, AllowPush: true, Ops: []envOp{{Kind: "send", Arg: reqNote("n100", "cb:k1")}, {Kind: "send", Arg: reqCall(200, "c200", "ok")}, {Kind: "cbreply", Arg: "k1"}}},
		}
		for _, sc := range corpus {
			for j := 0; j < pick(40, 400); j++ {
				runOne(sc, seededPick(rng))
			}
		}
	}
	c09PushGate(res)
	model := runOracle(t, lines)
	for i, m := range model {
		res.Traces++
		ex := exps[i]
		if strings.HasPrefix(m, "reject") || m == "bad-op" {
			res.Violatef("push behaviour differs from the callback-table rules: "+strings.Join(strings.Fields(m)[2:3], ""), ex.in, "%s; trace %s; log: %s", m, lines[i], shortLog(ex.log))
			continue
		}
		got := strings.TrimSpace(strings.SplitN(m, "|", 2)[0])
		if got == strings.Join(ex.obs, " ") {
			res.Agreements++
		} else {
			res.Violatef("Callback returned something other than its own reply / its context's error: "+firstObsDiff(strings.Fields(got), ex.obs), ex.in,
				"model %q observed %q; trace %s; log: %s", got, strings.Join(ex.obs, " "), lines[i], shortLog(ex.log))
		}
	}
}
