package harness

// C10 — channel discipline: one sender, one receiver, one Close, whole messages.
// Observed through the instrumented in-memory channel (vchan) on both the server's and the
// client's end, under the deterministic scheduler and under free-running contention.

import (
	"context"
	"encoding/json"
	"fmt"
	"math/rand"
	"strings"
	"sync"
	"sync/atomic"
	"testing"
	"time"

	"github.com/creachadair/jrpc2"
	"github.com/creachadair/jrpc2/handler"
)

func c10Report(res *Result, who string, st *chanStats, in any, wantCloses int32) {
	for _, p := range st.Problems() {
		res.Violatef("channel contract broken by the "+who+": "+firstWords(p, 6), in, "%s", p)
	}
	if c := st.closes.Load(); c != wantCloses {
		res.Violatef(fmt.Sprintf("%s called Close %d times for one start", who, c), in, "want %d", wantCloses)
	}
}

func firstWords(s string, n int) string {
	k := 0
	for i, c := range s {
		if c == ' ' {
			k++
			if k == n {
				return s[:i]
			}
		}
	}
	return s
}

// method names of pushed / outbound requests: ordinary ones and names whose JSON encoding needs
// care (control characters, DEL, quotes, non-BMP); whatever the name, the record handed to Send
// must be one complete JSON-RPC message
var c10Methods = []string{"n", "q", "n\x01", "\a\v", "\x7f\x00", "q\"\\", "é😀\u2028", "\U0010ffff"}

func TestC10(t *testing.T) {
	res := newResult("C10", "workloads: (1) server scenarios with calls, batches, pushes (Notify / Callback from handlers and from outside), CancelRequest and Stop under the deterministic scheduler; (2) free-running contention on a server: concurrent pushes, callbacks, inbound calls, Stop; (3) free-running contention on a client: concurrent Call / Notify / Batch, server-initiated callbacks answered by OnCallback, context cancellation, Close. Every Send / Recv / Close on the instrumented channel is counted, overlaps are detected, every record handed to Send is validated. distinct = distinct workload x schedule/seed; non-trivial = all")
	defer res.Write(t)
	installStuckHandler(t, res, "server deadlocked under a push / stop workload")
	rng := newRNG()

	// (1) scheduled server scenarios
	for i := 0; i < pick(150, 1500); i++ {
		sc := &srvScenario{Concurrency: 1 + rng.Intn(3), AllowPush: true}
		sc.Ops = genTrafficOpts(rng, 2+rng.Intn(4), 0, 0, 3, true)
		extra := []envOp{{Kind: "notify", Arg: "p1"}, {Kind: "callback", Arg: "k1"}, {Kind: "cbreply", Arg: "k1"}, {Kind: "callback", Arg: "k2"}, {Kind: "cbcancel", Arg: "k2"},
			{Kind: "send", Arg: reqCall(900+i%3, "c900", "cb:k3")}, {Kind: "cbreplyerr", Arg: "k3"}, {Kind: "send", Arg: `{bad`}, {Kind: "send", Arg: `[]`}, {Kind: "cancel", Arg: "1"}}
		for k := rng.Intn(5); k > 0; k-- {
			sc.Ops = insertOp(rng, sc.Ops, extra[rng.Intn(len(extra))])
		}
		if rng.Intn(3) == 0 {
			sc.Ops = insertOp(rng, sc.Ops, envOp{Kind: "stop"})
		}
		for j := 0; j < pick(4, 10); j++ {
			r := runServerScenario(t, sc, seededPick(rng), nil)
			res.Case("sched/"+logShape(r.Log), true, map[string]any{"ops": len(sc.Ops), "choices": len(r.Choices)})
			res.Count("scheduled-server")
			c10Report(res, "server", r.sch.st, r.replayInput(sc), 1)
			if r.Stuck != "" {
				res.Violatef("server run did not finish: "+r.Stuck, r.replayInput(sc), "log: %s", shortLog(r.Log))
			}
		}
	}

	// (1b) scheduled client scenarios: concurrent calls / batches / notifications, callbacks, context
	// ends, Close, peer EOF, Recv and Send failures, undecodable records - under the deterministic
	// scheduler, which can also pause inside a Send or Close that is not serialised by the client's mutex
	for i := 0; i < pick(120, 1200); i++ {
		sc := cliTraffic(rng, 1+rng.Intn(4), true)
		if i%3 == 0 { // the reader fails while other goroutines are using the client
			sc.RecvFailAt = 1 + rng.Intn(3)
			sc.RecvFailEOF = rng.Intn(2) == 0
		}
		for j := 0; j < pick(4, 10); j++ {
			r := runClientScenario(t, sc, seededPick(rng))
			in := map[string]any{"cliscenario": sc, "choices": r.Choices}
			res.Case("clisched/"+logShape(r.Log), true, map[string]any{"ops": len(sc.Ops), "choices": len(r.Choices)})
			res.Count("scheduled-client")
			for _, p := range r.cch.st.Problems() {
				res.Violatef("channel contract broken by the client: "+firstWords(p, 6), in, "%s", p)
			}
			if c := r.cch.st.closes.Load(); c > 1 {
				res.Violatef(fmt.Sprintf("client called Close %d times for one connection", c), in, "log: %s", shortLog(r.Log))
			}
			if r.Stuck != "" {
				res.Violatef("client run did not finish: "+r.Stuck, in, "log: %s", shortLog(r.Log))
			}
		}
	}

	// (2) free-running server contention
	for round := 0; round < pick(30, 300); round++ {
		cli, sch := newVPair()
		mux := handler.Map{"m": func(ctx context.Context, req *jrpc2.Request) (any, error) {
			if rand.Intn(3) == 0 {
				jrpc2.ServerFromContext(ctx).Notify(ctx, "n", []int{1})
			}
			if rand.Intn(4) == 0 {
				// pre-encoded parameters that are not one well-formed JSON value must be refused, not sent
				bad := []string{`{"file":"odd"name.txt"}`, `[1,2,`, `{"a":1}}`, `[1][2]`}[rand.Intn(4)]
				if err := jrpc2.ServerFromContext(ctx).Notify(ctx, "n", json.RawMessage(bad)); err == nil {
					sch.st.problem("malformed pre-encoded params were accepted by Server.Notify: %s", bad)
				}
			}
			return "ok", nil
		}, "raw": func(ctx context.Context, req *jrpc2.Request) (any, error) {
			return json.RawMessage(`{"items":[1,2,}`), nil // a pre-encoded result that is not valid JSON
		}, "rawok": func(ctx context.Context, req *jrpc2.Request) (any, error) {
			return json.RawMessage(" [ 1 ,\n 2 ] "), nil
		}, "errbad": func(ctx context.Context, req *jrpc2.Request) (any, error) {
			// error values whose data is not JSON, returned as they are and wrapped
			e := &jrpc2.Error{Code: 9, Message: "upstream", Data: json.RawMessage(`{"cut":`)}
			if rand.Intn(2) == 0 {
				return nil, fmt.Errorf("relay: %w", e)
			}
			return nil, e
		}}
		srv := jrpc2.NewServer(mux, &jrpc2.ServerOptions{AllowPush: true, Concurrency: 4}).Start(sch)
		var wg sync.WaitGroup
		stopAt := time.Now().Add(3 * time.Millisecond)
		for g := 0; g < 6; g++ {
			wg.Add(1)
			go func(g int) {
				defer wg.Done()
				for k := 0; time.Now().Before(stopAt); k++ {
					switch g % 3 {
					case 0:
						srv.Notify(context.Background(), c10Methods[k%len(c10Methods)], []int{k})
					case 1:
						cctx, cancel := context.WithTimeout(context.Background(), time.Millisecond)
						srv.Callback(cctx, c10Methods[(k+g)%len(c10Methods)], []int{k})
						cancel()
					case 2:
						cli.Send([]byte(fmt.Sprintf(`[{"jsonrpc":"2.0","id":%d,"method":"m"},{"jsonrpc":"2.0","method":"m"}]`, g*100000+k)))
						cli.Send([]byte(fmt.Sprintf(`[{"jsonrpc":"2.0","id":%d,"method":"raw"},{"jsonrpc":"2.0","id":"x%d","method":"rawok"}]`, g*100000+k, k)))
						cli.Send([]byte(fmt.Sprintf(`[{"jsonrpc":"2.0","id":"e%d","method":"errbad"},{"jsonrpc":"2.0","id":"y%d","method":"m"},{"jsonrpc":"2.0","id":"z%d","method":"errbad"}]`, k, k, k)))
					}
				}
			}(g)
		}
		go func() {
			for {
				if _, err := cli.Recv(); err != nil {
					return
				}
			}
		}()
		wg.Wait()
		if round%2 == 0 {
			srv.Stop()
		}
		cli.Close()
		srv.Wait()
		res.Case(fmt.Sprintf("free-server/%d", round), true, map[string]any{"sends": sch.st.sends.Load(), "recvs": sch.st.recvs.Load()})
		res.Count("free-server")
		c10Report(res, "server", sch.st, fmt.Sprintf("free-running server round %d", round), 1)
	}

	// (3) free-running client contention, with server-initiated callbacks
	for round := 0; round < pick(30, 300); round++ {
		sch, cch := newVPair()
		mux := handler.Map{"m": func(ctx context.Context, req *jrpc2.Request) (any, error) {
			if rsp, err := jrpc2.ServerFromContext(ctx).Callback(ctx, "cb", []int{1}); err == nil {
				return rsp.ResultString(), nil
			}
			return "ok", nil
		}, "q": func(ctx context.Context, req *jrpc2.Request) (any, error) { return "q", nil }}
		srv := jrpc2.NewServer(mux, &jrpc2.ServerOptions{AllowPush: true, Concurrency: 8}).Start(sch)
		var ncb atomic.Int32
		cli := jrpc2.NewClient(cch, &jrpc2.ClientOptions{OnCallback: func(ctx context.Context, req *jrpc2.Request) (any, error) {
			switch ncb.Add(1) % 4 {
			case 1: // a failure report whose data is not JSON: the reply must still be a whole message
				return nil, &jrpc2.Error{Code: 9, Message: "cb failed", Data: json.RawMessage(`{"partial":`)}
			case 2: // a pre-encoded result that is not JSON
				return json.RawMessage(`[1,2`), nil
			}
			return "cbres", nil
		}})
		var wg sync.WaitGroup
		stopAt := time.Now().Add(3 * time.Millisecond)
		for g := 0; g < 6; g++ {
			wg.Add(1)
			go func(g int) {
				defer wg.Done()
				for k := 0; time.Now().Before(stopAt); k++ {
					ctx, cancel := context.WithTimeout(context.Background(), 2*time.Millisecond)
					switch g % 3 {
					case 0:
						cli.Call(ctx, "m", nil)
					case 1:
						cli.Notify(ctx, c10Methods[k%len(c10Methods)], []int{k})
						// pre-encoded parameters that are not one well-formed JSON value must be refused, not sent
						if err := cli.Notify(ctx, "q", json.RawMessage([]string{`{"name":"value"`, `[1,2,`, `[1,2][3]`, `{"a":1}}`}[k%4])); err == nil {
							cch.st.problem("malformed pre-encoded params were accepted by Notify")
						}
					case 2:
						cli.Batch(ctx, []jrpc2.Spec{{Method: "q"}, {Method: "m"}, {Method: c10Methods[k%len(c10Methods)], Notify: true}, {Method: c10Methods[(k+1)%len(c10Methods)]}})
						// an empty batch is not a message: it must be refused, and nothing sent
						if _, err := cli.Batch(ctx, []jrpc2.Spec{}); err == nil {
							cch.st.problem("an empty batch was accepted by Batch")
						}
						if _, err := cli.Batch(ctx, nil); err == nil {
							cch.st.problem("a nil batch was accepted by Batch")
						}
					}
					cancel()
				}
			}(g)
		}
		wg.Wait()
		cli.Close()
		srv.Wait()
		res.Case(fmt.Sprintf("free-client/%d", round), true, map[string]any{"sends": cch.st.sends.Load(), "recvs": cch.st.recvs.Load()})
		res.Count("free-client")
		c10Report(res, "client", cch.st, fmt.Sprintf("free-running client round %d", round), 1)
		c10Report(res, "server", sch.st, fmt.Sprintf("free-running client round %d (server end)", round), 1)
	}

	// (4) channels handed to servers by server.Loop: connections that are served to the end, that are
	// refused because the Assigner failed, whose transport breaks (error exit status), with context
	// cancellation and accepter failures in between - each is closed exactly once
	loopKinds := []string{"connect", "connect", "connectbroken", "connectsendfail", "connectfail", "clientclose", "cancel", "call", "acceptclosing", "acceptfail"}
	for i := 0; i < pick(60, 600); i++ {
		sc := &loopScenario{}
		conns := 0
		for j := 1 + rng.Intn(6); j > 0; j-- {
			op := loopOp{Kind: loopKinds[rng.Intn(len(loopKinds))]}
			switch {
			case strings.HasPrefix(op.Kind, "connect"):
				if conns >= 4 {
					continue
				}
				conns++
				op.Arg = rng.Intn(2)
			case op.Kind == "clientclose" || op.Kind == "call":
				if conns == 0 {
					continue
				}
				op.Arg = rng.Intn(conns)
			}
			sc.Ops = append(sc.Ops, op)
			if strings.HasPrefix(op.Kind, "accept") {
				break
			}
		}
		r := runLoopScenario(t, sc)
		in := map[string]any{"loopscenario": sc}
		res.Case("loop/"+fmt.Sprint(sc.Ops), conns >= 2, map[string]any{"ops": sc.Ops})
		res.Count("loop")
		for _, e := range r.Log {
			f := strings.Fields(e)
			if f[0] != "closes" {
				continue
			}
			if f[2] != "1" {
				res.Violatef("Close called "+f[2]+" times on a channel handed to a server by Loop", in, "connection %s; log: %s", f[1], shortLog(r.Log))
			}
			if !strings.HasSuffix(e, "problems=[]") {
				res.Violatef("channel contract broken by a server started by Loop", in, "%s; log: %s", e, shortLog(r.Log))
			}
		}
	}
	res.Traces = res.Evaluations
	res.Agreements = res.Evaluations - len(res.Violations)
}
