package harness

// C11 — framing round trip; C12 — framing robustness on arbitrary streams.

import (
	"bytes"
	"context"
	"encoding/json"
	"errors"
	"fmt"
	"io"
	"math/rand"
	"os"
	"os/exec"
	"strings"
	"sync"
	"testing"
	"time"

	"github.com/creachadair/jrpc2"
	"github.com/creachadair/jrpc2/channel"
	"github.com/creachadair/jrpc2/handler"
)

// chunkReader delivers a byte stream in chunks of scripted sizes.
type chunkReader struct {
	data    []byte
	sizes   []int // successive chunk sizes; when exhausted, the last size repeats (default 1<<30)
	i       int
	withEOF bool // deliver the final bytes together with io.EOF
}

func (c *chunkReader) Read(p []byte) (int, error) {
	if len(c.data) == 0 {
		return 0, io.EOF
	}
	n := 1 << 30
	if len(c.sizes) > 0 {
		if c.i < len(c.sizes) {
			n = c.sizes[c.i]
			c.i++
		} else {
			n = c.sizes[len(c.sizes)-1]
		}
	}
	if n < 1 {
		n = 1
	}
	if n > len(p) {
		n = len(p)
	}
	if n > len(c.data) {
		n = len(c.data)
	}
	copy(p, c.data[:n])
	c.data = c.data[n:]
	if len(c.data) == 0 && c.withEOF {
		return n, io.EOF
	}
	return n, nil
}

type bufWC struct {
	bytes.Buffer
	closed int
}

func (b *bufWC) Close() error { b.closed++; return nil }

type framingSpec struct {
	name string // oracle kind
	f    channel.Framing
}

func framingByName(kind string) channel.Framing {
	parts := strings.Split(kind, ":")
	switch parts[0] {
	case "split":
		var d int
		fmt.Sscan(parts[1], &d)
		return channel.Split(byte(d))
	case "hdr":
		mt, _ := hexDecode(parts[2])
		if parts[1] == "1" {
			return channel.Header(string(mt))
		}
		return channel.StrictHeader(string(mt))
	case "raw":
		return channel.RawJSON
	}
	panic("bad kind " + kind)
}

func errClass(err error) string {
	var se *json.SyntaxError
	var ute *json.UnmarshalTypeError
	switch {
	case err == nil:
		return ""
	case err == io.EOF:
		return "eof"
	case err == io.ErrUnexpectedEOF:
		return "ueof"
	case errors.As(err, &se):
		return "syntax"
	case errors.As(err, &ute):
		return "syntax"
	}
	switch err.Error() {
	case "invalid header line":
		return "badline"
	case "missing required content-length":
		return "nolen"
	case "invalid content-length":
		return "badlen"
	}
	return "other(" + err.Error() + ")"
}

// recvSeq performs n Recv calls and renders the results like the oracle does.
func recvSeq(ch channel.Channel, n int) (out []string, recs [][]byte) {
	for i := 0; i < n; i++ {
		func() {
			defer func() {
				if p := recover(); p != nil {
					out = append(out, fmt.Sprintf("PANIC(%v)", p))
				}
			}()
			data, err := ch.Recv()
			cp := append([]byte(nil), data...)
			var mm *channel.ContentTypeMismatchError
			switch {
			case err == nil:
				out = append(out, "K:"+hx(cp))
				recs = append(recs, cp)
			case errors.As(err, &mm):
				out = append(out, "M:"+hx(cp)+":"+hxs(mm.Got))
				recs = append(recs, cp)
			case len(cp) != 0:
				out = append(out, "KE:"+hx(cp)+":"+errClass(err))
			default:
				out = append(out, "E:"+errClass(err))
			}
		}()
	}
	return
}

const lspType = "application/vscode-jsonrpc; charset=utf-8"

func c11Kinds() []string {
	return []string{"split:10", "split:0", "split:30", "split:128", "split:255", "split:195",
		"hdr:0:-", "hdr:0:" + hxs("application/json"), "hdr:1:" + hxs("text/x"), "hdr:1:" + hxs(lspType), "raw",
		// a media type is compared as written, upper-case letters and parameters included
		"hdr:0:" + hxs("Application/X-Mixed; Charset=UTF-8"), "hdr:1:" + hxs("Text/X-Case")}
}

func randBytes(rng *rand.Rand, n int, exclude int) []byte {
	b := make([]byte, n)
	for i := range b {
		for {
			b[i] = byte(rng.Intn(256))
			if rng.Intn(4) == 0 {
				b[i] = []byte{0, 10, 13, 58, 255, 128, 195, 30, 34, 92, '{', '}'}[rng.Intn(12)]
			}
			if int(b[i]) != exclude {
				break
			}
		}
	}
	return b
}

func randJSONValue(rng *rand.Rand, depth int) string {
	switch r := rng.Intn(10); {
	case depth > 0 && r < 3:
		n := rng.Intn(4)
		parts := make([]string, n)
		for i := range parts {
			parts[i] = randJSONValue(rng, depth-1)
		}
		return "[" + strings.Join(parts, []string{",", " , ", ",\n"}[rng.Intn(3)]) + "]"
	case depth > 0 && r < 6:
		n := rng.Intn(4)
		parts := make([]string, n)
		for i := range parts {
			parts[i] = fmt.Sprintf("%s:%s", randJSONString(rng), randJSONValue(rng, depth-1))
		}
		return "{" + strings.Join(parts, ",") + "}"
	case r < 7:
		return randJSONString(rng)
	case r < 8:
		return []string{"0", "-0", "12", "-3.5e+7", "1e308", "9007199254740993", "0.1", "1E2"}[rng.Intn(8)]
	default:
		return []string{"true", "false", "null"}[rng.Intn(3)]
	}
}

func randJSONString(rng *rand.Rand) string {
	parts := []string{"a", "é", "\\n", "\\\"", "\\\\", "\\u00e9", "\\ud83d\\ude00", " ", "{", "]", ",", ":", "\\/", "😀", "\\t"}
	n := rng.Intn(5)
	s := ""
	for i := 0; i < n; i++ {
		s += parts[rng.Intn(len(parts))]
	}
	return `"` + s + `"`
}

// records legal for a framing
func c11Records(rng *rand.Rand, kind string, big bool) [][]byte {
	n := 1 + rng.Intn(6)
	recs := make([][]byte, n)
	for i := range recs {
		size := []int{0, 1, 2, 3, 7, 60, 300}[rng.Intn(7)]
		if big {
			size = []int{0, 4095, 4096, 4097, 8200, 70000, 1 << 20, 1<<20 + 1, 3 << 20, 5, 2 << 20, 1}[rng.Intn(12)]
		}
		switch {
		case strings.HasPrefix(kind, "split:"):
			var d int
			fmt.Sscan(kind[6:], &d)
			recs[i] = randBytes(rng, size, d)
		case strings.HasPrefix(kind, "hdr:"):
			recs[i] = randBytes(rng, size, -1)
		default: // raw: self-delimiting JSON values (objects, arrays, strings), or the empty record
			switch rng.Intn(8) {
			case 0:
				recs[i] = nil
			case 1:
				recs[i] = []byte(randJSONString(rng))
			default:
				v := randJSONValue(rng, 3)
				if v[0] != '{' && v[0] != '[' && v[0] != '"' {
					v = "[" + v + "]"
				}
				if big && rng.Intn(3) == 0 {
					v = `{"pad":"` + strings.Repeat("x", size) + `","v":` + v + `}`
				}
				recs[i] = []byte(v)
			}
		}
	}
	return recs
}

func cutScripts(rng *rand.Rand, n int, total int) []chunkReader {
	out := []chunkReader{{}, {sizes: []int{1}}, {withEOF: true}, {sizes: []int{1}, withEOF: true}, {sizes: []int{2}}, {sizes: []int{4096}}, {sizes: []int{4095, 1, 4097}}}
	for len(out) < n {
		k := 1 + rng.Intn(8)
		sz := make([]int, k)
		for i := range sz {
			sz[i] = 1 + rng.Intn(1+[]int{3, 17, 100, 5000, total + 1}[rng.Intn(5)])
		}
		out = append(out, chunkReader{sizes: sz, withEOF: rng.Intn(3) == 0})
	}
	return out[:n]
}

func sendAll(kind string, recs [][]byte) (stream []byte, outs [][]byte, errs []error) {
	w := &bufWC{}
	ch := framingByName(kind)(strings.NewReader(""), w)
	for _, r := range recs {
		before := w.Len()
		err := ch.Send(append([]byte(nil), r...))
		errs = append(errs, err)
		outs = append(outs, append([]byte(nil), w.Bytes()[before:]...))
	}
	return append([]byte(nil), w.Bytes()...), outs, errs
}

// holdWriter blocks inside Write - holding on to the caller's slice, as a slow transport does -
// until released, and only then copies the bytes.
type holdWriter struct {
	entered chan struct{}
	release chan struct{}
	got     bytes.Buffer
	once    sync.Once
}

func (w *holdWriter) Write(p []byte) (int, error) {
	first := false
	w.once.Do(func() { first = true; close(w.entered) })
	if first {
		<-w.release
	}
	return w.got.Write(p)
}
func (w *holdWriter) Close() error { return nil }

// c11SharedFraming: a Framing value is a constructor; channels built from one value are
// independent streams. One channel's Send is held inside the transport Write while a sibling
// channel sends; each stream must still decode to exactly its own record.
func c11SharedFraming(res *Result, rng *rand.Rand) {
	for _, kind := range c11Kinds() {
		if kind == "direct" {
			continue
		}
		f := framingByName(kind)
		for round := 0; round < 3; round++ {
			recs := c11Records(rng, kind, false)
			if len(recs) < 2 {
				continue
			}
			a, b := recs[0], recs[len(recs)-1]
			hw := &holdWriter{entered: make(chan struct{}), release: make(chan struct{})}
			var wb bufWC
			chA := f(bytes.NewReader(nil), hw)
			chB := f(bytes.NewReader(nil), &wb)
			errA := make(chan error, 1)
			go func() { errA <- chA.Send(a) }()
			in := map[string]any{"kind": kind, "a": hx(a), "b": hx(b)}
			select {
			case <-hw.entered:
			case e := <-errA:
				close(hw.release)
				if e != nil {
					res.Violatef("Send refused a legal record", in, "%v", e)
				}
				continue // nothing written (raw framing of an empty record writes "null\n": still enters) - nothing to hold
			case <-time.After(5 * time.Second):
				res.Violatef("Send never reached the transport", in, "")
				continue
			}
			eb := chB.Send(b)
			close(hw.release)
			ea := <-errA
			if ea != nil || eb != nil {
				res.Violatef("Send refused a legal record", in, "a: %v b: %v", ea, eb)
				continue
			}
			_, gotA := recvSeq(f(bytes.NewReader(hw.got.Bytes()), &bufWC{}), 1)
			_, gotB := recvSeq(f(bytes.NewReader(wb.Bytes()), &bufWC{}), 1)
			res.Case(fmt.Sprintf("shared/%s/%d/%d", kind, len(a), len(b)), true, in)
			res.Count("shared-framing-value")
			if len(gotA) != 1 || !bytes.Equal(gotA[0], a) {
				res.Violatef("two channels built from one Framing value interfere: a record held in the transport was overwritten by a sibling channel's Send", in,
					"%s: channel A sent %s, its stream decodes to %v", kind, abbrev1(hx(a)), gotA)
			}
			if len(gotB) != 1 || !bytes.Equal(gotB[0], b) {
				res.Violatef("two channels built from one Framing value interfere: a record held in the transport was overwritten by a sibling channel's Send", in,
					"%s: channel B sent %s, its stream decodes to %v", kind, abbrev1(hx(b)), gotB)
			}
		}
	}
}

func TestC11(t *testing.T) {
	res := newResult("C11", "record sequences legal for each framing (Split with 6 delimiters incl. >=0x80, StrictHeader, Header, LSP, RawJSON, Direct), sizes 0..3MiB growing and shrinking, pipelined; each stream re-read under several cut scripts (1-byte reads, data+EOF, buffer-boundary cuts, random); thorough adds every cut set of small streams. distinct = (framing, record-length vector, cut script); non-trivial = at least one non-empty record")
	defer res.Write(t)
	rng := newRNG()
	var lines, impl []string
	var inputs []any
	nLists := pick(40, 250)
	c11SharedFraming(res, rng)
	for _, kind := range c11Kinds() {
		for li := 0; li < nLists; li++ {
			big := li%10 == 9
			recs := c11Records(rng, kind, big)
			stream, outs, errs := sendAll(kind, recs)
			lens := make([]int, len(recs))
			nonEmpty := false
			for i, r := range recs {
				lens[i] = len(r)
				nonEmpty = nonEmpty || len(r) > 0
				if errs[i] != nil {
					res.Violatef("Send refused a legal record", map[string]any{"kind": kind, "rec": hx(r)}, "%s: %v", kind, errs[i])
				}
				if !big {
					lines = append(lines, fmt.Sprintf("c11s %s %s", kind, hx(r)))
					impl = append(impl, "out "+hx(outs[i]))
					inputs = append(inputs, map[string]any{"kind": kind, "send": hx(r)})
				}
			}
			scripts := cutScripts(rng, pick(5, 9), len(stream))
			if big {
				scripts = scripts[:3]
			}
			for si, sc := range scripts {
				sc := sc
				sc.data = append([]byte(nil), stream...)
				ch := framingByName(kind)(&sc, &bufWC{})
				got, _ := recvSeq(ch, len(recs)+3)
				res.Case(fmt.Sprintf("%s/%v/%d", kind, lens, si), nonEmpty, map[string]any{"kind": kind, "lens": lens, "cuts": sc.sizes, "withEOF": sc.withEOF})
				res.Count("framing:" + strings.SplitN(kind, ":", 2)[0])
				// spec: exactly the records, in order, then EOF for ever
				okAll := len(got) == len(recs)+3
				for i := range recs {
					want := "K:" + hx(recs[i])
					if i >= len(got) || got[i] != want {
						okAll = false
					}
				}
				for i := len(recs); i < len(got); i++ {
					if got[i] != "E:eof" {
						okAll = false
					}
				}
				if !okAll {
					in := map[string]any{"kind": kind, "cuts": sc.sizes, "withEOF": sc.withEOF, "lens": lens}
					if len(stream) < 4000 {
						in["stream"] = hx(stream)
					}
					res.Violatef("round trip broken: "+kindClass(kind), in, "%s lens=%v cuts=%v withEOF=%v: got %s", kind, lens, sc.sizes, sc.withEOF, abbreviate(got))
				}
				if !big && si == 0 {
					lines = append(lines, fmt.Sprintf("c12 %s %d %s", kind, len(recs)+3, hx(stream)))
					impl = append(impl, strings.Join(got, " "))
					inputs = append(inputs, map[string]any{"kind": kind, "stream": hx(stream)})
				}
			}
		}
	}
	// thorough: every cut set of small streams
	if thorough() {
		for _, kind := range c11Kinds() {
			for li := 0; li < 12; li++ {
				recs := c11Records(rng, kind, false)
				for len(recs) > 3 {
					recs = recs[:3]
				}
				for i := range recs {
					if len(recs[i]) > 3 && !strings.HasPrefix(kind, "raw") {
						recs[i] = recs[i][:3]
					}
				}
				stream, _, _ := sendAll(kind, recs)
				if len(stream) > 14 && !strings.HasPrefix(kind, "hdr") {
					continue
				}
				nb := len(stream) - 1
				// for header streams restrict cuts to the last 14 positions (around frame boundaries of the tail)
				free := nb
				if free > 14 {
					free = 14
				}
				for mask := 0; mask < 1<<uint(free); mask++ {
					var sizes []int
					last := 0
					for pos := 1; pos <= nb; pos++ {
						bit := pos - 1 - (nb - free)
						if bit >= 0 && mask&(1<<uint(bit)) != 0 {
							sizes = append(sizes, pos-last)
							last = pos
						}
					}
					sizes = append(sizes, len(stream)-last)
					sc := chunkReader{data: append([]byte(nil), stream...), sizes: sizes, withEOF: mask%2 == 1}
					ch := framingByName(kind)(&sc, &bufWC{})
					got, _ := recvSeq(ch, len(recs)+2)
					res.Evaluations++
					ok := len(got) == len(recs)+2
					for i := range recs {
						ok = ok && got[i] == "K:"+hx(recs[i])
					}
					ok = ok && got[len(got)-1] == "E:eof" && got[len(got)-2] == "E:eof"
					if !ok {
						res.Violatef("round trip broken under a cut set: "+kindClass(kind), map[string]any{"kind": kind, "stream": hx(stream), "cuts": sizes}, "%s cuts=%v got %v", kind, sizes, got)
					}
				}
				res.Count("exhaustive-cut-streams")
			}
		}
	}
	// Send refuses a record containing the split byte, writing nothing
	for _, d := range []int{10, 0, 30, 128, 255, 195} {
		for i := 0; i < pick(30, 300); i++ {
			kind := fmt.Sprintf("split:%d", d)
			good := randBytes(rng, rng.Intn(6), d)
			bad := append(append(randBytes(rng, rng.Intn(5), d), byte(d)), randBytes(rng, rng.Intn(5), -1)...)
			w := &bufWC{}
			ch := channel.Split(byte(d))(strings.NewReader(""), w)
			e1 := ch.Send(append([]byte(nil), good...))
			n1 := w.Len()
			e2 := ch.Send(append([]byte(nil), bad...))
			n2 := w.Len()
			e3 := ch.Send(append([]byte(nil), good...))
			res.Case(fmt.Sprintf("refuse/%d/%x", d, bad), true, map[string]any{"kind": kind, "bad": hx(bad)})
			if e1 != nil || e3 != nil {
				res.Violatef("Send refused a legal record", map[string]any{"kind": kind, "rec": hx(good)}, "%v %v", e1, e3)
			}
			if e2 == nil || n2 != n1 {
				res.Violatef("Send accepted or partly wrote a record containing the split byte", map[string]any{"kind": kind, "rec": hx(bad)}, "err=%v wrote %d bytes", e2, n2-n1)
			}
			lines = append(lines, fmt.Sprintf("c11s %s %s", kind, hx(bad)))
			if e2 != nil {
				impl = append(impl, "refuse")
			} else {
				impl = append(impl, "out "+hx(w.Bytes()[n1:n2]))
			}
			inputs = append(inputs, map[string]any{"kind": kind, "send": hx(bad)})
		}
	}
	// Direct: in-memory pair
	for i := 0; i < pick(20, 200); i++ {
		a, b := channel.Direct()
		recs := c11Records(rng, "hdr:0:-", false)
		// an empty record may be nil or an empty non-nil slice: both are legal records
		for k := range recs {
			if len(recs[k]) == 0 && rng.Intn(2) == 0 {
				recs[k] = nil
			}
		}
		if i%4 == 0 {
			recs = append([][]byte{[]byte("x"), nil, []byte("y"), {}, nil}, recs...)
		}
		go func() {
			for _, r := range recs {
				a.Send(r)
			}
			a.Close()
		}()
		got, _ := recvSeq(b, len(recs)+2)
		res.Case(fmt.Sprintf("direct/%d", i), true, len(recs))
		ok := len(got) == len(recs)+2 && got[len(got)-1] == "E:eof" && got[len(got)-2] == "E:eof"
		for j := range recs {
			ok = ok && got[j] == "K:"+hx(recs[j])
		}
		if !ok {
			res.Violatef("round trip broken: direct", nil, "got %v", abbreviate(got))
		}
	}
	model := runOracle(t, lines)
	for i := range model {
		res.Traces++
		if model[i] == impl[i] {
			res.Agreements++
		} else {
			res.Disagreef("framing model vs implementation on a legal stream", inputs[i], abbrev1(model[i]), abbrev1(impl[i]))
		}
	}
}

func kindClass(kind string) string { return strings.SplitN(kind, ":", 2)[0] }

func abbrev1(s string) string {
	if len(s) > 600 {
		return s[:300] + "…" + s[len(s)-200:]
	}
	return s
}
func abbreviate(ss []string) string {
	var p []string
	for _, s := range ss {
		if len(s) > 80 {
			s = s[:60] + fmt.Sprintf("…(%d)", len(s))
		}
		p = append(p, s)
	}
	return strings.Join(p, " ")
}

// ---------------------------------------------------------------------------------------------
// C12

func c12Tokens(kind string) [][]byte {
	switch kindClass(kind) {
	case "hdr":
		return [][]byte{[]byte("Content-Length"), []byte("content-type"), []byte("CONTENT-LENGTH"), []byte("X"), []byte(":"), []byte(" "), []byte("\r"), []byte("\n"),
			[]byte("0"), []byte("3"), []byte("-"), []byte("+"), []byte("abc"), []byte("text/x"), []byte("\t"), []byte("_"), []byte("x")}
	case "split":
		var d int
		fmt.Sscan(kind[6:], &d)
		return [][]byte{{byte(d)}, {'a'}, {0xc3, 0xbf}, {byte(d + 1)}}
	default:
		return [][]byte{[]byte("{"), []byte("}"), []byte("["), []byte("]"), []byte(`"`), []byte(`\`), []byte("1"), []byte("n"), []byte("u"), []byte("l"), []byte(" "), []byte(","), []byte(":"), []byte("-"), []byte("e"), []byte("true"), []byte(".")}
	}
}

var c12Lengths = []string{"0", "1", "3", "007", "+3", "-0", "-1", " 3 ", "3x", "0x3", "3_0", "1e1", "", "٣", "3.0",
	"2147483648", "4294967296", "1048576", "1048577", "999999999999", "9223372036854775807", "9223372036854775808",
	"18446744073709551615", "18446744073709551616", "99999999999999999999", "-9223372036854775808", "4611686018427387904"}

func c12Streams(rng *rand.Rand, kind string, n int) [][]byte {
	var out [][]byte
	toks := c12Tokens(kind)
	// mutated / truncated valid streams
	for len(out) < n {
		recs := c11Records(rng, kind, false)
		stream, _, _ := sendAll(kind, recs)
		switch rng.Intn(7) {
		case 0: // truncate
			if len(stream) > 0 {
				stream = stream[:rng.Intn(len(stream))]
			}
		case 1: // flip a byte
			if len(stream) > 0 {
				stream[rng.Intn(len(stream))] = byte(rng.Intn(256))
			}
		case 2: // insert a token
			p := rng.Intn(len(stream) + 1)
			tk := toks[rng.Intn(len(toks))]
			stream = append(append(append([]byte{}, stream[:p]...), tk...), stream[p:]...)
		case 3: // delete a byte
			if len(stream) > 0 {
				p := rng.Intn(len(stream))
				stream = append(append([]byte{}, stream[:p]...), stream[p+1:]...)
			}
		case 4: // random token string
			stream = nil
			for i := rng.Intn(9); i >= 0; i-- {
				stream = append(stream, toks[rng.Intn(len(toks))]...)
			}
		case 5: // header with a chosen length / field-name case / extra fields
			if kindClass(kind) == "hdr" {
				body := randBytes(rng, rng.Intn(6), -1)
				l := c12Lengths[rng.Intn(len(c12Lengths))]
				if rng.Intn(2) == 0 {
					l = fmt.Sprint(len(body))
				}
				name := []string{"Content-Length", "content-length", "CONTENT-LENGTH", "cOnTeNt-LeNgTh", "Content-Length ", " Content-Length", "Content_Length"}[rng.Intn(7)]
				pre := []string{"", "X-Other: 1\r\n", "Content-Type: text/x\r\n", "content-type:text/x\n", "Content-Type: application/json\r\n", "Content-Type:\r\n", "Content-Type: " + lspType + "\r\n", ": 5\r\n", "Content-Length: 2\r\n"}[rng.Intn(9)]
				eol := []string{"\r\n", "\n", "\r\r\n", "\n"}[rng.Intn(4)]
				stream = []byte(pre + name + ":" + []string{" ", "", "  ", "\t"}[rng.Intn(4)] + l + eol + eol)
				stream = append(stream, body...)
				if rng.Intn(2) == 0 {
					more, _, _ := sendAll(kind, [][]byte{randBytes(rng, 2, -1)})
					stream = append(stream, more...)
				}
			}
		case 6: // a header line about as long as a reader's buffer (4096 / 8192), possibly with a
			// Content-Length look-alike sitting in the value right at that boundary
			if kindClass(kind) == "hdr" {
				body := randBytes(rng, 1+rng.Intn(5), -1)
				name := "X-Pad: "
				total := []int{4096, 4096, 4096, 8192, 4095, 4097}[rng.Intn(6)] + rng.Intn(5) - 2
				look := ""
				if rng.Intn(3) > 0 {
					look = fmt.Sprintf("Content-Length: %d", len(body))
				}
				pad := total - len(name)
				if rng.Intn(2) == 0 {
					pad = []int{4096, 8192}[rng.Intn(2)] - len(name) // the look-alike starts exactly at the boundary
				}
				line := name + strings.Repeat("p", pad) + look + "\r\n"
				real := ""
				if rng.Intn(2) == 0 {
					real = fmt.Sprintf("Content-Length: %d\r\n", len(body))
				}
				if rng.Intn(2) == 0 {
					stream = []byte(line + real + "\r\n")
				} else {
					stream = []byte(real + line + "\r\n")
				}
				stream = append(stream, body...)
			}
		}
		out = append(out, stream)
	}
	return out
}

// dangerous: a declared length that may drive allocation
func c12Dangerous(stream []byte) bool {
	s := string(stream)
	for _, l := range c12Lengths {
		if len(l) >= 7 && strings.Contains(s, l) {
			return true
		}
	}
	return false
}

func c12Observe(kind string, stream []byte, sc chunkReader) []string {
	sc.data = append([]byte(nil), stream...)
	ch := framingByName(kind)(&sc, &bufWC{})
	got, _ := recvSeq(ch, 12)
	return got
}

// TestC12Worker runs dangerous streams in a separate process: line = kind + " " + hexstream.
func TestC12Worker(t *testing.T) {
	in := os.Getenv("VERIF_WORKER_IN")
	if in == "" {
		t.Skip("worker only")
	}
	data, _ := os.ReadFile(in)
	for _, line := range strings.Split(strings.TrimSpace(string(data)), "\n") {
		f := strings.Fields(line)
		if len(f) != 2 {
			continue
		}
		stream, _ := hexDecode(f[1])
		fmt.Printf("START %s\n", line)
		got := c12Observe(f[0], stream, chunkReader{})
		fmt.Printf("DONE %s\n", strings.Join(got, " "))
	}
}

// c12SharedFramingRecv: the receiving side of the same question - two channels built from ONE
// Framing value (as every connection accepted by a Loop is, and every user of channel.LSP) read
// independent streams; a record returned by one of them must not be disturbed by a Recv on the other.
func c12SharedFramingRecv(res *Result, rng *rand.Rand) {
	for _, kind := range c11Kinds() {
		if kind == "direct" {
			continue
		}
		f := framingByName(kind)
		for round := 0; round < 4; round++ {
			ra, rb := c11Records(rng, kind, false), c11Records(rng, kind, false)
			if len(ra) == 0 || len(rb) == 0 {
				continue
			}
			sa, _, _ := sendAll(kind, ra)
			sb, _, _ := sendAll(kind, rb)
			chA := f(bytes.NewReader(sa), &bufWC{})
			chB := f(bytes.NewReader(sb), &bufWC{})
			in := map[string]any{"kind": kind, "stream_a": hx(sa), "stream_b": hx(sb)}
			res.Case(fmt.Sprintf("shared-recv/%s/%d", kind, round), true, in)
			res.Count("shared-framing-value-recv")
			n := min(len(ra), len(rb))
			for i := 0; i < n; i++ {
				a, ea := chA.Recv()
				keep := append([]byte(nil), a...)
				b, eb := chB.Recv()
				if ea != nil || eb != nil {
					break // record sets that this framing cannot carry are C11's business
				}
				if !bytes.Equal(a, keep) {
					res.Violatef("two channels built from one Framing value interfere: a received record was overwritten by a sibling channel's Recv", in,
						"%s: record %d of channel A was %s, after channel B's Recv it reads %s", kind, i, abbrev1(hx(keep)), abbrev1(hx(a)))
					break
				}
				_ = b // what arrives is C11's business; here only that it stays what it was
			}
		}
	}
}

func TestC12(t *testing.T) {
	res := newResult("C12", "arbitrary byte streams per framing: mutated / truncated valid streams, random token strings over a framing-specific alphabet, headers with absurd / overflowing / malformed Content-Length values and field-name case variants; thorough adds every token string up to length 5 (hdr: 4) and every truncation point of valid streams. Streams with huge declared lengths run in a worker process. distinct = distinct stream; non-trivial = stream not empty")
	defer res.Write(t)
	rng := newRNG()
	type tc struct {
		kind   string
		stream []byte
	}
	var cases []tc
	if _, ok := replayInput(); !ok {
		c12ServerAtEOF(res, rng)
		c12ServerTruncated(res)
		c12SharedFramingRecv(res, rng)
	}
	kinds := []string{"split:10", "split:255", "split:195", "hdr:0:-", "hdr:1:-", "hdr:0:" + hxs("Text/X-Case"), "hdr:1:" + hxs("Text/X-Case"), "hdr:0:" + hxs("text/x"), "hdr:1:" + hxs("text/x"), "hdr:1:" + hxs(lspType), "raw"}
	if in, ok := replayInput(); ok {
		var r struct{ Kind, Stream string }
		if json.Unmarshal(in, &r) == nil && strings.HasPrefix(r.Kind, "server-") {
			// found by the consumer-level sub-checks: they are deterministic, run them again
			c12ServerAtEOF(res, rng)
			c12ServerTruncated(res)
			return
		}
		if json.Unmarshal(in, &r) == nil && r.Kind != "" {
			s, _ := hexDecode(r.Stream)
			cases = append(cases, tc{r.Kind, s})
		}
	}
	if cases == nil {
		for _, kind := range kinds {
			for _, s := range c12Streams(rng, kind, pick(700, 6000)) {
				cases = append(cases, tc{kind, s})
			}
			// corpus: the findings
			if kindClass(kind) == "split" {
				cases = append(cases, tc{kind, []byte("abc\ndef")}, tc{kind, []byte("abc\xffde\xc3\xbf")}, tc{kind, []byte("\xc3\xbf")})
				// a long final record cut off by the end of the stream (longer than the reader's buffer, so
				// that it was accumulated over several reads), alone and after complete records
				var d int
				fmt.Sscan(kind[6:], &d)
				for _, n := range []int{4095, 4096, 4097, 5000, 8192, 9000, 20000} {
					long := bytes.Repeat([]byte{'a' + byte(n%7)}, n)
					for i := range long {
						if long[i] == byte(d) {
							long[i] = 'z'
						}
					}
					cases = append(cases, tc{kind, long}, tc{kind, append(append([]byte("first"), byte(d)), long...)})
				}
			}
			if kindClass(kind) == "hdr" {
				// the configured media type spelled exactly, lower-cased and upper-cased
				if mt, _ := hexDecode(strings.Split(kind, ":")[2]); len(mt) > 0 {
					for _, sp := range []string{string(mt), strings.ToLower(string(mt)), strings.ToUpper(string(mt))} {
						cases = append(cases, tc{kind, []byte("Content-Type: " + sp + "\r\nContent-Length: 3\r\n\r\nabc")})
					}
				}
				for _, l := range c12Lengths {
					cases = append(cases, tc{kind, []byte("Content-Length: " + l + "\r\n\r\nxyz")})
					cases = append(cases, tc{kind, []byte("Content-Type: text/x\r\ncontent-length:" + l + "\n\nxyzw")})
				}
			}
			if thorough() {
				toks := c12Tokens(kind)
				maxLen := 5
				if kindClass(kind) == "hdr" {
					maxLen = 4
				}
				var rec func(prefix []byte, n int)
				rec = func(prefix []byte, n int) {
					cases = append(cases, tc{kind, append([]byte(nil), prefix...)})
					if n == 0 {
						return
					}
					for _, tk := range toks {
						rec(append(append([]byte(nil), prefix...), tk...), n-1)
					}
				}
				rec(nil, maxLen)
				for i := 0; i < 60; i++ {
					stream, _, _ := sendAll(kind, c11Records(rng, kind, false))
					for cut := 0; cut <= len(stream); cut++ {
						cases = append(cases, tc{kind, stream[:cut]})
					}
				}
			}
		}
	}
	var lines, impl []string
	var inputs []tc
	var danger []tc
	for _, c := range cases {
		res.Case(c.kind+"/"+string(c.stream), len(c.stream) > 0, map[string]any{"kind": c.kind, "stream": hx(c.stream)})
		res.Count("framing:" + kindClass(c.kind))
		if c12Dangerous(c.stream) {
			danger = append(danger, c)
			continue
		}
		got := c12Observe(c.kind, c.stream, chunkReader{})
		if rng.Intn(4) == 0 { // fragmentation must not matter on adversarial streams either
			alt := c12Observe(c.kind, c.stream, chunkReader{sizes: []int{1}, withEOF: rng.Intn(2) == 0})
			if strings.Join(alt, " ") != strings.Join(got, " ") {
				res.Violatef("Recv results depend on fragmentation: "+kindClass(c.kind), map[string]any{"kind": c.kind, "stream": hx(c.stream)}, "whole: %s / 1-byte reads: %s", abbreviate(got), abbreviate(alt))
			}
		}
		lines = append(lines, fmt.Sprintf("c12 %s 12 %s", c.kind, hx(c.stream)))
		impl = append(impl, strings.Join(got, " "))
		inputs = append(inputs, c)
	}
	// dangerous streams in a worker process under a memory limit
	if len(danger) > 0 {
		res.Count("worker-streams")
		tmp, _ := os.CreateTemp("", "c12w")
		for _, c := range danger {
			fmt.Fprintf(tmp, "%s %s\n", c.kind, hx(c.stream))
		}
		tmp.Close()
		defer os.Remove(tmp.Name())
		cmd := exec.Command(os.Args[0], "-test.run", "^TestC12Worker$", "-test.timeout", "300s")
		cmd.Env = append(os.Environ(), "VERIF_WORKER_IN="+tmp.Name(), "GOMEMLIMIT=1GiB", "VERIF_OUT=")
		outb, werr := runLimited(cmd, 2<<30)
		started := ""
		di := 0
		for _, l := range strings.Split(string(outb), "\n") {
			if strings.HasPrefix(l, "START ") {
				started = l[6:]
			} else if strings.HasPrefix(l, "DONE ") && di < len(danger) {
				lines = append(lines, fmt.Sprintf("c12 %s 12 %s", danger[di].kind, hx(danger[di].stream)))
				impl = append(impl, l[5:])
				inputs = append(inputs, danger[di])
				di++
				started = ""
			}
		}
		if werr != nil || started != "" {
			f := strings.Fields(started)
			in := map[string]any{"line": started}
			if len(f) == 2 {
				in = map[string]any{"kind": f[0], "stream": f[1]}
			}
			tail := string(outb)
			if len(tail) > 700 {
				tail = tail[len(tail)-700:]
			}
			res.Violatef("Recv crashed the process on an adversarial stream", in, "worker: %v; last started: %s; output tail: %s", werr, started, tail)
		}
	}
	model := runOracle(t, lines)
	for i := range model {
		res.Traces++
		got := strings.Fields(impl[i])
		c := inputs[i]
		in := map[string]any{"kind": c.kind, "stream": hx(c.stream)}
		// spec clauses that do not need the model
		for j, g := range got {
			if strings.HasPrefix(g, "PANIC") {
				res.Violatef("Recv panicked: "+kindClass(c.kind), in, "call %d: %s", j, g)
			}
			if strings.HasPrefix(g, "K:") || strings.HasPrefix(g, "KE:") || strings.HasPrefix(g, "M:") {
				payload, _ := hexDecode(strings.Split(g, ":")[1])
				if !bytes.Contains(c.stream, payload) {
					res.Violatef("Recv fabricated payload bytes: "+kindClass(c.kind), in, "call %d returned %s", j, g)
				}
			}
		}
		if n := len(got); n >= 3 && !(strings.HasPrefix(got[n-1], "E:") && strings.HasPrefix(got[n-2], "E:")) && len(c.stream) < 40 {
			res.Violatef("Recv does not keep failing after the stream is exhausted: "+kindClass(c.kind), in, "%s", abbreviate(got))
		}
		if model[i] == impl[i] {
			res.Agreements++
		} else {
			res.Violatef("Recv differs from the documented format: "+kindClass(c.kind)+" "+firstDiff(model[i], impl[i]), in,
				"%s stream %s: documented format (reference decoder) yields %s; Recv yields %s", c.kind, abbrev1(hx(c.stream)), abbrev1(model[i]), abbrev1(impl[i]))
		}
	}
}

// c12ServerAtEOF: the consumer side of "a final record ... is never silently shortened": a Server
// reading a Line stream must hand every notification the framing yields to its handler, including
// one that arrives together with the end of the stream (notifications, because the server keeps
// those when it stops at EOF, whereas replies to calls may be lost with the connection).
func c12ServerAtEOF(res *Result, rng *rand.Rand) {
	for n := 1; n <= 3; n++ {
		var recs []string
		want := []int{}
		for i := 1; i <= n; i++ {
			recs = append(recs, fmt.Sprintf(`{"jsonrpc":"2.0","method":"note","params":[%d]}`, i))
			want = append(want, i)
		}
		cut := recs[n-1][:5+rng.Intn(len(recs[n-1])-6)]
		for k, stream := range []string{strings.Join(recs, "\n") + "\n", strings.Join(recs, "\n"), strings.Join(append(append([]string{}, recs[:n-1]...), cut), "\n")} {
			w := want
			if k == 2 {
				w = want[:n-1]
			}
			var mu sync.Mutex
			got := []int{}
			var out bufWC
			srv := jrpc2.NewServer(handler.Map{"note": handler.New(func(_ context.Context, v []int) error {
				mu.Lock()
				got = append(got, v...)
				mu.Unlock()
				return nil
			})}, nil)
			srv.Start(channel.Line(io.NopCloser(strings.NewReader(stream)), &out))
			done := make(chan struct{})
			go func() { srv.Wait(); close(done) }()
			in := map[string]any{"kind": "server-line", "stream": hx([]byte(stream))}
			select {
			case <-done:
			case <-time.After(5 * time.Second):
				res.Violatef("server did not finish at the end of its input stream", in, "%q", stream)
				continue
			}
			res.Case("server-line/"+stream, true, map[string]any{"stream": stream})
			res.Count("server-at-eof")
			mu.Lock()
			if fmt.Sprint(got) != fmt.Sprint(w) {
				res.Violatef("a record delivered together with the end of the stream was not handled by the server", in, "stream %q: handled %v, want %v", stream, got, w)
			}
			mu.Unlock()
		}
	}
}

// c12ServerTruncated: a stream that ends in the middle of a record is an error of the framing, and
// the consumer must see it as one: the server's exit status reports it (it is not a clean close);
// a stream that ends between records is a clean close.
func c12ServerTruncated(res *Result) {
	rec := `{"jsonrpc":"2.0","method":"note","params":[1]}`
	for _, kind := range []string{"hdr:0:-", "hdr:1:" + hxs(lspType), "raw"} {
		full, _, _ := sendAll(kind, [][]byte{[]byte(rec), []byte(rec)})
		for _, cut := range []int{len(full), len(full) - 3, len(full) - len(rec)/2} {
			stream := full[:cut]
			srv := jrpc2.NewServer(handler.Map{"note": handler.New(func(_ context.Context, v []int) error { return nil })}, nil)
			srv.Start(framingByName(kind)(io.NopCloser(bytes.NewReader(stream)), &bufWC{}))
			done := make(chan jrpc2.ServerStatus, 1)
			go func() { done <- srv.WaitStatus() }()
			in := map[string]any{"kind": "server-" + kind, "stream": hx(stream)}
			res.Case(fmt.Sprintf("server-truncated/%s/%d", kind, len(full)-cut), true, in)
			res.Count("server-truncated")
			select {
			case st := <-done:
				if cut == len(full) && (st.Err != nil || !st.Closed) {
					res.Violatef("a stream that ends between records was not a clean close for the server", in, "%s: status %+v", kind, st)
				}
				if cut != len(full) && st.Err == nil {
					res.Violatef("a final record cut off by the end of the stream was not reported: the server exited cleanly", in, "%s, %d bytes missing: status %+v", kind, len(full)-cut, st)
				}
			case <-time.After(5 * time.Second):
				res.Violatef("server did not finish at the end of its input stream", in, "%s", kind)
			}
		}
	}
}

func firstDiff(a, b string) string {
	fa, fb := strings.Fields(a), strings.Fields(b)
	for i := 0; i < len(fa) && i < len(fb); i++ {
		if fa[i] != fb[i] {
			ka, kb := strings.SplitN(fa[i], ":", 2)[0], strings.SplitN(fb[i], ":", 2)[0]
			ea, eb := "", ""
			if ka == "E" {
				ea = fa[i][2:]
			}
			if kb == "E" {
				eb = fb[i][2:]
			}
			if strings.HasPrefix(fb[i], "PANIC") {
				kb = "PANIC"
			}
			return fmt.Sprintf("(want %s%s got %s%s)", ka, ea, kb, eb)
		}
	}
	return "(length)"
}
