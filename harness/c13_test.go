package harness

// C13 — wire encoding: emitted messages are one-line valid JSON-RPC that parse back.

import (
	"bytes"
	"context"
	"encoding/json"
	"errors"
	"fmt"
	"math"
	"math/rand"
	"net/http"
	"net/http/httptest"
	"net/url"
	"strings"
	"testing"
	"testing/synctest"
	"unicode/utf8"

	"github.com/creachadair/jrpc2"
	"github.com/creachadair/jrpc2/handler"
	"github.com/creachadair/jrpc2/jhttp"
)

var c13Atoms = []string{"a", `"`, `\`, "\x01", "\x1f", "\n", "<", "&", "\u2028", "é", "😀", ">", "\t", "\x7f", "\r", "\b", "\f", ".", "\u2029", "\x00", "/", "'"}

func c13Methods(rng *rand.Rand, n int) []string {
	var out []string
	// exhaustive up to length 2 over the atoms (3 in thorough over a reduced set)
	for _, a := range c13Atoms {
		out = append(out, a)
		for _, b := range c13Atoms {
			out = append(out, a+b)
		}
	}
	if thorough() {
		red := c13Atoms[:11]
		for _, a := range red {
			for _, b := range red {
				for _, c := range red {
					out = append(out, a+b+c)
				}
			}
		}
	}
	for len(out) < n {
		k := 1 + rng.Intn(12)
		s := ""
		for i := 0; i < k; i++ {
			s += c13Atoms[rng.Intn(len(c13Atoms))]
		}
		out = append(out, s)
	}
	return out
}

type rawJSON = json.RawMessage

func c13Values(rng *rand.Rand) []any {
	big := "1" + strings.Repeat("0", 400)
	vals := []any{
		nil, []int{}, map[string]int{}, []any{1, "x", nil, true, 2.5}, map[string]any{"a": []any{map[string]any{"b": nil}}},
		[]float64{0, math.Copysign(0, -1), 1e308, 5e-324, 9007199254740993}, []string{"é\n\"\\<>&\u2028😀", ""},
		rawJSON(`[1, 2,
  3]`), rawJSON("{\n\t\"k\" : [ ] \r\n}"), rawJSON(`[` + big + `]`), rawJSON(`{"n":-0,"e":1E+2,"u":"\u00e9\ud83d\ude00"}`),
		[]any{rawJSON(" [ null ] ")}, map[string]any{"": rawJSON(`"\/"`)}, struct {
			A int    `json:"a"`
			B string `json:"b,omitempty"`
		}{7, ""}, [1]string{"<script>"}, []byte("bytes"), map[string][]byte{"b": {0, 255}},
	}
	// values that marshal to null (no params member may be sent) and scalars (refused)
	vals = append(vals, (*int)(nil), json.RawMessage("null"), json.RawMessage(" null\n"), map[string]int(nil), []int(nil), 5, "str", true,
		// pre-encoded text that is not one well-formed JSON value: must be refused, nothing sent
		json.RawMessage(`{"name":"value"`), json.RawMessage(`[1,2][3]`), json.RawMessage(`[1,2,`))
	// nested to depth 6
	var nest any = []any{1}
	for i := 0; i < 6; i++ {
		nest = map[string]any{"d": []any{nest, i}}
	}
	vals = append(vals, nest)
	// pre-encoded text around sizes at which an implementation might switch strategy (64 KiB, 1 MiB),
	// laid out on many lines
	for _, n := range []int{65536 / 5, 65536/5 + 40, 1048576/5 + 40} {
		vals = append(vals, rawJSON("[\n"+strings.Repeat(" 17,\n", n)+"\t18 ]"))
	}
	for i := 0; i < 10; i++ {
		vals = append(vals, json.RawMessage(randJSONValue(rng, 3)))
	}
	return vals
}

// strict request validator, independent of the library
func strictRequest(raw []byte) (id, method string, params json.RawMessage, err error) {
	var obj map[string]json.RawMessage
	if e := json.Unmarshal(raw, &obj); e != nil {
		return "", "", nil, fmt.Errorf("not an object: %v", e)
	}
	var ver string
	if json.Unmarshal(obj["jsonrpc"], &ver) != nil || ver != "2.0" {
		return "", "", nil, errors.New(`no "jsonrpc":"2.0"`)
	}
	m, ok := obj["method"]
	if !ok || len(m) == 0 || m[0] != '"' || json.Unmarshal(m, &method) != nil {
		return "", "", nil, errors.New("method missing or not a string")
	}
	if p, ok := obj["params"]; ok {
		if t := bytes.TrimSpace(p); len(t) == 0 || (t[0] != '[' && t[0] != '{') {
			return "", "", nil, fmt.Errorf("params not structured: %s", p)
		}
		params = p
	}
	for k := range obj {
		if k != "jsonrpc" && k != "id" && k != "method" && k != "params" {
			return "", "", nil, fmt.Errorf("unknown member %q", k)
		}
	}
	if i, ok := obj["id"]; ok {
		if len(i) == 0 || !(i[0] == '"' || i[0] == '-' || (i[0] >= '0' && i[0] <= '9')) {
			return "", "", nil, fmt.Errorf("bad id %s", i)
		}
		id = string(i)
	}
	return id, method, params, nil
}

// wireChecks: valid UTF-8, single line, no control bytes.
func wireChecks(b []byte) error {
	if !utf8.Valid(b) {
		return errors.New("not valid UTF-8")
	}
	for _, c := range b {
		if c < 0x20 {
			return fmt.Errorf("control byte 0x%02x in emitted message", c)
		}
	}
	if !json.Valid(b) {
		return errors.New("not valid JSON")
	}
	return nil
}

func TestC13(t *testing.T) {
	res := newResult("C13", "messages emitted by the library: client Call/Notify/Batch requests, server responses (results and error objects), pushed notifications/callbacks, client callback replies, Bridge HTTP bodies, Response.MarshalJSON/SetID — over method names from an alphabet of quotes, backslashes, control bytes, HTML metacharacters, U+2028/9, non-BMP (exhaustive to length 2; 3 in thorough), ids, nested/large/raw-whitespace params and results, error objects with and without data; plus ParseRequests on the C02 record generators. distinct = distinct emitted byte string; non-trivial = all")
	defer res.Write(t)
	rng := newRNG()
	methods := c13Methods(rng, pick(700, 4000))
	values := c13Values(rng)
	ctx := context.Background()

	var lines []string
	var impl []string
	var inputs []any
	record := func(kind string, emitted []byte, modelLine string) {
		res.Case(string(emitted), true, map[string]any{"kind": kind, "bytes": string(emitted)})
		res.Count(kind)
		if err := wireChecks(emitted); err != nil {
			res.Violatef("emitted message breaks the wire rules ("+kind+"): "+errClassShort(err), map[string]any{"kind": kind, "bytes": hx(emitted)}, "%s: %v: %q", kind, err, emitted)
		}
		if modelLine != "" {
			lines = append(lines, modelLine)
			impl = append(impl, hx(emitted))
			inputs = append(inputs, map[string]any{"kind": kind, "line": modelLine})
		}
	}
	// the outbound parameter decision (omit / keep / refuse) comes from the model
	var qlines []string
	for _, v := range values {
		if v == nil {
			qlines = append(qlines, "c13q -")
		} else {
			b, err := json.Marshal(v)
			if err != nil || len(b) == 0 {
				b = []byte("!") // json.Marshal refuses the value: not even a scalar; the policy refuses it too
			}
			qlines = append(qlines, "c13q "+hx(b))
		}
	}
	decisions := runOracle(t, qlines)
	for _, d := range decisions {
		res.Count("params-" + d)
	}
	decisionOf := func(i int) string { return decisions[i%len(values)] }
	pfieldD := func(dec string, b []byte) string {
		if dec != "keep" {
			return "-"
		}
		return hx(b)
	}

	synctest.Test(t, func(t *testing.T) {
		// ---- 1. client requests against a raw peer
		peer, cch := newVPair()
		cli := jrpc2.NewClient(cch, nil)
		nextID := 1
		for i, m := range methods {
			v := values[i%len(values)]
			var pbits []byte
			if v != nil {
				pbits, _ = json.Marshal(v)
			}
			dec := decisionOf(i)
			structured := dec != "refuse"
			pfield := func(b []byte) string { return pfieldD(dec, b) }
			if !utf8.ValidString(m) {
				continue
			}
			switch i % 3 {
			case 0: // notification
				err := cli.Notify(ctx, m, v)
				synctest.Wait()
				out := peer.in.drain()
				if !structured {
					if err == nil || len(out) != 0 {
						res.Violatef("client transmitted non-structured params", m, "params %s", pbits)
					}
					continue
				}
				if err != nil || len(out) != 1 {
					res.Violatef("Notify failed for legal input", map[string]any{"method": m, "params": string(pbits)}, "err=%v out=%d", err, len(out))
					continue
				}
				record("client-notify", out[0], fmt.Sprintf("c13e 0 - %s %s - - - -", hxs(m), pfield(pbits)))
				c13CheckRequest(res, out[0], "", m, pbits)
			case 1: // call (answered by the peer afterwards)
				if !structured {
					continue
				}
				id := nextID
				done := make(chan error, 1)
				go func() { _, err := cli.Call(ctx, m, v); done <- err }()
				synctest.Wait()
				out := peer.in.drain()
				if len(out) != 1 {
					res.Violatef("Call transmitted nothing", m, "out=%d", len(out))
					continue
				}
				nextID++
				record("client-call", out[0], fmt.Sprintf("c13e 0 %s %s %s - - - -", hxs(fmt.Sprint(id)), hxs(m), pfield(pbits)))
				c13CheckRequest(res, out[0], fmt.Sprint(id), m, pbits)
				peer.Send([]byte(fmt.Sprintf(`{"jsonrpc":"2.0","id":%d,"result":null}`, id)))
				synctest.Wait()
				<-done
			case 2: // batch of call + notification + call
				if !structured {
					continue
				}
				id := nextID
				done := make(chan error, 1)
				m2 := methods[(i*7+3)%len(methods)]
				if !utf8.ValidString(m2) {
					m2 = "x"
				}
				go func() {
					_, err := cli.Batch(ctx, []jrpc2.Spec{{Method: m, Params: v}, {Method: m2, Params: v, Notify: true}, {Method: m2}})
					done <- err
				}()
				synctest.Wait()
				out := peer.in.drain()
				if len(out) != 1 {
					res.Violatef("Batch transmitted nothing", m, "out=%d", len(out))
					continue
				}
				nextID += 2
				record("client-batch", out[0], fmt.Sprintf("c13e 1 %s %s %s - - - - - %s %s - - - - %s %s - - - - -",
					hxs(fmt.Sprint(id)), hxs(m), pfield(pbits), hxs(m2), pfield(pbits), hxs(fmt.Sprint(id+1)), hxs(m2)))
				peer.Send([]byte(fmt.Sprintf(`[{"jsonrpc":"2.0","id":%d,"result":1},{"jsonrpc":"2.0","id":%d,"result":2}]`, id, id+1)))
				synctest.Wait()
				<-done
			}
		}
		cli.Close()

		// ---- 2. server responses, 3. pushes, observed by a raw client end
		rawc, sch := newVPair()
		var results []any
		var errsOut []error
		srv := jrpc2.NewServer(handler.Map{
			"r": func(ctx context.Context, req *jrpc2.Request) (any, error) {
				var idx []int
				req.UnmarshalParams(&idx)
				return results[idx[0]], nil
			},
			"e": func(ctx context.Context, req *jrpc2.Request) (any, error) {
				var idx []int
				req.UnmarshalParams(&idx)
				return nil, errsOut[idx[0]]
			},
		}, &jrpc2.ServerOptions{AllowPush: true, Concurrency: 1}).Start(sch)
		ids := []string{`1`, `"s"`, `-0`, `1.5`, `1e3`, `"é\u00e9\"\\"`, `12345678901234567890123`, `""`, `0`}
		for i, v := range values {
			results = append(results, v)
			id := ids[i%len(ids)]
			rawc.Send([]byte(fmt.Sprintf(`{"jsonrpc":"2.0","id":%s,"method":"r","params":[%d]}`, id, i)))
			synctest.Wait()
			out := rawc.in.drain()
			if len(out) != 1 {
				res.Violatef("no response to a call", i, "value %d", i)
				continue
			}
			rbits, merr := json.Marshal(v)
			if merr != nil {
				continue
			}
			record("server-result", out[0], fmt.Sprintf("c13e 0 %s - - %s - - -", hxs(id), hx(rbits)))
			if gid, o, err := strictResponse(out[0]); err != nil || gid != id || o != "r" {
				res.Violatef("server response invalid or id not echoed", map[string]any{"id": id}, "got %q: %v", out[0], err)
			}
		}
		msgs := []string{"", "x", "é\n\"\\<>&\u2028😀", "a\tb", "\x01\x1f"}
		datas := []string{"", `{"a":[1,2]}`, `"s"`, ` [ 1 ,
 2 ] `, `null`}
		k := 0
		for _, code := range []int32{-32700, -32603, 0, 1, -1, math.MaxInt32, math.MinInt32, -32098} {
			for _, m := range msgs {
				d := datas[k%len(datas)]
				je := &jrpc2.Error{Code: jrpc2.Code(code), Message: m}
				if d != "" {
					je.Data = json.RawMessage(d)
				}
				errsOut = append(errsOut, je)
				id := ids[k%len(ids)]
				rawc.Send([]byte(fmt.Sprintf(`{"jsonrpc":"2.0","id":%s,"method":"e","params":[%d]}`, id, k)))
				k++
				synctest.Wait()
				out := rawc.in.drain()
				if len(out) != 1 {
					res.Violatef("no response to a failing call", je, "")
					continue
				}
				var dcompact bytes.Buffer
				dh := "-"
				if d != "" {
					json.Compact(&dcompact, []byte(d))
					dh = hx(dcompact.Bytes())
				}
				record("server-error", out[0], fmt.Sprintf("c13e 0 %s - - - %d %s %s", hxs(id), code, hxs(m), dh))
				if gid, o, err := strictResponse(out[0]); err != nil || gid != id || o != fmt.Sprint(code) {
					res.Violatef("server error response invalid", map[string]any{"id": id, "code": code}, "got %q: %v", out[0], err)
				}
			}
		}
		cbid := 1
		for i, m := range methods {
			if i%4 != 0 || !utf8.ValidString(m) {
				continue
			}
			v := values[i%len(values)]
			var pbits []byte
			if v != nil {
				pbits, _ = json.Marshal(v)
			}
			dec := decisionOf(i)
			structured := dec != "refuse"
			pfield := func(b []byte) string { return pfieldD(dec, b) }
			if i%8 == 0 {
				err := srv.Notify(ctx, m, v)
				synctest.Wait()
				out := rawc.in.drain()
				if !structured {
					if err == nil || len(out) != 0 {
						res.Violatef("server pushed non-structured params", m, "params %s out=%d err=%v", pbits, len(out), err)
					}
					continue
				}
				if len(out) != 1 {
					res.Violatef("Notify transmitted nothing", m, "err=%v", err)
					continue
				}
				record("server-notify", out[0], fmt.Sprintf("c13e 0 - %s %s - - - -", hxs(m), pfield(pbits)))
				c13CheckRequest(res, out[0], "", m, pbits)
			} else {
				if !structured {
					continue
				}
				cctx, cancel := context.WithCancel(ctx)
				done := make(chan struct{})
				go func() { srv.Callback(cctx, m, v); close(done) }()
				synctest.Wait()
				out := rawc.in.drain()
				if len(out) != 1 {
					res.Violatef("Callback transmitted nothing", m, "")
					cancel()
					<-done
					continue
				}
				record("server-callback", out[0], fmt.Sprintf("c13e 0 %s %s %s - - - -", hxs(fmt.Sprint(cbid)), hxs(m), pfield(pbits)))
				c13CheckRequest(res, out[0], fmt.Sprint(cbid), m, pbits)
				cbid++
				cancel()
				<-done
			}
		}
		rawc.Close()
		srv.Wait()

		// ---- 4. client callback replies
		peer2, cch2 := newVPair()
		cbi := 0
		cli2 := jrpc2.NewClient(cch2, &jrpc2.ClientOptions{OnCallback: func(ctx context.Context, req *jrpc2.Request) (any, error) {
			cbi++
			if cbi%2 == 0 {
				return nil, &jrpc2.Error{Code: 7, Message: msgs[cbi%len(msgs)], Data: json.RawMessage(`[ 1 ]`)}
			}
			return values[cbi%len(values)], nil
		}})
		for i := 0; i < 40; i++ {
			id := ids[i%len(ids)]
			peer2.Send([]byte(fmt.Sprintf(`{"jsonrpc":"2.0","id":%s,"method":"cb"}`, id)))
			synctest.Wait()
			out := peer2.in.drain()
			if len(out) != 1 {
				res.Violatef("no callback reply", i, "")
				continue
			}
			record("client-callback-reply", out[0], "")
			if gid, _, err := strictResponse(out[0]); err != nil || gid != id {
				res.Violatef("callback reply invalid or id not echoed", id, "got %q: %v", out[0], err)
			}
		}
		cli2.Close()
		_ = peer2
	})

	// ---- 5. Bridge bodies
	br := jhttp.NewBridge(handler.Map{"ok": func(ctx context.Context, req *jrpc2.Request) (any, error) {
		var v json.RawMessage
		req.UnmarshalParams(&v)
		return v, nil
	}, "fail": func(ctx context.Context, req *jrpc2.Request) (any, error) {
		return nil, &jrpc2.Error{Code: 5, Message: "m\n\"", Data: json.RawMessage("[ 1,\n2 ]")}
	}}, nil)
	defer br.Close()
	bodies := []string{
		`{"jsonrpc":"2.0","id":1,"method":"ok","params":[ 1,
 2 ]}`, `[{"jsonrpc":"2.0","id":"a\"b","method":"fail"},{"jsonrpc":"2.0","id":2,"method":"nope"},{"jsonrpc":"2.0","id":3.50,"method":"ok","params":{"k":"é😀"}}]`,
		`{"jsonrpc":"2.0","id":1e2,"method":"ok","bogus":true}`, `[{"jsonrpc":"1.0","id":9,"method":"ok"},{"jsonrpc":"2.0","method":"ok"}]`, `{"jsonrpc":"2.0","id":"x","method":""}`,
		`[{"jsonrpc":"2.0","id":10,"method":"ok","params":[10]},{"jsonrpc":"1.0","id":20,"method":"ok","params":[20]},{"jsonrpc":"2.0","id":"thirty","method":"ok","params":["thirty"]},{"jsonrpc":"2.0","method":"ok"}]`,
		`[{"jsonrpc":"2.0","method":"ok","params":[0]},{"jsonrpc":"2.0","id":10,"method":"ok","params":[10]},{"jsonrpc":"2.0","method":"ok"},{"jsonrpc":"2.0","id":20,"method":"ok","params":[20]},{"jsonrpc":"2.0","id":30,"method":"ok","params":[30]}]`,
		`[{"jsonrpc":"2.0","method":"ok","params":[0]},{"jsonrpc":"2.0","id":"only","method":"ok","params":["only"]}]`,
		`[{"jsonrpc":"2.0","id":1,"method":"ok","params":[1],"zz":0},{"jsonrpc":"2.0","id":2,"method":"ok","params":[2]},{"jsonrpc":"2.0","id":3,"method":"nope"},{"jsonrpc":"2.0","id":4,"method":"ok","params":[4]}]`,
	}
	for _, b := range bodies {
		req := httptest.NewRequest("POST", "http://x/", strings.NewReader(b))
		req.Header.Set("Content-Type", "application/json")
		w := httptest.NewRecorder()
		br.ServeHTTP(w, req)
		body := bytes.TrimRight(w.Body.Bytes(), "\n")
		if w.Code != 200 {
			res.Violatef("bridge refused a JSON body", b, "status %d", w.Code)
			continue
		}
		record("bridge-reply", body, "")
		if _, err := parseReply([][]byte{body}); err != nil {
			res.Violatef("bridge reply is not a valid JSON-RPC response", b, "%q: %v", body, err)
		}
		// every inbound member with an id is answered under exactly that id; an "ok" result is the
		// member's own params (here: [id]), so a reply stamped with another member's id shows
		type ent struct {
			ID     json.RawMessage `json:"id"`
			Params json.RawMessage `json:"params"`
			Result json.RawMessage `json:"result"`
		}
		parse := func(raw []byte) []ent {
			var many []ent
			if json.Unmarshal(raw, &many) != nil {
				var one ent
				json.Unmarshal(raw, &one)
				many = []ent{one}
			}
			return many
		}
		want := map[string]int{}
		for _, m := range parse([]byte(b)) {
			if len(m.ID) != 0 && string(m.ID) != "null" {
				want[string(m.ID)]++
			}
		}
		got := map[string]int{}
		for _, m := range parse(body) {
			got[string(m.ID)]++
			if len(m.Result) != 0 && strings.HasPrefix(string(m.Result), "[") && !jsonEqual(m.Result, []byte("["+string(m.ID)+"]")) && strings.Contains(b, `"params":[`+string(m.ID)+`]`) {
				res.Violatef("bridge reply carries another member's id", b, "reply %s", body)
			}
		}
		if fmt.Sprint(want) != fmt.Sprint(got) {
			res.Violatef("bridge reply ids differ from the request ids", b, "want %v got %v: %s", want, got, body)
		}
	}

	// ---- 5b. a bridge whose requests come from a ParseRequest hook (URL query, form fields, another
	// protocol): the ids the hook supplies are JSON values but not necessarily compact; whatever
	// the hook hands over, the reply written to the HTTP caller is one line of valid JSON
	{
		hb := jhttp.NewBridge(handler.Map{"ok": func(ctx context.Context, req *jrpc2.Request) (any, error) { return "fine", nil }},
			&jhttp.BridgeOptions{ParseRequest: func(req *http.Request) ([]*jrpc2.ParsedRequest, error) {
				var out []*jrpc2.ParsedRequest
				for _, id := range req.URL.Query()["id"] {
					pr := &jrpc2.ParsedRequest{ID: id, Method: req.URL.Query().Get("m")}
					if pr.Method == "bad" {
						pr.Error = &jrpc2.Error{Code: -32600, Message: "refused by the hook"}
					}
					out = append(out, pr)
				}
				return out, nil
			}})
		for _, ids := range [][]string{{"12\n"}, {" 12"}, {"\t\"a\"\r\n"}, {"1", "2\n"}, {"7 "}} {
			for _, m := range []string{"ok", "nope", "bad"} {
				q := url.Values{"id": ids, "m": {m}}
				req := httptest.NewRequest("GET", "http://x/?"+q.Encode(), nil)
				w := httptest.NewRecorder()
				hb.ServeHTTP(w, req)
				body := bytes.TrimRight(w.Body.Bytes(), "\n")
				in := map[string]any{"hook_ids": ids, "method": m}
				res.Case(fmt.Sprintf("bridge-hook/%q/%s", ids, m), true, in)
				res.Evaluations++
				if w.Code != 200 || !json.Valid(body) || bytes.ContainsAny(body, "\n\r\t") {
					res.Violatef("bridge reply is not one line of valid JSON", in, "status %d body %q", w.Code, body)
				}
			}
		}
		hb.Close()
	}

	// ---- 6. Response.MarshalJSON / SetID through a bridge-like proxy path is covered by 5; direct:
	// (responses are only constructible through a client; use a local pair). A proxy logs a response,
	// relabels it and forwards it, possibly more than once: every encoding must carry the id that
	// was set last, and the same result / error as the first.
	{
		peer, cch := rawPair()
		pcli := jrpc2.NewClient(cch, nil)
		go func() {
			for {
				b, err := peer.Recv()
				if err != nil {
					return
				}
				var q struct {
					ID     json.RawMessage
					Method string
				}
				json.Unmarshal(b, &q)
				if q.Method == "fail" {
					peer.Send([]byte(`{"jsonrpc":"2.0","id":` + string(q.ID) + `,"error":{"code":7,"message":"seven","data":{"k":[1,2]}}}`))
				} else {
					peer.Send([]byte(`{"jsonrpc":"2.0","id":` + string(q.ID) + `,"result":{"v":"` + q.Method + `"}}`))
				}
			}
		}()
		type view struct {
			V      string          `json:"jsonrpc"`
			ID     json.RawMessage `json:"id"`
			Result json.RawMessage `json:"result"`
			Error  json.RawMessage `json:"error"`
		}
		for _, m := range []string{"ok", "fail"} {
			rsp, _ := pcli.Call(ctx, m, nil)
			if rsp == nil { // a failed call reports its response through the error only: go through a batch
				rs, err := pcli.Batch(ctx, []jrpc2.Spec{{Method: m}})
				if err != nil || len(rs) != 1 {
					res.Violatef("Batch against a scripted peer failed", m, "%v", err)
					continue
				}
				rsp = rs[0]
			}
			var first view
			for step, id := range []string{"", `"caller-7"`, `4096`, `"x\"y"`, `-1.5e3`} {
				if id != "" {
					rsp.SetID(id)
				}
				b, err := json.Marshal(rsp)
				in := map[string]any{"response_of": m, "marshal_after_SetID": id, "step": step}
				res.Case(fmt.Sprintf("response-marshal/%s/%d", m, step), true, in)
				res.Evaluations++
				var v view
				if err != nil || json.Unmarshal(b, &v) != nil || v.V != "2.0" {
					res.Violatef("Response.MarshalJSON did not produce a JSON-RPC response", in, "%q %v", b, err)
					continue
				}
				if step == 0 {
					first = v
					continue
				}
				if string(v.ID) != id || rsp.ID() != id {
					res.Violatef("a relabelled response is not encoded with the id that was set", in, "SetID(%s), ID() = %s, encoded %s", id, rsp.ID(), b)
				}
				same := func(a, b json.RawMessage) bool { return len(a) == 0 && len(b) == 0 || jsonEqual(a, b) }
				if !same(v.Result, first.Result) || !same(v.Error, first.Error) {
					res.Violatef("relabelling a response changed its result or error", in, "first %s / %s, now %s", first.Result, first.Error, b)
				}
			}
		}
		peer.Close()
		pcli.Close()
	}
	// ---- model comparison of the encoder
	model := runOracle(t, lines)
	for i := range model {
		res.Traces++
		if model[i] == impl[i] {
			res.Agreements++
		} else {
			mb, _ := hexDecode(model[i])
			ib, _ := hexDecode(impl[i])
			res.Disagreef("encoder model vs emitted bytes", inputs[i], string(mb), string(ib))
		}
	}

	// ---- the hypotheses of emit_parse_roundtrip hold of what was actually marshalled: every id and
	// params text of an emitted request is one trimmed JSON value (Lean: partB)
	var hl []string
	var hin []any
	for i, l := range lines {
		kind, _ := inputs[i].(map[string]any)["kind"].(string)
		if !strings.HasPrefix(l, "c13e ") || !(strings.HasPrefix(kind, "client-") || kind == "server-notify" || kind == "server-callback" || kind == "server-result") {
			continue
		}
		f := strings.Fields(l)[2:]
		for k := 0; k+7 <= len(f); k += 7 {
			for _, part := range []string{f[k], f[k+2], f[k+3]} { // id, params, result
				if part != "-" {
					hl = append(hl, "c13b "+part)
					hin = append(hin, map[string]any{"kind": kind, "part": part})
				}
			}
		}
	}
	for i, l := range lines { // error responses: code text, data and the whole marshalled error object
		kind, _ := inputs[i].(map[string]any)["kind"].(string)
		if kind != "server-error" || !strings.HasPrefix(l, "c13e ") {
			continue
		}
		f := strings.Fields(l)[2:]
		if len(f) == 7 && f[4] != "-" {
			hl = append(hl, "c13b "+f[0], fmt.Sprintf("c13x %s %s %s", f[4], f[5], f[6]))
			hin = append(hin, map[string]any{"kind": kind, "part": f[0]}, map[string]any{"kind": kind, "error": f[4:]})
		}
	}
	for i, o := range runOracle(t, hl) {
		res.Count("roundtrip-hypothesis")
		if o != "1" {
			res.Disagreef("an emitted id / params text does not meet the hypothesis of emit_parse_roundtrip", hin[i], "1", o)
		}
	}

	// ---- ParseRequests: total, error iff not JSON, one entry per member in order, flags = server's codes
	var plines []string
	var pimpl []string
	var ptexts []string
	for i := 0; i < pick(3000, 40000); i++ {
		var text string
		switch i % 4 {
		case 0:
			text = c02RandomVariant(rng, i%8 == 0).object(rng)
		case 1:
			n := rng.Intn(4)
			var ms []string
			for j := 0; j < n; j++ {
				ms = append(ms, c02RandomVariant(rng, rng.Intn(2) == 0).object(rng))
			}
			text = []string{"[", " [", "\r\n["}[rng.Intn(3)] + strings.Join(ms, ",") + "]"
		case 2:
			text = c02Junk(rng)
		default:
			text = fmt.Sprintf(`{"jsonrpc":"2.0","id":%d,"method":%s,"params":%s}`, i, mustJSON(methods[i%len(methods)]), randJSONValue(rng, 2))
		}
		got := func() (s string) {
			defer func() {
				if p := recover(); p != nil {
					s = fmt.Sprintf("PANIC %v", p)
				}
			}()
			prs, err := jrpc2.ParseRequests([]byte(text))
			if err != nil {
				if json.Valid([]byte(text)) {
					res.Violatef("ParseRequests reports a top-level error for valid JSON", text, "%v", err)
				}
				return "err"
			}
			if !json.Valid([]byte(text)) {
				res.Violatef("ParseRequests accepts invalid JSON", text, "%d entries", len(prs))
			}
			s = "ok"
			for _, p := range prs {
				e := "ok"
				if p.Error != nil {
					e = fmt.Sprint(int(p.Error.Code))
				}
				s += " | " + hxs(p.ID) + " " + hxs(p.Method) + " " + hx(p.Params) + " " + e
			}
			return s
		}()
		plines = append(plines, "c13p "+hxs(text))
		pimpl = append(pimpl, got)
		ptexts = append(ptexts, text)
		res.Case("parse:"+text, true, map[string]any{"ParseRequests": text})
	}
	pmodel := runOracle(t, plines)
	for i := range pmodel {
		res.Traces++
		if parseAllowed(pmodel[i], pimpl[i]) {
			res.Agreements++
		} else {
			res.Violatef("ParseRequests differs from the member parser rules", map[string]any{"text": ptexts[i]}, "text %q: rules (model) give %q; ParseRequests gives %q", ptexts[i], pmodel[i], pimpl[i])
		}
	}
}

func mustJSON(v any) string {
	b, err := json.Marshal(v)
	if err != nil {
		return `"x"`
	}
	return string(b)
}

// parseAllowed: like equality, but a flagged entry may carry any of the model's admissible codes,
// and the fields of a flagged entry are not compared ("may be incomplete or missing").
func parseAllowed(model, impl string) bool {
	if model == impl {
		return true
	}
	ms, is := strings.Split(model, " | "), strings.Split(impl, " | ")
	if len(ms) != len(is) || ms[0] != is[0] {
		return false
	}
	for i := 1; i < len(ms); i++ {
		fm, fi := strings.Fields(ms[i]), strings.Fields(is[i])
		if len(fm) != 4 || len(fi) != 4 {
			return false
		}
		if fm[3] == "ok" || fi[3] == "ok" {
			if ms[i] != is[i] {
				return false
			}
			continue
		}
		ok := false
		for _, c := range strings.Split(fm[3], ",") {
			ok = ok || c == fi[3]
		}
		if !ok {
			return false
		}
	}
	return true
}

func errClassShort(err error) string {
	s := err.Error()
	if i := strings.Index(s, " 0x"); i > 0 {
		return s[:i]
	}
	if len(s) > 40 {
		s = s[:40]
	}
	return s
}

// c13CheckRequest: the emitted request parses back, under an independent validator and under the
// library's own parser, to the same id, method and JSON-equal params.
func c13CheckRequest(res *Result, emitted []byte, id, method string, params []byte) {
	gid, gm, gp, err := strictRequest(emitted)
	in := map[string]any{"bytes": hx(emitted), "method": method}
	if err != nil {
		res.Violatef("emitted request is not a valid JSON-RPC request", in, "%q: %v", emitted, err)
		return
	}
	if gid != id || gm != method {
		res.Violatef("emitted request does not parse back to the same id/method", in, "%q: id %q method %q", emitted, gid, gm)
	}
	if len(params) == 0 || string(params) == "null" {
		if gp != nil {
			res.Violatef("emitted request grew params", in, "%q", emitted)
		}
	} else if !jsonEqual(gp, params) {
		res.Violatef("emitted params are not JSON-equal to the input", in, "%q vs %s", emitted, params)
	}
	prs, perr := jrpc2.ParseRequests(emitted)
	if perr != nil || len(prs) != 1 || prs[0].Error != nil || prs[0].ID != id || prs[0].Method != method {
		res.Violatef("library parser does not read back its own request", in, "%q: %v %+v", emitted, perr, prs)
	}
}
