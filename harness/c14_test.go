package harness

// C14 — errors keep their code, message and data from handler to caller.
// Correspondence: error trees → real Go error values returned by a real handler, observed by a
// real Client.Call; the same tree is sent to the Lean model (Jrpc.Errors). Search: the spec
// clauses are evaluated directly on the implementation's observations.

import (
	"context"
	"encoding/json"
	"errors"
	"fmt"
	"math"
	"math/rand"
	"strings"
	"testing"
	"time"

	"github.com/creachadair/jrpc2"
	"github.com/creachadair/jrpc2/handler"
	"github.com/creachadair/jrpc2/server"
)

type etree struct {
	Kind string `json:"k"` // J C X D P W N
	Code int32  `json:"c,omitempty"`
	Msg  string `json:"m,omitempty"`
	Data string `json:"d,omitempty"` // "" = absent
	A    *etree `json:"a,omitempty"`
	B    *etree `json:"b,omitempty"`
}

type myCoder struct {
	code jrpc2.Code
	msg  string
}

func (m myCoder) Error() string       { return m.msg }
func (m myCoder) ErrCode() jrpc2.Code { return m.code }

func (e *etree) build() error {
	switch e.Kind {
	case "J":
		je := &jrpc2.Error{Code: jrpc2.Code(e.Code), Message: e.Msg}
		if e.Data != "" {
			je.Data = json.RawMessage(e.Data)
		}
		return je
	case "C":
		if e.Msg == "" {
			err := jrpc2.Code(e.Code).Err()
			if err != nil {
				e.Msg = err.Error() // the model is given the actual text
				return err
			}
		}
		return myCoder{jrpc2.Code(e.Code), e.Msg}
	case "X":
		return context.Canceled
	case "D":
		return context.DeadlineExceeded
	case "P":
		return errors.New(e.Msg)
	case "W":
		return fmt.Errorf("%s: %w", e.Msg, e.A.build())
	case "N":
		return errors.Join(e.A.build(), e.B.build())
	}
	panic("bad kind")
}

func (e *etree) line() string {
	switch e.Kind {
	case "J":
		d := "none"
		if e.Data != "" {
			d = hxs(e.Data)
		}
		return fmt.Sprintf("J %d %s %s", e.Code, hxs(e.Msg), d)
	case "C":
		return fmt.Sprintf("C %d %s", e.Code, hxs(e.Msg))
	case "X", "D":
		return e.Kind
	case "P":
		return "P " + hxs(e.Msg)
	case "W":
		return "W " + hxs(e.Msg) + " " + e.A.line()
	case "N":
		return "N " + e.A.line() + " " + e.B.line()
	}
	panic("bad kind")
}

func (e *etree) shape() string {
	switch e.Kind {
	case "W":
		return "W(" + e.A.shape() + ")"
	case "N":
		return "N(" + e.A.shape() + "," + e.B.shape() + ")"
	case "J", "C":
		return fmt.Sprintf("%s%d", e.Kind, e.Code)
	}
	return e.Kind
}

var c14Codes = []int32{-32700, -32600, -32601, -32602, -32603, -32099, -32098, -32097, -32096, 0, 1, -1, 7,
	math.MinInt32, math.MaxInt32, -32000, -32768}
var c14Msgs = []string{"", "x", "boom: it failed", "héllo \"q\" \\ <&>   \t", "line1\nline2", "[1] nested"}
var c14Data = []string{"", `{"a":[1,2,{"b":null}]}`, `"s"`, `17`, `[ 1 , 2 ]`, `null`, `true`}

func c14Leaf(rng *rand.Rand) *etree {
	switch rng.Intn(6) {
	case 0:
		return &etree{Kind: "J", Code: c14Codes[rng.Intn(len(c14Codes))], Msg: c14Msgs[rng.Intn(len(c14Msgs))], Data: c14Data[rng.Intn(len(c14Data))]}
	case 1:
		return &etree{Kind: "C", Code: c14Codes[rng.Intn(len(c14Codes))], Msg: c14Msgs[rng.Intn(len(c14Msgs))]}
	case 2:
		return &etree{Kind: "X"}
	case 3:
		return &etree{Kind: "D"}
	default:
		return &etree{Kind: "P", Msg: c14Msgs[1+rng.Intn(len(c14Msgs)-1)]}
	}
}

func c14Tree(rng *rand.Rand, depth int) *etree {
	if depth == 0 || rng.Intn(3) == 0 {
		return c14Leaf(rng)
	}
	if rng.Intn(2) == 0 {
		return &etree{Kind: "W", Msg: c14Msgs[1+rng.Intn(len(c14Msgs)-1)], A: c14Tree(rng, depth-1)}
	}
	return &etree{Kind: "N", A: c14Tree(rng, depth-1), B: c14Tree(rng, depth-1)}
}

// all trees of the given depth over a reduced leaf set (exhaustive part)
func c14AllTrees(depth int, leaves []*etree) []*etree {
	if depth == 0 {
		return leaves
	}
	sub := c14AllTrees(depth-1, leaves)
	out := append([]*etree{}, leaves...)
	for _, a := range sub {
		out = append(out, &etree{Kind: "W", Msg: "w", A: a})
	}
	for _, a := range sub {
		for _, b := range sub {
			out = append(out, &etree{Kind: "N", A: a, B: b})
		}
	}
	return out
}

func describeClientErr(err error) string {
	switch {
	case err == nil:
		return "nil"
	case err == context.Canceled:
		return "canceled"
	case err == context.DeadlineExceeded:
		return "deadline"
	}
	var je *jrpc2.Error
	if e, ok := err.(*jrpc2.Error); ok {
		je = e
		d := "none"
		if len(je.Data) != 0 {
			d = hx(je.Data)
		}
		return fmt.Sprintf("jerr %d %s %s", je.Code, hxs(je.Message), d)
	}
	return "other:" + err.Error()
}

func TestC14(t *testing.T) {
	res := newResult("C14", "error trees (leaf kinds: *Error, ErrCoder/Code.Err, context sentinels, plain; %w wrappers; errors.Join) returned by a real handler and observed through a real Client.Call; distinct = distinct tree shape (kinds+codes), non-trivial = non-nil error")
	defer res.Write(t)
	rng := newRNG()

	var trees []*etree
	if in, ok := replayInput(); ok {
		var e etree
		if json.Unmarshal(in, &e) == nil && e.Kind != "" {
			trees = []*etree{&e}
		}
	}
	if trees == nil {
		// exhaustive small part: all trees of depth <= 2 (quick) over 7 leaves
		leaves := []*etree{
			{Kind: "J", Code: -32097, Msg: "c"}, {Kind: "J", Code: 5, Msg: "five", Data: `{"k":1}`},
			{Kind: "C", Code: -32099, Msg: "noerr"}, {Kind: "C", Code: -32096, Msg: "dl"},
			{Kind: "X"}, {Kind: "D"}, {Kind: "P", Msg: "plain"},
		}
		trees = c14AllTrees(pick(1, 2), leaves)
		if len(trees) > 40000 {
			rng.Shuffle(len(trees), func(i, j int) { trees[i], trees[j] = trees[j], trees[i] })
			trees = trees[:40000]
		}
		for i := 0; i < pick(3000, 60000); i++ {
			trees = append(trees, c14Tree(rng, 1+rng.Intn(3)))
		}
		// every leaf alone with every code
		for _, c := range c14Codes {
			for _, m := range c14Msgs {
				trees = append(trees, &etree{Kind: "J", Code: c, Msg: m, Data: c14Data[rng.Intn(len(c14Data))]})
				trees = append(trees, &etree{Kind: "C", Code: c, Msg: m})
			}
		}
	}

	errs := make([]error, len(trees))
	for i, tr := range trees {
		errs[i] = tr.build()
	}
	c14mux := handler.Map{
		"e": handler.New(func(ctx context.Context, idx []int) (any, error) { return nil, errs[idx[0]] }),
		"bad": func(ctx context.Context, req *jrpc2.Request) (any, error) {
			return map[string]any{"f": func() {}}, nil // not marshalable
		},
		"badch":  func(ctx context.Context, req *jrpc2.Request) (any, error) { return make(chan int), nil },
		"nan":    func(ctx context.Context, req *jrpc2.Request) (any, error) { return math.NaN(), nil },
		"rawbad": func(ctx context.Context, req *jrpc2.Request) (any, error) { return json.RawMessage(`{"a":[1,2,}`), nil },
		"rawtrunc": func(ctx context.Context, req *jrpc2.Request) (any, error) {
			return json.RawMessage(`{"a":"unterminated`), nil
		},
		"rawptr": func(ctx context.Context, req *jrpc2.Request) (any, error) {
			r := json.RawMessage(`nope`)
			return &r, nil
		},
		"marshaler": func(ctx context.Context, req *jrpc2.Request) (any, error) { return badMarshaler{}, nil },
	}
	loc := server.NewLocal(c14mux, &server.LocalOptions{Server: &jrpc2.ServerOptions{Concurrency: 4}})
	defer loc.Close()
	ctx := context.Background()

	lines := make([]string, len(trees))
	impl := make([]string, len(trees))
	single := make([]string, len(trees)) // what a call of its own reports for tree i
	for i, tr := range trees {
		lines[i] = "c14 " + tr.line()
		_, err := loc.Client.Call(ctx, "e", []int{i})
		single[i] = describeClientErr(err)
		// the other entry points report the same error: CallResult, and a Batch entry's Error()
		var ignored any
		err2 := loc.Client.CallResult(ctx, "e", []int{i}, &ignored)
		if describeClientErr(err2) != describeClientErr(err) || (err == context.Canceled) != (err2 == context.Canceled) || (err == context.DeadlineExceeded) != (err2 == context.DeadlineExceeded) {
			res.Violatef("CallResult reports a handler's error differently from Call", tr, "tree %s: Call %s, CallResult %s", tr.line(), describeClientErr(err), describeClientErr(err2))
		}
		hErr := errs[i]
		hc, cc := jrpc2.ErrorCode(hErr), jrpc2.ErrorCode(err)
		var wireMsg string
		wireData := "none"
		wireCode := cc
		// reconstruct what was on the wire from the client error
		switch {
		case err == context.Canceled:
			wireMsg = "?"
		case err == context.DeadlineExceeded:
			wireMsg = "?"
		default:
			if je, ok := err.(*jrpc2.Error); ok {
				wireMsg = je.Message
				if len(je.Data) != 0 {
					wireData = hx(je.Data)
				}
			}
		}
		impl[i] = fmt.Sprintf("wire %d %s %s client %s code %d hcode %d", wireCode, hxs(wireMsg), wireData, describeClientErr(err), cc, hc)
		res.Case(tr.shape(), true, map[string]any{"tree": tr.line(), "client": describeClientErr(err)})
		res.Count("root:" + tr.Kind)
		res.Count(fmt.Sprintf("hcode:%d", hc))

		// ---- spec on the implementation's own observation
		topJ := tr.Kind == "J"
		if err == nil {
			res.Violatef("handler error lost: call succeeded", tr, "tree %s: client got nil error", tr.line())
			continue
		}
		if hc != jrpc2.NoError || topJ {
			if cc != hc {
				res.Violatef(fmt.Sprintf("ErrorCode differs: handler %d client %d", hc, cc), tr, "tree %s: ErrorCode(handler)=%d ErrorCode(client)=%d (%v)", tr.line(), hc, cc, err)
			}
		}
		if hc == jrpc2.Cancelled && err != context.Canceled {
			res.Violatef("canceled does not surface as context.Canceled", tr, "tree %s: got %v", tr.line(), err)
		}
		if hc == jrpc2.DeadlineExceeded && err != context.DeadlineExceeded {
			res.Violatef("deadline does not surface as context.DeadlineExceeded", tr, "tree %s: got %v", tr.line(), err)
		}
		if topJ && tr.Code != int32(jrpc2.Cancelled) && tr.Code != int32(jrpc2.DeadlineExceeded) {
			je, ok := err.(*jrpc2.Error)
			if !ok {
				res.Violatef("*Error does not arrive as *Error", tr, "tree %s: got %T %v", tr.line(), err, err)
			} else {
				if int32(je.Code) != tr.Code || je.Message != tr.Msg {
					res.Violatef("*Error code/message changed", tr, "tree %s: got code=%d msg=%q", tr.line(), je.Code, je.Message)
				}
				if tr.Data == "" && len(je.Data) != 0 || tr.Data != "" && !jsonEqual([]byte(tr.Data), je.Data) {
					res.Violatef("*Error data changed", tr, "tree %s: got data=%q", tr.line(), je.Data)
				}
			}
		}
	}

	// ---- the same errors as members of ONE batch: each member must report what it reports alone
	// (its own code, message and data - not a neighbour's)
	for start := 0; start+1 < len(trees) && start < pick(1500, 20000); {
		k := 2 + rng.Intn(5)
		if start+k > len(trees) {
			k = len(trees) - start
		}
		specs := make([]jrpc2.Spec, k)
		for j := range specs {
			specs[j] = jrpc2.Spec{Method: "e", Params: []int{start + j}}
		}
		rsps, berr := loc.Client.Batch(ctx, specs)
		if berr != nil || len(rsps) != k {
			res.Violatef("batch of failing calls not answered", trees[start], "trees %d..%d: %d responses, err %v", start, start+k-1, len(rsps), berr)
		} else {
			for j, rsp := range rsps {
				var got error
				if e := rsp.Error(); e != nil {
					got = e
				}
				g := describeClientErr(got)
				// Batch reports the wire error as it is; Call maps the two cancellation codes to the sentinels
				w := single[start+j]
				if e := rsp.Error(); e != nil && (w == "canceled" || w == "deadline") {
					if !(w == "canceled" && e.Code == jrpc2.Cancelled || w == "deadline" && e.Code == jrpc2.DeadlineExceeded) {
						res.Violatef("a batch member reports another error than the same call alone", trees[start+j], "tree %s as member %d of a batch of %d: alone %s, in the batch %s", trees[start+j].line(), j, k, w, g)
					}
					continue
				}
				if g != w {
					res.Violatef("a batch member reports another error than the same call alone", trees[start+j], "tree %s as member %d of a batch of %d: alone %s, in the batch %s", trees[start+j].line(), j, k, w, g)
				}
			}
		}
		res.Case(fmt.Sprintf("batch/%d", k), true, k)
		start += k
	}

	// model correspondence
	model := runOracle(t, lines)
	for i := range model {
		m, im := model[i], impl[i]
		// the wire message is unobservable when the client error is a context sentinel
		if strings.Contains(im, " client canceled ") || strings.Contains(im, " client deadline ") {
			m = maskField(m, 2, "3f")
			m = maskField(m, 3, "none")
			im = maskField(im, 3, "none")
		}
		// data is compared as JSON, not bytes
		if m == im || c14EqualModuloData(m, im) {
			res.Agreements++
		} else {
			res.Disagreef("C14 error transport", trees[i], m, im)
		}
	}
	res.Traces = len(model)

	// ---- unmarshalable results become error responses (observed on the wire and through the client)
	for _, m := range []string{"bad", "badch", "nan", "rawbad", "rawtrunc", "rawptr", "marshaler"} {
		res.Case("unmarshalable:"+m, true, m)
		cli, sch := rawPair()
		rs := jrpc2.NewServer(c14mux, nil).Start(sch)
		cli.Send([]byte(`{"jsonrpc":"2.0","id":1,"method":"` + m + `"}`))
		reply, rerr := cli.Recv()
		var obj struct {
			Result json.RawMessage `json:"result"`
			Error  *struct {
				Code    *int    `json:"code"`
				Message *string `json:"message"`
			} `json:"error"`
		}
		if rerr != nil || !json.Valid(reply) || json.Unmarshal(reply, &obj) != nil {
			res.Violatef("unmarshalable result: malformed response on the wire", m, "method %s: reply %q err %v", m, reply, rerr)
		} else if obj.Error == nil || obj.Error.Code == nil || obj.Error.Message == nil || obj.Result != nil {
			res.Violatef("unmarshalable result did not become an error response", m, "method %s: reply %s", m, reply)
		}
		cli.Close()
		rs.Wait()
		rsp, err := loc.Client.Call(ctx, m, nil)
		if err == nil {
			res.Violatef("unmarshalable result did not become an error", m, "method %s: got result %s", m, rsp.ResultString())
		} else if _, ok := err.(*jrpc2.Error); !ok {
			res.Violatef("unmarshalable result: malformed or missing response", m, "method %s: %v", m, err)
		}
		if loc.Client.IsStopped() {
			res.Violatef("unmarshalable result broke the connection", m, "method %s: client stopped (%v)", m, err)
			break
		}
	}

	// ---- an *Error whose Data is valid but not compact JSON (indented, with line breaks): on the
	// wire the reply is still one line of valid JSON, and the data arrive JSON-equal
	for i, data := range []string{"{\n  \"a\": 1,\n  \"b\": [1,\n 2]\n}", " [ 1 ,\t2 ] ", "\"x\"", `{"k":[1,2,{"z":null}]}`, "[\r\n]"} {
		res.Case(fmt.Sprintf("error-data-wire/%d", i), true, data)
		cli, sch := rawPair()
		rs := jrpc2.NewServer(handler.Map{"e": func(ctx context.Context, req *jrpc2.Request) (any, error) {
			return nil, &jrpc2.Error{Code: 4001, Message: "with data", Data: json.RawMessage(data)}
		}}, nil).Start(sch)
		cli.Send([]byte(`{"jsonrpc":"2.0","id":1,"method":"e"}`))
		got := make(chan []byte, 1)
		go func() { b, _ := cli.Recv(); got <- b }()
		select {
		case reply := <-got:
			var obj struct {
				Error *struct {
					Code int             `json:"code"`
					Data json.RawMessage `json:"data"`
				} `json:"error"`
			}
			bad := ""
			for _, c := range reply {
				if c < 0x20 {
					bad = fmt.Sprintf("control byte 0x%02x in the reply", c)
				}
			}
			switch {
			case !json.Valid(reply) || json.Unmarshal(reply, &obj) != nil || obj.Error == nil:
				res.Violatef("*Error with data: malformed or missing error response", data, "reply %q", reply)
			case bad != "":
				res.Violatef("*Error with data: the reply is not a single line", data, "%s: %q", bad, reply)
			case obj.Error.Code != 4001 || !jsonEqual(obj.Error.Data, []byte(data)):
				res.Violatef("*Error data changed", data, "reply %q", reply)
			}
		case <-time.After(5 * time.Second):
			res.Violatef("*Error with data: no reply", data, "")
		}
		cli.Close()
		rs.Wait()
	}

	// ---- the same for the handler on the other side: a client's OnCallback handler answering a
	// server Callback. Raw peer first (what is on the wire), then a real server.
	for _, m := range []string{"bad", "badch", "nan", "rawbad", "rawtrunc", "rawptr", "marshaler", "e", "epct"} {
		res.Case("callback-unmarshalable:"+m, true, m)
		onCB := func(cctx context.Context, req *jrpc2.Request) (any, error) {
			if req.Method() == "e" {
				return nil, &jrpc2.Error{Code: 7, Message: "cb failed", Data: json.RawMessage(`[1]`)}
			}
			if req.Method() == "epct" { // a message with format verbs in it, and data that cannot be encoded
				return nil, &jrpc2.Error{Code: 7, Message: "disk 100% full (%d of %s) %!", Data: json.RawMessage(`{"a":`)}
			}
			return c14mux[req.Method()](cctx, req)
		}
		peer, cch := rawPair()
		cl := jrpc2.NewClient(cch, &jrpc2.ClientOptions{OnCallback: onCB})
		peer.Send([]byte(`{"jsonrpc":"2.0","id":41,"method":"` + m + `"}`))
		reply, rerr := peer.Recv()
		var obj struct {
			ID     json.RawMessage `json:"id"`
			Result json.RawMessage `json:"result"`
			Error  *struct {
				Code    *int    `json:"code"`
				Message *string `json:"message"`
			} `json:"error"`
		}
		if rerr != nil || !json.Valid(reply) || json.Unmarshal(reply, &obj) != nil {
			res.Violatef("callback handler: malformed reply on the wire", m, "method %s: reply %q err %v", m, reply, rerr)
		} else if obj.Error == nil || obj.Error.Code == nil || obj.Error.Message == nil || obj.Result != nil || string(obj.ID) != "41" {
			res.Violatef("callback handler: unmarshalable result (or error) did not become an error reply", m, "method %s: reply %s", m, reply)
		} else if (m == "e" || m == "epct") && *obj.Error.Code != 7 {
			res.Violatef("callback handler: *Error code changed", m, "reply %s", reply)
		} else if m == "epct" && *obj.Error.Message != "disk 100% full (%d of %s) %!" {
			res.Violatef("callback handler: *Error message changed", m, "reply %s", reply)
		}
		peer.Close()
		cl.Close()

		// through a real server: Callback must report an error
		sch2, cch2 := rawPair()
		got := make(chan error, 1)
		srv2 := jrpc2.NewServer(handler.Map{"go": func(hctx context.Context, req *jrpc2.Request) (any, error) {
			rsp, err := jrpc2.ServerFromContext(hctx).Callback(hctx, m, nil)
			if err == nil {
				err = fmt.Errorf("SUCCESS:%s", rsp.ResultString())
			}
			got <- err
			return nil, nil
		}}, &jrpc2.ServerOptions{AllowPush: true}).Start(sch2)
		cl2 := jrpc2.NewClient(cch2, &jrpc2.ClientOptions{OnCallback: onCB})
		cl2.Notify(ctx, "go", nil)
		select {
		case err := <-got:
			if strings.HasPrefix(err.Error(), "SUCCESS:") {
				res.Violatef("callback handler: unmarshalable result did not become an error", m, "method %s: Callback returned %s", m, err)
			} else if je, ok := err.(*jrpc2.Error); !ok {
				res.Violatef("callback handler: malformed or missing reply", m, "method %s: %v", m, err)
			} else if m == "e" && (je.Code != 7 || je.Message != "cb failed" || !jsonEqual(je.Data, []byte(`[1]`))) {
				res.Violatef("callback handler: *Error code/message/data changed", m, "%+v", je)
			} else if m == "epct" && (je.Code != 7 || je.Message != "disk 100% full (%d of %s) %!") {
				res.Violatef("callback handler: *Error code/message changed", m, "%+v", je)
			}
		case <-time.After(5 * time.Second):
			res.Violatef("callback handler: Callback never returned", m, "method %s", m)
		}
		cl2.Close()
		srv2.Wait()
	}

	// ---- ErrorCode(c.Err()) == c
	check := func(c int32) {
		code := jrpc2.Code(c)
		res.Evaluations++
		e := code.Err()
		if code == jrpc2.NoError {
			if e != nil {
				res.Violatef("NoError.Err() is not nil", c, "%v", e)
			}
			return
		}
		if got := jrpc2.ErrorCode(e); got != code {
			res.Violatef("ErrorCode(c.Err()) != c", c, "c=%d got %d", c, got)
		}
	}
	for _, c := range c14Codes {
		check(c)
	}
	for c := int32(-33000); c < -31000; c++ {
		check(c)
	}
	for i := 0; i < pick(20000, 1000000); i++ {
		check(int32(rng.Uint32()))
	}

	// ---- WithData never modifies its receiver
	for _, d := range c14Data {
		for _, v := range []any{nil, 5, "s", []int{1}, map[string]any{"k": 1}, make(chan int), func() {}, math.Inf(1),
			// strings whose Go quoting differs from their JSON quoting
			"ctl\x01", "bell\a\v", "del\x7f", "tag\U000e0001", "q\"b\\s", "é\u2028<>&", "bad\xffutf8", "",
			[]string{"\x02"}, map[string]string{"\x03": "\x04"}, json.RawMessage(" [ 1 ,\n 2 ] "), json.RawMessage(`{"a":`), []byte("bytes"), true, 1.5e300, int64(-1) << 63} {
			orig := &jrpc2.Error{Code: 7, Message: "m"}
			if d != "" {
				orig.Data = json.RawMessage(d)
			}
			before := fmt.Sprintf("%d|%s|%s", orig.Code, orig.Message, orig.Data)
			keep := orig.Data
			got := orig.WithData(v)
			after := fmt.Sprintf("%d|%s|%s", orig.Code, orig.Message, orig.Data)
			res.Evaluations++
			if before != after || string(keep) != d {
				res.Violatef("WithData modified its receiver", fmt.Sprint(v), "before %s after %s", before, after)
			}
			if got == nil || got.Code != orig.Code || got.Message != orig.Message {
				res.Violatef("WithData changed code or message", fmt.Sprint(v), "%+v", got)
			}
			bits, merr := json.Marshal(v)
			if v == nil || merr != nil {
				if got != orig {
					res.Violatef("WithData with nothing to attach did not return the receiver", fmt.Sprint(v), "%+v", got)
				}
			} else if !jsonEqual(bits, got.Data) {
				res.Violatef("WithData attached wrong data", fmt.Sprint(v), "%s", got.Data)
			}
		}
	}
}

type badMarshaler struct{}

func (badMarshaler) MarshalJSON() ([]byte, error) { return []byte(`{"x":`), nil }

func maskField(s string, idx int, with string) string {
	f := strings.Fields(s)
	if idx < len(f) {
		f[idx] = with
	}
	return strings.Join(f, " ")
}

func c14EqualModuloData(a, b string) bool {
	fa, fb := strings.Fields(a), strings.Fields(b)
	if len(fa) != len(fb) {
		return false
	}
	for i := range fa {
		if fa[i] == fb[i] {
			continue
		}
		// hex JSON data fields: compare as JSON
		da, ea := hexDecode(fa[i])
		db, eb := hexDecode(fb[i])
		if ea == nil && eb == nil && jsonEqual(da, db) {
			continue
		}
		return false
	}
	return true
}
