package harness

// C15 — handler.New/Check: the function gets exactly the decoded params or is not called.
// C16 — handler.Positional, Args and Obj: positional and keyed decoding are exact.

import (
	"bytes"
	"context"
	"encoding/json"
	"errors"
	"fmt"
	"reflect"
	"strings"
	"sync"
	"testing"

	"github.com/creachadair/jrpc2"
	"github.com/creachadair/jrpc2/handler"
)

var (
	tCtx = reflect.TypeOf((*context.Context)(nil)).Elem()
	tErr = reflect.TypeOf((*error)(nil)).Elem()
	tReq = reflect.TypeOf((*jrpc2.Request)(nil))
)

// ---- a pool of declared parameter types

type pPlain struct {
	A int
	B string `json:"b"`
}
type pTagged struct {
	X    int    `json:"x,omitempty"`
	Skip string `json:"-"`
	Y    []int  `json:"why"`
	z    int
}
type pInner struct{ I int }
type pEmbed struct {
	pInner2
	Name string `json:"name"`
	N    int
}
type pInner2 struct{ Q int }
type PInnerX struct{ K int }
type pEmbedTagged struct {
	Name    string `json:"name"`
	PInnerX `json:",omitempty"`
	Count   int `json:"count"`
}
type pEmbedNamed struct {
	PInnerX `json:"inner"`
	Z       int
}
type pStrictV struct {
	A int `json:"a"`
	B int `json:"b"`
}

func (pStrictV) DisallowUnknownFields() {}

// pLevel has its own decoder, which reports failure as a *jrpc2.Error with an application code:
// whatever a decoder returns, undecodable parameters are InvalidParams
type pLevel int

func (l *pLevel) UnmarshalJSON(b []byte) error {
	switch string(b) {
	case `"low"`:
		*l = 1
	case `"high"`:
		*l = 2
	case `null`:
	default:
		return jrpc2.Errorf(1001, "unknown level %s", b)
	}
	return nil
}

// pDash: a tag whose NAME is a dash (`json:"-,"`) is an ordinary field with the key "-"; only the
// exact tag `json:"-"` omits a field
type pDash struct {
	Dash  int    `json:"-,"`
	Other string `json:"o,omitempty"`
	Gone  int    `json:"-"`
}

// pStrictNest: strict decoding is recursive - an unknown key inside a nested object is refused too,
// in object and in array notation
type pStrictNest struct {
	Name string `json:"name"`
	In   pInner `json:"in"`
}

func (pStrictNest) DisallowUnknownFields() {}

type pStrictP struct{ A int }

func (*pStrictP) DisallowUnknownFields() {}

var c15ArgTypes = []reflect.Type{
	reflect.TypeOf(0), reflect.TypeOf(""), reflect.TypeOf([]int(nil)), reflect.TypeOf(map[string]int(nil)), reflect.TypeOf([2]string{}),
	reflect.TypeOf(pPlain{}), reflect.TypeOf(&pPlain{}), reflect.TypeOf(pTagged{}), reflect.TypeOf(pEmbed{}), reflect.TypeOf(pEmbedTagged{}),
	reflect.TypeOf(&pEmbedTagged{}), reflect.TypeOf(pEmbedNamed{}), reflect.TypeOf(pStrictV{}), reflect.TypeOf(&pStrictV{}), reflect.TypeOf(pStrictP{}),
	reflect.TypeOf(&pStrictP{}), reflect.TypeOf((*any)(nil)).Elem(), reflect.TypeOf(json.RawMessage(nil)), reflect.TypeOf(true), reflect.TypeOf(1.5),
	reflect.TypeOf(struct{}{}), reflect.TypeOf((*int)(nil)),
	// non-struct parameters that contain structs: strict decoding applies to the whole value
	reflect.TypeOf([]pPlain(nil)), reflect.TypeOf(map[string]pPlain(nil)), reflect.TypeOf([1]pPlain{}), reflect.TypeOf((**pPlain)(nil)), reflect.TypeOf([]*pTagged(nil)),
	reflect.TypeOf(pLevel(0)), reflect.TypeOf([]pLevel(nil)),
	reflect.TypeOf(pDash{}), reflect.TypeOf(&pDash{}),
	reflect.TypeOf(pStrictNest{}), reflect.TypeOf(&pStrictNest{}),
}

// docFieldNames: the positional names of a struct parameter as documented: exported fields in
// order, named by their json tag if it has a name, skipping "-" and embedded fields without a name.
func docFieldNames(t reflect.Type) []string {
	if t == nil {
		return nil
	}
	if t.Kind() == reflect.Ptr {
		t = t.Elem()
	}
	if t.Kind() != reflect.Struct {
		return nil
	}
	var names []string
	for i := 0; i < t.NumField(); i++ {
		f := t.Field(i)
		if f.PkgPath != "" {
			continue
		}
		tag, has := f.Tag.Lookup("json")
		if has && tag == "-" {
			continue
		}
		name := strings.Split(tag, ",")[0]
		if has && name != "" {
			names = append(names, name)
			continue
		}
		if f.Anonymous {
			continue
		}
		names = append(names, f.Name)
	}
	return names
}

func hasStrictMethod(t reflect.Type) bool {
	if t == nil {
		return false
	}
	if _, ok := t.MethodByName("DisallowUnknownFields"); ok {
		return true
	}
	if t.Kind() != reflect.Ptr {
		if _, ok := reflect.PointerTo(t).MethodByName("DisallowUnknownFields"); ok {
			return true
		}
	}
	return false
}

func kindChar(t reflect.Type) string {
	switch t {
	case tCtx:
		return "c"
	case tErr:
		return "e"
	case tReq:
		return "r"
	}
	return "o"
}

func kindsOf(ts []reflect.Type) string {
	if len(ts) == 0 {
		return "-"
	}
	s := ""
	for _, t := range ts {
		s += kindChar(t)
	}
	return s
}

func bit(b bool) string {
	if b {
		return "1"
	}
	return "0"
}

var c15Params = []string{
	"", "null", "{}", "[]", `{"A":1,"b":"x"}`, `{"a":1,"B":"x"}`, `{"A":1,"zz":2}`, `[1,"x"]`, `[1]`, `[1,"x",3]`, `["x",1]`, `5`, `"s"`, `true`,
	`{"x":3,"why":[1,2]}`, `[3,[1,2]]`, `{"name":"n","N":2,"Q":5}`, `["n",2]`, `["n",{"K":1},3]`, `["n",3]`, `{"name":"n","K":4,"count":2}`, `{"inner":{"K":1},"Z":2}`, `[{"K":1},2]`,
	`{"a":1,"b":2}`, `[1,2]`, `{"a":1,"b":2,"c":3}`, `[1,2,3]`, `{"A":7}`, `{"A":7,"extra":true}`, `[7]`, `[1, 2 ]`, ` [ 1 ] `, `[null,null]`, `{"A":null}`, `[[1,2],3]`, `{"k":1,"j":2}`, `[1.5]`, `1.5`,
	`"low"`, `"medium"`, `["high","medium"]`, `[{"A":1,"b":"x"}]`, `[{"A":1,"zz":2}]`, `{"k":{"A":1,"b":"y"}}`, `{"k":{"A":1,"zz":2}}`, `[{"x":1,"nope":0}]`,
	`{"-":4,"o":"x"}`, `[4,"x",9]`,
	`["n",{"I":7}]`, `["n",{"I":7,"bogus":true}]`, `{"name":"n","in":{"I":7,"bogus":true}}`, `{"name":"n","in":{"I":7}}`, `["n",{"I":7},3]`,
	// a request that is refused after part of it has been decoded, then one that omits those parts
	// strings whose content looks like structure (escaped backslash before the closing quote, quotes, brackets, commas)
	`[1,"C:\\"]`, `[1,"a\"b"]`, `[1,"],["]`, `[1,"\\\""]`, `{"A":1,"b":"C:\\"}`,
	`{"A":9,"b":5}`, `{"b":"only"}`, `[8,[]]`, `{}`, `{"x":7,"why":"no"}`, `{"why":[4]}`, `{"k":3,"j":"no"}`, `{"j":1}`, `[{"A":1},{"A":"no"}]`, `[{"b":"z"}]`,
}

func TestC15(t *testing.T) {
	res := newResult("C15", "function types generated from a grammar (0..3 inputs from {context, int, string, *Request, struct, error, slice}, variadic or not, 0..3 outputs from {error, int, struct}) plus non-function values for Check; for accepted signatures, parameter types from a pool of 22 declared types (scalars, slices, maps, arrays, structs with tagged / untagged / `-` / unexported / embedded fields incl. embedded with option-only and named tags, pointers, types with value- and pointer-receiver DisallowUnknownFields, any, RawMessage) x SetStrict x AllowArray x 38 params texts. The captured argument is compared with encoding/json applied (strictly or not, as the model says) to the text the model says is decoded. distinct = (signature, options, params); non-trivial = all")
	defer res.Write(t)
	ctx := context.Background()

	// ---- Part A: Check
	inPool := []reflect.Type{tCtx, reflect.TypeOf(0), reflect.TypeOf(""), tReq, reflect.TypeOf(pPlain{}), tErr, reflect.TypeOf([]int(nil))}
	outPool := []reflect.Type{tErr, reflect.TypeOf(0), reflect.TypeOf(pPlain{})}
	var lines, impl []string
	var inputs []any
	var gen func(pool []reflect.Type, n int) [][]reflect.Type
	gen = func(pool []reflect.Type, n int) [][]reflect.Type {
		if n == 0 {
			return [][]reflect.Type{{}}
		}
		var out [][]reflect.Type
		for _, pre := range gen(pool, n-1) {
			for _, t := range pool {
				out = append(out, append(append([]reflect.Type{}, pre...), t))
			}
		}
		return out
	}
	for nin := 0; nin <= 3; nin++ {
		for _, ins := range gen(inPool, nin) {
			for nout := 0; nout <= 3; nout++ {
				for _, outs := range gen(outPool, nout) {
					for _, variadic := range []bool{false, true} {
						if variadic && (nin == 0 || ins[nin-1].Kind() != reflect.Slice) {
							continue
						}
						ft := reflect.FuncOf(ins, outs, variadic)
						fn := reflect.MakeFunc(ft, func(args []reflect.Value) []reflect.Value {
							rs := make([]reflect.Value, len(outs))
							for i, o := range outs {
								rs[i] = reflect.Zero(o)
							}
							return rs
						}).Interface()
						got := "reject"
						func() {
							defer func() {
								if p := recover(); p != nil {
									got = fmt.Sprintf("PANIC %v", p)
								}
							}()
							if fi, err := handler.Check(fn); err == nil && fi != nil {
								got = "accept"
							}
						}()
						lines = append(lines, fmt.Sprintf("c15k 1 %s %s %s", bit(variadic), kindsOf(ins), kindsOf(outs)))
						impl = append(impl, got)
						inputs = append(inputs, ft.String())
						res.Case("check/"+ft.String(), true, ft.String())
					}
				}
			}
		}
	}
	for _, v := range []any{nil, 5, "s", struct{}{}, []int{1}, (*int)(nil)} {
		got := "reject"
		func() {
			defer func() {
				if p := recover(); p != nil {
					got = fmt.Sprintf("PANIC %v", p)
				}
			}()
			if fi, err := handler.Check(v); err == nil && fi != nil {
				got = "accept"
			}
		}()
		lines = append(lines, "c15k 0 0 - -")
		impl = append(impl, got)
		inputs = append(inputs, fmt.Sprintf("%T", v))
		res.Case(fmt.Sprintf("check/%T", v), true, fmt.Sprintf("%T", v))
	}
	model := runOracle(t, lines)
	for i := range model {
		res.Traces++
		if strings.SplitN(model[i], " ", 2)[0] == impl[i] {
			res.Agreements++
		} else {
			res.Violatef("Check does not accept exactly the documented signatures: want "+strings.SplitN(model[i], " ", 2)[0]+" got "+strings.SplitN(impl[i], " ", 2)[0], inputs[i],
				"%v: documented %s, Check %s", inputs[i], model[i], impl[i])
		}
	}

	// ---- Part B: Wrap
	type wcase struct {
		arg                reflect.Type // nil = no argument
		strict, allowArray bool
		params             string
		called             int
		got                any
		gotReq             *jrpc2.Request
		rerr               error
		rval               any
		panicked           string
		req                *jrpc2.Request
	}
	var wl []string
	var wcs []*wcase
	argTypes := append([]reflect.Type{nil, tReq}, c15ArgTypes...)
	// One function and ONE wrapped handler per (parameter type, options), used for all the params
	// texts in turn - as a registered handler is: a request that was refused half-way through
	// decoding must leave nothing behind for the next. Functions of one parameter type share their Go
	// type; the non-default options come first and the defaults are left untouched (no setter
	// called), so that settings cannot travel from one function to another of the same type unseen.
	for _, arg := range argTypes {
		for _, strict := range []bool{true, false} {
			for _, allowArray := range []bool{false, true} {
				var wc *wcase
				ins := []reflect.Type{tCtx}
				if arg != nil {
					ins = append(ins, arg)
				}
				ft := reflect.FuncOf(ins, []reflect.Type{reflect.TypeOf(""), tErr}, false)
				fn := reflect.MakeFunc(ft, func(args []reflect.Value) []reflect.Value {
					wc.called++
					if len(args) > 1 {
						wc.got = args[1].Interface()
					}
					return []reflect.Value{reflect.ValueOf("result"), reflect.Zero(tErr)}
				}).Interface()
				fi, err := handler.Check(fn)
				if err != nil {
					continue
				}
				if strict {
					fi.SetStrict(true)
				}
				if !allowArray {
					fi.AllowArray(false)
				}
				var h jrpc2.Handler
				wrapPanic := ""
				func() {
					defer func() {
						if p := recover(); p != nil {
							wrapPanic = fmt.Sprint(p)
						}
					}()
					h = fi.Wrap()
				}()
				for _, params := range c15Params {
					wc = &wcase{arg: arg, strict: strict, allowArray: allowArray, params: params}
					text := fmt.Sprintf(`{"jsonrpc":"2.0","id":1,"method":"m","params":%s}`, params)
					if params == "" {
						text = `{"jsonrpc":"2.0","id":1,"method":"m"}`
					}
					prs, perr := jrpc2.ParseRequests([]byte(text))
					if perr != nil || len(prs) != 1 || prs[0].Error != nil {
						continue // params that are not legal request params
					}
					wc.req = prs[0].ToRequest()
					func() {
						defer func() {
							if p := recover(); p != nil {
								wc.panicked = fmt.Sprint(p)
							}
						}()
						if wrapPanic != "" {
							panic("Wrap: " + wrapPanic)
						}
						wc.rval, wc.rerr = h(ctx, wc.req)
					}()
					names := docFieldNames(arg)
					nh := "-"
					if len(names) > 0 {
						var hs []string
						for _, n := range names {
							hs = append(hs, hxs(n))
						}
						nh = strings.Join(hs, ",")
					}
					p := wc.req.ParamString()
					wl = append(wl, fmt.Sprintf("c15w %s %s %s %s %s %s %s", bit(arg != nil), bit(arg == tReq), bit(strict), bit(hasStrictMethod(arg)), bit(allowArray), nh, hxs(p)))
					wcs = append(wcs, wc)
				}
			}
		}
	}
	wm := runOracle(t, wl)
	for i, m := range wm {
		wc := wcs[i]
		res.Traces++
		in := map[string]any{"arg": fmt.Sprint(wc.arg), "strict": wc.strict, "allowArray": wc.allowArray, "params": wc.params}
		res.Case(fmt.Sprintf("wrap/%v/%v/%v/%s", wc.arg, wc.strict, wc.allowArray, wc.params), true, in)
		res.Count("action:" + strings.SplitN(m, " ", 2)[0])
		if wc.panicked != "" {
			res.Violatef("wrapped handler panicked", in, "%s", wc.panicked)
			continue
		}
		invalid := func(why string) {
			if wc.called != 0 {
				res.Violatef("function called although the params must be refused ("+why+")", in, "called %d times with %#v", wc.called, wc.got)
			} else if jrpc2.ErrorCode(wc.rerr) != jrpc2.InvalidParams {
				res.Violatef("refused params not reported as InvalidParams ("+why+")", in, "err %v", wc.rerr)
			} else {
				res.Agreements++
			}
		}
		calledOnce := func(want any, check bool) {
			switch {
			case wc.called != 1:
				res.Violatef(fmt.Sprintf("function called %d times", wc.called), in, "err %v; model %s", wc.rerr, m)
			case wc.rerr != nil || wc.rval != "result":
				res.Violatef("result or error of the function not passed through unchanged", in, "%v %v", wc.rval, wc.rerr)
			case check && !reflect.DeepEqual(wc.got, want):
				res.Violatef("function received a different argument than encoding/json decodes from the params", in, "got %#v want %#v (model %s)", wc.got, want, m)
			default:
				res.Agreements++
			}
		}
		f := strings.Fields(m)
		switch f[0] {
		case "noparams", "invalid":
			invalid(f[0])
		case "callnoarg":
			calledOnce(nil, false)
		case "callreq":
			calledOnce(wc.req, true)
		case "callzero":
			calledOnce(reflect.Zero(wc.arg).Interface(), wc.arg.Kind() != reflect.Ptr)
			if wc.arg.Kind() == reflect.Ptr && wc.called == 1 {
				// a pointer parameter receives a pointer to the zero value
				if v := reflect.ValueOf(wc.got); v.IsNil() || !reflect.DeepEqual(v.Elem().Interface(), reflect.Zero(wc.arg.Elem()).Interface()) {
					res.Violatef("function received a different argument than encoding/json decodes from the params", in, "got %#v for absent params", wc.got)
				}
			}
		case "decode":
			text, _ := hexDecode(f[2])
			elem := wc.arg
			if elem.Kind() == reflect.Ptr {
				elem = elem.Elem()
			}
			target := reflect.New(elem)
			dec := json.NewDecoder(bytes.NewReader(text))
			if f[1] == "1" {
				dec.DisallowUnknownFields()
			}
			if err := dec.Decode(target.Interface()); err != nil {
				invalid("encoding/json rejects them: " + err.Error())
				continue
			}
			want := target.Elem().Interface()
			if wc.arg.Kind() == reflect.Ptr {
				want = target.Interface()
			}
			calledOnce(want, true)
		default:
			res.Disagreef("oracle answer not understood", in, m, "")
		}
	}
}

// ---------------------------------------------------------------------------------------------
// C16

func TestC16(t *testing.T) {
	res := newResult("C16", "Positional / NewPos over func(ctx, X1..Xn) for n = 0..6 with argument kinds {int, string, []int, *int, map, struct, bool}, name lists of the right and wrong length, variadic functions; params: arrays of length n-1, n, n+1, objects with subsets / supersets / case variants of the names, wrong element types, nulls, scalars; Args and Obj decoded / encoded against encoding/json. distinct = (arity, kinds, params) ; non-trivial = all")
	defer res.Write(t)
	rng := newRNG()
	ctx := context.Background()
	kinds := []reflect.Type{reflect.TypeOf(0), reflect.TypeOf(""), reflect.TypeOf([]int(nil)), reflect.TypeOf((*int)(nil)), reflect.TypeOf(map[string]int(nil)), reflect.TypeOf(pPlain{}), reflect.TypeOf(true),
		reflect.TypeOf(int64(0)), reflect.TypeOf(uint64(0)), reflect.TypeOf(json.RawMessage(nil)), reflect.TypeOf(pLevel(0))}
	sample := map[reflect.Type][]string{
		kinds[0]: {`1`, `null`, `"x"`, `1.5`}, kinds[1]: {`"s"`, `null`, `5`}, kinds[2]: {`[1,2]`, `null`, `[]`, `["a"]`}, kinds[3]: {`7`, `null`, `"p"`},
		kinds[4]: {`{"k":1}`, `null`, `[1]`}, kinds[5]: {`{"A":1,"b":"y"}`, `null`, `{"A":"bad"}`, `{"zz":1}`}, kinds[6]: {`true`, `null`, `0`},
		// integers that float64 cannot represent, and pre-encoded text: elements must arrive exactly
		kinds[7]: {`9007199254740993`, `-9223372036854775808`, `9223372036854775807`, `"x"`}, kinds[8]: {`18446744073709551615`, `9007199254740993`, `-1`},
		// (a null element is DECODED into its parameter - a RawMessage receives the text `null`, a type
		// with its own decoder is called with it - not left out)
		kinds[9]:  {`9007199254740993`, `null`, `{"a":[1.0,2e0]}`, `"z"`},
		kinds[10]: {`"low"`, `null`, `"high"`, `"medium"`},
	}
	// well-typed values whose text looks like structure: an escaped backslash before the closing
	// quote, quotes, brackets and commas inside strings
	tricky := map[reflect.Type][]string{
		kinds[1]: {`"C:\\"`, `"q\"],["`, `"a,b"`, `"\\\""`, `"\\\\"`},
		kinds[9]: {`"\\"`, `["\\",{"k":"\"}"}]`, `{"a\\":"]"}`},
	}
	var pl, pimpl []string
	var pin []any
	for n := 0; n <= 6; n++ {
		for rep := 0; rep < pick(12, 60); rep++ {
			ts := make([]reflect.Type, n)
			for i := range ts {
				ts[i] = kinds[rng.Intn(len(kinds))]
			}
			nnames := n
			switch rng.Intn(6) {
			case 0:
				nnames = n + 1
			case 1:
				if n > 0 {
					nnames = n - 1
				}
			}
			variadic := n > 0 && ts[n-1].Kind() == reflect.Slice && rng.Intn(4) == 0
			names := make([]string, nnames)
			for i := range names {
				names[i] = fmt.Sprintf("%s%d", []string{"a", "val", "Key", "x_"}[rng.Intn(4)], i)
			}
			// placeholder names: "" and "-" give the parameter no object key (it can only be passed by position)
			placeholder := false
			if rep%5 == 4 && nnames > 0 {
				names[rng.Intn(nnames)] = []string{"", "-"}[rng.Intn(2)]
				placeholder = true
			}
			var captured []any
			calls := 0
			ft := reflect.FuncOf(append([]reflect.Type{tCtx}, ts...), []reflect.Type{reflect.TypeOf(0), tErr}, variadic)
			fn := reflect.MakeFunc(ft, func(args []reflect.Value) []reflect.Value {
				calls++
				captured = nil
				for _, a := range args[1:] {
					captured = append(captured, a.Interface())
				}
				return []reflect.Value{reflect.ValueOf(42), reflect.Zero(tErr)}
			}).Interface()
			var fi *handler.FuncInfo
			var perr error
			got := "reject"
			func() {
				defer func() {
					if p := recover(); p != nil {
						got = fmt.Sprintf("PANIC %v", p)
					}
				}()
				fi, perr = handler.Positional(fn, names...)
				if perr == nil && fi != nil {
					got = "accept"
				}
			}()
			pl = append(pl, fmt.Sprintf("c16p 1 %s %s oe %d", bit(variadic), "c"+strings.Repeat("o", n), nnames))
			pimpl = append(pimpl, got)
			pin = append(pin, map[string]any{"func": ft.String(), "names": names})
			res.Case(fmt.Sprintf("pos/%s/%d", ft.String(), nnames), true, ft.String())
			if got != "accept" || n == 0 {
				continue
			}
			h := fi.Wrap()
			// oracle struct for object-form params: one field per name, strict
			var fields []reflect.StructField
			for i, nm := range names {
				if nm == "" || nm == "-" {
					nm = "-" // no key
				}
				fields = append(fields, reflect.StructField{Name: fmt.Sprintf("F%d", i), Type: ts[i], Tag: reflect.StructTag(fmt.Sprintf(`json:"%s"`, nm))})
			}
			ost := reflect.StructOf(fields)
			var paramSets []string
			elems := func(k int, bad bool) string {
				var es []string
				for i := 0; i < k; i++ {
					var tt reflect.Type
					if i < n {
						tt = ts[i]
					} else {
						tt = kinds[0]
					}
					s := sample[tt]
					if bad && i == k-1 {
						es = append(es, s[len(s)-1])
					} else if tk := tricky[tt]; len(tk) > 0 && rng.Intn(3) == 0 {
						es = append(es, tk[rng.Intn(len(tk))])
					} else {
						es = append(es, s[rng.Intn(2)])
					}
				}
				return "[" + strings.Join(es, ",") + "]"
			}
			paramSets = append(paramSets, elems(n, false), elems(n, false), elems(n-1, false), elems(n+1, false), elems(n, true), `null`, `5`, `"x"`, `{}`)
			obj := func(keys []string, extra bool) string {
				var kv []string
				for _, k := range keys {
					idx := 0
					if k == "" || k == "-" { // a placeholder has no key; sometimes try to use it as one
						if rng.Intn(2) == 0 {
							continue
						}
					} else {
						fmt.Sscanf(k[len(k)-1:], "%d", &idx)
					}
					kv = append(kv, fmt.Sprintf("%q:%s", k, sample[ts[idx]][rng.Intn(2)]))
				}
				if extra {
					kv = append(kv, `"unknownName":1`)
				}
				return "{" + strings.Join(kv, ",") + "}"
			}
			paramSets = append(paramSets, obj(names, false), obj(names[:len(names)/2], false), obj(names, true), obj(names[len(names)/2:], false))
			if placeholder {
				// the argument struct is an implementation detail: its synthetic field names are not keys
				for i, nm := range names {
					if nm == "" || nm == "-" {
						paramSets = append(paramSets, fmt.Sprintf(`{"P_%d":%s}`, i+1, sample[ts[i]][0]), fmt.Sprintf(`{"p_%d":%s}`, i+1, sample[ts[i]][0]), fmt.Sprintf(`{"-":%s}`, sample[ts[i]][0]), fmt.Sprintf(`{"":%s}`, sample[ts[i]][0]))
					}
				}
			}
			for _, ps := range paramSets {
				text := fmt.Sprintf(`{"jsonrpc":"2.0","id":1,"method":"m","params":%s}`, ps)
				prs, e := jrpc2.ParseRequests([]byte(text))
				if e != nil || prs[0].Error != nil {
					continue
				}
				calls = 0
				var rerr error
				var rval any
				panicked := ""
				func() {
					defer func() {
						if p := recover(); p != nil {
							panicked = fmt.Sprint(p)
						}
					}()
					rval, rerr = h(ctx, prs[0].ToRequest())
				}()
				in := map[string]any{"func": ft.String(), "names": names, "params": ps}
				res.Case(fmt.Sprintf("posw/%s/%s", ft.String(), ps), true, in)
				if panicked != "" {
					res.Violatef("positional handler panicked", in, "%s", panicked)
					continue
				}
				// expectation from the documented rule
				var want []any
				ok := false
				either := false
				t0 := strings.TrimSpace(ps)
				switch {
				case t0 == "null":
					// null params count as absent: zero values
					ok = true
					for _, tt := range ts {
						want = append(want, reflect.Zero(tt).Interface())
					}
				case strings.HasPrefix(t0, "["):
					var arr []json.RawMessage
					if json.Unmarshal([]byte(ps), &arr) == nil && len(arr) == n {
						ok = true
						for i, el := range arr {
							v := reflect.New(ts[i])
							if json.Unmarshal(el, v.Interface()) != nil {
								ok = false
								break
							}
							// strict decoding reaches into nested structs: the property does not say
							// whether an unknown field INSIDE an element is an error; accept either
							sd := json.NewDecoder(bytes.NewReader(el))
							sd.DisallowUnknownFields()
							if sd.Decode(reflect.New(ts[i]).Interface()) != nil {
								either = true
							}
							want = append(want, v.Elem().Interface())
						}
					}
				case strings.HasPrefix(t0, "{"):
					v := reflect.New(ost)
					dec := json.NewDecoder(strings.NewReader(ps))
					dec.DisallowUnknownFields()
					if dec.Decode(v.Interface()) == nil {
						ok = true
						for i := 0; i < n; i++ {
							want = append(want, v.Elem().Field(i).Interface())
						}
					}
				}
				switch {
				case either:
					res.Agreements++
				case ok && placeholder && strings.HasPrefix(t0, "[") && calls == 0 && jrpc2.ErrorCode(rerr) == jrpc2.InvalidParams:
					// finding F16 (see known_findings.json): with a placeholder name the array form is refused altogether
					res.Violatef("an array of exactly n elements is refused when a parameter has the placeholder name \"\" or \"-\"", in, "names %q params %s: %v", names, ps, rerr)
				case ok && (calls != 1 || rerr != nil || rval != 42):
					res.Violatef("positional handler refused (or mis-called for) params the documented rule accepts", in, "calls=%d err=%v", calls, rerr)
				case ok && !reflect.DeepEqual(captured, want):
					res.Violatef("positional handler passed different values than the documented decoding", in, "got %#v want %#v", captured, want)
				case !ok && calls != 0:
					res.Violatef("positional handler called the function for params the documented rule rejects", in, "args %#v", captured)
				case !ok && jrpc2.ErrorCode(rerr) != jrpc2.InvalidParams:
					res.Violatef("rejected positional params not reported as InvalidParams", in, "err %v", rerr)
				default:
					res.Agreements++
				}
				res.Traces++
			}
		}
	}
	pm := runOracle(t, pl)
	for i := range pm {
		res.Traces++
		if pm[i] == pimpl[i] {
			res.Agreements++
		} else {
			res.Violatef("Positional acceptance differs from the documented rule: want "+pm[i]+" got "+strings.SplitN(pimpl[i], " ", 2)[0], pin[i], "%v: model %s, Positional %s", pin[i], pm[i], pimpl[i])
		}
	}

	// ---- concurrent invocations of one positional handler must not see each other's arguments
	{
		h := handler.NewPos(func(ctx context.Context, a int, b string, c []int) (string, error) {
			return fmt.Sprint(a, b, c), nil
		}, "a", "b", "c")
		var wg sync.WaitGroup
		bad := make(chan string, 8)
		for g := 0; g < 8; g++ {
			wg.Add(1)
			go func(g int) {
				defer wg.Done()
				for k := 0; k < pick(3000, 30000); k++ {
					ps := fmt.Sprintf(`[%d,"s%d",[%d,%d]]`, g*1000000+k, g, g, k)
					if k%2 == 1 {
						ps = fmt.Sprintf(`{"a":%d,"b":"s%d","c":[%d,%d]}`, g*1000000+k, g, g, k)
					}
					prs, _ := jrpc2.ParseRequests([]byte(fmt.Sprintf(`{"jsonrpc":"2.0","id":1,"method":"m","params":%s}`, ps)))
					got, err := h(ctx, prs[0].ToRequest())
					want := fmt.Sprint(g*1000000+k, fmt.Sprintf("s%d", g), []int{g, k})
					if err != nil || got != want {
						select {
						case bad <- fmt.Sprintf("params %s: got %v (%v) want %s", ps, got, err, want):
						default:
						}
						return
					}
				}
			}(g)
		}
		wg.Wait()
		res.Case("pos/concurrent", true, "8 goroutines sharing one positional handler")
		select {
		case m := <-bad:
			res.Violatef("concurrent calls of one positional handler received each other's arguments", "8 goroutines, one NewPos handler", "%s", m)
		default:
			res.Agreements++
		}
		res.Traces++
	}

	// ---- Args
	var al, aimpl []string
	var ain []any
	datas := []string{`[1,"s",[1,2]]`, `[1,"s"]`, `[]`, `[1,"s",[1],4]`, `{"a":1}`, `5`, `null`, `[null,null,null]`, `["x","s",[1]]`, ` [ 1 , "s" , [ 3 ] ] `, `[1,2,3]`}
	datas = append(datas, `[1]`, `[null]`, `["s"]`, `[[]]`, `{}`, `""`, `[`, ``)
	type argCase struct {
		d     string
		arity int // number of slots; -1: a nil Args
		mask  int
	}
	var acases []argCase
	for _, d := range datas {
		for arity := -1; arity <= 3; arity++ {
			for mask := 0; mask < 1<<max(arity, 0); mask++ {
				acases = append(acases, argCase{d, arity, mask})
			}
		}
	}
	for _, ac := range acases {
		{
			d, mask := ac.d, ac.mask
			ip, sp, lp := new(int), new(string), new([]int)
			*ip, *sp, *lp = -1, "init", []int{9}
			targets := handler.Args{ip, sp, lp}[:max(ac.arity, 0)]
			if ac.arity < 0 {
				targets = nil
			}
			bits := ""
			for i := 0; i < len(targets); i++ {
				if mask&(1<<i) == 0 {
					targets[i] = nil
					bits += "0"
				} else {
					bits += "1"
				}
			}
			if bits == "" {
				bits = "-"
			}
			err := targets.UnmarshalJSON([]byte(d))
			al = append(al, fmt.Sprintf("c16a %s %s", bits, hxs(d)))
			ain = append(ain, map[string]any{"data": d, "targets": bits})
			res.Case("args/"+d+"/"+bits, true, d)
			// expectation by the model is checked below; here the untouched-target rule
			for i, tgt := range []any{ip, sp, lp} {
				if mask&(1<<i) == 0 {
					switch v := tgt.(type) {
					case *int:
						if *v != -1 {
							res.Violatef("Args wrote through a nil slot", ain[len(ain)-1], "slot %d", i)
						}
					case *string:
						if *v != "init" {
							res.Violatef("Args wrote through a nil slot", ain[len(ain)-1], "slot %d", i)
						}
					}
				}
			}
			state := "ok"
			if err != nil {
				state = "err"
			}
			aimpl = append(aimpl, fmt.Sprintf("%s %d %q %v", state, *ip, *sp, *lp))
		}
	}
	am := runOracle(t, al)
	for i, m := range am {
		res.Traces++
		d := ain[i].(map[string]any)["data"].(string)
		bits := ain[i].(map[string]any)["targets"].(string)
		// recompute the expectation from the model's verdict with encoding/json
		ip, sp, lp := -1, "init", []int{9}
		state := "ok"
		switch {
		case m == "notarray" || m == "wronglength":
			state = "err"
		default:
			for _, pr := range strings.Split(strings.TrimPrefix(m, "each "), ",") {
				if pr == "" {
					continue
				}
				kv := strings.SplitN(pr, ":", 2)
				el, _ := hexDecode(kv[1])
				var e error
				switch kv[0] {
				case "0":
					e = json.Unmarshal(el, &ip)
				case "1":
					e = json.Unmarshal(el, &sp)
				case "2":
					e = json.Unmarshal(el, &lp)
				}
				if e != nil {
					state = "err"
					break
				}
			}
		}
		want := fmt.Sprintf("%s %d %q %v", state, ip, sp, lp)
		if state == "err" && strings.HasPrefix(aimpl[i], "err") || want == aimpl[i] {
			res.Agreements++
		} else {
			res.Violatef("Args decoding differs from exact-length positional decoding", ain[i], "data %s targets %s: model %q -> want %q, got %q", d, bits, m, want, aimpl[i])
		}
	}
	// Args marshal: positional, exact length
	for _, a := range []handler.Args{{}, {1, "s"}, {nil, []int{1}}, {map[string]int{"k": 1}}} {
		bs, err := json.Marshal(a)
		want, _ := json.Marshal([]any(a))
		if len(a) == 0 {
			want = []byte("[]")
		}
		res.Case(fmt.Sprintf("argsm/%v", a), true, fmt.Sprint(a))
		if err != nil || string(bs) != string(want) {
			res.Violatef("Args does not encode as the array of its elements", fmt.Sprint(a), "%s vs %s (%v)", bs, want, err)
		}
	}
	// ---- Obj: only keys present in the map, nothing else touched
	for _, d := range []string{`{"a":1,"b":"x","c":[1]}`, `{"a":1}`, `{}`, `{"A":5,"b":"y"}`, `{"a":"bad"}`, `[1]`, `null`, `{"b":null,"zz":1}`, `{"a":1,"a":2}`} {
		for mask := 1; mask < 8; mask++ {
			ip, sp, lp := new(int), new(string), new([]int)
			*ip, *sp, *lp = -1, "init", []int{9}
			o := handler.Obj{}
			if mask&1 != 0 {
				o["a"] = ip
			}
			if mask&2 != 0 {
				o["b"] = sp
			}
			if mask&4 != 0 {
				o["c"] = lp
			}
			err := json.Unmarshal([]byte(d), &o)
			in := map[string]any{"data": d, "keys": mask}
			res.Case(fmt.Sprintf("obj/%s/%d", d, mask), true, in)
			var base map[string]json.RawMessage
			berr := json.Unmarshal([]byte(d), &base)
			wi, ws, wl := -1, "init", []int{9}
			wantErr := berr != nil
			if berr == nil {
				if v, ok := base["a"]; ok && mask&1 != 0 && json.Unmarshal(v, &wi) != nil {
					wantErr = true
				}
				if v, ok := base["b"]; ok && mask&2 != 0 && json.Unmarshal(v, &ws) != nil {
					wantErr = true
				}
				if v, ok := base["c"]; ok && mask&4 != 0 && json.Unmarshal(v, &wl) != nil {
					wantErr = true
				}
			}
			if wantErr != (err != nil) {
				res.Violatef("Obj error behaviour differs from keyed decoding", in, "err %v", err)
			} else if !wantErr && (*ip != wi || *sp != ws || !reflect.DeepEqual(*lp, wl)) {
				res.Violatef("Obj decoded keys that are not in the map or touched another target", in, "got %d %q %v want %d %q %v", *ip, *sp, *lp, wi, ws, wl)
			} else {
				res.Agreements++
			}
			res.Traces++
		}
	}
	_ = errors.New
}
