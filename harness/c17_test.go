package harness

// C17 — method dispatch: exact names, first-dot service split, reserved rpc.* names.

import (
	"context"
	"encoding/json"
	"fmt"
	"math/rand"
	"sort"
	"strings"
	"sync"
	"testing"
	"testing/synctest"
	"time"

	"github.com/creachadair/jrpc2"
	"github.com/creachadair/jrpc2/channel"
	"github.com/creachadair/jrpc2/handler"
	"github.com/creachadair/jrpc2/server"
)

type topo struct {
	kind    string // M S F
	keys    []string
	entries []topoEntry
}
type topoEntry struct {
	name string
	t    *topo
}

func (t *topo) spec() string {
	switch t.kind {
	case "F":
		return "F"
	case "M":
		var p []string
		for _, k := range t.keys {
			p = append(p, hxs(k))
		}
		return "M(" + strings.Join(p, ",") + ")"
	}
	var p []string
	for _, e := range t.entries {
		p = append(p, hxs(e.name)+"="+e.t.spec())
	}
	return "S(" + strings.Join(p, ";") + ")"
}

func (t *topo) fullNames() []string {
	switch t.kind {
	case "F":
		return []string{"anything", ""}
	case "M":
		return t.keys
	}
	var out []string
	for _, e := range t.entries {
		for _, n := range e.t.fullNames() {
			out = append(out, e.name+"."+n)
		}
	}
	return out
}

type c17Env struct {
	res        *Result
	srv        **jrpc2.Server
	assignSeen map[string]bool // methods for which Assign saw the inbound request
}

type fnAssigner struct {
	h jrpc2.Handler
}

func (f fnAssigner) Assign(context.Context, string) jrpc2.Handler { return f.h }

func (env *c17Env) tagHandler(tag string) jrpc2.Handler {
	return func(ctx context.Context, req *jrpc2.Request) (any, error) {
		in := jrpc2.InboundRequest(ctx)
		ctxOK := in != nil && in.Method() == req.Method() && in.ID() == req.ID() && jrpc2.ServerFromContext(ctx) == *env.srv
		return map[string]any{"tag": tag, "ctx": ctxOK}, nil
	}
}

func (env *c17Env) build(t *topo, path string) jrpc2.Assigner {
	switch t.kind {
	case "F":
		return fnAssigner{env.tagHandler(path + "F")}
	case "M":
		m := handler.Map{}
		for _, k := range t.keys {
			m[k] = env.tagHandler(path + hxs(k))
		}
		return m
	}
	sm := handler.ServiceMap{}
	for _, e := range t.entries {
		sm[e.name] = env.build(e.t, path+hxs(e.name)+"/")
	}
	return sm
}

type assignFunc func(context.Context, string) jrpc2.Handler

func (f assignFunc) Assign(ctx context.Context, m string) jrpc2.Handler { return f(ctx, m) }

// ctxAssigner checks that the assigner sees the inbound request.
type ctxAssigner struct {
	inner jrpc2.Assigner
	env   *c17Env
}

func (c ctxAssigner) Assign(ctx context.Context, method string) jrpc2.Handler {
	if in := jrpc2.InboundRequest(ctx); in == nil || in.Method() != method {
		c.env.res.Violatef("assigner does not see the inbound request", method, "InboundRequest(ctx)=%v for method %q", in, method)
	}
	return c.inner.Assign(ctx, method)
}
func (c ctxAssigner) Names() []string {
	if n, ok := c.inner.(jrpc2.Namer); ok {
		return n.Names()
	}
	return []string{"*"}
}

var c17Alphabet = []string{".", "r", "p", "c", "R", "a", "é"}

func c17Names(maxLen int) []string {
	out := []string{}
	var rec func(prefix string, n int)
	rec = func(prefix string, n int) {
		if prefix != "" {
			out = append(out, prefix)
		}
		if n == 0 {
			return
		}
		for _, a := range c17Alphabet {
			rec(prefix+a, n-1)
		}
	}
	rec("", maxLen)
	return out
}

func c17Topos() []*topo {
	m := func(keys ...string) *topo { return &topo{kind: "M", keys: keys} }
	s := func(es ...topoEntry) *topo { return &topo{kind: "S", entries: es} }
	e := func(n string, t *topo) topoEntry { return topoEntry{n, t} }
	return []*topo{
		m("a", "a.b", "rpc", "rpc.x", "rpc.serverInfo", ".", "a.", ".a", "é", "R", "rpc.", "c.p.r", "rpc.rpc", "RPC.a", "r", "rp", "p.c"),
		s(e("a", m("b", "b.c", "a", ".", "a.")), e("", m("a", "r")), e("rpc", m("x", "serverInfo", "rpc", "a")),
			e("r", s(e("p", m("c", "c.c", "r")), e("", m("a")), e("c", &topo{kind: "F"}))), e("é", m("é", "a")), e("R", m("a")),
			e("rp", m("c")), e("p", s(e("c", s(e("a", m("r", "p"))))))),
	}
}

func TestC17(t *testing.T) {
	res := newResult("C17", "method names over the alphabet {. r p c R a é} (exhaustive up to a length bound, sampled above it) plus fixed tricky names, dispatched by a real Server through Map / nested ServiceMap topologies with both DisableBuiltin settings; distinct = distinct (topology, builtin, name); non-trivial = every name")
	defer res.Write(t)
	rng := newRNG()
	ctx := context.Background()

	var names []string
	maxLen := pick(4, 6)
	all := c17Names(maxLen)
	if thorough() {
		names = all
		res.Exhaustive = true
	} else {
		names = append(names, all...) // 7+49+343+2401 = 2800
		long := c17Names(6)
		for i := 0; i < 2500; i++ {
			names = append(names, long[rng.Intn(len(long))])
		}
	}
	names = append(names, "rpc.serverInfo", "rpc.serverInfo.", "rpc.serverinfo", "rpc", "rpc.", "rpc..", "RPC.serverInfo", "xrpc.a", " rpc.a",
		"a.b.c", "r.p.c", "r.p.c.c", "r..a", "r.c.anything.at.all", "r.c.", "p.c.a.r", ".a", ".", "..", "a..", "é.é", "é.a", "rp.c", "a.rpc.x")

	baseNames := names
	for ti, tp := range c17Topos() {
		// registered full names of this topology, and near misses of them
		names := append([]string{}, baseNames...)
		for _, full := range tp.fullNames() {
			names = append(names, full, full+".", full+".x", "."+full, strings.ToUpper(full), "rpc."+full)
			if len(full) > 1 {
				names = append(names, full[:len(full)-1], full[1:])
			}
			if i := strings.Index(full, "."); i >= 0 {
				names = append(names, full[:i]+full[i+1:], full[:i]+".."+full[i+1:])
			}
		}
		for _, builtin := range []bool{true, false} {
			env := &c17Env{res: res}
			var srv *jrpc2.Server
			env.srv = &srv
			mux := ctxAssigner{env.build(tp, ""), env}
			loc := server.NewLocal(mux, &server.LocalOptions{Server: &jrpc2.ServerOptions{DisableBuiltin: !builtin, Concurrency: 1}})
			srv = loc.Server
			spec := tp.spec()
			lines := make([]string, 0, len(names))
			impl := make([]string, 0, len(names))
			b := "0"
			if builtin {
				b = "1"
			}
			for _, name := range names {
				if name == "" {
					continue // an empty method name is not a request at all (C02), outside this property
				}
				lines = append(lines, fmt.Sprintf("c17 %s %s %s", b, spec, hxs(name)))
				var out struct {
					Tag     string   `json:"tag"`
					Ctx     bool     `json:"ctx"`
					Methods []string `json:"methods"`
				}
				rsp, err := loc.Client.Call(ctx, name, nil)
				got := ""
				switch {
				case err != nil && jrpc2.ErrorCode(err) == jrpc2.MethodNotFound:
					got = "notfound"
				case err != nil:
					got = "error:" + err.Error()
				default:
					if uerr := rsp.UnmarshalResult(&out); uerr != nil {
						got = "badresult"
					} else if out.Tag != "" {
						got = "h " + out.Tag
						if !out.Ctx {
							res.Violatef("handler context lacks inbound request or server", name, "topology %d builtin=%v name %q", ti, builtin, name)
						}
					} else {
						got = "builtin"
						if builtin && name == "rpc.serverInfo" {
							want := mux.Names()
							if !sort.StringsAreSorted(out.Methods) || strings.Join(out.Methods, "\x00") != strings.Join(want, "\x00") {
								res.Violatef("rpc.serverInfo method list wrong or unsorted", name, "got %q want %q", out.Methods, want)
							}
							var raw map[string]json.RawMessage
							rsp.UnmarshalResult(&raw)
							if _, ok := raw["metrics"]; !ok {
								res.Violatef("rpc.serverInfo lacks metrics", name, "%s", rsp.ResultString())
							}
							if _, ok := raw["startTime"]; !ok {
								res.Violatef("rpc.serverInfo lacks startTime", name, "%s", rsp.ResultString())
							}
						}
					}
				}
				impl = append(impl, got)
				res.Case(fmt.Sprintf("%d/%v/%s", ti, builtin, name), true, map[string]any{"topology": spec, "builtin": builtin, "name": name, "impl": got})
				// spec, independent of the model: reserved names never reach a user handler when built-ins are on
				if builtin && strings.HasPrefix(name, "rpc.") {
					if name == "rpc.serverInfo" && got != "builtin" {
						res.Violatef("rpc.serverInfo not answered by the built-in", name, "got %s", got)
					} else if name != "rpc.serverInfo" && got != "notfound" {
						res.Violatef("reserved rpc.* name reached the assigner", name, "topology %d: got %s", ti, got)
					}
				}
				res.Count("outcome:" + strings.SplitN(got, " ", 2)[0])
			}
			loc.Close()
			model := runOracle(t, lines)
			for i := range model {
				res.Traces++
				if model[i] == impl[i] {
					res.Agreements++
				} else {
					res.Violatef("dispatch differs from the documented rule: "+dispatchClass(model[i], impl[i]),
						map[string]any{"line": lines[i]},
						"%s: documented rule (model) says %q, server did %q", lines[i], model[i], impl[i])
				}
			}
		}
	}

	// ---- the assigner is consulted for EVERY request, with that request in its context: a batch
	// that repeats a method name must not reuse the handler assigned for an earlier member
	{
		var mu sync.Mutex
		consulted := map[string]int{}
		pra := assignFunc(func(actx context.Context, method string) jrpc2.Handler {
			in := jrpc2.InboundRequest(actx)
			if in == nil || in.Method() != method {
				res.Violatef("assigner does not see the inbound request", method, "InboundRequest(ctx)=%v for method %q", in, method)
				return nil
			}
			id := in.ID()
			mu.Lock()
			consulted[id]++
			mu.Unlock()
			return func(hctx context.Context, req *jrpc2.Request) (any, error) {
				return map[string]string{"assignedFor": id, "ranFor": req.ID()}, nil
			}
		})
		for _, conc := range []int{1, 4} {
			loc := server.NewLocal(pra, &server.LocalOptions{Server: &jrpc2.ServerOptions{Concurrency: conc}})
			for round := 0; round < 5; round++ {
				names := []string{"Svc.Echo", "Other", "Svc.Echo", "Svc.Echo", "Other", "x", "Svc.Echo"}[:2+rng.Intn(6)]
				specs := make([]jrpc2.Spec, len(names))
				for i, n := range names {
					specs[i] = jrpc2.Spec{Method: n}
				}
				mu.Lock()
				for k := range consulted {
					delete(consulted, k)
				}
				mu.Unlock()
				rsps, err := loc.Client.Batch(ctx, specs)
				in := map[string]any{"batch": names, "concurrency": conc}
				res.Case(fmt.Sprintf("batch-assign/%d/%v", conc, names), true, in)
				res.Count("batch-assign")
				if err != nil {
					res.Violatef("batch failed", in, "%v", err)
					continue
				}
				for _, rsp := range rsps {
					var out map[string]string
					if e := rsp.UnmarshalResult(&out); e != nil || out["assignedFor"] != out["ranFor"] || out["ranFor"] != rsp.ID() {
						res.Violatef("a request ran the handler assigned for another request", in, "reply id %s: %v (%v)", rsp.ID(), out, e)
					}
					mu.Lock()
					if consulted[rsp.ID()] != 1 {
						res.Violatef(fmt.Sprintf("assigner consulted %d times for one request", consulted[rsp.ID()]), in, "request id %s", rsp.ID())
					}
					mu.Unlock()
				}
			}
			loc.Close()
		}
	}

	// ---- rpc.serverInfo reports the assigner's CURRENT method list (sorted), also after the set has
	// changed and whatever a previous caller did with the slice it was given
	{
		mm := handler.Map{"Beta": handler.New(func(context.Context) (int, error) { return 1, nil })}
		loc := server.NewLocal(mm, nil)
		names := func() []string {
			var out struct {
				Methods []string `json:"methods"`
			}
			if err := loc.Client.CallResult(ctx, "rpc.serverInfo", nil, &out); err != nil {
				res.Violatef("rpc.serverInfo failed", "mutable assigner", "%v", err)
			}
			return out.Methods
		}
		first := names()
		si := loc.Server.ServerInfo()
		if len(si.Methods) > 0 {
			si.Methods[0] = "Zuul" // a caller may do what it likes with its copy
		}
		mm["Alpha"] = mm["Beta"]
		mm["Gamma.Delta"] = mm["Beta"]
		second := names()
		res.Case("serverinfo-tracks-assigner", true, "Map grows after the first query")
		if fmt.Sprint(first) != "[Beta]" || fmt.Sprint(second) != "[Alpha Beta Gamma.Delta]" {
			res.Violatef("rpc.serverInfo method list wrong or unsorted", "the assigner's method set changed between two queries", "first %q, then %q (want [Beta], then [Alpha Beta Gamma.Delta])", first, second)
		}
		if _, err := loc.Client.Call(ctx, "Alpha", nil); err != nil {
			res.Violatef("a method added to the assigner is not dispatched", "Alpha", "%v", err)
		}
		loc.Close()
	}

	// ---- the start time rpc.serverInfo reports: the StartTime option if one is given, otherwise the
	// moment Start was called - not the moment the server was constructed. Run on synctest's
	// clock, so "the moment" is exact.
	for i, opts := range []*jrpc2.ServerOptions{nil, {}, {Concurrency: 2}, {StartTime: time.Date(2001, 2, 3, 4, 5, 6, 0, time.UTC)}} {
		synctest.Test(t, func(t *testing.T) {
			srv := jrpc2.NewServer(handler.Map{"Beta": handler.New(func(context.Context) (int, error) { return 1, nil })}, opts)
			time.Sleep(90 * time.Minute) // prepared ahead of the connection it will serve
			cch, sch := channel.Direct()
			started := time.Now()
			srv.Start(sch)
			cli := jrpc2.NewClient(cch, nil)
			var si jrpc2.ServerInfo
			err := cli.CallResult(context.Background(), "rpc.serverInfo", nil, &si)
			direct := srv.ServerInfo()
			cli.Close()
			srv.Wait()
			want := started
			if opts != nil && !opts.StartTime.IsZero() {
				want = opts.StartTime
			}
			in := fmt.Sprintf("NewServer (options #%d), 90 minutes later Start, then rpc.serverInfo", i)
			res.Case(fmt.Sprintf("serverinfo-starttime/%d", i), true, in)
			if err != nil || !si.StartTime.Equal(want) || !direct.StartTime.Equal(want) {
				res.Violatef("rpc.serverInfo reports a start time that is neither the StartTime option nor the time of Start", in,
					"want %v, rpc.serverInfo %v, ServerInfo() %v (err %v)", want.UTC(), si.StartTime.UTC(), direct.StartTime.UTC(), err)
			}
		})
	}

	// ---- method names as other encoders write them: JSON escapes that Go's own syntax does not have
	// (\/ and surrogate pairs) and \u escapes of ordinary characters decode to the same name
	{
		var mu sync.Mutex
		var seen []string
		mm := handler.Map{}
		for _, n := range []string{"a/b", "Svc/Do", "𝜋", "x.😀", "plain"} {
			n := n
			mm[n] = func(context.Context, *jrpc2.Request) (any, error) {
				mu.Lock()
				seen = append(seen, n)
				mu.Unlock()
				return n, nil
			}
		}
		cli, sch := rawPair()
		rs := jrpc2.NewServer(mm, nil).Start(sch)
		for _, c := range []struct{ wire, want string }{
			{`a\/b`, "a/b"}, {`Svc\/Do`, "Svc/Do"}, {`\ud835\udf0b`, "𝜋"}, {`x.\ud83d\ude00`, "x.😀"}, {`\u0070lain`, "plain"}, {`a/b`, "a/b"},
			{`nope\/x`, ""}, {`rpc.\ud83d\ude00`, ""},
		} {
			cli.Send([]byte(`{"jsonrpc":"2.0","id":1,"method":"` + c.wire + `"}`))
			reply, _ := cli.Recv()
			var obj struct {
				Result string `json:"result"`
				Error  *struct {
					Code int `json:"code"`
				} `json:"error"`
			}
			json.Unmarshal(reply, &obj)
			res.Case("wire-escaped-method/"+c.wire, true, c.wire)
			switch {
			case c.want != "" && (obj.Error != nil || obj.Result != c.want):
				res.Violatef("dispatch differs from the documented rule: h expected, got "+map[bool]string{true: "error", false: "other handler"}[obj.Error != nil], c.wire, "method written %s on the wire names %q: reply %s", c.wire, c.want, reply)
			case c.want == "" && (obj.Error == nil || obj.Error.Code != -32601):
				res.Violatef("dispatch differs from the documented rule: notfound expected", c.wire, "reply %s", reply)
			}
		}
		cli.Close()
		rs.Wait()
	}

	// ---- Names: random topologies (service names that are prefixes of one another, names below '.')
	alpha := []string{"a", "b", "-", " ", ".", "k", "v", "~", "é", "A", "0"}
	word := func() string {
		n := rng.Intn(4)
		s := ""
		for i := 0; i < n; i++ {
			s += alpha[rng.Intn(len(alpha))]
		}
		return s
	}
	var gen func(depth int) *topo
	gen = func(depth int) *topo {
		switch r := rng.Intn(10); {
		case r == 0:
			return &topo{kind: "F"}
		case r < 6 || depth == 0:
			t := &topo{kind: "M"}
			seen := map[string]bool{}
			for i := rng.Intn(5); i >= 0; i-- {
				if w := word(); !seen[w] {
					seen[w] = true
					t.keys = append(t.keys, w)
				}
			}
			return t
		}
		t := &topo{kind: "S"}
		seen := map[string]bool{}
		for i := rng.Intn(4); i >= 0; i-- {
			w := word()
			if i > 0 && rng.Intn(2) == 0 && len(t.entries) > 0 {
				w = t.entries[0].name + alpha[rng.Intn(len(alpha))] // prefix-related service names
			}
			if !seen[w] {
				seen[w] = true
				t.entries = append(t.entries, topoEntry{w, gen(depth - 1)})
			}
		}
		return t
	}
	var nlines []string
	var nimpl []string
	var nspecs []string
	for i := 0; i < pick(1500, 30000); i++ {
		tp := gen(2)
		env := &c17Env{res: res}
		var srv *jrpc2.Server
		env.srv = &srv
		asg := env.build(tp, "")
		got := "*"
		if n, ok := asg.(jrpc2.Namer); ok {
			ns := n.Names()
			hs := make([]string, len(ns))
			for j, x := range ns {
				hs[j] = hxs(x)
			}
			got = "names " + strings.Join(hs, ",")
			if !sort.StringsAreSorted(ns) {
				res.Violatef("Names() not sorted", tp.spec(), "%q", ns)
			}
		}
		nlines = append(nlines, "c17n "+tp.spec())
		nimpl = append(nimpl, got)
		nspecs = append(nspecs, tp.spec())
		res.Case("names/"+tp.spec(), tp.kind == "S", map[string]any{"topology": tp.spec(), "names": got})
	}
	nmodel := runOracle(t, nlines)
	for i := range nmodel {
		res.Traces++
		if nmodel[i] == nimpl[i] {
			res.Agreements++
		} else {
			res.Violatef("Names() differs from the sorted list of all method names", nspecs[i], "model %q impl %q", nmodel[i], nimpl[i])
		}
	}
}

func dispatchClass(model, impl string) string {
	k := func(s string) string { return strings.SplitN(s, " ", 2)[0] }
	return k(model) + " expected, got " + k(impl)
}

var _ = rand.Int
