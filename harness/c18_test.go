package harness

// C18 — HTTP bridge: each caller gets exactly its own responses with its own ids.
// C19 — HTTP Getter, query parsing and HTTP client channel.

import (
	"bytes"
	"context"
	"encoding/json"
	"errors"
	"fmt"
	"io"
	"math/rand"
	"net/http"
	"net/http/httptest"
	"net/url"
	"reflect"
	"runtime"
	"sort"
	"strconv"
	"strings"
	"sync"
	"sync/atomic"
	"testing"
	"testing/synctest"
	"time"

	"github.com/creachadair/jrpc2"
	"github.com/creachadair/jrpc2/handler"
	"github.com/creachadair/jrpc2/jhttp"
	"github.com/creachadair/jrpc2/server"
)

type c18Member struct {
	kind string // c n i
	id   string // raw id text
	tag  string
}

func c18Body(rng *rand.Rand, who int, n int) (string, []c18Member) {
	ids := []string{`1`, `1`, `"1"`, `1e0`, `2`, `"a\"b"`, `3.50`, `-0`, `12345678901234567890`, `"é"`}
	var ms []c18Member
	var parts []string
	for i := 0; i < n; i++ {
		tag := fmt.Sprintf("w%d.%d", who, i)
		switch rng.Intn(5) {
		case 0:
			ms = append(ms, c18Member{"n", "", tag})
			parts = append(parts, fmt.Sprintf(`{"jsonrpc":"2.0","method":"m","params":[%q]}`, tag))
		case 1:
			id := ids[rng.Intn(len(ids))]
			if rng.Intn(3) == 0 {
				id = ""
			}
			ms = append(ms, c18Member{"i", id, tag})
			idf := ""
			if id != "" {
				idf = `"id":` + id + `,`
			}
			// the ways a member can be statically invalid: wrong version, a request that also carries
			// reply members, an unknown member, scalar params
			parts = append(parts, fmt.Sprintf([]string{
				`{"jsonrpc":"1.0",%s"method":"m","params":[%q]}`,
				`{"jsonrpc":"2.0",%s"method":"m","params":[%q],"result":true}`,
				`{"jsonrpc":"2.0",%s"method":"m","params":[%q],"error":{"code":1,"message":"x"}}`,
				`{"jsonrpc":"2.0",%s"method":"m","params":[%q],"zz":1}`,
				`{%s"method":"m","params":[%q]}`,
				// no method at all: not a request - with nothing else, or shaped like a reply
				`{"jsonrpc":"2.0",%s"params":[%q]}`,
				`{"jsonrpc":"2.0",%s"result":[%q]}`,
				`{"jsonrpc":"2.0",%s"error":{"code":1,"message":%q}}`,
			}[rng.Intn(8)], idf, tag))
		default:
			id := ids[rng.Intn(len(ids))]
			if rng.Intn(8) == 0 {
				tag += "E" // this call's handler fails (see the handler)
			}
			ms = append(ms, c18Member{"c", id, tag})
			parts = append(parts, fmt.Sprintf(`{"jsonrpc":"2.0","id":%s,"method":"m","params":[%q]}`, id, tag))
		}
	}
	pad := []string{"", "", " ", "\n", "\r\n", "\t", " \n "}[rng.Intn(7)]
	if n == 1 && rng.Intn(2) == 0 {
		return pad + parts[0], ms
	}
	return pad + "[" + strings.Join(parts, []string{",", ",\n", " , "}[rng.Intn(3)]) + "]" + pad, ms
}

func TestC18(t *testing.T) {
	res := newResult("C18", "HTTP POST bodies: every mix of {call, notification, statically invalid member} of length <= 4 with colliding and exotic ids ({1, 1, \"1\", 1e0, 3.50, -0, 20-digit, escaped strings}); 2..6 concurrent HTTP requests sharing one Bridge (in-process ResponseRecorders), each checked against the bridge model (ids, count, shape, status) and the handler log (every valid request ran exactly once, invalid members never); the method / content-type gate. distinct = distinct body; non-trivial = a body with at least two members")
	defer res.Write(t)
	rng := newRNG()
	var mu sync.Mutex
	ran := map[string]int{}
	br := jhttp.NewBridge(handler.Map{"m": func(ctx context.Context, req *jrpc2.Request) (any, error) {
		var p []string
		req.UnmarshalParams(&p)
		mu.Lock()
		ran[p[0]]++
		mu.Unlock()
		if rand.Intn(4) == 0 {
			time.Sleep(time.Duration(rand.Intn(200)) * time.Microsecond)
		}
		if strings.HasSuffix(p[0], "E") { // a failure whose data cannot be encoded: still an answer, for this call and its neighbours
			return nil, &jrpc2.Error{Code: 7, Message: "failed " + p[0], Data: json.RawMessage(`{"partial":`)}
		}
		return p[0], nil
	}}, &jhttp.BridgeOptions{Server: &jrpc2.ServerOptions{Concurrency: 8}})
	defer closeWithin(res, "Bridge.Close", br.Close)
	var hungOnce sync.Once
	var hung atomic.Bool // a request was never answered: the bridge is wedged, stop sending
	post := func(body string) *httptest.ResponseRecorder {
		req := httptest.NewRequest("POST", "http://x/", strings.NewReader(body))
		req.Header.Set("Content-Type", "application/json")
		w := httptest.NewRecorder()
		// an HTTP request that the bridge never answers must not stall the check
		done := make(chan struct{})
		go func() { br.ServeHTTP(w, req); close(done) }()
		select {
		case <-done:
			return w
		case <-time.After(5 * time.Second):
			hung.Store(true)
			hungOnce.Do(func() {
				res.Violatef("an HTTP request to the bridge was never answered", map[string]any{"body": body}, "no response after 5s (other requests were in flight on the same bridge)")
			})
			hw := httptest.NewRecorder()
			hw.WriteHeader(599)
			return hw
		}
	}
	type one struct {
		body string
		ms   []c18Member
		w    *httptest.ResponseRecorder
	}
	var lines []string
	var all []*one
	who := 0
	for round := 0; round < pick(150, 1500) && !hung.Load(); round++ {
		k := 2 + rng.Intn(5)
		batch := make([]*one, k)
		for i := range batch {
			who++
			body, ms := c18Body(rng, who, 1+rng.Intn(4))
			batch[i] = &one{body: body, ms: ms}
		}
		if out := outPath(); out != "" { // if the process dies in this round, these concurrent bodies are the replay
			var bodies []string
			for _, o := range batch {
				bodies = append(bodies, o.body)
			}
			b, _ := json.Marshal(map[string]any{"concurrent_http_bodies": bodies})
			writeFileQuiet(out+".progress", b)
		}
		var wg sync.WaitGroup
		for _, o := range batch {
			wg.Add(1)
			go func(o *one) { defer wg.Done(); o.w = post(o.body) }(o)
		}
		wg.Wait()
		for _, o := range batch {
			var enc []string
			for _, m := range o.ms {
				switch m.kind {
				case "n":
					enc = append(enc, "n")
				case "i":
					if m.id == "" {
						enc = append(enc, "i-")
					} else {
						enc = append(enc, "i"+hxs(m.id))
					}
				default:
					enc = append(enc, "c"+hxs(m.id))
				}
			}
			lines = append(lines, "c18 "+strings.Join(enc, ","))
			all = append(all, o)
			res.Case(o.body, len(o.ms) >= 2, map[string]any{"body": o.body})
		}
	}
	model := runOracle(t, lines)
	for i, m := range model {
		o := all[i]
		res.Traces++
		in := map[string]any{"body": o.body}
		f := strings.Fields(m) // ids <list> shape <s> specs <n>
		wantIDs := []string{}
		if f[1] != "-" {
			for _, h := range strings.Split(f[1], ",") {
				b, _ := hexDecode(h)
				wantIDs = append(wantIDs, string(b))
			}
		}
		body := bytes.TrimSpace(o.w.Body.Bytes())
		ok := true
		switch f[3] {
		case "noContent":
			if o.w.Code != 204 || len(body) != 0 {
				ok = false
				res.Violatef("a body with nothing to report was not answered 204 with an empty body", in, "status %d body %q", o.w.Code, body)
			}
		default:
			if o.w.Code != 200 {
				ok = false
				res.Violatef(fmt.Sprintf("a body with responses was answered with status %d", o.w.Code), in, "body %q", body)
				break
			}
			rep, err := parseReply([][]byte{body})
			if err != nil {
				ok = false
				res.Violatef("bridge reply is not a valid JSON-RPC response", in, "%q: %v", body, err)
				break
			}
			rf := strings.Fields(rep)
			if rf[1] != f[3] {
				ok = false
				res.Violatef("bridge reply has the wrong shape: want "+f[3]+" got "+rf[1], in, "%q", body)
			}
			var gotIDs []string
			for j := 2; j < len(rf); j += 2 {
				b, _ := hexDecode(rf[j])
				gotIDs = append(gotIDs, string(b))
			}
			a, b := append([]string{}, wantIDs...), append([]string{}, gotIDs...)
			sort.Strings(a)
			sort.Strings(b)
			if !reflect.DeepEqual(a, b) {
				ok = false
				res.Violatef("bridge reply does not carry exactly the caller's own ids", in, "want %q got %q (body %q)", wantIDs, gotIDs, body)
			}
			// every call's result is its own tag
			var objs []map[string]json.RawMessage
			if json.Unmarshal(body, &objs) != nil {
				var o1 map[string]json.RawMessage
				json.Unmarshal(body, &o1)
				objs = []map[string]json.RawMessage{o1}
			}
			calls := []c18Member{}
			for _, mm := range o.ms {
				if mm.kind == "c" {
					calls = append(calls, mm)
				}
			}
			ci := 0
			for _, ob := range objs {
				// a call whose handler failed is answered with that failure (code 7), in its place
				if e, has := ob["error"]; has && ci < len(calls) && strings.HasSuffix(calls[ci].tag, "E") && string(ob["id"]) == calls[ci].id {
					var eo struct {
						Code    int
						Message string
					}
					if json.Unmarshal(e, &eo) == nil && eo.Code == 7 {
						if eo.Message != "failed "+calls[ci].tag {
							ok = false
							res.Violatef("a response was relabelled with another call's id (or carries another caller's result)", in, "object %v, expected the failure of call %v", ob, calls[ci])
						}
						ci++
						continue
					}
				}
				if r, has := ob["result"]; has {
					var tag string
					json.Unmarshal(r, &tag)
					if ci >= len(calls) || calls[ci].tag != tag || string(ob["id"]) != calls[ci].id {
						ok = false
						res.Violatef("a response was relabelled with another call's id (or carries another caller's result)", in, "object %v, expected call %v", ob, calls)
						break
					}
					ci++
				}
			}
		}
		mu.Lock()
		for _, mm := range o.ms {
			want := 1
			if mm.kind == "i" {
				want = 0
			}
			if ran[mm.tag] != want {
				ok = false
				res.Violatef(fmt.Sprintf("handler ran %d times for a %s member", ran[mm.tag], map[string]string{"c": "call", "n": "notification", "i": "statically invalid"}[mm.kind]), in, "tag %s", mm.tag)
			}
		}
		mu.Unlock()
		if ok {
			res.Agreements++
		}
	}
	// ---- the gate
	type g struct {
		method, ctype string
		want          int
	}
	valid := `{"jsonrpc":"2.0","id":1,"method":"m","params":["gate"]}`
	for _, c := range []g{{"GET", "application/json", 405}, {"PUT", "application/json", 405}, {"DELETE", "application/json", 405}, {"POST", "text/plain", 415}, {"POST", "", 415},
		{"POST", "application/json; charset=latin1", 415}, {"POST", "application/jsonx", 415}, {"POST", "application/json; charset=utf-8", 200}, {"POST", "application/json;charset=utf8", 200}, {"POST", "application/json", 200}} {
		mu.Lock()
		before := ran["gate"]
		mu.Unlock()
		req := httptest.NewRequest(c.method, "http://x/", strings.NewReader(valid))
		if c.ctype != "" {
			req.Header.Set("Content-Type", c.ctype)
		}
		w := httptest.NewRecorder()
		br.ServeHTTP(w, req)
		mu.Lock()
		after := ran["gate"]
		mu.Unlock()
		res.Case("gate/"+c.method+"/"+c.ctype, true, c.method+" "+c.ctype)
		if w.Code != c.want {
			res.Violatef(fmt.Sprintf("gate: want status %d got %d", c.want, w.Code), c.method+" "+c.ctype, "body %q", w.Body.String())
		}
		if c.want != 200 && after != before {
			res.Violatef("a refused HTTP request ran a handler", c.method+" "+c.ctype, "")
		}
		if c.want == 200 && after != before+1 {
			res.Violatef("an accepted HTTP request did not run its handler exactly once", c.method+" "+c.ctype, "%d", after-before)
		}
	}
	// a body that is not valid JSON gets an error status and runs nothing
	okReq := func(tag string) string { return `{"jsonrpc":"2.0","id":1,"method":"m","params":["` + tag + `"]}` }
	for i, b := range []string{`{bad`, ``, `[1,`, `nope`,
		// a complete valid request (or batch) followed by more non-blank bytes is not valid JSON either
		okReq("bj4") + ` garbage`, okReq("bj5") + okReq("bj5"), `[` + okReq("bj6") + `]]`, okReq("bj7") + `{"jsonrpc":"2.0","id":2,"meth`, okReq("bj8") + "\n" + okReq("bj8"), okReq("bj9") + `,`, `[` + okReq("bj10") + `],[]`} {
		w := post(b)
		res.Case("badjson/"+b, true, b)
		if w.Code < 400 {
			res.Violatef("a body that is not valid JSON did not get an error status", b, "status %d body %q", w.Code, w.Body.String())
		}
		mu.Lock()
		if n := ran[fmt.Sprintf("bj%d", i)]; n != 0 {
			res.Violatef("a body that is not valid JSON ran a handler", b, "%d times", n)
		}
		mu.Unlock()
	}
	c18PushBridge(res, rng)
}

// c18PushBridge: a bridge whose server may call back into the bridge's client (Server.AllowPush +
// Client.OnCallback). The server's callback ids and the bridge client's request ids are
// independent counters that both start at 1, so the ids of the HTTP callers' forwarded calls collide
// with the ids of callbacks that are still unanswered; every HTTP caller must still get exactly its
// own answer, and every handler run once.
func c18PushBridge(res *Result, rng *rand.Rand) {
	var mu sync.Mutex
	ran := map[string]int{}
	cbBad := ""
	// a fresh bridge per round: both counters restart at 1, which is where they collide
	newBridge := func() jhttp.Bridge {
		return jhttp.NewBridge(handler.Map{"p": func(ctx context.Context, req *jrpc2.Request) (any, error) {
			var p []string
			req.UnmarshalParams(&p)
			mu.Lock()
			ran[p[0]]++
			mu.Unlock()
			n, _ := strconv.Atoi(p[1])
			for i := 0; i < n; i++ {
				rsp, err := jrpc2.ServerFromContext(ctx).Callback(ctx, "cb", []string{p[0]})
				var got string
				if err == nil {
					err = rsp.UnmarshalResult(&got)
				}
				if err != nil || got != "cb-"+p[0] {
					mu.Lock()
					cbBad = fmt.Sprintf("callback %d of %s returned %q, %v", i+1, p[0], got, err)
					mu.Unlock()
				}
			}
			return p[0], nil
		}}, &jhttp.BridgeOptions{
			Server: &jrpc2.ServerOptions{Concurrency: 8, AllowPush: true},
			Client: &jrpc2.ClientOptions{OnCallback: func(ctx context.Context, req *jrpc2.Request) (any, error) {
				var p []string
				req.UnmarshalParams(&p)
				time.Sleep(time.Duration(rand.Intn(300)) * time.Microsecond) // the callback stays unanswered for a while
				return "cb-" + p[0], nil
			}},
		})
	}
	who := 0
	for round := 0; round < pick(120, 1200); round++ {
		br := newBridge()
		k := 2 + rng.Intn(3)
		type one struct {
			tag, id, body string
			extra         string // a method-less member posted alongside ("" = none)
			w             *httptest.ResponseRecorder
		}
		batch := make([]*one, k)
		var bodies []string
		for i := range batch {
			who++
			o := &one{tag: fmt.Sprintf("pb%d", who), id: fmt.Sprint(1 + rng.Intn(3))}
			o.body = fmt.Sprintf(`{"jsonrpc":"2.0","id":%s,"method":"p","params":["%s","%d"]}`, o.id, o.tag, rng.Intn(4))
			if rng.Intn(4) == 0 {
				// next to a member that has an id but no method at all: not a reply, so it must be
				// answered (with an error), and the call beside it as well
				o.extra = fmt.Sprintf(`{"jsonrpc":"2.0","id":"x%d"}`, who)
				o.body = "[" + o.extra + "," + o.body + "]"
			}
			batch[i] = o
			bodies = append(bodies, o.body)
		}
		if out := outPath(); out != "" {
			b, _ := json.Marshal(map[string]any{"concurrent_http_bodies_to_push_bridge": bodies})
			writeFileQuiet(out+".progress", b)
		}
		var wg sync.WaitGroup
		hungNow := false
		for _, o := range batch {
			wg.Add(1)
			stagger := time.Duration(rng.Intn(400)) * time.Microsecond
			go func() {
				defer wg.Done()
				time.Sleep(stagger)
				req := httptest.NewRequest("POST", "http://x/", strings.NewReader(o.body))
				req.Header.Set("Content-Type", "application/json")
				w := httptest.NewRecorder()
				done := make(chan struct{})
				go func() { br.ServeHTTP(w, req); close(done) }()
				select {
				case <-done:
					o.w = w
				case <-time.After(5 * time.Second):
				}
			}()
		}
		wg.Wait()
		in := map[string]any{"concurrent_http_bodies_to_push_bridge": bodies, "bridge": "Server.AllowPush, Client.OnCallback; handler p issues params[1] callbacks"}
		res.Case("pushbridge/"+strings.Join(bodies, "|"), true, in)
		res.Count("push-bridge-round")
		res.Traces++
		ok := true
		for _, o := range batch {
			if o.w == nil {
				ok, hungNow = false, true
				res.Violatef("an HTTP request to the bridge was never answered", in, "%s: no response after 5s", o.body)
				continue
			}
			type entry struct {
				ID     json.RawMessage `json:"id"`
				Result string          `json:"result"`
				Error  json.RawMessage `json:"error"`
			}
			var rsp entry
			bodyOK := json.Unmarshal(o.w.Body.Bytes(), &rsp) == nil
			if o.extra != "" {
				var both []entry
				bodyOK = json.Unmarshal(o.w.Body.Bytes(), &both) == nil && len(both) == 2 && len(both[0].Error) > 0 && strings.HasPrefix(string(both[0].ID), `"x`)
				if bodyOK {
					rsp = both[1]
				}
			}
			if o.w.Code != 200 || !bodyOK || string(rsp.ID) != o.id || rsp.Result != o.tag {
				ok = false
				res.Violatef("bridge reply does not carry exactly the caller's own ids", in, "%s answered with status %d body %q", o.body, o.w.Code, o.w.Body.String())
			}
			mu.Lock()
			if ran[o.tag] != 1 {
				ok = false
				res.Violatef(fmt.Sprintf("handler ran %d times for a call member", ran[o.tag]), in, "tag %s", o.tag)
			}
			mu.Unlock()
		}
		mu.Lock()
		if cbBad != "" {
			ok = false
			res.Violatef("a handler's callback through the bridge client was answered by something else", in, "%s", cbBad)
			cbBad = ""
		}
		mu.Unlock()
		if ok {
			res.Agreements++
		}
		if hungNow {
			return // the bridge is wedged
		}
		closeWithin(res, "Bridge.Close (push-enabled bridge)", br.Close)
	}
}

// closeWithin runs a shutdown call that must not stall the check: a bridge / client / server that
// is wedged (a lost reply, a dead reader) would otherwise block here before the result is written.
func closeWithin(res *Result, what string, f func() error) {
	done := make(chan struct{})
	go func() { f(); close(done) }()
	select {
	case <-done:
	case <-time.After(10 * time.Second):
		res.Violatef("shutdown never returned: "+what, what, "no return after 10s; the component is wedged (see the earlier violations of this run)")
	}
}

// ---------------------------------------------------------------------------------------------
// C19

type trackBody struct {
	io.Reader
	closed *int32
	mu     *sync.Mutex
}

func (b trackBody) Close() error { b.mu.Lock(); *b.closed++; b.mu.Unlock(); return nil }

// inprocHTTP serves requests by calling a handler in-process, tracking response bodies.
type inprocHTTP struct {
	h              http.Handler
	mu             sync.Mutex
	opened, closed int32
	gate           func(n int) (wait chan struct{}, outcome func() (status int, fail bool))
	n              int
	closeReturned  bool // set by the harness once Channel.Close has returned
	lateDo         int  // requests issued after that
}

func (c *inprocHTTP) Do(req *http.Request) (*http.Response, error) {
	c.mu.Lock()
	c.n++
	n := c.n
	if c.closeReturned {
		c.lateDo++
	}
	c.mu.Unlock()
	status, fail := 0, false
	if c.gate != nil {
		wait, outcome := c.gate(n)
		if wait != nil {
			<-wait
		}
		status, fail = outcome()
	}
	if fail {
		return nil, errors.New("http failure")
	}
	w := httptest.NewRecorder()
	if c.h != nil && status == 0 {
		c.h.ServeHTTP(w, req)
	} else {
		if status != 200 && status != 204 {
			w.Header().Set("Content-Length", "0") // what net/http's server writes for a body-less failure
		}
		w.WriteHeader(status)
		if status == 200 {
			w.Write([]byte(`{"jsonrpc":"2.0","id":1,"result":1}`))
		}
	}
	rsp := w.Result()
	c.mu.Lock()
	c.opened++
	c.mu.Unlock()
	rsp.Body = trackBody{rsp.Body, &c.closed, &c.mu}
	return rsp, nil
}

func TestC19(t *testing.T) {
	res := newResult("C19", "query values: every string up to length 4 (5 in thorough) over {\" ' + - 0 7 . e x _ =} plus inf / nan / infinity / true / false / null in all cases, base64 and JSON-string samples, long digit strings; URL paths for ParseBasic / ParseQuery; Getter requests for ok / unknown / failing methods and unparsable URLs; the HTTP client channel driven by a scripted in-process HTTPClient (204, bodies, failures completing in every order relative to Recv and Close) and compared with the channel machine; a Client over jhttp.Channel against a Bridge compared with a direct connection. distinct = distinct value / script; non-trivial = all")
	defer res.Write(t)
	rng := newRNG()
	// ---- (a) ParseQuery typing
	alpha := []string{`"`, `'`, `+`, `-`, `0`, `7`, `.`, `e`, `x`, `_`, `=`}
	var vals []string
	var rec func(p string, n int)
	rec = func(p string, n int) {
		vals = append(vals, p)
		if n == 0 {
			return
		}
		for _, a := range alpha {
			rec(p+a, n-1)
		}
	}
	rec("", pick(4, 5))
	for _, w := range []string{"inf", "nan", "infinity", "true", "false", "null"} {
		for mask := 0; mask < 1<<uint(len(w)); mask++ {
			s := ""
			for i, c := range w {
				if mask&(1<<uint(i)) != 0 {
					s += strings.ToUpper(string(c))
				} else {
					s += string(c)
				}
			}
			vals = append(vals, s, "+"+s, "-"+s)
		}
	}
	vals = append(vals, `"a b"`, `"é\n"`, `"é"`, `"bad\q"`, `"un"terminated"`, `'aGVsbG8='`, `'aGVsbG8'`, `'a'`, `'****'`, `''`, `'QUJD'`, `'QUJDRA=='`, `0x1p-2`, `1_000`, `1e5`, `1E5`, `0b101`, `0o17`, `010`, `-0017`,
		`9223372036854775807`, `9223372036854775808`, `-9223372036854775808`, `-9223372036854775809`, strings.Repeat("9", 40),
		// decimals that overflow float64 (and that underflow it): still numbers on the way in, marshalable on the way out
		strings.Repeat("9", 310), "-"+strings.Repeat("7", 400), strings.Repeat("1", 320)+".5", "0."+strings.Repeat("0", 400)+"1", "1"+strings.Repeat("0", 308), "1"+strings.Repeat("0", 309), "2"+strings.Repeat("0", 308),
		"17976931348623157"+strings.Repeat("0", 292), "17976931348623159"+strings.Repeat("0", 292), "-17976931348623159"+strings.Repeat("9", 292)+".9", "000"+strings.Repeat("9", 308), `3.`, `.5`, `-.5`, `+5`, `+-5`, `5..`, `1.2.3`, ` 5`, `5 `, `٣`, `tRue`, `nil`)
	var lines, impl []string
	for _, v := range vals {
		req := httptest.NewRequest("GET", "http://x/m?v="+url.QueryEscape(v), nil)
		got := func() (s string) {
			defer func() {
				if p := recover(); p != nil {
					s = fmt.Sprintf("PANIC %v", p)
				}
			}()
			m, p, err := jhttp.ParseQuery(req)
			if err != nil {
				return "err"
			}
			if m != "m" {
				return "badmethod " + m
			}
			bits, merr := json.Marshal(p)
			if merr != nil {
				res.Violatef("ParseQuery produced parameters that cannot be marshalled", v, "%v", merr)
				return "unmarshalable"
			}
			_ = bits
			mp, _ := p.(map[string]any)
			switch x := mp["v"].(type) {
			case string:
				if x == v {
					return "lit-or-str " + hxs(x)
				}
				return "str " + hxs(x)
			case int64:
				if want, e := strconv.ParseInt(v, 10, 64); e != nil || want != x {
					res.Violatef("integer query value has the wrong value", v, "%d", x)
				}
				return "int"
			case float64:
				if want, e := strconv.ParseFloat(v, 64); e != nil || want != x {
					res.Violatef("float query value has the wrong value", v, "%v", x)
				}
				return "float"
			case bool:
				return fmt.Sprint(x)
			case nil:
				if v == "" {
					return "lit-or-str -" // an empty value is the empty literal string… but mp["v"] may be ""
				}
				return "null"
			case []byte:
				return "bytes"
			}
			return fmt.Sprintf("other %T", mp["v"])
		}()
		lines = append(lines, "c19q "+hxs(v))
		impl = append(impl, got)
		res.Case("q/"+v, true, v)
	}
	model := runOracle(t, lines)
	for i, m := range model {
		res.Traces++
		g := impl[i]
		ok := m == g
		if strings.HasPrefix(g, "lit-or-str ") {
			h := strings.TrimPrefix(g, "lit-or-str ")
			ok = m == "lit" || m == "str "+h
		}
		if ok {
			res.Agreements++
		} else {
			res.Violatef("query value typed against the documented rule: want "+strings.Fields(m)[0]+" got "+strings.Fields(g + " ?")[0], vals[i], "value %q: documented %s, ParseQuery %s", vals[i], m, g)
		}
	}
	// ---- paths
	for _, p := range []string{"/m", "/a/b/", "//x//", "/", "", "/%2F", "/é", "/a%20b"} {
		for _, fn := range []func(*http.Request) (string, any, error){jhttp.ParseBasic, jhttp.ParseQuery} {
			func() {
				defer func() {
					if pn := recover(); pn != nil {
						res.Violatef("URL parsing panicked", p, "%v", pn)
					}
				}()
				req := httptest.NewRequest("GET", "http://x"+p+"?a=1", nil)
				m, prm, err := fn(req)
				res.Case("path/"+p, true, p)
				if err == nil {
					if m == "" || strings.HasPrefix(m, "/") || strings.HasSuffix(m, "/") || m != strings.Trim(req.URL.Path, "/") {
						res.Violatef("method is not the path trimmed of slashes", p, "%q", m)
					}
					if _, e := json.Marshal(prm); e != nil {
						res.Violatef("parameters not marshalable", p, "%v", e)
					}
				}
			}()
		}
	}
	// ---- (b) Getter
	gt := jhttp.NewGetter(handler.Map{
		"ok": func(ctx context.Context, req *jrpc2.Request) (any, error) {
			return map[string]any{"p": req.ParamString()}, nil
		},
		"fail": func(ctx context.Context, req *jrpc2.Request) (any, error) { return nil, errors.New("boom") },
		"bad": func(ctx context.Context, req *jrpc2.Request) (any, error) {
			return nil, &jrpc2.Error{Code: jrpc2.InvalidParams, Message: "nope"}
		},
	}, &jhttp.GetterOptions{ParseRequest: jhttp.ParseQuery})
	for _, c := range []struct {
		url  string
		want int
	}{{"/ok?a=1&b=%22s%22", 200}, {"/ok", 200}, {"/nope?x=1", 404}, {"/fail", 500}, {"/bad?q=true", 500}, {"/", 400}, {"/ok?a=%22unterminated", 400}, {"/ok?a='*'", 400}, {"/ok?n=NaN&i=Inf", 200}, {"/rpc.serverInfo", 200}} {
		req := httptest.NewRequest("GET", "http://x"+c.url, nil)
		w := httptest.NewRecorder()
		gt.ServeHTTP(w, req)
		res.Case("getter"+c.url, true, c.url)
		if w.Code != c.want {
			res.Violatef(fmt.Sprintf("Getter status: want %d got %d", c.want, w.Code), c.url, "body %q", w.Body.String())
		}
		if !json.Valid(w.Body.Bytes()) {
			res.Violatef("Getter body is not valid JSON", c.url, "status %d body %q", w.Code, w.Body.String())
		}
	}
	gt.Close()

	// ---- (c) the HTTP client channel against its machine
	var clines []string
	type cobs struct {
		script string
		got    string
	}
	var cruns []cobs
	for i := 0; i < pick(150, 1500); i++ {
		var script []string
		var got string
		synctest.Test(t, func(t *testing.T) {
			type pend struct {
				wait   chan struct{}
				status int
				fail   bool
			}
			var pmu sync.Mutex
			var pends []*pend
			hc := &inprocHTTP{}
			hc.gate = func(n int) (chan struct{}, func() (int, bool)) {
				pmu.Lock()
				defer pmu.Unlock()
				p := pends[n-1]
				return p.wait, func() (int, bool) { pmu.Lock(); defer pmu.Unlock(); return p.status, p.fail }
			}
			ch := jhttp.NewChannel("http://x/", &jhttp.ChannelOptions{Client: hc})
			sent, returned, waiting := 0, 0, 0
			closedCh := false
			nops := 3 + rng.Intn(8)
			for k := 0; k < nops || !closedCh; k++ {
				choice := rng.Intn(5)
				if k >= nops {
					choice = 4
				}
				if out := outPath(); out != "" { // if the bubble deadlocks or the process dies, this script is the replay
					b, _ := json.Marshal(map[string]any{"c19script": strings.Join(script, " "), "next": choice})
					writeFileQuiet(out+".progress", b)
				}
				switch {
				case choice <= 1:
					pmu.Lock()
					pends = append(pends, &pend{wait: make(chan struct{})})
					pmu.Unlock()
					err := ch.Send([]byte(`{"jsonrpc":"2.0","id":1,"method":"m"}`))
					script = append(script, "s")
					if closedCh == (err == nil) {
						got += "send-after-close-mismatch "
					}
					if !closedCh {
						sent++
					}
				case choice == 2 && returned < sent:
					p := pends[returned]
					kind := []string{"n", "b", "f"}[rng.Intn(3)]
					switch kind {
					case "n":
						p.status = 204
					case "b":
						p.status = []int{200, 200, 500}[rng.Intn(3)]
					case "f":
						p.fail = true
					}
					close(p.wait)
					returned++
					if kind != "n" && !closedCh {
						waiting++
					}
					script = append(script, "r:"+kind)
				case choice == 3 && waiting > 0 && !closedCh:
					synctest.Wait()
					ch.Recv()
					waiting--
					script = append(script, "v")
				case choice == 4 && !closedCh:
					// Close blocks until every request goroutine is done: finish the outstanding ones first or concurrently
					done := make(chan struct{})
					go func() { ch.Close(); close(done) }()
					synctest.Wait()
					script = append(script, "c")
					closedCh = true
					waiting = 0
					for returned < sent {
						p := pends[returned]
						kind := []string{"n", "b", "f"}[rng.Intn(3)]
						switch kind {
						case "n":
							p.status = 204
						case "b":
							p.status = 200
						case "f":
							p.fail = true
						}
						close(p.wait)
						returned++
						script = append(script, "r:"+kind)
						synctest.Wait()
					}
					<-done
				}
				synctest.Wait()
			}
			synctest.Wait()
			hc.mu.Lock()
			got += fmt.Sprintf("opened=%d closed=%d", hc.opened, hc.closed)
			hc.mu.Unlock()
			if left := libGoroutines(); len(left) > 0 {
				res.Violatef("request goroutine left behind after Channel.Close: "+left[0], strings.Join(script, " "), "%v", left)
			}
		})
		clines = append(clines, "c19c "+strings.Join(script, " "))
		cruns = append(cruns, cobs{strings.Join(script, " "), got})
		res.Case("chan/"+strings.Join(script, " "), true, strings.Join(script, " "))
	}
	// ---- (c') Close right after Send, before the request goroutine has had a chance to run: Close
	// must still wait for it (no request may be issued, and no goroutine be alive, once it returned)
	func() {
		defer runtime.GOMAXPROCS(runtime.GOMAXPROCS(1))
		for i := 0; i < pick(40, 400); i++ {
			nsend := 1 + i%3
			synctest.Test(t, func(t *testing.T) {
				hc := &inprocHTTP{}
				hc.gate = func(n int) (chan struct{}, func() (int, bool)) {
					return nil, func() (int, bool) { return 204, false }
				}
				ch := jhttp.NewChannel("http://x/", &jhttp.ChannelOptions{Client: hc})
				for k := 0; k < nsend; k++ {
					ch.Send([]byte(`{"jsonrpc":"2.0","method":"m"}`))
				}
				if i%2 == 1 {
					runtime.Gosched()
				}
				ch.Close()
				hc.mu.Lock()
				hc.closeReturned = true
				hc.mu.Unlock()
				synctest.Wait()
				hc.mu.Lock()
				late, n := hc.lateDo, hc.n
				hc.mu.Unlock()
				script := fmt.Sprintf("send x%d; close (no pause)", nsend)
				res.Case(fmt.Sprintf("chan-close-now/%d/%d", nsend, i%2), true, script)
				res.Count("close-right-after-send")
				if late > 0 || n != nsend {
					res.Violatef("request goroutine left behind after Channel.Close: a request was issued after Close had returned", script, "%d of %d requests issued after Close returned (%d issued in all)", late, nsend, n)
				}
				if left := libGoroutines(); len(left) > 0 {
					res.Violatef("request goroutine left behind after Channel.Close: "+left[0], script, "%v", left)
				}
			})
		}
	}()
	cm := runOracle(t, clines)
	for i, m := range cm {
		res.Traces++
		o := cruns[i]
		var mo, mc, mi, mw, mr int
		if _, err := fmt.Sscanf(m, "ok opened=%d closed=%d inflight=%d waiting=%d refused=%d", &mo, &mc, &mi, &mw, &mr); err != nil {
			res.Disagreef("channel machine rejected the script", o.script, m, o.got)
			continue
		}
		want := fmt.Sprintf("opened=%d closed=%d", mo, mc)
		if strings.Contains(o.got, "mismatch") {
			res.Violatef("Send on a closed HTTP channel did not fail (or failed on an open one)", o.script, "%s", o.got)
		} else if o.got != want {
			if mo != mc {
				res.Disagreef("channel machine does not balance", o.script, m, o.got)
			} else {
				res.Violatef("HTTP response bodies left unclosed after Close", o.script, "machine %s, channel %s", want, o.got)
			}
		} else {
			res.Agreements++
		}
	}

	// ---- (d) Client over jhttp.Channel against a Bridge vs a direct connection
	mux := handler.Map{"echo": func(ctx context.Context, req *jrpc2.Request) (any, error) {
		var v json.RawMessage
		req.UnmarshalParams(&v)
		return v, nil
	}, "fail": func(ctx context.Context, req *jrpc2.Request) (any, error) {
		return nil, &jrpc2.Error{Code: 7, Message: "seven", Data: json.RawMessage(`[1]`)}
	}}
	// the bridge screens requests with a ParseRequest hook: method "deny" is answered by the bridge
	// itself (the hook sets Error) and never forwarded; over the direct connection the same method
	// is a handler that reports the same error, so the two must still be indistinguishable
	denied := &jrpc2.Error{Code: 1234, Message: "denied"}
	mux["deny"] = func(ctx context.Context, req *jrpc2.Request) (any, error) { return nil, denied }
	hookMux := handler.Map{"echo": mux["echo"], "fail": mux["fail"]}
	br := jhttp.NewBridge(hookMux, &jhttp.BridgeOptions{ParseRequest: func(req *http.Request) ([]*jrpc2.ParsedRequest, error) {
		body, err := io.ReadAll(req.Body)
		if err != nil {
			return nil, err
		}
		prs, err := jrpc2.ParseRequests(body)
		for _, pr := range prs {
			if pr.Method == "deny" && pr.Error == nil {
				pr.Error = denied
			}
		}
		return prs, err
	}})
	hc := &inprocHTTP{h: br}
	hcli := jrpc2.NewClient(jhttp.NewChannel("http://x/", &jhttp.ChannelOptions{Client: hc}), nil)
	loc := server.NewLocal(mux, nil)
	ctx := context.Background()
	describe := func(rsp *jrpc2.Response, err error) string {
		if err != nil {
			return describeErr(err)
		}
		return "ok:" + rsp.ResultString()
	}
	bg := ctx
	nviol := len(res.Violations)
	for i := 0; i < pick(60, 600) && len(res.Violations) == nviol; i++ {
		method := []string{"echo", "fail", "nope", "deny"}[rng.Intn(4)]
		params := []any{nil, []int{i}, map[string]int{"k": i}}[rng.Intn(3)]
		// a request that is never answered must not stall the check: every operation has a deadline
		ctx, cancelOp := context.WithTimeout(bg, 3*time.Second)
		defer cancelOp()
		switch rng.Intn(3) {
		case 0:
			a := describe(hcli.Call(ctx, method, params))
			b := describe(loc.Client.Call(ctx, method, params))
			res.Case(fmt.Sprintf("http-call/%s/%v", method, params), true, method)
			if a != b {
				res.Violatef("a call over the HTTP channel gives a different result than over a direct connection", method, "http %s direct %s", a, b)
			}
		case 1:
			e1 := hcli.Notify(ctx, method, params)
			e2 := loc.Client.Notify(ctx, method, params)
			res.Case(fmt.Sprintf("http-notify/%s/%v", method, params), true, method)
			if (e1 == nil) != (e2 == nil) {
				res.Violatef("Notify over the HTTP channel behaves differently", method, "%v vs %v", e1, e2)
			}
		case 2:
			specs := []jrpc2.Spec{{Method: method, Params: params}, {Method: "echo", Params: []int{1}, Notify: true}, {Method: "echo", Params: []int{2}}}
			if i%3 == 2 { // two screened members around forwarded ones
				specs = []jrpc2.Spec{{Method: "deny"}, {Method: method, Params: params}, {Method: "deny", Notify: true}, {Method: "echo", Params: []int{3}}, {Method: "deny", Params: []int{4}}, {Method: "echo", Params: []int{5}}}
			} else if i%2 == 0 { // the notification first
				specs = []jrpc2.Spec{{Method: "echo", Params: []int{1}, Notify: true}, {Method: method, Params: params}, {Method: "echo", Params: []int{2}}, {Method: "nope"}}
			}
			r1, e1 := hcli.Batch(ctx, specs)
			r2, e2 := loc.Client.Batch(ctx, specs)
			res.Case(fmt.Sprintf("http-batch/%s/%v", method, params), true, method)
			s1, s2 := fmt.Sprint(e1), fmt.Sprint(e2)
			for _, r := range r1 {
				s1 += "|" + r.ResultString() + fmt.Sprint(r.Error())
			}
			for _, r := range r2 {
				s2 += "|" + r.ResultString() + fmt.Sprint(r.Error())
			}
			if s1 != s2 {
				res.Violatef("a batch over the HTTP channel gives different results than over a direct connection", method, "http %s direct %s", s1, s2)
			}
		}
	}
	closeWithin(res, "Client.Close over jhttp.Channel", hcli.Close)
	closeWithin(res, "Local.Close", loc.Close)
	closeWithin(res, "Bridge.Close", br.Close)
	time.Sleep(5 * time.Millisecond)
	hc.mu.Lock()
	if hc.opened != hc.closed {
		res.Violatef("HTTP response bodies left unclosed after closing the client", "client over jhttp.Channel", "opened %d closed %d", hc.opened, hc.closed)
	}
	hc.mu.Unlock()
}
