package harness

// C20 — server.Loop: fresh service and exactly one Finish per connection; exits last.

import (
	"context"
	"errors"
	"fmt"
	"io"
	"math/rand"
	"net"
	"runtime"
	"strings"
	"sync"
	"testing"
	"testing/synctest"
	"time"

	"github.com/creachadair/jrpc2"
	"github.com/creachadair/jrpc2/channel"
	"github.com/creachadair/jrpc2/handler"
	"github.com/creachadair/jrpc2/server"
)

type loopOp struct {
	Kind string `json:"k"` // connect | connectfail (Assigner fails) | clientclose | cancel | acceptfail | acceptclosing | call
	Arg  int    `json:"a,omitempty"`
}

type loopScenario struct {
	Ops []loopOp
}

type scriptAccepter struct {
	ch    chan acceptResult
	mu    sync.Mutex
	queue []acceptResult // results handed out back to back, without blocking in between
}
type acceptResult struct {
	c   channel.Channel
	err error
}

func (a *scriptAccepter) Accept(ctx context.Context) (channel.Channel, error) {
	a.mu.Lock()
	if len(a.queue) > 0 {
		r := a.queue[0]
		a.queue = a.queue[1:]
		a.mu.Unlock()
		return r.c, r.err
	}
	a.mu.Unlock()
	r := <-a.ch
	return r.c, r.err
}

type loopSvc struct {
	run  *loopRun
	k    int
	fail bool
	asg  jrpc2.Assigner
}

func (s *loopSvc) Assigner() (jrpc2.Assigner, error) {
	s.run.logf("assigner %d ok=%v", s.k, !s.fail)
	if s.fail {
		return nil, errors.New("no assigner")
	}
	s.asg = handler.Map{"m": func(ctx context.Context, req *jrpc2.Request) (any, error) { return "ok", nil },
		// a handler that is still at work when its connection goes away
		"slow": func(ctx context.Context, req *jrpc2.Request) (any, error) {
			s.run.logf("hstart %d", s.k)
			<-s.run.gate
			s.run.logf("hend %d", s.k)
			return nil, nil
		}}
	return s.asg, nil
}

func (s *loopSvc) Finish(a jrpc2.Assigner, st jrpc2.ServerStatus) {
	same := fmt.Sprintf("%p", a) == fmt.Sprintf("%p", s.asg)
	s.run.logf("finish %d status=%s sameAssigner=%v", s.k, statusText(st), same)
}

type loopRun struct {
	mu   sync.Mutex
	Log  []string
	gate chan struct{} // closed by the "opengate" op (or at the end of the script)
}

func (r *loopRun) logf(format string, args ...any) {
	r.mu.Lock()
	r.Log = append(r.Log, fmt.Sprintf(format, args...))
	r.mu.Unlock()
}

func runLoopScenario(t *testing.T, sc *loopScenario) *loopRun {
	r := &loopRun{}
	gateOpen := false
	openGate := func() {
		if !gateOpen {
			gateOpen = true
			r.logf("opengate")
			close(r.gate)
		}
	}
	defer runtime.GOMAXPROCS(runtime.GOMAXPROCS(1))
	synctest.Test(t, func(t *testing.T) {
		r.gate = make(chan struct{}) // made inside the bubble: waiting on it is a durable block
		acc := &scriptAccepter{ch: make(chan acceptResult)}
		ctx, cancel := context.WithCancel(context.Background())
		defer cancel()
		nsvc := 0
		failNext := map[int]bool{}
		var peers, srvEnds []*vend
		newService := func() server.Service {
			k := nsvc
			nsvc++
			r.logf("newservice %d", k)
			return &loopSvc{run: r, k: k, fail: failNext[k]}
		}
		done := make(chan error, 1)
		go func() { done <- server.Loop(ctx, acc, newService, nil) }()
		accepted := 0
		ended := false
		returned := false
		// offer hands a result to the accepter unless Loop has already returned
		offer := func(ar acceptResult) {
			if returned {
				return
			}
			select {
			case acc.ch <- ar:
			case err := <-done:
				returned = true
				r.logf("loopreturn %v", err)
				done <- err
			}
		}
		for _, op := range sc.Ops {
			synctest.Wait()
			if ended {
				break
			}
			switch op.Kind {
			case "connect", "connectfail", "connectbroken", "connectsendfail":
				cli, srv := newVPair()
				peers = append(peers, cli)
				srvEnds = append(srvEnds, srv)
				if op.Kind == "connectsendfail" {
					// a transport that loses ONE reply (the first Send fails) and works on: the server keeps
					// running, and must still be stopped / finished like any other
					srv.st.sendErr = func(n int32) error {
						if n == 1 {
							return errors.New("send failed")
						}
						return nil
					}
					cli.Send([]byte(`{"jsonrpc":"2.0","id":1,"method":"m"}`))
				}
				if op.Kind == "connectbroken" {
					// a transport that breaks: the server's Recv number 1+Arg fails with an error that is
					// neither end-of-input nor a closed-connection error, so its exit status carries it
					at := int32(1 + op.Arg%2)
					srv.st.recvErr = func(n int32) ([]byte, error, bool) {
						if n >= at {
							return nil, errors.New("connection reset"), true
						}
						return nil, nil, false
					}
					if at == 2 {
						cli.Send([]byte(`{"jsonrpc":"2.0","id":1,"method":"m"}`))
					}
				}
				failNext[accepted] = op.Kind == "connectfail"
				if op.Kind == "connectbroken" {
					r.logf("accept %d broken", accepted)
				} else {
					r.logf("accept %d", accepted)
				}
				accepted++
				offer(acceptResult{c: srv})
			case "connect+closing":
				// a connection immediately followed by the listener closing: Accept returns both back to back
				cli, srv := newVPair()
				peers = append(peers, cli)
				srvEnds = append(srvEnds, srv)
				r.logf("accept %d", accepted)
				accepted++
				r.logf("acceptfail closing")
				acc.mu.Lock()
				acc.queue = append(acc.queue, acceptResult{err: net.ErrClosed})
				acc.mu.Unlock()
				offer(acceptResult{c: srv})
				ended = true
			case "clientclose":
				if op.Arg < len(peers) {
					r.logf("clientclose %d", op.Arg)
					peers[op.Arg].Close()
				}
			case "call":
				if op.Arg < len(peers) {
					peers[op.Arg].Send([]byte(`{"jsonrpc":"2.0","id":1,"method":"m"}`))
				}
			case "slownotes": // two notifications whose handlers wait for the gate: the second is still queued behind the first
				if op.Arg < len(peers) {
					r.logf("slownotes %d", op.Arg)
					peers[op.Arg].Send([]byte(`{"jsonrpc":"2.0","method":"slow"}`))
					peers[op.Arg].Send([]byte(`{"jsonrpc":"2.0","method":"slow"}`))
				}
			case "slowbatch": // ONE batch of two notifications whose handlers wait for the gate
				if op.Arg < len(peers) {
					r.logf("slowbatch %d", op.Arg)
					peers[op.Arg].Send([]byte(`[{"jsonrpc":"2.0","method":"slow"},{"jsonrpc":"2.0","method":"slow"}]`))
				}
			case "opengate":
				openGate()
			case "cancel":
				r.logf("ctxcancel")
				cancel()
			case "acceptfail":
				r.logf("acceptfail other")
				offer(acceptResult{err: errors.New("accept boom")})
				ended = true
			case "acceptfaileof": // end-of-input is an ordinary failure of the accepter, not a closed listener
				r.logf("acceptfail other")
				offer(acceptResult{err: fmt.Errorf("accept boom: %w", io.EOF)})
				ended = true
			case "acceptfaileofbare":
				r.logf("acceptfail other:EOF")
				offer(acceptResult{err: io.EOF})
				ended = true
			case "acceptclosing":
				r.logf("acceptfail closing")
				offer(acceptResult{err: net.ErrClosed})
				ended = true
			case "acceptclosingwrapped": // errors that wrap the closed-listener errors count as such
				r.logf("acceptfail closing")
				offer(acceptResult{err: fmt.Errorf("listener: %w", []error{net.ErrClosed, channel.ErrClosed}[op.Arg%2])})
				ended = true
			}
		}
		synctest.Wait()
		openGate()
		synctest.Wait()
		// has Loop returned already (before the servers were brought down)?
		select {
		case err := <-done:
			if !returned {
				returned = true
				r.logf("loopreturn %v", err)
			}
			done <- err
		default:
		}
		if !ended && !returned {
			r.logf("acceptfail closing")
			offer(acceptResult{err: net.ErrClosed})
		}
		synctest.Wait()
		select {
		case err := <-done:
			if !containsPrefix(r.Log, "loopreturn") {
				r.logf("loopreturn %v", err)
			}
			done <- err
		default:
		}
		// connections of failed services must have been closed by Loop
		for i, p := range peers {
			if failNext[i] {
				p.in.mu.Lock()
				closed := p.in.closed
				p.in.mu.Unlock()
				r.logf("failedconn %d closedByLoop=%v", i, closed)
			}
		}
		// let the remaining servers end: peers hang up
		for i, p := range peers {
			r.logf("clientclose %d", i)
			p.Close()
			synctest.Wait()
		}
		err := <-done
		if !containsPrefix(r.Log, "loopreturn") {
			r.logf("loopreturn %v", err)
		}
		synctest.Wait()
		// how often each connection that reached Loop was closed by the library
		for i, e := range srvEnds {
			r.logf("closes %d %d problems=%v", i, e.st.closes.Load(), e.st.Problems())
		}
	})
	return r
}

func containsPrefix(log []string, p string) bool {
	for _, e := range log {
		if strings.HasPrefix(e, p) {
			return true
		}
	}
	return false
}

// memListener is an in-memory net.Listener: Accept hands out queued connections, blocks when there
// are none, and fails with net.ErrClosed once closed (as a TCP listener does).
type memListener struct {
	mu      sync.Mutex
	conns   chan net.Conn
	closed  chan struct{}
	nclosed int
	onHand  func() // called as Accept hands back a connection
}

func newMemListener() *memListener {
	return &memListener{conns: make(chan net.Conn, 8), closed: make(chan struct{})}
}
func (l *memListener) Accept() (net.Conn, error) {
	select {
	case <-l.closed:
		return nil, &net.OpError{Op: "accept", Net: "mem", Err: net.ErrClosed}
	default:
	}
	select {
	case c := <-l.conns:
		if l.onHand != nil {
			l.onHand()
		}
		return c, nil
	case <-l.closed:
		return nil, &net.OpError{Op: "accept", Net: "mem", Err: net.ErrClosed}
	}
}
func (l *memListener) Close() error {
	l.mu.Lock()
	defer l.mu.Unlock()
	l.nclosed++
	if l.nclosed == 1 {
		close(l.closed)
	}
	return nil
}
func (l *memListener) Addr() net.Addr { return &net.UnixAddr{Name: "mem", Net: "mem"} }

// c20NetAccepter: Loop over NetAccepter ends with nil when the context ends - wherever Loop happens
// to be at that moment: blocked in Accept, between two Accepts, or not yet started - and the
// listener is closed; every accepted connection is served and finished first.
// c20MidRecordHangup: Loop over NetAccepter with a line framing; a client does one round trip, then
// writes part of a record and hangs up. Its server must exit and be finished, and Loop must return
// once the context ends. Real time (a server that spins would never let a synctest bubble settle).
func c20MidRecordHangup(res *Result) {
	for _, fr := range []struct {
		name string
		f    channel.Framing
		tail string
	}{{"Line", channel.Line, `{"jsonrpc":"2.0","method":"m","par`}, {"Split(0)", channel.Split(0), `{"jsonrpc":"2.0"`}, {"Line/blank", channel.Line, " "}} {
		lst := newMemListener()
		ctx, cancel := context.WithCancel(context.Background())
		var mu sync.Mutex
		finished := 0
		svc := func() server.Service {
			return c20Svc{finish: func() { mu.Lock(); finished++; mu.Unlock() }}
		}
		done := make(chan error, 1)
		go func() { done <- server.Loop(ctx, server.NetAccepter(lst, fr.f), svc, nil) }()
		a, b := net.Pipe()
		lst.conns <- b
		sep := "\n"
		if fr.name == "Split(0)" {
			sep = "\x00"
		}
		go io.Copy(io.Discard, a)
		a.Write([]byte(`{"jsonrpc":"2.0","id":1,"method":"rpc.serverInfo"}` + sep))
		a.Write([]byte(fr.tail)) // an unfinished record ...
		a.Close()                // ... and the client is gone
		in := map[string]any{"netaccepter": "client hangs up in the middle of a record", "framing": fr.name, "partial_record": fr.tail}
		res.Case("netaccepter/mid-record/"+fr.name, true, in)
		res.Count("netaccepter-mid-record")
		deadline := time.Now().Add(3 * time.Second)
		for {
			mu.Lock()
			n := finished
			mu.Unlock()
			if n == 1 || time.Now().After(deadline) {
				if n != 1 {
					res.Violatef("a server whose client hung up in the middle of a record never exited: Finish was not called", in, "%d services finished after 3s", n)
				}
				break
			}
			time.Sleep(2 * time.Millisecond)
		}
		cancel()
		select {
		case err := <-done:
			if err != nil {
				res.Violatef("Loop over NetAccepter did not return nil when the context ended", in, "Loop returned %v", err)
			}
		case <-time.After(3 * time.Second):
			res.Violatef("Loop over NetAccepter never returned after the context ended", in, "a client had hung up in the middle of a record")
			return // Loop is wedged; leave it
		}
	}
}

func c20NetAccepter(t *testing.T, res *Result) {
	for _, when := range []string{"in-accept", "between-accepts", "before-start", "after-two", "pending-callback"} {
		synctest.Test(t, func(t *testing.T) {
			lst := newMemListener()
			ctx, cancel := context.WithCancel(context.Background())
			defer cancel()
			var mu sync.Mutex
			finished, started := 0, 0
			svc := func() server.Service {
				mu.Lock()
				started++
				mu.Unlock()
				return c20Svc{finish: func() { mu.Lock(); finished++; mu.Unlock() }}
			}
			var peers []net.Conn
			connect := func() {
				a, b := net.Pipe()
				peers = append(peers, a)
				lst.conns <- b
			}
			switch when {
			case "between-accepts":
				lst.onHand = cancel // the context ends while Loop is busy with the connection it just got
				connect()
			case "before-start":
				cancel()
			case "after-two":
				connect()
				connect()
			}
			// base context of the request handlers: ended at the very end, so that a handler left
			// hanging by a server that failed to stop it does not wedge the bubble
			base, endBase := context.WithCancel(context.Background())
			defer endBase()
			var lopts *server.LoopOptions
			if when == "pending-callback" {
				lopts = &server.LoopOptions{ServerOptions: &jrpc2.ServerOptions{AllowPush: true, NewContext: func() context.Context { return base }}}
				connect()
			}
			done := make(chan error, 1)
			go func() { done <- server.Loop(ctx, server.NetAccepter(lst, channel.Line), svc, lopts) }()
			synctest.Wait()
			if when == "pending-callback" {
				// a notification whose handler issues a callback and waits for the answer, which never comes
				peers[0].Write([]byte(`{"jsonrpc":"2.0","method":"cb"}` + "\n"))
				synctest.Wait()
				go io.Copy(io.Discard, peers[0]) // the pushed request is read, never answered
				synctest.Wait()
				cancel()
			}
			if when == "in-accept" || when == "after-two" {
				cancel()
			}
			synctest.Wait()
			for _, p := range peers {
				p.Close()
			}
			synctest.Wait()
			in := map[string]any{"netaccepter": when}
			res.Case("netaccepter/"+when, true, in)
			res.Count("netaccepter")
			select {
			case err := <-done:
				if err != nil {
					res.Violatef("Loop over NetAccepter did not return nil when the context ended", in, "context ended %s: Loop returned %v", when, err)
				}
			default:
				res.Violatef("Loop over NetAccepter never returned after the context ended", in, "context ended %s", when)
				lst.Close()
				endBase()
				synctest.Wait()
			}
			lst.mu.Lock()
			nc := lst.nclosed
			lst.mu.Unlock()
			if nc == 0 {
				res.Violatef("NetAccepter left the listener open after the context ended", in, "context ended %s", when)
			}
			mu.Lock()
			if started != finished {
				res.Violatef("Loop returned before a started server had been finished", in, "context ended %s: %d services started, %d finished", when, started, finished)
			}
			mu.Unlock()
		})
	}
}

type c20Svc struct{ finish func() }

func (s c20Svc) Assigner() (jrpc2.Assigner, error) {
	return handler.Map{"m": handler.New(func(context.Context) (int, error) { return 1, nil }),
		"cb": func(ctx context.Context, req *jrpc2.Request) (any, error) {
			jrpc2.ServerFromContext(ctx).Callback(ctx, "question", nil) // returns when answered or when the server stops
			return nil, nil
		}}, nil
}
func (s c20Svc) Finish(jrpc2.Assigner, jrpc2.ServerStatus) { s.finish() }

func TestC20(t *testing.T) {
	res := newResult("C20", "scenarios: up to 4 connections with every order of connect (with and without a failing Assigner) / client close / context cancel / accepter failure (closed-listener error or other), traffic on some connections; Loop run inside a synctest bubble with an in-memory Accepter and instrumented services; the call log is replayed on the Loop machine and checked directly (one newService per connection before its Assigner, one Finish per started server with its own assigner and status, Loop returns last, return value, failed service's connection closed). distinct = distinct op script; non-trivial = at least two connections")
	defer res.Write(t)
	rng := newRNG()
	var lines []string
	var logs [][]string
	var ins []any
	c20NetAccepter(t, res)
	c20MidRecordHangup(res)
	runOne := func(sc *loopScenario) {
		r := runLoopScenario(t, sc)
		in := map[string]any{"loopscenario": sc}
		var trace []string
		newsvc, finish := map[int]int{}, map[int]int{}
		started := map[int]bool{}
		broken := map[int]bool{}
		cancelled := false
		retAt := -1
		closing := true
		wantText := "accept boom"
		nconn := 0
		for i, e := range r.Log {
			f := strings.Fields(e)
			var k int
			if len(f) > 1 {
				fmt.Sscan(f[1], &k)
			}
			switch f[0] {
			case "accept":
				trace = append(trace, "a")
				nconn++
				if len(f) > 2 && f[2] == "broken" {
					broken[k] = true
				}
			case "newservice":
				if retAt >= 0 {
					res.Violatef("Loop returned before a connection it had accepted was served and finished", in, "log: %s", shortLog(r.Log))
				}
				newsvc[k]++
				trace = append(trace, fmt.Sprintf("n:%d", k))
			case "assigner":
				if newsvc[k] != 1 {
					res.Violatef("Assigner called on a service that did not come from a fresh newService call", in, "log: %s", shortLog(r.Log))
				}
				ok := strings.HasSuffix(e, "ok=true")
				started[k] = ok
				trace = append(trace, fmt.Sprintf("g:%d:%s", k, bit(ok)))
			case "finish":
				finish[k]++
				trace = append(trace, fmt.Sprintf("x:%d", k), fmt.Sprintf("f:%d", k))
				if !strings.Contains(e, "sameAssigner=true") {
					res.Violatef("Finish was not given the assigner its service returned", in, "%s", e)
				}
				// (a server that is stopped by the ending context before its transport breaks reports that instead)
				if isErr := strings.Contains(e, "status=err:connection reset"); broken[k] != isErr && !(broken[k] && cancelled) {
					res.Violatef("Finish was not given its own server's exit status", in, "%s (transport broken: %v); log: %s", e, broken[k], shortLog(r.Log))
				}
				if strings.Contains(e, "status=invalid") {
					res.Violatef("Finish was given an invalid status", in, "%s", e)
				}
				if retAt >= 0 {
					res.Violatef("Loop returned before a started server had been finished", in, "log: %s", shortLog(r.Log))
				}
			case "ctxcancel":
				cancelled = true
				trace = append(trace, "c")
			case "acceptfail":
				closing = f[1] == "closing"
				wantText = "accept boom"
				if strings.HasPrefix(f[1], "other:") {
					wantText = strings.TrimPrefix(f[1], "other:")
				}
				trace = append(trace, "e:"+bit(closing))
			case "loopreturn":
				retAt = i
				trace = append(trace, "r")
				got := strings.TrimPrefix(e, "loopreturn ")
				if closing && got != "<nil>" {
					res.Violatef("Loop did not return nil for a closed-listener error", in, "%s", e)
				}
				if !closing && !strings.Contains(got, wantText) {
					res.Violatef("Loop did not return the accepter's error", in, "%s", e)
				}
			case "failedconn":
				if !strings.HasSuffix(e, "closedByLoop=true") {
					res.Violatef("the connection of a service whose Assigner failed was left dangling", in, "%s; log: %s", e, shortLog(r.Log))
				}
			}
		}
		// a server has "fully exited" only when its handlers have returned: Finish comes after the
		// last of them (also for a notification that was still queued when the connection ended)
		for i, e := range r.Log {
			var k int
			if n, _ := fmt.Sscanf(e, "hend %d", &k); n == 1 {
				for j := 0; j < i; j++ {
					if strings.HasPrefix(r.Log[j], fmt.Sprintf("finish %d ", k)) {
						res.Violatef("Finish was called before its server had fully exited (a handler was still running)", in, "conn %d; log: %s", k, shortLog(r.Log))
					}
				}
			}
		}
		for k := 0; k < nconn; k++ {
			if newsvc[k] != 1 {
				res.Violatef(fmt.Sprintf("newService called %d times for one connection", newsvc[k]), in, "conn %d; log: %s", k, shortLog(r.Log))
			}
			want := 0
			if started[k] {
				want = 1
			}
			if finish[k] != want {
				res.Violatef(fmt.Sprintf("Finish called %d times (want %d)", finish[k], want), in, "conn %d; log: %s", k, shortLog(r.Log))
			}
		}
		if retAt < 0 {
			res.Violatef("Loop never returned", in, "log: %s", shortLog(r.Log))
		}
		key := fmt.Sprint(sc.Ops)
		res.Case(key, nconn >= 2, map[string]any{"ops": sc.Ops, "trace": strings.Join(trace, " ")})
		lines = append(lines, "c20 "+strings.Join(trace, " "))
		logs = append(logs, r.Log)
		ins = append(ins, in)
	}
	kinds := []string{"connect", "connect", "connectbroken", "connectsendfail", "connectfail", "slownotes", "slowbatch", "opengate", "clientclose", "cancel", "call", "acceptfail", "acceptclosing", "connect+closing", "acceptfaileof", "acceptfaileofbare", "acceptclosingwrapped"}
	for i := 0; i < pick(400, 4000); i++ {
		sc := &loopScenario{}
		n := 1 + rng.Intn(7)
		conns := 0
		for j := 0; j < n; j++ {
			k := kinds[rng.Intn(len(kinds))]
			op := loopOp{Kind: k}
			if k == "clientclose" || k == "call" || k == "slownotes" || k == "slowbatch" {
				if conns == 0 {
					continue
				}
				op.Arg = rng.Intn(conns)
			}
			if strings.HasPrefix(k, "connect") {
				if conns >= 4 {
					continue
				}
				conns++
				op.Arg = rng.Intn(2)
			}
			sc.Ops = append(sc.Ops, op)
			if k == "acceptclosingwrapped" {
				op.Arg = rng.Intn(2)
			}
			if strings.HasPrefix(k, "acceptfail") || strings.HasPrefix(k, "acceptclosing") || k == "connect+closing" {
				break
			}
		}
		runOne(sc)
	}
	for _, sc := range []*loopScenario{
		{Ops: []loopOp{{Kind: "connect"}, {Kind: "acceptclosing"}}},
		{Ops: []loopOp{{Kind: "connectfail"}, {Kind: "connect"}, {Kind: "cancel"}}},
		{Ops: []loopOp{{Kind: "connect"}, {Kind: "connect"}, {Kind: "acceptfail"}}},
		// closed-listener errors are recognised through wrapping, both sentinels; end-of-input is not one
		{Ops: []loopOp{{Kind: "connect"}, {Kind: "acceptclosingwrapped", Arg: 0}}},
		{Ops: []loopOp{{Kind: "connect"}, {Kind: "acceptclosingwrapped", Arg: 1}}},
		{Ops: []loopOp{{Kind: "acceptclosingwrapped", Arg: 1}}},
		{Ops: []loopOp{{Kind: "connect"}, {Kind: "acceptfaileof"}}},
		{Ops: []loopOp{{Kind: "acceptfaileofbare"}}},
		// a connection that goes away while one notification is running and another is queued behind it
		{Ops: []loopOp{{Kind: "connect"}, {Kind: "slownotes", Arg: 0}, {Kind: "clientclose", Arg: 0}, {Kind: "opengate"}, {Kind: "acceptclosing"}}},
		{Ops: []loopOp{{Kind: "connect"}, {Kind: "connect"}, {Kind: "slownotes", Arg: 1}, {Kind: "cancel"}, {Kind: "opengate"}}},
		{Ops: []loopOp{{Kind: "connect"}, {Kind: "slownotes", Arg: 0}, {Kind: "acceptclosing"}}},
		{Ops: []loopOp{{Kind: "connect"}, {Kind: "slowbatch", Arg: 0}, {Kind: "clientclose", Arg: 0}, {Kind: "opengate"}, {Kind: "acceptclosing"}}},
		{Ops: []loopOp{{Kind: "connect"}, {Kind: "slowbatch", Arg: 0}, {Kind: "cancel"}, {Kind: "opengate"}}},
		// a connection that lost one reply in transport is stopped and finished like the others
		{Ops: []loopOp{{Kind: "connectsendfail"}, {Kind: "call", Arg: 0}, {Kind: "cancel"}}},
		{Ops: []loopOp{{Kind: "connectsendfail"}, {Kind: "connect"}, {Kind: "clientclose", Arg: 0}, {Kind: "acceptclosing"}}},
		// servers that exit with an error status are finished like the others
		{Ops: []loopOp{{Kind: "connectbroken", Arg: 0}, {Kind: "connect"}, {Kind: "acceptclosing"}}},
		{Ops: []loopOp{{Kind: "connect"}, {Kind: "connectbroken", Arg: 1}, {Kind: "cancel"}}},
	} {
		for j := 0; j < 5; j++ {
			runOne(sc)
		}
	}
	model := runOracle(t, lines)
	for i, m := range model {
		res.Traces++
		if strings.HasPrefix(m, "ok") {
			res.Agreements++
		} else {
			res.Violatef("Loop's call sequence is not a run of the Loop machine: "+strings.Join(strings.Fields(m)[2:], " "), ins[i], "%s; trace %s; log: %s", m, lines[i], shortLog(logs[i]))
		}
	}
	_ = rand.Int
}
