package harness

// Deterministic scheduling of the real Client against a scripted raw peer.

import (
	"context"
	"encoding/json"
	"errors"
	"fmt"
	"io"
	"reflect"
	"runtime"
	"sort"
	"strings"
	"sync"
	"testing"
	"testing/synctest"

	"github.com/creachadair/jrpc2"
)

// cliOp is one environment action of a client scenario.
//
//	call <tag> | callres <tag> | notify <tag> | batch <tag> (Arg2: c|n per entry, e.g. "cnc")
//	cancel <tag>           cancel the context of operation <tag>
//	setid <tag> <tag2>     Response.SetID on the completed response of <tag> with the id of request <tag2>
//	deadline <tag>         let the deadline of operation <tag> pass (its context was created with a timeout)
//	reply <tags>           peer sends one message answering the requests with these tags (comma separated;
//	                       a single tag = bare object, several = array); modifiers in Arg2:
//	                       err (error objects), dup (send the message twice), both (result and error),
//	                       push / pushbad (not a reply: a server request, well-formed / malformed, reusing the id)
//	raw <text>             peer sends this text (unknown ids, malformed members, server requests …)
//	peerclose              peer closes its end
//	close                  client.Close()
type cliOp struct {
	Kind string `json:"k"`
	Arg  string `json:"a,omitempty"`
	Arg2 string `json:"b,omitempty"`
}

type cliScenario struct {
	Ops         []cliOp
	RecvFailAt  int // n-th Recv of the client fails (0 = never)
	RecvFailEOF bool
	SendFailAt  int  // n-th Send of the client fails
	Callbacks   bool // install OnCallback / OnNotify
}

type cliRun struct {
	sc      *cliScenario
	Log     []string
	Choices []int
	mu      sync.Mutex
	sched   *sched
	cli     *jrpc2.Client
	peer    *vend
	cch     *vend
	ids     map[string]string // request tag -> id as seen by the peer
	rsps    map[string]*jrpc2.Response
	cancels map[string]context.CancelFunc
	Stuck   string
	Leaked  []string
	cbGates []*gate
}

func (r *cliRun) logf(format string, args ...any) {
	r.mu.Lock()
	r.Log = append(r.Log, fmt.Sprintf(format, args...))
	r.mu.Unlock()
}

func describeErr(err error) string {
	var je *jrpc2.Error
	switch {
	case err == nil:
		return "nil"
	case err == context.Canceled:
		return "ctx-canceled"
	case err == context.DeadlineExceeded:
		return "ctx-deadline"
	case errors.As(err, &je):
		return fmt.Sprintf("jerr(%d,%s)", je.Code, je.Message)
	}
	return "err(" + err.Error() + ")"
}

// peerDrain records the requests the peer has received so far.
func (r *cliRun) peerDrain() {
	for _, b := range r.peer.in.drain() {
		r.logf("peer-got %s", b)
		var many []struct {
			ID     json.RawMessage `json:"id"`
			Method string          `json:"method"`
			Params []string        `json:"params"`
		}
		if json.Unmarshal(b, &many) != nil {
			many = make([]struct {
				ID     json.RawMessage `json:"id"`
				Method string          `json:"method"`
				Params []string        `json:"params"`
			}, 1)
			if json.Unmarshal(b, &many[0]) != nil {
				continue
			}
		}
		for _, m := range many {
			if len(m.Params) > 0 && len(m.ID) != 0 {
				r.mu.Lock()
				r.ids[m.Params[0]] = string(m.ID)
				r.mu.Unlock()
			}
		}
	}
}

func (r *cliRun) replyText(tag, mod string) (string, bool) {
	r.mu.Lock()
	id, ok := r.ids[tag]
	r.mu.Unlock()
	if !ok {
		return "", false
	}
	switch {
	case strings.Contains(mod, "pushbad"): // a malformed server request that reuses the id of an outstanding call
		return fmt.Sprintf(`{"jsonrpc":"2.0","id":%s,"method":"srvcall","params":[1],"extra":1}`, id), true
	case strings.Contains(mod, "push"): // a well-formed server request with a colliding id
		return fmt.Sprintf(`{"jsonrpc":"2.0","id":%s,"method":"srvcall","params":[1]}`, id), true
	case strings.Contains(mod, "mixed"): // reply AND request members: malformed, but it answers the call (with an error)
		return fmt.Sprintf(`{"jsonrpc":"2.0","id":%s,"method":"srvcall","result":"res-%s"}`, id, tag), true
	case strings.Contains(mod, "both"):
		return fmt.Sprintf(`{"jsonrpc":"2.0","id":%s,"result":"res-%s","error":{"code":9,"message":"e-%s"}}`, id, tag, tag), true
	case strings.Contains(mod, "err"):
		return fmt.Sprintf(`{"jsonrpc":"2.0","id":%s,"error":{"code":9,"message":"e-%s"}}`, id, tag), true
	}
	return fmt.Sprintf(`{"jsonrpc":"2.0","id":%s,"result":"res-%s"}`, id, tag), true
}

func runClientScenario(t *testing.T, sc *cliScenario, pickFn func(int) int) *cliRun {
	r := &cliRun{sc: sc, ids: map[string]string{}, rsps: map[string]*jrpc2.Response{}, cancels: map[string]context.CancelFunc{}}
	r.sched = &sched{}
	out := outPath()
	if out != "" {
		b, _ := json.Marshal(map[string]any{"cliscenario": sc, "pickseed": progressSeed})
		writeFileQuiet(out+".progress", b)
	}
	defer runtime.GOMAXPROCS(runtime.GOMAXPROCS(1))
	defer scenarioWatchdog("client scenario")()
	synctest.Test(t, func(t *testing.T) {
		jrpc2.VerifHook = r.sched.hook
		defer func() { jrpc2.VerifHook = nil }()
		r.peer, r.cch = newVPair()
		if sc.RecvFailAt > 0 {
			at := int32(sc.RecvFailAt)
			r.cch.st.recvErr = func(n int32) ([]byte, error, bool) {
				if n >= at {
					if sc.RecvFailEOF {
						return nil, io.EOF, true
					}
					return nil, errors.New("recv boom"), true
				}
				return nil, nil, false
			}
		}
		if sc.SendFailAt > 0 {
			at := int32(sc.SendFailAt)
			r.cch.st.sendErr = func(n int32) error {
				if n == at {
					return errors.New("send boom")
				}
				return nil
			}
		}
		opts := &jrpc2.ClientOptions{
			OnCancel: func(c *jrpc2.Client, rsp *jrpc2.Response) { r.logf("oncancel id=%s", rsp.ID()) },
			OnStop:   func(c *jrpc2.Client, err error) { r.logf("onstop %s", describeErr(err)) },
		}
		if sc.Callbacks {
			opts.OnNotify = func(req *jrpc2.Request) { r.logf("onnotify %s", req.Method()) }
			opts.OnCallback = func(ctx context.Context, req *jrpc2.Request) (any, error) {
				g := &gate{tag: "cb" + req.ID(), ch: make(chan string, 1), open: true}
				r.mu.Lock()
				r.Log = append(r.Log, "cbstart "+req.ID())
				r.cbGates = append(r.cbGates, g)
				r.mu.Unlock()
				<-g.ch
				r.logf("cbfinish %s ctx=%q", req.ID(), ctxText(ctx))
				return "cbres", nil
			}
		}
		// the inside of the transport write is a scheduling point whenever the Send is not serialised by the client's mutex
		r.cch.midSend = func(b []byte) {
			cli := r.cli
			if cli == nil {
				return
			}
			if mu := mutexOf(cli); mu != nil && mu.TryLock() {
				mu.Unlock()
				k := string(b)
				if len(k) > 48 {
					k = k[:48]
				}
				r.sched.hook("chan.send.mid", k, nil)
			}
		}
		r.cch.midClose = func() {
			cli := r.cli
			if cli == nil {
				return
			}
			if mu := mutexOf(cli); mu != nil && mu.TryLock() {
				mu.Unlock()
				r.sched.hook("chan.close.mid", "", nil)
			}
		}
		// the Logger is user code: park in it whenever the client's mutex is free (see srvRun.logPark)
		opts.Logger = func(text string) {
			cli := r.cli
			if cli == nil {
				return
			}
			if mu := mutexOf(cli); mu != nil && mu.TryLock() {
				mu.Unlock()
				r.sched.hook("user.log", firstWords(text, 3), nil)
			}
		}
		r.cli = jrpc2.NewClient(r.cch, opts)
		nextOp := 0
		steps := 0
		closeDone := false
		for {
			synctest.Wait()
			r.peerDrain()
			ps := r.sched.snapshot()
			var gs []*gate
			r.mu.Lock()
			for _, g := range r.cbGates {
				if g.open {
					gs = append(gs, g)
				}
			}
			r.mu.Unlock()
			sort.SliceStable(gs, func(i, j int) bool { return gs[i].tag < gs[j].tag })
			nOps := 0
			if nextOp < len(sc.Ops) {
				nOps = 1
				if op := sc.Ops[nextOp]; op.Kind == "reply" {
					for _, tag := range strings.Split(op.Arg, ",") {
						if _, ok := r.replyText(tag, ""); !ok {
							nOps = 0 // the peer can only answer a request it has received
						}
					}
				}
			}
			total := len(ps) + len(gs) + nOps
			if total == 0 {
				break
			}
			steps++
			if steps > 3000 {
				r.Stuck = "step limit exceeded"
				break
			}
			k := pickFn(total)
			r.Choices = append(r.Choices, k)
			switch {
			case k < len(ps):
				p := ps[k]
				if p.site == "cli.send.enter" || p.site == "cli.deliver.enter" {
					r.logf("run %s %s", p.site, describeMsgs(p.b))
				} else if p.site == "cli.accept.recv" && p.b != nil {
					r.logf("run %s err=%v", p.site, p.b)
				} else if id, ok := p.b.(string); ok {
					r.logf("run %s %s", p.site, id)
				} else {
					r.logf("run %s", p.site)
				}
				r.sched.release(p)
			case k < len(ps)+len(gs):
				g := gs[k-len(ps)]
				r.mu.Lock()
				g.open = false
				r.mu.Unlock()
				r.logf("release %s", g.tag)
				g.ch <- ""
			default:
				op := sc.Ops[nextOp]
				nextOp++
				switch op.Kind {
				case "call", "callres", "notify", "batch":
					tag := op.Arg
					ctx, cancel := context.WithCancel(context.Background())
					r.mu.Lock()
					if len(r.cancels)%2 == 1 {
						// every other operation: a context that is cancelled WITH A CAUSE - its own error
						// (ctx.Err) is still context.Canceled, and that is what the operation must return
						cctx, ccancel := context.WithCancelCause(context.Background())
						ctx, cancel = cctx, func() { ccancel(errors.New("caller gave up")) }
					}
					r.cancels[tag] = cancel
					r.mu.Unlock()
					r.logf("%s %s %s", op.Kind, tag, op.Arg2)
					go func() {
						switch op.Kind {
						case "call":
							rsp, err := r.cli.Call(ctx, "m", []string{tag})
							if err == nil {
								r.mu.Lock()
								r.rsps[tag] = rsp
								r.mu.Unlock()
								r.logf("ret %s ok:%s", tag, rsp.ResultString())
							} else {
								r.logf("ret %s %s", tag, describeErr(err))
							}
						case "callres":
							var v string
							err := r.cli.CallResult(ctx, "m", []string{tag}, &v)
							if err == nil {
								r.logf("ret %s ok:%q", tag, v)
							} else {
								r.logf("ret %s %s", tag, describeErr(err))
							}
						case "notify":
							r.logf("ret %s %s", tag, describeErr(r.cli.Notify(ctx, "m", []string{tag})))
						case "batch":
							var specs []jrpc2.Spec
							for i, c := range op.Arg2 {
								specs = append(specs, jrpc2.Spec{Method: "m", Params: []string{fmt.Sprintf("%s.%d", tag, i)}, Notify: c == 'n'})
							}
							rsps, err := r.cli.Batch(ctx, specs)
							if err != nil {
								r.logf("ret %s %s", tag, describeErr(err))
								return
							}
							var parts []string
							for _, rsp := range rsps {
								if e := rsp.Error(); e != nil {
									parts = append(parts, fmt.Sprintf("id=%s:jerr(%d,%s)", rsp.ID(), e.Code, e.Message))
								} else {
									parts = append(parts, fmt.Sprintf("id=%s:ok:%s", rsp.ID(), rsp.ResultString()))
								}
							}
							r.logf("ret %s batch[%s]", tag, strings.Join(parts, "\x1f"))
						}
					}()
				case "setid":
					// what a proxy such as jhttp.Bridge does with a completed response: relabel it - here
					// with the id of another request, possibly one still in flight
					r.mu.Lock()
					rsp, id := r.rsps[op.Arg], r.ids[op.Arg2]
					r.mu.Unlock()
					if rsp != nil && id != "" {
						r.logf("setid %s %s", op.Arg, id)
						rsp.SetID(id)
					}
				case "cancel":
					r.logf("cancel %s", op.Arg)
					r.mu.Lock()
					c := r.cancels[op.Arg]
					r.mu.Unlock()
					if c != nil {
						c()
					}
				case "reply":
					var ms []string
					for _, tag := range strings.Split(op.Arg, ",") {
						m, _ := r.replyText(tag, op.Arg2)
						ms = append(ms, m)
					}
					msg := ms[0]
					if len(ms) > 1 || strings.Contains(op.Arg2, "arr") {
						msg = "[" + strings.Join(ms, ",") + "]"
					}
					if strings.Contains(op.Arg2, "pad") { // blanks around the message, as a pretty-printing peer writes them
						msg = " \r\n\t" + msg + "\n"
					}
					r.logf("peer-send %s", msg)
					r.peer.Send([]byte(msg))
					if strings.Contains(op.Arg2, "dup") {
						r.logf("peer-send %s", msg)
						r.peer.Send([]byte(msg))
					}
				case "raw":
					r.logf("peer-send %s", op.Arg)
					r.peer.Send([]byte(op.Arg))
				case "peerclose":
					r.logf("peerclose")
					r.peer.Close()
				case "close":
					r.logf("close")
					closeDone = true
					go func() { err := r.cli.Close(); r.logf("closed %s", describeErr(err)) }()
				}
			}
		}
		r.logf("quiescent")
		// shutdown: everything runs freely; the peer closes after seeing EOF / at the end
		r.sched.releaseAll()
		if !closeDone {
			go func() { err := r.cli.Close(); r.logf("closed %s", describeErr(err)) }()
		}
		for i := 0; i < 200; i++ {
			synctest.Wait()
			r.peerDrain()
			progressed := false
			r.mu.Lock()
			for _, g := range r.cbGates {
				if g.open {
					g.open = false
					g.ch <- ""
					progressed = true
				}
			}
			r.mu.Unlock()
			if !progressed {
				break
			}
		}
		r.peer.Close()
		synctest.Wait()
		closed := false
		for _, e := range r.Log {
			closed = closed || strings.HasPrefix(e, "closed ")
		}
		if !closed {
			r.Stuck = "Close did not return"
		}
		for _, c := range r.cancels {
			_ = c
		}
		if left := libGoroutines(); len(left) > 0 && closed {
			// requests whose contexts are still alive keep no goroutine: waitComplete ends when the
			// request completes (its context is cancelled by wait)
			r.Leaked = left
		}
		for _, c := range r.cancels {
			c()
		}
		synctest.Wait()
	})
	return r
}

func outPath() string { return getenv("VERIF_OUT") }

// describeMsgs renders a jmessages value (unexported type, read by reflection): one entry per
// member: <id>/<class>/<text> with class q (request-shaped), i (invalid member), b (result and
// error), e (error), r (result), n (neither).
func describeMsgs(v any) string {
	rv := reflect.ValueOf(v)
	if rv.Kind() != reflect.Slice {
		return "?"
	}
	var parts []string
	for i := 0; i < rv.Len(); i++ {
		m := rv.Index(i).Elem()
		id := string(m.FieldByName("ID").Bytes())
		if id == "" || id == "null" {
			id = "-"
		}
		method := m.FieldByName("M").String()
		res := string(m.FieldByName("R").Bytes())
		e := m.FieldByName("E")
		invalid := !m.FieldByName("err").IsNil()
		class, text := "n", ""
		switch {
		case method != "" && e.IsNil() && res == "":
			class, text = "q", string(m.FieldByName("P").Bytes())
		case invalid:
			class = "i"
		case !e.IsNil() && res != "":
			class, text = "b", res
		case !e.IsNil():
			class, text = "e", e.Elem().FieldByName("Message").String()
		case res != "":
			class, text = "r", res
		}
		parts = append(parts, id+"/"+class+"/"+hxs(text))
	}
	return strings.Join(parts, ";")
}
