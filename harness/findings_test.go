package harness

// Minimal reproductions of the defects found on the pinned tree (DESIGN.md §5).
// Each test fails on the unrepaired code and passes on the repaired code.

import (
	"context"
	"encoding/json"
	"errors"
	"fmt"
	"io"
	"net/http"
	"net/http/httptest"
	"strings"
	"testing"
	"time"

	"github.com/creachadair/jrpc2"
	"github.com/creachadair/jrpc2/channel"
	"github.com/creachadair/jrpc2/handler"
	"github.com/creachadair/jrpc2/jhttp"
	"github.com/creachadair/jrpc2/server"
)

func rawPair() (cli channel.Channel, srv channel.Channel) { return channel.Direct() }

func sendRecv(t *testing.T, ch channel.Channel, msg string) string {
	t.Helper()
	if err := ch.Send([]byte(msg)); err != nil {
		t.Fatalf("send: %v", err)
	}
	b, err := ch.Recv()
	if err != nil {
		t.Fatalf("recv: %v", err)
	}
	return string(b)
}

func echoMux() handler.Map {
	return handler.Map{"m": func(ctx context.Context, req *jrpc2.Request) (any, error) { return "ok", nil }}
}

func TestF1UnknownMethodReleasesID(t *testing.T) {
	cli, sch := rawPair()
	s := jrpc2.NewServer(echoMux(), nil).Start(sch)
	defer func() { cli.Close(); s.Wait() }()
	r1 := sendRecv(t, cli, `{"jsonrpc":"2.0","id":7,"method":"nope"}`)
	if !strings.Contains(r1, "-32601") {
		t.Fatalf("want -32601 got %s", r1)
	}
	r2 := sendRecv(t, cli, `{"jsonrpc":"2.0","id":7,"method":"m"}`)
	if !strings.Contains(r2, `"result":"ok"`) {
		t.Errorf("id 7 not reusable after method-not-found: %s", r2)
	}
}

func TestF7CancelKeepsReservation(t *testing.T) {
	cli, sch := rawPair()
	gate := make(chan struct{})
	started := make(chan struct{}, 4)
	mux := handler.Map{"m": func(ctx context.Context, req *jrpc2.Request) (any, error) {
		started <- struct{}{}
		<-gate
		return "done", nil
	}}
	s := jrpc2.NewServer(mux, &jrpc2.ServerOptions{Concurrency: 2}).Start(sch)
	defer func() { cli.Close(); s.Wait() }()
	defer close(gate)
	cli.Send([]byte(`{"jsonrpc":"2.0","id":1,"method":"m"}`))
	<-started
	s.CancelRequest("1")
	// A second call with id 1 while the first is still running must be rejected.
	cli.Send([]byte(`{"jsonrpc":"2.0","id":1,"method":"m"}`))
	got := make(chan string, 1)
	go func() { b, _ := cli.Recv(); got <- string(b) }()
	select {
	case r := <-got:
		if !strings.Contains(r, "-32600") {
			t.Errorf("want duplicate-id rejection, got %s", r)
		}
	case <-started:
		t.Errorf("duplicate id accepted (second handler started) while the first call is still in flight")
	case <-time.After(2 * time.Second):
		t.Errorf("no reaction")
	}
}

func TestF2F3RecordAfterStop(t *testing.T) {
	for _, msg := range []string{`{bad`, `[]`, `{"jsonrpc":"2.0","id":1,"method":"m"}`} {
		cli, sch := rawPair()
		s := jrpc2.NewServer(echoMux(), nil).Start(sch)
		s.Stop()
		// channel.Direct's Close does not unblock Recv: the reader is still waiting.
		cli.Send([]byte(msg)) // on the pinned tree this panics the process
		time.Sleep(20 * time.Millisecond)
		cli.Close()
		s.Wait()
	}
}

func TestF5HugeContentLength(t *testing.T) {
	for _, n := range []string{"9223372036854775807", "4611686018427387904"} {
		r := strings.NewReader("Content-Length: " + n + "\r\n\r\nxyz")
		ch := channel.Header("")(r, nopWC{})
		func() {
			defer func() {
				if p := recover(); p != nil {
					t.Errorf("Content-Length %s: panic %v", n, p)
				}
			}()
			_, err := ch.Recv()
			if err == nil {
				t.Errorf("Content-Length %s: no error", n)
			}
		}()
	}
}

type nopWC struct{}

func (nopWC) Write(b []byte) (int, error) { return len(b), nil }
func (nopWC) Close() error                { return nil }

func TestF6LineLastByte(t *testing.T) {
	ch := channel.Line(strings.NewReader("abc\ndef"), nopWC{})
	a, err := ch.Recv()
	if string(a) != "abc" || err != nil {
		t.Fatalf("first: %q %v", a, err)
	}
	b, err := ch.Recv()
	if err == nil {
		t.Errorf("truncated final record without error: %q", b)
	}
	if len(b) != 0 && string(b) != "def" {
		t.Errorf("final record shortened: %q, %v", b, err)
	}
}

func TestF8QueryNumbers(t *testing.T) {
	for _, q := range []string{"NaN", "Inf", "-inf", "infinity", "0x1p-2", "1_0", "1e5", "0x10"} {
		req := httptest.NewRequest("GET", "http://x/m?v="+q, nil)
		m, p, err := jhttp.ParseQuery(req)
		if err != nil || m != "m" {
			t.Fatalf("%q: %v %v", q, m, err)
		}
		bits, err := json.Marshal(p)
		if err != nil {
			t.Errorf("%q: params not marshalable: %v", q, err)
			continue
		}
		if string(bits) != `{"v":"`+q+`"}` {
			t.Errorf("%q: typed as %s, want the literal string", q, bits)
		}
	}
}

func TestF10LoopClosesOnAssignerFailure(t *testing.T) {
	cch, sch := rawPair()
	acc := &oneAccepter{ch: sch, done: make(chan struct{})}
	errc := make(chan error, 1)
	go func() {
		errc <- server.Loop(context.Background(), acc, func() server.Service { return failSvc{} }, nil)
	}()
	got := make(chan error, 1)
	go func() { _, err := cch.Recv(); got <- err }()
	select {
	case <-got:
	case <-time.After(300 * time.Millisecond):
		t.Errorf("connection left dangling after Assigner failure")
	}
	close(acc.done)
	<-errc
}

type failSvc struct{}

func (failSvc) Assigner() (jrpc2.Assigner, error)         { return nil, errors.New("nope") }
func (failSvc) Finish(jrpc2.Assigner, jrpc2.ServerStatus) {}

type oneAccepter struct {
	ch   channel.Channel
	done chan struct{}
	used bool
}

func (a *oneAccepter) Accept(ctx context.Context) (channel.Channel, error) {
	if !a.used {
		a.used = true
		return a.ch, nil
	}
	<-a.done
	return nil, errors.New("use of closed network connection")
}

type countBody struct {
	io.Reader
	closed *int
}

func (c countBody) Close() error { *c.closed++; return nil }

type fakeHTTP struct {
	opened, closed int
}

func (f *fakeHTTP) Do(req *http.Request) (*http.Response, error) {
	f.opened++
	return &http.Response{StatusCode: 200, Body: countBody{strings.NewReader(`{"jsonrpc":"2.0","id":1,"result":1}`), &f.closed}, Header: http.Header{}}, nil
}

func TestF11ChannelCloseClosesBodies(t *testing.T) {
	f := &fakeHTTP{}
	ch := jhttp.NewChannel("http://x", &jhttp.ChannelOptions{Client: f})
	ch.Send([]byte(`{"jsonrpc":"2.0","id":1,"method":"m"}`))
	ch.Send([]byte(`{"jsonrpc":"2.0","id":2,"method":"m"}`))
	time.Sleep(20 * time.Millisecond)
	ch.Close()
	if f.opened != f.closed {
		t.Errorf("bodies opened=%d closed=%d", f.opened, f.closed)
	}
}

func TestF12EmptyMessage(t *testing.T) {
	cli, sch := rawPair()
	mux := handler.Map{"m": func(ctx context.Context, req *jrpc2.Request) (any, error) { return nil, errors.New("") }}
	s := jrpc2.NewServer(mux, nil).Start(sch)
	defer func() { cli.Close(); s.Wait() }()
	r := sendRecv(t, cli, `{"jsonrpc":"2.0","id":1,"method":"m"}`)
	if !strings.Contains(r, `"message"`) {
		t.Errorf("error object without message member: %s", r)
	}
}

func TestF13PushScalarParams(t *testing.T) {
	cli, sch := rawPair()
	s := jrpc2.NewServer(echoMux(), &jrpc2.ServerOptions{AllowPush: true}).Start(sch)
	defer func() { cli.Close(); s.Wait() }()
	got := make(chan string, 1)
	go func() { b, _ := cli.Recv(); got <- string(b) }()
	err := s.Notify(context.Background(), "m", 5)
	if err != nil {
		return // refused: fine
	}
	select {
	case m := <-got:
		prs, perr := jrpc2.ParseRequests([]byte(m))
		if perr != nil || len(prs) != 1 || prs[0].Error != nil {
			t.Errorf("server emitted a request its own parser rejects: %s", m)
		}
	case <-time.After(200 * time.Millisecond):
		t.Errorf("Notify returned nil but sent nothing")
	}
}

func TestF15NullParamsEmitted(t *testing.T) {
	// a value that marshals to null (typed nil pointer) must not be sent as "params":null
	peer, cch := rawPair()
	cli := jrpc2.NewClient(cch, nil)
	defer func() { peer.Close(); cli.Close() }()
	got := make(chan string, 1)
	go func() { b, _ := peer.Recv(); got <- string(b) }()
	if err := cli.Notify(context.Background(), "m", (*int)(nil)); err != nil {
		t.Fatalf("Notify: %v", err)
	}
	select {
	case m := <-got:
		if strings.Contains(m, `"params"`) {
			t.Errorf("client emitted a non-structured params member: %s", m)
		}
	case <-time.After(200 * time.Millisecond):
		t.Errorf("nothing sent")
	}
}

func TestF16PlaceholderNameArray(t *testing.T) {
	// known finding (not repaired): with a placeholder name the array form is refused altogether
	fi, err := handler.Positional(func(ctx context.Context, a, b, c int) (string, error) { return fmt.Sprint(a, b, c), nil }, "first", "-", "third")
	if err != nil {
		t.Skip("Positional now rejects placeholder names")
	}
	req, _ := jrpc2.ParseRequests([]byte(`{"jsonrpc":"2.0","id":1,"method":"m","params":[1,2,3]}`))
	v, herr := fi.Wrap()(context.Background(), req[0].ToRequest())
	if herr != nil {
		t.Logf("KNOWN FINDING F16 reproduced: array of exactly 3 elements refused: %v", herr)
		return
	}
	if v != "1 2 3" {
		t.Errorf("got %v", v)
	}
}

type strictArg struct {
	A int `json:"a"`
}

func (strictArg) DisallowUnknownFields() {}

func TestF14StrictWithArrayStub(t *testing.T) {
	called := false
	h := handler.New(func(ctx context.Context, a strictArg) (int, error) { called = true; return a.A, nil })
	req, _ := jrpc2.ParseRequests([]byte(`{"jsonrpc":"2.0","id":1,"method":"m","params":{"a":1,"zz":2}}`))
	_, err := h(context.Background(), req[0].ToRequest())
	if err == nil || called {
		t.Errorf("unknown field accepted for a DisallowUnknownFields type (called=%v err=%v)", called, err)
	}
}

func TestF9LateCallbackReply(t *testing.T) {
	cli, sch := rawPair()
	s := jrpc2.NewServer(echoMux(), &jrpc2.ServerOptions{AllowPush: true}).Start(sch)
	defer func() { cli.Close(); s.Wait() }()
	// A reply-shaped member that matches no outstanding callback must be dropped.
	cli.Send([]byte(`{"jsonrpc":"2.0","id":1,"result":5}`))
	r := sendRecv(t, cli, `{"jsonrpc":"2.0","id":99,"method":"m"}`)
	if !strings.Contains(r, `"id":99`) {
		t.Errorf("server answered an unmatched reply: %s", r)
	}
}

func TestF4RetainedInvalidNotification(t *testing.T) {
	cli, sch := rawPair()
	gate := make(chan struct{})
	started := make(chan struct{}, 1)
	mux := handler.Map{"m": func(ctx context.Context, req *jrpc2.Request) (any, error) {
		started <- struct{}{}
		<-gate
		return "ok", nil
	}}
	s := jrpc2.NewServer(mux, &jrpc2.ServerOptions{Concurrency: 1}).Start(sch)
	// A running notification parks the dispatcher at the barrier for later batches.
	cli.Send([]byte(`{"jsonrpc":"2.0","method":"m"}`))
	<-started
	cli.Send([]byte(`{"jsonrpc":"2.0","method":"m"}`)) // popped, parked at barrier
	// queued: id-less member with a validation error (extra field)
	cli.Send([]byte(`{"jsonrpc":"2.0","method":"m","zzz":1}`))
	time.Sleep(20 * time.Millisecond)
	s.Stop()
	close(gate)
	time.Sleep(20 * time.Millisecond)
	cli.Close()
	s.Wait()
}

// F17: an error value whose Data is not JSON makes the whole reply batch unencodable; deliver drops
// it, so neither that call nor the other calls of the same inbound message are ever answered.
func TestF17UnencodableErrorData(t *testing.T) {
	cli, sch := rawPair()
	mux := handler.Map{
		"m": func(ctx context.Context, req *jrpc2.Request) (any, error) { return "ok", nil },
		"bad": func(ctx context.Context, req *jrpc2.Request) (any, error) {
			return nil, &jrpc2.Error{Code: 7, Message: "failed", Data: json.RawMessage(`{"a":`)}
		},
	}
	s := jrpc2.NewServer(mux, nil).Start(sch)
	defer func() { cli.Close(); s.Wait() }()
	cli.Send([]byte(`[{"jsonrpc":"2.0","id":1,"method":"bad"},{"jsonrpc":"2.0","id":2,"method":"m"}]`))
	r := sendRecv(t, cli, `{"jsonrpc":"2.0","id":3,"method":"m"}`)
	if !strings.Contains(r, `"id":1`) || !strings.Contains(r, `"id":2`) || !strings.Contains(r, `"code":7`) {
		t.Errorf("the batch [bad, m] was not answered; next message on the wire: %s", r)
	}
}

// F18: the client-side counterpart of F17. An OnCallback handler that fails with an *Error whose
// Data is not JSON makes the reply unencodable; handleCallback ignores the encoding error and the
// client sends an EMPTY record - not a JSON-RPC message - and the server's Callback never gets its
// answer.
func TestF18CallbackReplyUnencodableErrorData(t *testing.T) {
	peer, cch := rawPair()
	cli := jrpc2.NewClient(cch, &jrpc2.ClientOptions{OnCallback: func(ctx context.Context, req *jrpc2.Request) (any, error) {
		return nil, &jrpc2.Error{Code: 9, Message: "cb failed", Data: json.RawMessage(`{"partial":`)}
	}})
	defer func() { peer.Close(); cli.Close() }()
	got := sendRecv(t, peer, `{"jsonrpc":"2.0","id":1,"method":"cb"}`)
	if !strings.Contains(got, `"id":1`) || !strings.Contains(got, `"code":9`) {
		t.Errorf("the callback was answered with %q, which is not its failure report", got)
	}
}

// F19: ParseRequests does not flag a member that has no method name ("If a request is valid, its
// Error field is nil"), so the HTTP bridge forwards it to its server under a fresh id. On a
// push-enabled bridge that id can equal the id of a callback that is still unanswered (both
// counters start at 1): the method-less message is then taken for the reply to that callback - the
// handler's Callback returns a bogus empty result, and the HTTP caller is never answered.
func TestF19BridgeForwardsMethodlessMember(t *testing.T) {
	gate := make(chan struct{})
	cbResults := make(chan string, 4)
	br := jhttp.NewBridge(handler.Map{"p": func(ctx context.Context, req *jrpc2.Request) (any, error) {
		for i := 0; i < 2; i++ { // callback ids 1 and 2; the second one stays unanswered for a while
			rsp, err := jrpc2.ServerFromContext(ctx).Callback(ctx, "cb", []int{i})
			if err != nil {
				cbResults <- "err:" + err.Error()
			} else {
				cbResults <- rsp.ResultString()
			}
		}
		return "done", nil
	}}, &jhttp.BridgeOptions{
		Server: &jrpc2.ServerOptions{AllowPush: true, Concurrency: 4},
		Client: &jrpc2.ClientOptions{OnCallback: func(ctx context.Context, req *jrpc2.Request) (any, error) {
			var p []int
			req.UnmarshalParams(&p)
			if p[0] == 1 {
				<-gate
			}
			return fmt.Sprintf("cb-%d", p[0]), nil
		}},
	})
	defer br.Close()
	post := func(body string) chan string {
		out := make(chan string, 1)
		go func() {
			req := httptest.NewRequest("POST", "http://x/", strings.NewReader(body))
			req.Header.Set("Content-Type", "application/json")
			w := httptest.NewRecorder()
			br.ServeHTTP(w, req)
			out <- fmt.Sprintf("%d %s", w.Code, w.Body.String())
		}()
		return out
	}
	a := post(`{"jsonrpc":"2.0","id":"A","method":"p"}`) // forwarded under client id 1
	if got := <-cbResults; got != `"cb-0"` {
		t.Fatalf("first callback: %s", got)
	}
	// callback 2 is now pending; the next forwarded request gets client id 2
	b := post(`{"jsonrpc":"2.0","id":"B"}`)
	select {
	case got := <-b:
		if !strings.Contains(got, `"id":"B"`) || !strings.Contains(got, `"error"`) {
			t.Errorf("method-less member answered with %s", got)
		}
	case got := <-cbResults:
		t.Errorf("the method-less member of another HTTP caller was taken for the reply to callback 2: Callback returned %q", got)
	case <-time.After(3 * time.Second):
		t.Errorf("the POST with a method-less member was never answered")
	}
	close(gate)
	select {
	case <-a:
	case <-time.After(3 * time.Second):
	}
}

// F20: "after the connection has ended Notify and Callback return ErrConnClosed" - but the
// parameters are marshalled and validated before the connection is looked at, so on an ended
// connection a push with scalar or unencodable parameters reports those instead.
func TestF20ClosedConnectionBeforeBadPushParams(t *testing.T) {
	cli, sch := rawPair()
	s := jrpc2.NewServer(echoMux(), &jrpc2.ServerOptions{AllowPush: true}).Start(sch)
	cli.Close()
	s.Wait()
	for _, p := range []any{nil, []int{1}, 5, "s", make(chan int)} {
		if err := s.Notify(context.Background(), "n", p); err != jrpc2.ErrConnClosed {
			t.Errorf("Notify(%T) on an ended connection: got %v, want ErrConnClosed", p, err)
		}
		if _, err := s.Callback(context.Background(), "c", p); err != jrpc2.ErrConnClosed {
			t.Errorf("Callback(%T) on an ended connection: got %v, want ErrConnClosed", p, err)
		}
	}
}
