module verif/harness

go 1.26.8

require github.com/creachadair/jrpc2 v0.0.0

require (
	github.com/creachadair/mds v0.24.2 // indirect
	golang.org/x/sync v0.13.0 // indirect
)

replace github.com/creachadair/jrpc2 => /repo
