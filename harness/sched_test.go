package harness

// Deterministic scheduling of the real Server / Client.
//
// Goroutines of the library park in jrpc2.VerifHook (build tag verif) at sites that lie outside
// its critical sections. The controller runs inside a testing/synctest bubble: it waits for
// quiescence (every goroutine durably blocked), looks at the parked goroutines and the enabled
// environment actions, picks one from the PRNG (or from a recorded choice list) and releases it.
// Exactly one thing runs between decisions, so a schedule is a list of small integers and the
// event log is totally ordered.

import (
	"context"
	"encoding/json"
	"errors"
	"fmt"
	"io"
	"math/rand"
	"net"
	"os"
	"reflect"
	"runtime"
	"sort"
	"strings"
	"sync"
	"testing"
	"testing/synctest"
	"time"
	"unsafe"

	"github.com/creachadair/jrpc2"
)

type parked struct {
	site string
	a, b any
	rel  chan struct{}
	seq  int
}

type sched struct {
	mu      sync.Mutex
	parked  []*parked
	seq     int
	passAll bool            // shutdown phase: do not park any more
	skip    map[string]bool // sites that never park in this run
}

func (s *sched) hook(site string, a, b any) {
	s.mu.Lock()
	if s.passAll || s.skip[site] {
		s.mu.Unlock()
		return
	}
	s.seq++
	p := &parked{site: site, a: a, b: b, rel: make(chan struct{}), seq: s.seq}
	s.parked = append(s.parked, p)
	s.mu.Unlock()
	<-p.rel
}

// key identifies a parked goroutine independently of the order in which goroutines happened to
// reach their hooks, so that a choice list replays exactly.
func (p *parked) key() string {
	k := p.site
	for _, v := range []any{p.a, p.b} {
		switch x := v.(type) {
		case string:
			k += "/" + x
		case *jrpc2.Request:
			if x != nil {
				k += "/" + x.Method() + x.ParamString() + x.ID()
			}
		}
	}
	return k
}

func (s *sched) snapshot() []*parked {
	s.mu.Lock()
	defer s.mu.Unlock()
	ps := append([]*parked(nil), s.parked...)
	sort.SliceStable(ps, func(i, j int) bool { return ps[i].key() < ps[j].key() })
	return ps
}

func (s *sched) release(p *parked) {
	s.mu.Lock()
	for i, q := range s.parked {
		if q == p {
			s.parked = append(s.parked[:i], s.parked[i+1:]...)
			break
		}
	}
	s.mu.Unlock()
	close(p.rel)
}

func (s *sched) releaseAll() {
	s.mu.Lock()
	s.passAll = true
	ps := s.parked
	s.parked = nil
	s.mu.Unlock()
	for _, p := range ps {
		close(p.rel)
	}
}

// ---------------------------------------------------------------------------------------------
// server scenarios

// An envOp is one environment action of a scenario script. Script order is preserved; an op is
// taken when the controller picks "next op".
type envOp struct {
	Kind string `json:"k"`           // send | stop | cancel | notify | callback | cbcancel | close | reply
	Arg  string `json:"a,omitempty"` // record text / id / tag
}

type hspec struct { // behaviour of the handler for one tag
	Outcome string // ok | err | errcode:<n> | cb:<tag> (issue a callback, wait for it) | nfy (push a notification)
}

type srvScenario struct {
	Concurrency int
	AllowPush   bool
	Ops         []envOp
	// handler gates: a handler parks until released; AutoRelease releases a gate as soon as it
	// opens (fast handlers)
	AutoRelease bool
	MaxSteps    int
	// faults on the server's end of the channel (C08)
	RecvFailAt   int    // the n-th Recv (1-based) fails; 0 = never
	RecvFailKind string // eof | eofdata | closing | other
	SendFailAt   int    // the n-th Send fails
	NoUnblock    bool   // Close does not unblock a pending Recv (like channel.Direct)
	DeadCtxAt    int    `json:",omitempty"` // the n-th base context handed out by ServerOptions.NewContext has already ended (0 = never)
	LateCtxAt    int    `json:",omitempty"` // the n-th base context ends at the moment its Err method is first consulted (0 = never)
	Restart      bool   // after WaitStatus, start the same server again and probe it
	RestartCB    bool   // after WaitStatus, start the same server again and issue a callback while late replies to the first run's callbacks arrive
}

type gate struct {
	tag  string
	ch   chan string // outcome override ("" = default)
	open bool
}

type hevent struct {
	Kind string // start | finish
	Tag  string
	Ctx  string // ctx.Err() text at that moment ("" = nil)
	ID   string
	Note bool
}

// srvRun is one execution of a scenario under one schedule.
type srvRun struct {
	sc       *srvScenario
	Log      []string // totally ordered event log
	Choices  []int
	srv      *jrpc2.Server
	cli, sch *vend
	sched    *sched
	hmu      sync.Mutex
	gates    []*gate
	cbRes    map[string]string // callback tag -> result description
	cbCancel map[string]context.CancelFunc
	cbIDs    map[string]string // callback tag -> id of the pushed request
	nextSend int
	Status   *jrpc2.ServerStatus
	Snap     jrpc2.VerifServerSnapshot // at quiescence before shutdown
	Stuck    string                    // non-empty if the run did not finish cleanly
	Running  int
	MaxRun   int
	sendTags [][]string // per sent record: tags of its members (for "read" events)
	Leaked   []string   // library goroutines still alive after WaitStatus returned
	readRecs []string   // text of each record the reader received, in order
	heldOpen bool       // phase 2: gates of held handlers (tags starting with "H") may be released
}

func (r *srvRun) logf(format string, args ...any) {
	r.hmu.Lock()
	r.Log = append(r.Log, fmt.Sprintf(format, args...))
	r.hmu.Unlock()
}

func ctxText(ctx context.Context) string {
	if e := ctx.Err(); e != nil {
		return e.Error()
	}
	return ""
}

// handler for method "m": params [tag, outcome]
func (r *srvRun) handler(ctx context.Context, req *jrpc2.Request) (any, error) {
	var p []string
	req.UnmarshalParams(&p)
	tag, outcome := "?", "ok"
	if len(p) > 0 {
		tag = p[0]
	}
	if len(p) > 1 {
		outcome = p[1]
	}
	g := &gate{tag: tag, ch: make(chan string, 1), open: true}
	r.hmu.Lock()
	r.Running++
	if r.Running > r.MaxRun {
		r.MaxRun = r.Running
	}
	r.Log = append(r.Log, fmt.Sprintf("hstart %s id=%s ctx=%q running=%d", tag, req.ID(), ctxText(ctx), r.Running))
	r.gates = append(r.gates, g)
	r.hmu.Unlock()

	if strings.HasPrefix(outcome, "cb:") && r.sc.AllowPush {
		// a handler that itself awaits a callback (before its gate)
		cbtag := outcome[3:]
		rsp, err := jrpc2.ServerFromContext(ctx).Callback(ctx, "cbm", []string{cbtag})
		res := "err:" + fmt.Sprint(err)
		if err == nil {
			res = "ok:" + rsp.ResultString()
		}
		r.logf("cbreturn %s %s", cbtag, res)
	}
	if outcome == "nfy" && r.sc.AllowPush {
		err := jrpc2.ServerFromContext(ctx).Notify(ctx, "nm", []string{tag})
		r.logf("nfyreturn %s %v", tag, err)
	}
	over := <-g.ch
	if over != "" {
		outcome = over
	}
	r.hmu.Lock()
	r.Running--
	r.Log = append(r.Log, fmt.Sprintf("hfinish %s id=%s ctx=%q", tag, req.ID(), ctxText(ctx)))
	r.hmu.Unlock()
	switch {
	case outcome == "err":
		return nil, fmt.Errorf("failed %s", tag)
	case outcome == "rawnl": // a pre-encoded result that is valid JSON but not compact
		return json.RawMessage("{\n\t\"t\": \"" + tag + "\"\r\n}"), nil
	case outcome == "rawbad": // a pre-encoded result that is not JSON at all
		return json.RawMessage(`{"t":`), nil
	case outcome == "errdata": // an error value whose data is not JSON
		return nil, &jrpc2.Error{Code: 7, Message: "coded " + tag, Data: json.RawMessage(`{"a":`)}
	case strings.HasPrefix(outcome, "errcode:"):
		var c int
		fmt.Sscan(outcome[8:], &c)
		return nil, &jrpc2.Error{Code: jrpc2.Code(c), Message: "coded " + tag}
	}
	return tag, nil
}

// logPark is the server's Logger: user code, hence a legitimate scheduling point. It parks only
// when the server's mutex is free (a goroutine parked while holding it would block the others in a
// way the bubble cannot see), which on the unchanged tree is the case at a single call site; a
// change that moves a log call - and with it a window between two critical sections - outside the
// lock becomes explorable by the scheduler.
func (r *srvRun) logPark(text string) {
	srv := r.srv
	if srv == nil || r.sched == nil {
		return
	}
	mu := mutexOf(srv)
	if mu == nil || !mu.TryLock() {
		return
	}
	mu.Unlock()
	r.sched.hook("user.log", firstWords(text, 3), nil)
}

// sendPark makes the inside of the transport write a scheduling point - but only when the
// server's mutex is free, i.e. when the Send is NOT serialised by it (on the unchanged tree every
// Send happens under the lock, so this never parks there).
func (r *srvRun) sendPark(b []byte) {
	srv := r.srv
	if srv == nil || r.sched == nil {
		return
	}
	mu := mutexOf(srv)
	if mu == nil || !mu.TryLock() {
		return
	}
	mu.Unlock()
	k := string(b)
	if len(k) > 48 {
		k = k[:48]
	}
	r.sched.hook("chan.send.mid", k, nil)
}

// mutexOf finds the unexported `mu` field (a sync.Mutex or a pointer to one) of a *Server / *Client.
func mutexOf(p any) *sync.Mutex {
	f := reflect.ValueOf(p).Elem().FieldByName("mu")
	switch {
	case !f.IsValid():
		return nil
	case f.Type() == reflect.TypeOf(&sync.Mutex{}):
		return (*sync.Mutex)(f.UnsafePointer())
	case f.Type() == reflect.TypeOf(sync.Mutex{}):
		return (*sync.Mutex)(unsafe.Pointer(f.UnsafeAddr()))
	}
	return nil
}

type srvMux struct{ r *srvRun }

func (m srvMux) Assign(ctx context.Context, method string) jrpc2.Handler {
	if method == "m" || method == "m2" {
		return m.r.handler
	}
	return nil
}

// Names is what the built-in rpc.serverInfo handler calls to do its work: the moment it runs is
// logged with the number of user handlers executing at that instant (C06 counts built-ins too).
func (m srvMux) Names() []string {
	m.r.hmu.Lock()
	m.r.Log = append(m.r.Log, fmt.Sprintf("builtinwork running=%d", m.r.Running))
	m.r.hmu.Unlock()
	return []string{"m", "m2"}
}

// openGates returns the gates that can be released, in a deterministic order.
func (r *srvRun) openGates() []*gate {
	r.hmu.Lock()
	defer r.hmu.Unlock()
	var gs []*gate
	for _, g := range r.gates {
		if g.open && (r.heldOpen || !strings.HasPrefix(g.tag, "H")) {
			gs = append(gs, g)
		}
	}
	sort.SliceStable(gs, func(i, j int) bool { return gs[i].tag < gs[j].tag })
	return gs
}

func (r *srvRun) releaseGate(g *gate) {
	r.hmu.Lock()
	g.open = false
	r.hmu.Unlock()
	g.ch <- ""
}

func (r *srvRun) drainOut() {
	for _, b := range r.cli.in.drain() {
		r.logf("out %s", b)
		var push struct {
			ID     json.RawMessage `json:"id"`
			Method string          `json:"method"`
			Params []string        `json:"params"`
		}
		if json.Unmarshal(b, &push) == nil && push.Method == "cbm" && len(push.Params) > 0 {
			r.hmu.Lock()
			r.cbIDs[push.Params[0]] = string(push.ID)
			r.hmu.Unlock()
		}
	}
}

// memberTags extracts the tags of the members of a record sent by the harness.
func memberTags(rec string) []string {
	var tags []string
	var one struct {
		Params []string `json:"params"`
	}
	var many []struct {
		Params []string `json:"params"`
	}
	if json.Unmarshal([]byte(rec), &many) == nil {
		for _, m := range many {
			if len(m.Params) > 0 {
				tags = append(tags, m.Params[0])
			}
		}
	} else if json.Unmarshal([]byte(rec), &one) == nil && len(one.Params) > 0 {
		tags = append(tags, one.Params[0])
	}
	return tags
}

// runServerScenario executes sc under the schedule chosen by pickFn. pickFn(n) returns a number
// in [0,n). The run ends at quiescence with nothing left to do, then the peer closes.
func runServerScenario(t *testing.T, sc *srvScenario, pickFn func(n int) int, skipSites map[string]bool) *srvRun {
	r := &srvRun{sc: sc, cbRes: map[string]string{}, cbCancel: map[string]context.CancelFunc{}, cbIDs: map[string]string{}}
	r.sched = &sched{skip: skipSites}
	maxSteps := sc.MaxSteps
	if maxSteps == 0 {
		maxSteps = 4000
	}
	writeProgress(sc)
	defer runtime.GOMAXPROCS(runtime.GOMAXPROCS(1)) // one goroutine at a time: schedules replay exactly
	defer scenarioWatchdog("server scenario")()
	synctest.Test(t, func(t *testing.T) {
		jrpc2.VerifHook = r.sched.hook
		defer func() { jrpc2.VerifHook = nil }()
		r.cli, r.sch = newVPair()
		if sc.NoUnblock {
			r.sch.closeIn = false
		}
		if sc.RecvFailAt > 0 {
			at, kind := int32(sc.RecvFailAt), sc.RecvFailKind
			r.sch.st.recvErr = func(n int32) ([]byte, error, bool) {
				switch {
				case n == at && kind == "eofdata":
					return []byte(reqNote("n9001", "ok")), io.EOF, true
				case n >= at && kind == "eof" || n > at && kind == "eofdata":
					return nil, io.EOF, true
				case n >= at && kind == "closing":
					return nil, net.ErrClosed, true
				case n >= at:
					return nil, errors.New("boom"), true
				}
				return nil, nil, false
			}
		}
		if sc.SendFailAt > 0 {
			at := int32(sc.SendFailAt)
			r.sch.st.sendErr = func(n int32) error {
				if n == at {
					return errors.New("send failed")
				}
				return nil
			}
		}
		r.sch.onSendFail = func(b []byte) { r.logf("outfail %s", b) }
		r.sch.midSend = r.sendPark
		r.sch.midClose = func() {
			if srv := r.srv; srv != nil {
				if mu := mutexOf(srv); mu != nil && mu.TryLock() {
					mu.Unlock()
					r.sched.hook("chan.close.mid", "", nil)
				}
			}
		}
		sopts := &jrpc2.ServerOptions{Concurrency: sc.Concurrency, AllowPush: sc.AllowPush, Logger: r.logPark}
		if sc.DeadCtxAt > 0 {
			nctx := 0
			sopts.NewContext = func() context.Context {
				nctx++
				if nctx == sc.DeadCtxAt {
					dead, cancel := context.WithCancel(context.Background())
					cancel()
					return dead
				}
				return context.Background()
			}
		}
		if sc.LateCtxAt > 0 && sc.DeadCtxAt == 0 {
			nctx := 0
			sopts.NewContext = func() context.Context {
				nctx++
				if nctx == sc.LateCtxAt {
					return &lateCtx{Context: context.Background(), done: make(chan struct{})}
				}
				return context.Background()
			}
		}
		r.srv = jrpc2.NewServer(srvMux{r}, sopts).Start(r.sch)
		nextOp := 0
		lastSeq := 0
		reads := 0
		steps := 0
		var statusCh chan jrpc2.ServerStatus
		for {
			synctest.Wait()
			r.drainOut()
			ps := r.sched.snapshot()
			for _, p := range ps {
				if p.seq > lastSeq && p.site == "srv.barrier.wait" {
					r.logf("parked %s", p.site) // the dispatcher has popped and checked the next batch
				}
			}
			for _, p := range ps {
				if p.seq > lastSeq {
					lastSeq = p.seq
				}
			}
			gs := r.openGates()
			if sc.AutoRelease && len(gs) > 0 {
				r.releaseGate(gs[0])
				continue
			}
			nOps := 0
			if nextOp < len(sc.Ops) {
				nOps = 1
				if op := sc.Ops[nextOp]; op.Kind == "cbreply" || op.Kind == "cbreplyerr" || op.Kind == "cbreplybad" || op.Kind == "cbreplyarr" {
					r.hmu.Lock()
					_, pushed := r.cbIDs[op.Arg]
					r.hmu.Unlock()
					if !pushed {
						nOps = 0 // the peer can only answer a callback it has seen
					}
				}
			}
			total := len(ps) + len(gs) + nOps
			if total == 0 && !r.heldOpen {
				// quiescent with only held handlers still running: observe, then let them go
				r.hmu.Lock()
				r.heldOpen = true
				nheld := 0
				for _, g := range r.gates {
					if g.open {
						nheld++
					}
				}
				r.Log = append(r.Log, fmt.Sprintf("held-quiescent held=%d", nheld))
				r.hmu.Unlock()
				continue
			}
			if total == 0 {
				break
			}
			steps++
			if steps > maxSteps {
				r.Stuck = "step limit exceeded"
				break
			}
			k := pickFn(total)
			r.Choices = append(r.Choices, k)
			switch {
			case k < len(ps):
				p := ps[k]
				switch p.site {
				case "srv.read.recv":
					r.sch.st.mu.Lock()
					var rec []byte
					if reads < len(r.sch.st.recvLog) {
						rec = r.sch.st.recvLog[reads]
					}
					r.sch.st.mu.Unlock()
					if p.b == nil || rec != nil { // a record was received (possibly together with EOF)
						r.logf("read %d %s", reads, strings.Join(memberTags(string(rec)), ","))
						r.readRecs = append(r.readRecs, string(rec))
						reads++
						if p.b != nil {
							r.logf("readfinal %v", p.b)
						}
					} else {
						r.logf("readerr %v", p.b)
					}
				case "srv.invoke.acquire":
					tag := ""
					if rq, ok := p.b.(*jrpc2.Request); ok && rq != nil {
						var ps []string
						rq.UnmarshalParams(&ps)
						if len(ps) > 0 {
							tag = ps[0]
						} else {
							tag = "method:" + rq.Method()
						}
					}
					r.logf("run %s %s", p.site, tag)
				case "srv.cancel.enter", "srv.waitcb.enter":
					r.logf("run %s %v", p.site, p.b)
				default:
					r.logf("run %s", p.site)
				}
				r.sched.release(p)
			case k < len(ps)+len(gs):
				g := gs[k-len(ps)]
				r.logf("release %s", g.tag)
				r.releaseGate(g)
			default:
				op := sc.Ops[nextOp]
				nextOp++
				switch op.Kind {
				case "send", "reply":
					r.logf("send %d %s", r.nextSend, op.Arg)
					r.nextSend++
					r.sendTags = append(r.sendTags, memberTags(op.Arg))
					r.cli.Send([]byte(op.Arg))
				case "cbreply", "cbreplyerr", "cbreplybad", "cbreplyarr":
					r.hmu.Lock()
					id := r.cbIDs[op.Arg]
					r.hmu.Unlock()
					msg := fmt.Sprintf(`{"jsonrpc":"2.0","id":%s,"result":"res-%s"}`, id, op.Arg)
					if op.Kind == "cbreplyerr" {
						msg = fmt.Sprintf(`{"jsonrpc":"2.0","id":%s,"error":{"code":77,"message":"cberr-%s"}}`, id, op.Arg)
					}
					if op.Kind == "cbreplybad" { // a failure report whose error member is not an error object
						msg = fmt.Sprintf(`{"jsonrpc":"2.0","id":%s,"error":"cbbad-%s"}`, id, op.Arg)
					}
					if op.Kind == "cbreplyarr" { // the reply inside a one-element batch, on a CR LF delimited stream
						msg = "\r\n[" + msg + "]\r\n"
					}
					r.logf("send %d %s", r.nextSend, msg)
					r.nextSend++
					r.sendTags = append(r.sendTags, nil)
					r.cli.Send([]byte(msg))
				case "stop":
					r.logf("stop")
					go func() { r.srv.Stop(); r.logf("stopped") }()
				case "cancel":
					r.logf("cancel %s", op.Arg)
					go func() { r.srv.CancelRequest(op.Arg); r.logf("cancelled %s", op.Arg) }()
				case "notify":
					tag := op.Arg
					r.logf("notify %s", tag)
					go func() {
						err := r.srv.Notify(context.Background(), "nm", []string{tag})
						r.logf("nfyreturn %s %v", tag, err)
					}()
				case "callback", "callbackbg":
					tag := op.Arg
					cctx, cancel := context.WithCancel(context.Background())
					if op.Kind == "callbackbg" { // a context that can never end: only a reply or the server's stop ends the call
						cctx, cancel = context.Background(), func() {}
					}
					if op.Kind == "callback" && strings.HasSuffix(tag, "2") {
						// a context that is cancelled WITH A CAUSE: its own error is still context.Canceled, and
						// that is what Callback must return when it ends first
						cc, ccancel := context.WithCancelCause(context.Background())
						cctx, cancel = cc, func() { ccancel(errors.New("caller lost interest")) }
					}
					r.hmu.Lock()
					r.cbCancel[tag] = cancel
					r.hmu.Unlock()
					r.logf("callback %s", tag)
					go func() {
						rsp, err := r.srv.Callback(cctx, "cbm", []string{tag})
						res := "err:" + fmt.Sprint(err)
						if err == nil {
							res = "ok:" + rsp.ResultString()
						}
						r.logf("cbreturn %s %s", tag, res)
					}()
				case "cbcancel":
					r.logf("cbcancel %s", op.Arg)
					r.hmu.Lock()
					c := r.cbCancel[op.Arg]
					r.hmu.Unlock()
					if c != nil {
						c()
					}
				case "close":
					r.logf("close")
					r.cli.Close()
				case "wait":
					if statusCh == nil {
						statusCh = make(chan jrpc2.ServerStatus, 1)
						go func() { st := r.srv.WaitStatus(); r.logf("waitstatus %s", statusText(st)); statusCh <- st }()
					}
				}
			}
		}
		// quiescent: nothing parked, no gates, script done
		r.Snap = r.srv.VerifSnapshot()
		r.logf("quiescent reserved=%v callbacks=%v queue=%d running=%v", r.Snap.Reserved, r.Snap.Callbacks, r.Snap.QueueLen, r.Snap.Running)
		// shut down: let everything run freely from here
		r.sched.releaseAll()
		r.cli.Close()
		if statusCh == nil {
			statusCh = make(chan jrpc2.ServerStatus, 1)
			go func() { st := r.srv.WaitStatus(); r.logf("waitstatus %s", statusText(st)); statusCh <- st }()
		}
		for i := 0; ; i++ {
			synctest.Wait()
			r.drainOut()
			select {
			case st := <-statusCh:
				r.Status = &st
			default:
			}
			if r.Status != nil {
				break
			}
			gs := r.openGates()
			if len(gs) == 0 || i > 1000 {
				r.Stuck = "server did not exit after the peer closed"
				// unblock whatever is left so the bubble can end
				break
			}
			r.releaseGate(gs[0])
		}
		if r.Status == nil {
			// last resort so that synctest does not report a deadlock: stop and release
			r.srv.Stop()
			for _, g := range r.openGates() {
				r.releaseGate(g)
			}
			synctest.Wait()
			select {
			case st := <-statusCh:
				r.Status = &st
			default:
				// goroutines of the server are blocked for good: the bubble cannot end. Report now.
				if stuckHandler != nil {
					stuckHandler(r)
				}
			}
		}
		synctest.Wait()
		r.drainOut()
		if r.Status != nil {
			// the server has fully exited: no goroutine of the library may be left, although the
			// contexts of outside callers are still alive
			if left := libGoroutines(); len(left) > 0 {
				r.Leaked = left
				r.logf("leaked %s", strings.Join(left, ";"))
			}
		}
		for _, c := range r.cbCancel {
			c()
		}
		synctest.Wait()
		if (sc.Restart || sc.RestartCB) && r.Status != nil {
			c2, s2 := newVPair()
			r.srv.Start(s2)
			if sc.RestartCB && sc.AllowPush {
				// a callback of the new run, while the peer still answers callbacks of the previous run
				// (late replies, each with the id its request carried): it must be completed by its OWN reply
				r.hmu.Lock()
				var stale []string
				for _, id := range r.cbIDs {
					stale = append(stale, id)
				}
				r.hmu.Unlock()
				sort.Strings(stale)
				done := make(chan string, 1)
				go func() {
					rsp, err := r.srv.Callback(context.Background(), "cbm", []string{"k77"})
					if err != nil {
						done <- "err:" + err.Error()
					} else {
						done <- "ok:" + rsp.ResultString()
					}
				}()
				synctest.Wait()
				newID := ""
				for _, b := range c2.in.drain() {
					var push struct {
						ID     json.RawMessage `json:"id"`
						Method string          `json:"method"`
					}
					if json.Unmarshal(b, &push) == nil && push.Method == "cbm" {
						newID = string(push.ID)
					}
				}
				for _, id := range stale {
					c2.Send([]byte(`{"jsonrpc":"2.0","id":` + id + `,"result":"stale"}`))
					synctest.Wait()
				}
				if newID != "" {
					c2.Send([]byte(`{"jsonrpc":"2.0","id":` + newID + `,"result":"fresh"}`))
				}
				synctest.Wait()
				select {
				case got := <-done:
					r.logf("restart-cb id=%s stale=%s %s", newID, strings.Join(stale, ","), got)
				default:
					r.logf("restart-cb id=%s stale=%s pending", newID, strings.Join(stale, ","))
				}
			}
			if !sc.Restart {
				c2.Close()
				st2 := r.srv.WaitStatus()
				r.logf("restart-status %s closes=%d", statusText(st2), s2.st.closes.Load())
				synctest.Wait()
				return
			}
			// the new run starts from a clean slate: ids that were in use (or in flight) in the first
			// run are as good as a fresh one
			c2.Send([]byte(reqBatch(reqCall(1, "c771", "ok"), reqCall(2, "c772", "ok"), reqCall(3, "c773", "ok"), reqCall(4, "c774", "ok"), reqCall(5, "c775", "ok"), reqCall(900, "c776", "ok"), reqCall(901, "c778", "ok"), reqCall(777, "c777", "ok"))))
			for i := 0; i < 50; i++ {
				synctest.Wait()
				if gs := r.openGates(); len(gs) > 0 {
					r.releaseGate(gs[0])
					continue
				}
				break
			}
			for _, b := range c2.in.drain() {
				r.logf("restart-out %s", b)
			}
			c2.Close()
			st2 := r.srv.WaitStatus()
			r.logf("restart-status %s closes=%d", statusText(st2), s2.st.closes.Load())
			synctest.Wait()
		}
	})
	return r
}

// lateCtx is a base context that is alive until somebody asks: the first call of Err ends it (Done
// is closed, Err reports Canceled from then on). A request that has been granted an execution slot
// under such a context has its slot, whatever the context says a moment later.
type lateCtx struct {
	context.Context
	done chan struct{}
	once sync.Once
}

func (c *lateCtx) Done() <-chan struct{} { return c.done }
func (c *lateCtx) Err() error {
	c.once.Do(func() { close(c.done) })
	return context.Canceled
}

func statusText(st jrpc2.ServerStatus) string {
	switch {
	case st.Stopped && !st.Closed && st.Err == nil:
		return "stopped"
	case st.Closed && !st.Stopped && st.Err == nil:
		return "closed"
	case st.Err != nil && !st.Stopped && !st.Closed:
		return "err:" + st.Err.Error()
	}
	return fmt.Sprintf("invalid(%+v)", st)
}

// stuckHandler is called when a server cannot be shut down (some goroutine is blocked for good);
// it records the violation, writes the result file and ends the process, because the synctest
// bubble can no longer terminate.
var stuckHandler func(r *srvRun)

func installStuckHandler(t *testing.T, res *Result, what string) {
	stuckHandler = func(r *srvRun) {
		res.Violatef(what, r.replayInput(r.sc), "the server did not shut down: a goroutine is blocked for good; log: %s", shortLog(r.Log))
		res.Write(t)
		os.Exit(0)
	}
}

// scenarioWatchdog guards one scheduled run with a real-time limit (the timer lives outside the
// bubble). A run normally takes milliseconds; one that is still going after 30 s is wedged in a way
// the bubble cannot see - typically a goroutine blocked for good while holding a mutex that the
// others need - and would otherwise only end with the test binary's ten-minute timeout. The process
// exits; the check attributes the failure to the scenario in the .progress file.
func scenarioWatchdog(what string) (stop func()) {
	tm := time.AfterFunc(30*time.Second, func() {
		fmt.Fprintf(os.Stderr, "panic: watchdog: the %s in progress did not finish within 30s of real time (a goroutine is blocked for good, probably holding a mutex)\n", what)
		os.Exit(3)
	})
	return func() { tm.Stop() }
}

// rngPick returns a pickFn drawing from rng.
func rngPick(rng *rand.Rand) func(int) int { return func(n int) int { return rng.Intn(n) } }

// progressSeed is the seed of the picker of the run in progress; it is written to the progress
// file so that a run that kills the process (a panic in a library goroutine) can be replayed.
var progressSeed int64

// seededPick draws a fresh picker seed from rng and remembers it for the progress file.
func seededPick(rng *rand.Rand) func(int) int {
	progressSeed = rng.Int63()
	return rngPick(rand.New(rand.NewSource(progressSeed)))
}

func writeProgress(sc *srvScenario) {
	out := os.Getenv("VERIF_OUT")
	if out == "" {
		return
	}
	b, _ := json.Marshal(map[string]any{"scenario": sc, "pickseed": progressSeed})
	os.WriteFile(out+".progress", b, 0o644)
}

// replayPick replays a recorded choice list (then falls back to 0).
func replayPick(choices []int) func(int) int {
	i := 0
	return func(n int) int {
		if i < len(choices) {
			c := choices[i]
			i++
			if c < n {
				return c
			}
		}
		return 0
	}
}

// ---- request text helpers

func reqCall(id any, tag, outcome string) string {
	idb, _ := json.Marshal(id)
	return fmt.Sprintf(`{"jsonrpc":"2.0","id":%s,"method":"m","params":[%q,%q]}`, idb, tag, outcome)
}
func reqNote(tag, outcome string) string {
	return fmt.Sprintf(`{"jsonrpc":"2.0","method":"m","params":[%q,%q]}`, tag, outcome)
}
func reqBatch(members ...string) string { return "[" + strings.Join(members, ",") + "]" }

// readText returns the text of the k-th record the reader received.
func (r *srvRun) readText(k string) string {
	var i int
	fmt.Sscan(k, &i)
	if i >= 0 && i < len(r.readRecs) {
		return r.readRecs[i]
	}
	return ""
}

// libGoroutines lists goroutines that are executing library code (a frame in package jrpc2 that is
// not a test frame), one line each: the innermost library function.
func libGoroutines() []string {
	buf := make([]byte, 1<<20)
	n := runtime.Stack(buf, true)
	var out []string
	for _, g := range strings.Split(string(buf[:n]), "\n\n") {
		if strings.Contains(g, "libGoroutines") {
			continue // the calling goroutine
		}
		for _, line := range strings.Split(g, "\n") {
			if strings.HasPrefix(line, "github.com/creachadair/jrpc2.") || strings.HasPrefix(line, "github.com/creachadair/jrpc2/") {
				out = append(out, strings.SplitN(line, "(0x", 2)[0])
				break
			}
		}
	}
	return out
}
