package harness

import (
	"bufio"
	"bytes"
	"encoding/hex"
	"encoding/json"
	"fmt"
	"math/rand"
	"os"
	"os/exec"
	"sort"
	"strconv"
	"strings"
	"sync"
	"testing"
)

// ---------------------------------------------------------------------------------------------
// run parameters

func envInt(name string, def int64) int64 {
	if v := os.Getenv(name); v != "" {
		if n, err := strconv.ParseInt(v, 10, 64); err == nil {
			return n
		}
	}
	return def
}

func seed() int64        { return envInt("VERIF_SEED", 1) }
func thorough() bool     { return os.Getenv("VERIF_TIER") == "thorough" }
func newRNG() *rand.Rand { return rand.New(rand.NewSource(seed()*7919 + 17)) }

// pick returns q in quick tier and t in thorough tier.
func pick(q, t int) int {
	if thorough() {
		return t
	}
	return q
}

// ---------------------------------------------------------------------------------------------
// result file

type Disagreement struct {
	What  string `json:"what"`
	Input any    `json:"input"`
	Model string `json:"model"`
	Impl  string `json:"impl"`
}

type Violation struct {
	Signature string `json:"signature"`
	Input     any    `json:"input"`
	Detail    string `json:"detail"`
}

type Result struct {
	mu           sync.Mutex
	Property     string         `json:"property"`
	Evaluations  int            `json:"evaluations"`
	Distinct     int            `json:"distinct_nontrivial"`
	Rule         string         `json:"rule"`
	Samples      []any          `json:"samples"`
	Traces       int            `json:"traces_validated_against_impl"`
	Agreements   int            `json:"model_agreements"`
	Distribution map[string]int `json:"distribution"`
	Exhaustive   bool           `json:"exhaustive,omitempty"`
	Disagree     []Disagreement `json:"disagreements"`
	Violations   []Violation    `json:"violations"`
	seen         map[string]bool
}

func newResult(prop, rule string) *Result {
	return &Result{Property: prop, Rule: rule, Distribution: map[string]int{}, seen: map[string]bool{},
		Disagree: []Disagreement{}, Violations: []Violation{}, Samples: []any{}}
}

// Case records one explored case. key identifies the case for distinctness; nontrivial says
// whether it counts by the property's rule.
func (r *Result) Case(key string, nontrivial bool, sample any) {
	r.mu.Lock()
	defer r.mu.Unlock()
	r.Evaluations++
	if nontrivial && !r.seen[key] {
		r.seen[key] = true
		r.Distinct++
		if len(r.Samples) < 6 || (len(r.Samples) < 12 && r.Distinct%97 == 0) {
			r.Samples = append(r.Samples, sample)
		}
	}
}

func (r *Result) Count(kind string) {
	r.mu.Lock()
	r.Distribution[kind]++
	r.mu.Unlock()
}

func (r *Result) Disagreef(what string, input any, model, impl string) {
	r.mu.Lock()
	defer r.mu.Unlock()
	if len(r.Disagree) < 20 {
		r.Disagree = append(r.Disagree, Disagreement{what, input, model, impl})
	}
}

func (r *Result) Violatef(sig string, input any, format string, args ...any) {
	r.mu.Lock()
	defer r.mu.Unlock()
	for _, v := range r.Violations {
		if v.Signature == sig {
			return
		}
	}
	if len(r.Violations) < 20 {
		r.Violations = append(r.Violations, Violation{sig, input, fmt.Sprintf(format, args...)})
	}
}

func (r *Result) Write(t *testing.T) {
	r.mu.Lock()
	defer r.mu.Unlock()
	out := os.Getenv("VERIF_OUT")
	b, err := json.MarshalIndent(r, "", " ")
	if err != nil {
		t.Fatalf("marshal result: %v", err)
	}
	if out == "" {
		t.Logf("%s: evaluations=%d distinct=%d agreements=%d disagreements=%d violations=%d dist=%v",
			r.Property, r.Evaluations, r.Distinct, r.Agreements, len(r.Disagree), len(r.Violations), r.Distribution)
		for _, d := range r.Disagree {
			t.Logf("DISAGREE %+v", d)
		}
		for _, v := range r.Violations {
			d := v.Detail
			if len(d) > 600 {
				d = d[:600] + "…"
			}
			t.Logf("VIOLATION %s :: %s", v.Signature, d)
		}
		return
	}
	if err := os.WriteFile(out, b, 0o644); err != nil {
		t.Fatalf("write result: %v", err)
	}
}

// replayInput returns the "input" field of the replay file named by VERIF_REPLAY, if any.
func replayInput() (json.RawMessage, bool) {
	p := os.Getenv("VERIF_REPLAY")
	if p == "" {
		return nil, false
	}
	b, err := os.ReadFile(p)
	if err != nil {
		return nil, false
	}
	var body struct {
		Input json.RawMessage `json:"input"`
	}
	if json.Unmarshal(b, &body) != nil || len(body.Input) == 0 {
		return nil, false
	}
	return body.Input, true
}

// ---------------------------------------------------------------------------------------------
// oracle (the compiled Lean model): one line in, one line out, batch mode

func oraclePath() string {
	if p := os.Getenv("VERIF_ORACLE"); p != "" {
		return p
	}
	return "/verif/lean/.lake/build/bin/oracle"
}

func runOracle(t *testing.T, lines []string) []string {
	t.Helper()
	if len(lines) == 0 {
		return nil
	}
	var in bytes.Buffer
	for _, l := range lines {
		if strings.ContainsAny(l, "\n\r") {
			t.Fatalf("oracle line contains newline: %q", l)
		}
		in.WriteString(l)
		in.WriteByte('\n')
	}
	cmd := exec.Command(oraclePath())
	cmd.Stdin = &in
	var out bytes.Buffer
	cmd.Stdout = &out
	cmd.Stderr = os.Stderr
	if err := cmd.Run(); err != nil {
		t.Fatalf("oracle: %v", err)
	}
	var res []string
	sc := bufio.NewScanner(&out)
	sc.Buffer(make([]byte, 1<<20), 1<<28)
	for sc.Scan() {
		res = append(res, sc.Text())
	}
	if len(res) != len(lines) {
		t.Fatalf("oracle answered %d lines for %d inputs", len(res), len(lines))
	}
	return res
}

func hx(b []byte) string {
	if len(b) == 0 {
		return "-"
	}
	return hex.EncodeToString(b)
}
func hxs(s string) string { return hx([]byte(s)) }

func sortedKeys[V any](m map[string]V) []string {
	ks := make([]string, 0, len(m))
	for k := range m {
		ks = append(ks, k)
	}
	sort.Strings(ks)
	return ks
}

// jsonEqual reports whether a and b are equal as JSON values.
func jsonEqual(a, b []byte) bool {
	var x, y any
	da := json.NewDecoder(bytes.NewReader(a))
	da.UseNumber()
	db := json.NewDecoder(bytes.NewReader(b))
	db.UseNumber()
	if da.Decode(&x) != nil || db.Decode(&y) != nil {
		return false
	}
	ba, _ := json.Marshal(x)
	bb, _ := json.Marshal(y)
	return bytes.Equal(ba, bb)
}

func hexDecode(s string) ([]byte, error) {
	if s == "-" {
		return nil, nil
	}
	return hex.DecodeString(s)
}

// runLimited runs cmd with an address-space limit (bytes) and returns its combined output.
func runLimited(cmd *exec.Cmd, limit int64) ([]byte, error) {
	// apply the limit through the shell's ulimit so that a runaway allocation cannot take the harness down
	args := append([]string{cmd.Path}, cmd.Args[1:]...)
	for i, a := range args {
		args[i] = "'" + strings.ReplaceAll(a, "'", `'\''`) + "'"
	}
	sh := exec.Command("/bin/sh", "-c", fmt.Sprintf("ulimit -v %d; exec %s", limit/1024, strings.Join(args, " ")))
	sh.Env = cmd.Env
	return sh.CombinedOutput()
}

func getenv(k string) string { return os.Getenv(k) }

func writeFileQuiet(path string, b []byte) { os.WriteFile(path, b, 0o644) }
