package harness

// vchan: an in-memory channel.Channel pair whose Send never blocks (so a goroutine is never
// parked inside a critical section) and whose Recv blocks durably (so testing/synctest sees
// quiescence). Both ends count entries/exits of Send, Recv and Close to observe the channel
// discipline (C10) and validate every record handed to Send.

import (
	"bytes"
	"encoding/json"
	"errors"
	"fmt"
	"io"
	"runtime"
	"sync"
	"sync/atomic"
)

type half struct {
	mu     sync.Mutex
	q      [][]byte
	closed bool
	wake   chan struct{}
}

func newHalf() *half { return &half{wake: make(chan struct{}, 1)} }

func (h *half) put(b []byte) error {
	h.mu.Lock()
	defer h.mu.Unlock()
	if h.closed {
		return io.ErrClosedPipe
	}
	h.q = append(h.q, b)
	select {
	case h.wake <- struct{}{}:
	default:
	}
	return nil
}

func (h *half) close() {
	h.mu.Lock()
	h.closed = true
	h.mu.Unlock()
	select {
	case h.wake <- struct{}{}:
	default:
	}
}

func (h *half) get() ([]byte, error) {
	for {
		h.mu.Lock()
		if len(h.q) > 0 {
			b := h.q[0]
			h.q = h.q[1:]
			h.mu.Unlock()
			return b, nil
		}
		if h.closed {
			h.mu.Unlock()
			return nil, io.EOF
		}
		h.mu.Unlock()
		<-h.wake
	}
}

// drain returns everything queued without blocking.
func (h *half) drain() [][]byte {
	h.mu.Lock()
	defer h.mu.Unlock()
	q := h.q
	h.q = nil
	return q
}

func (h *half) pending() int {
	h.mu.Lock()
	defer h.mu.Unlock()
	return len(h.q)
}

// chanStats observes how one end is used by the library.
type chanStats struct {
	inSend, inRecv, inClose atomic.Int32
	sends, recvs, closes    atomic.Int32
	mu                      sync.Mutex
	problems                []string
	recvLog                 [][]byte            // what each successful Recv handed to the library
	sendErr                 func(n int32) error // fault injection: error for the n-th Send (1-based)
	recvErr                 func(n int32) ([]byte, error, bool)
	closeUnblocks           bool
}

func (s *chanStats) problem(format string, args ...any) {
	s.mu.Lock()
	if len(s.problems) < 10 {
		s.problems = append(s.problems, fmt.Sprintf(format, args...))
	}
	s.mu.Unlock()
}

func (s *chanStats) Problems() []string {
	s.mu.Lock()
	defer s.mu.Unlock()
	return append([]string(nil), s.problems...)
}

type vend struct {
	in, out *half
	st      *chanStats
	// closeIn: closing this end also ends its own Recv (like a socket); otherwise Recv keeps
	// waiting for the peer (like channel.Direct)
	closeIn bool
	scratch []byte // frame under construction (see Send)
	// onSendFail is told the message whose (injected) Send failure was reported to the library
	onSendFail func([]byte)
	midSend    func(b []byte)
	midClose   func()
}

// validRecord: one complete JSON-RPC message: an object, or a non-empty array of objects.
func validRecord(b []byte) error {
	if !json.Valid(b) {
		return errors.New("not valid JSON")
	}
	t := bytes.TrimSpace(b)
	if len(t) == 0 {
		return errors.New("empty record")
	}
	switch t[0] {
	case '{':
		return nil
	case '[':
		var arr []json.RawMessage
		if err := json.Unmarshal(t, &arr); err != nil {
			return err
		}
		if len(arr) == 0 {
			return errors.New("empty array")
		}
		for _, e := range arr {
			if fb := bytes.TrimSpace(e); len(fb) == 0 || fb[0] != '{' {
				return errors.New("array member is not an object")
			}
		}
		return nil
	}
	return errors.New("neither object nor array")
}

func (e *vend) Send(b []byte) error {
	n := e.st.sends.Add(1)
	if c := e.st.inSend.Add(1); c > 1 {
		e.st.problem("two Send calls in progress at once")
	}
	if e.st.inClose.Load() > 0 {
		e.st.problem("Send overlaps Close")
	}
	defer e.st.inSend.Add(-1)
	if err := validRecord(b); err != nil {
		e.st.problem("record passed to Send is not one complete JSON-RPC message (%v): %.200q", err, b)
	}
	// like the header framings, assemble the frame in a scratch buffer owned by the channel: the
	// contract allows it because Send calls are serialised by the caller. An unserialised second
	// Send then overwrites what the first is about to transmit.
	e.st.mu.Lock()
	e.scratch = append(e.scratch[:0], b...)
	e.st.mu.Unlock()
	// give other runnable goroutines a chance to expose an unserialised Send / Close
	runtime.Gosched()
	runtime.Gosched()
	if e.midSend != nil {
		e.midSend(b) // a scheduling point inside the transport write (see srvRun.sendPark)
	}
	if e.st.sendErr != nil {
		if err := e.st.sendErr(n); err != nil {
			if e.onSendFail != nil {
				e.onSendFail(b)
			}
			return err
		}
	}
	e.st.mu.Lock()
	frame := append([]byte(nil), e.scratch...)
	e.st.mu.Unlock()
	return e.out.put(frame)
}

func (e *vend) Recv() ([]byte, error) {
	n := e.st.recvs.Add(1)
	if c := e.st.inRecv.Add(1); c > 1 {
		e.st.problem("two Recv calls in progress at once")
	}
	defer e.st.inRecv.Add(-1)
	if e.st.recvErr != nil {
		if b, err, ok := e.st.recvErr(n); ok {
			if len(b) != 0 {
				e.st.mu.Lock()
				e.st.recvLog = append(e.st.recvLog, b)
				e.st.mu.Unlock()
			}
			return b, err
		}
	}
	b, err := e.in.get()
	if err == nil {
		e.st.mu.Lock()
		e.st.recvLog = append(e.st.recvLog, b)
		e.st.mu.Unlock()
	}
	return b, err
}

func (e *vend) Close() error {
	e.st.closes.Add(1)
	if c := e.st.inClose.Add(1); c > 1 {
		e.st.problem("two Close calls in progress at once")
	}
	if e.st.inSend.Load() > 0 {
		e.st.problem("Close overlaps Send")
	}
	defer e.st.inClose.Add(-1)
	runtime.Gosched()
	if e.midClose != nil {
		e.midClose() // a scheduling point inside Close when it is not serialised by the owner's mutex
	}
	e.out.close()
	if e.closeIn {
		e.in.close()
	}
	return nil
}

// newVPair returns the two ends (a, b) of an in-memory connection.
func newVPair() (*vend, *vend) {
	x, y := newHalf(), newHalf()
	a := &vend{in: x, out: y, st: &chanStats{}, closeIn: true}
	b := &vend{in: y, out: x, st: &chanStats{}, closeIn: true}
	return a, b
}
