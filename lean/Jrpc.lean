import Jrpc.Audit
import Jrpc.Props.C14
