import Lean
/-! `#audit_ns NS` lists every theorem whose name has prefix `NS`, with the axioms it depends on.
Used by `/verif/check` to count proof obligations and to audit their axioms. -/
open Lean Elab Command in
elab "#audit_ns " ns:ident : command => do
  let env ← getEnv
  let nsn := ns.getId
  let mut names : Array Name := #[]
  for (n, ci) in env.constants.toList do
    if nsn.isPrefixOf n && !n.isInternalDetail then
      match ci with
      | .thmInfo _ => names := names.push n
      | _ => pure ()
  let sorted := names.qsort (fun a b => a.toString < b.toString)
  for n in sorted do
    let axs ← Lean.collectAxioms n
    let axl := axs.toList.map (·.toString)
    IO.println s!"AUDIT {n} {axl}"
