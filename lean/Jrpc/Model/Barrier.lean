/-!
# Queue + notification barrier of the server (property C03)

Event machine for `read` (enqueue), the single dispatcher (`nextRequest` → pop,
`waitForBarrier` → wait for `nbar = 0`, then `Add`), the per-batch goroutines (handler start /
finish, `nbar.Done` after a notification's handler has returned) and `stopLocked` (queued calls
dropped, queued notifications kept as singleton batches).  One event is one critical section or
one completed blocking primitive; `pop`, `pass` and `signal` are internal, the others are
observed by the harness.
-/
namespace Jrpc.Barrier

structure Mem where
  uid : Nat          -- identifies the request
  note : Bool        -- notification?
  seq : Nat          -- index of the inbound message it arrived in
  deriving DecidableEq, Repr

structure St where
  nextSeq : Nat := 0
  queue : List (List Mem) := []      -- batches read, not yet popped (FIFO)
  parked : Option (List Mem) := none -- popped batch waiting at the barrier
  nbar : Nat := 0                    -- the WaitGroup counter
  released : List Mem := []          -- past the barrier, handler not started
  running : List Mem := []           -- handler executing
  finished : List Mem := []          -- notification handler returned, `Done` not yet called
  done : List Mem := []              -- completely finished
  notes : List Mem := []             -- history: every notification that was enqueued
  deriving DecidableEq, Repr

inductive Ev where
  | arrive (ms : List (Nat × Bool))  -- reader enqueues a batch (uid, note?) of runnable members
  | pop                              -- dispatcher takes the head of the queue
  | pass                             -- barrier wait returns (nbar = 0), then Add(notes)
  | start (uid : Nat)                -- handler invoked
  | finish (uid : Nat)               -- handler returned
  | signal (uid : Nat)               -- nbar.Done for a finished notification
  | stop                             -- stopLocked
  deriving DecidableEq, Repr

def countNotes (ms : List Mem) : Nat := (ms.filter (·.note)).length

def step (s : St) : Ev → Option St
  | .arrive ms =>
    let b := ms.map fun (u, n) => (⟨u, n, s.nextSeq⟩ : Mem)
    some { s with nextSeq := s.nextSeq + 1, queue := s.queue ++ [b], notes := s.notes ++ b.filter (·.note) }
  | .pop =>
    match s.parked, s.queue with
    | none, b :: q => some { s with parked := some b, queue := q }
    | _, _ => none
  | .pass =>
    match s.parked with
    | some b => if s.nbar = 0 then
        some { s with parked := none, nbar := countNotes b, released := s.released ++ b } else none
    | none => none
  | .start u =>
    match s.released.find? (·.uid = u) with
    | some m => some { s with released := s.released.erase m, running := m :: s.running }
    | none => none
  | .finish u =>
    match s.running.find? (·.uid = u) with
    | some m =>
      if m.note then some { s with running := s.running.erase m, finished := m :: s.finished }
      else some { s with running := s.running.erase m, done := m :: s.done }
    | none => none
  | .signal u =>
    match s.finished.find? (·.uid = u) with
    | some m => some { s with finished := s.finished.erase m, nbar := s.nbar - 1, done := m :: s.done }
    | none => none
  | .stop =>
    some { s with queue := (s.queue.flatten.filter (·.note)).map fun m => [m] }

def run (s : St) : List Ev → Option St
  | [] => some s
  | e :: es => (step s e).bind (run · es)

def init : St := {}

/-! ### trace acceptance with internal steps (used by the correspondence check)

The harness observes `arrive`, `start`, `finish`, `stop`; `pop`, `pass`, `signal` are internal.
`accepts` decides whether an observed trace is a trace of the machine, by exploring the internal
steps breadth-first (the state sets stay tiny). -/

def internalSteps (s : St) : List St :=
  ([Ev.pop, Ev.pass] ++ s.finished.map (fun m => Ev.signal m.uid)).filterMap (step s)

def closure : Nat → List St → List St
  | 0, ss => ss
  | fuel + 1, ss =>
    let new := (ss.flatMap internalSteps).filter (fun t => !ss.contains t)
    if new.isEmpty then ss else closure fuel (ss ++ new.eraseDups)

def isInternal : Ev → Bool
  | .pop | .pass | .signal _ => true
  | _ => false

/-- states reachable after the observed trace; empty = the trace is not one of the machine -/
def after (ss : List St) : List Ev → List St
  | [] => ss
  | e :: es => after (closure 64 ((closure 64 ss).filterMap (step · e))) es

def accepts (tr : List Ev) : Bool := !(after [init] tr).isEmpty

end Jrpc.Barrier
