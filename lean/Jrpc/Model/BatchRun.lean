/-!
# Life of one inbound message inside the server (property C01, concurrent half)

The per-batch goroutine created by `serve`: each runnable member's handler is invoked once
(possibly concurrently), `wg.Wait` waits for all of them, then `deliver` builds and sends the
reply once.  What the reply contains is the pure function `Jrpc.Wire.serve` (C02).
-/
namespace Jrpc.BatchRun

inductive Status | pending | running | done
  deriving DecidableEq, Repr

structure St where
  members : List (Nat × Status)     -- runnable members (uid, status)
  delivered : Nat := 0              -- how many times the reply was handed to `deliver`
  starts : List Nat := []           -- history of handler invocations
  deriving DecidableEq, Repr

inductive Ev | start (u : Nat) | finish (u : Nat) | deliver
  deriving DecidableEq, Repr

def setStatus (u : Nat) (st : Status) : List (Nat × Status) → List (Nat × Status)
  | [] => []
  | (v, s) :: r => if v = u then (v, st) :: r else (v, s) :: setStatus u st r

def statusOf (u : Nat) : List (Nat × Status) → Option Status
  | [] => none
  | (v, s) :: r => if v = u then some s else statusOf u r

def allDone (ms : List (Nat × Status)) : Bool := ms.all fun p => p.2 == .done

def step (s : St) : Ev → Option St
  | .start u => if statusOf u s.members = some .pending then
      some { s with members := setStatus u .running s.members, starts := u :: s.starts } else none
  | .finish u => if statusOf u s.members = some .running then
      some { s with members := setStatus u .done s.members } else none
  | .deliver => if allDone s.members && s.delivered == 0 then some { s with delivered := 1 } else none

def run (s : St) : List Ev → Option St
  | [] => some s
  | e :: es => (step s e).bind (run · es)

def init (uids : List Nat) : St := { members := uids.map fun u => (u, .pending) }

/-- events that are enabled in a state -/
def enabled (s : St) : List Ev :=
  (s.members.filterMap fun p => match p.2 with
    | .pending => some (Ev.start p.1) | .running => some (Ev.finish p.1) | .done => none) ++
  (if allDone s.members && s.delivered == 0 then [Ev.deliver] else [])

end Jrpc.BatchRun
