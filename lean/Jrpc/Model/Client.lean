/-!
# Client request/reply matching and completion (properties C04, C05)

Model of `Client.req` (id counter), `send` (register pending entries under the lock that covers the
transmit; nothing is registered when the client has stopped or the Send fails), the per-message
delivery goroutine (`deliverLocked` per member: unknown ids and duplicates are discarded),
`waitComplete` (the context watcher), `stopLocked` (Close / failed Recv: every pending request's
context is cancelled, so its watcher completes it) and the caller's `wait`.
The peer is arbitrary: any stream of members with any ids.
-/
namespace Jrpc.Client

inductive Res where
  | reply (payload : Nat)    -- the member the peer sent for this id
  | ctxErr                   -- the request's context ended first (cancel / deadline)
  | stopErr                  -- the client was closed or its channel failed first
  deriving DecidableEq, Repr

structure St where
  stopped : Bool := false
  nextId : Nat := 1
  allocated : List Nat := []         -- ids handed out by `req`, not yet sent
  pending : List Nat := []           -- ids awaiting a reply
  slots : List (Nat × Res) := []     -- what was written into each request's slot
  transmitted : List (List Nat) := [] -- batches actually sent (their call ids), newest first
  failedSends : Nat := 0
  onCancel : List Nat := []          -- ids for which the OnCancel hook was scheduled
  stopCauses : List Nat := []        -- causes recorded by stopLocked (only the first is kept)
  deriving DecidableEq, Repr

inductive Ev where
  | alloc                            -- `req`: take the next id (under the lock)
  | send (ids : List Nat) (sendOk : Bool)  -- `send` of the call entries with these ids; does the channel Send succeed?
  | deliver (id : Nat) (payload : Nat)  -- one member of an inbound message bearing `id`
  | ctxDone (id : Nat)               -- the watcher of request `id` wakes because its context ended
  | stop (cause : Nat)               -- Close, peer EOF, Recv error
  deriving DecidableEq, Repr

/-- `n` consecutive ids starting at `k` -/
def idsFrom (k : Nat) : Nat → List Nat
  | 0 => []
  | n + 1 => k :: idsFrom (k + 1) n

def step (s : St) : Ev → St
  | .alloc => { s with nextId := s.nextId + 1, allocated := s.nextId :: s.allocated }
  | .send ids ok =>
    -- only ids handed out by `req` and not used before can be sent, each once
    if !(ids.all (· ∈ s.allocated) && ids.Nodup) then s
    else
      let s1 := { s with allocated := s.allocated.filter (· ∉ ids) }
      if s.stopped then s1                                   -- fails immediately, nothing transmitted
      else if !ok then { s1 with failedSends := s.failedSends + 1 }   -- Send failed: nothing registered
      else { s1 with pending := ids ++ s.pending, transmitted := ids :: s.transmitted }
  | .deliver id p =>
    if id ∈ s.pending then { s with pending := s.pending.erase id, slots := (id, .reply p) :: s.slots }
    else s                                                 -- unknown id / duplicate: discarded
  | .ctxDone id =>
    if id ∈ s.pending then
      { s with pending := s.pending.erase id, onCancel := id :: s.onCancel,
               slots := (id, if s.stopped then .stopErr else .ctxErr) :: s.slots }
    else s                                                 -- already answered: too late, a no-op
  | .stop c =>
    if s.stopped then s else { s with stopped := true, stopCauses := [c] }

def run (s : St) : List Ev → St
  | [] => s
  | e :: es => run (step s e) es

def result (s : St) (id : Nat) : Option Res := (s.slots.find? (·.1 = id)).map (·.2)

/-- `Batch` returns its responses in spec order, notifications omitted: the ids of a batch of
specs are allocated in spec order and the result slice is built in that order -/
def batchIds (start : Nat) (notify : List Bool) : List Nat :=
  idsFrom start (notify.filter (!·)).length

end Jrpc.Client
