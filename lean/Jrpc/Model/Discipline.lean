/-!
# Channel discipline (property C10)

A machine-independent argument: goroutines `g` take and release one mutex and begin / end `Send`,
`Close` and `Recv` operations on a channel.  The library's use of the channel is constrained by
three facts that are re-derived from the source on every run (`Jrpc.Gen.Facts`, `Jrpc.Tie.C10`):
every `Send` and `Close` call site lies inside a critical section of the owner's mutex, and the
mutex is not released while the call is in progress; `Recv` is called only by the single reader
goroutine, sequentially.  Those facts are the guards of `step`; the theorem is that then no two
sends, no send and close, and no two receives are ever in progress together.
-/
namespace Jrpc.Discipline

inductive Op | send | close
  deriving DecidableEq, Repr

inductive Ev where
  | lock (g : Nat) | unlock (g : Nat)
  | opBegin (g : Nat) (o : Op) | opEnd (g : Nat) (o : Op)
  | recvBegin (g : Nat) | recvEnd (g : Nat)
  deriving DecidableEq, Repr

structure St where
  reader : Nat                      -- the one goroutine started to receive
  holder : Option Nat := none       -- who holds the mutex
  inOp : List (Nat × Op) := []      -- Send / Close calls in progress
  inRecv : List Nat := []           -- Recv calls in progress
  deriving DecidableEq, Repr

def step (s : St) : Ev → Option St
  | .lock g => if s.holder = none then some { s with holder := some g } else none
  | .unlock g =>
    -- the mutex is not released in the middle of a Send / Close (lock-domination of the call site)
    if s.holder = some g ∧ s.inOp.all (fun p => p.1 ≠ g) then some { s with holder := none } else none
  | .opBegin g o =>
    -- every Send / Close site is inside a critical section
    if s.holder = some g ∧ s.inOp.all (fun p => p.1 ≠ g) then some { s with inOp := (g, o) :: s.inOp } else none
  | .opEnd g o => if (g, o) ∈ s.inOp then some { s with inOp := s.inOp.erase (g, o) } else none
  | .recvBegin g =>
    -- only the reader goroutine receives, one call at a time
    if g = s.reader ∧ g ∉ s.inRecv then some { s with inRecv := g :: s.inRecv } else none
  | .recvEnd g => if g ∈ s.inRecv then some { s with inRecv := s.inRecv.erase g } else none

def run (s : St) : List Ev → Option St
  | [] => some s
  | e :: es => (step s e).bind (run · es)

end Jrpc.Discipline
