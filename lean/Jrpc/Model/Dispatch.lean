/-!
# Method dispatch (property C17)

Model of `handler.Map.Assign`, `handler.ServiceMap.Assign`, the `Names` methods, and the
reserved-prefix gate of `Server.assignLocked`.  Method names are byte strings.  An assigner is a
function from names to optional handlers, so nesting of service maps is just composition.
-/
namespace Jrpc.Dispatch

abbrev Name := List UInt8
abbrev Assigner (H : Type) := Name → Option H

def dot : UInt8 := 46

/-- `strings.SplitN(method, ".", 2)`: `none` when there is no dot (one part), else the text before
the first dot and everything after it. -/
def splitFirstDot : Name → Option (Name × Name)
  | [] => none
  | b :: r =>
    if b = dot then some ([], r)
    else match splitFirstDot r with
      | none => none
      | some (s, rest) => some (b :: s, rest)

/-- Go map lookup on a key list without duplicates. -/
def lookup {V : Type} (k : Name) : List (Name × V) → Option V
  | [] => none
  | (k', v) :: r => if k' = k then some v else lookup k r

/-- `Map.Assign`: the whole name is the key. -/
def mapAssign {H : Type} (entries : List (Name × H)) : Assigner H := fun m => lookup m entries

/-- `ServiceMap.Assign`. -/
def svcAssign {H : Type} (entries : List (Name × Assigner H)) : Assigner H := fun m =>
  match splitFirstDot m with
  | none => none
  | some (s, rest) =>
    match lookup s entries with
    | none => none
    | some a => a rest

/-- `strings.HasPrefix`. -/
def hasPrefix : Name → Name → Bool
  | [], _ => true
  | _ :: _, [] => false
  | p :: ps, b :: bs => p == b && hasPrefix ps bs

def reservedPrefix : Name := [114, 112, 99, 46]           -- "rpc."
def rpcServerInfo : Name := [114, 112, 99, 46, 115, 101, 114, 118, 101, 114, 73, 110, 102, 111]

/-- Result of `assignLocked`. -/
inductive Assigned (H : Type) where
  | builtinInfo            -- the rpc.serverInfo built-in
  | notFound               -- nil handler: the server answers −32601 (calls) / stays silent (notifications)
  | user (h : H)
  deriving Repr, DecidableEq

/-- `Server.assignLocked`. -/
def serverAssign {H : Type} (builtin : Bool) (mux : Assigner H) (name : Name) : Assigned H :=
  if builtin && hasPrefix reservedPrefix name then
    if name = rpcServerInfo then .builtinInfo else .notFound
  else
    match mux name with
    | some h => .user h
    | none => .notFound

/-! ## Names -/

/-- bytewise lexicographic `≤` (Go string comparison) -/
def bytesLe : Name → Name → Bool
  | [], _ => true
  | _ :: _, [] => false
  | a :: as, b :: bs => if a < b then true else if b < a then false else bytesLe as bs

/-- `sort.Strings`. -/
def sortNames (l : List Name) : List Name := l.mergeSort bytesLe

/-- `Map.Names`. -/
def mapNames {H : Type} (entries : List (Name × H)) : List Name := sortNames (entries.map (·.1))

/-- `ServiceMap.Names`: a service whose assigner is a `Namer` contributes `svc.name` for each of
its names; any other contributes `svc.*`.  (The Go map iteration order is irrelevant: the result
is sorted at the end.) -/
def svcNames (entries : List (Name × Option (List Name))) : List Name :=
  sortNames (entries.flatMap fun (svc, ns) =>
    match ns with
    | none => [svc ++ [dot, 42]]
    | some ns => ns.map fun n => svc ++ [dot] ++ n)

end Jrpc.Dispatch
