/-!
# Error classification and transport (property C14)

Model of `code.go` (`ErrorCode`, `Code.Err`), the error branch of `tasks.responses` in
`server.go`, the `Error` JSON object, and the client side (`Response.wait`, `filterError`,
`Client.Call`).  Go `error` values are trees built from the constructors users have.
-/
namespace Jrpc.Errors

/-- `jrpc2.Code` (an `int32`; no arithmetic is ever done on codes, so `Int` is faithful). -/
abbrev Code := Int

def ParseError : Code := -32700
def InvalidRequest : Code := -32600
def MethodNotFound : Code := -32601
def InvalidParams : Code := -32602
def InternalError : Code := -32603
def NoError : Code := -32099
def SystemError : Code := -32098
def Cancelled : Code := -32097
def DeadlineExceeded : Code := -32096

/-- Go error values: `*jrpc2.Error`, any other `ErrCoder` (e.g. `Code.Err()`), the two context
sentinels, a plain error, `fmt.Errorf("…%w", inner)` and `errors.Join(a, b)` (n-ary joins are
nested binary joins: `errors.As`/`errors.Is` traverse both in the same pre-order). -/
inductive Err where
  | jerr (code : Code) (msg : String) (data : Option String)
  | coder (code : Code) (msg : String)
  | canceled
  | deadline
  | plain (msg : String)
  | wrap (msg : String) (inner : Err)
  | join (a b : Err)
  deriving Repr, DecidableEq

/-- `errors.As(err, &ErrCoder)`: first node in pre-order that implements `ErrCoder`. -/
def firstCoder : Err → Option Code
  | .jerr c _ _ => some c
  | .coder c _ => some c
  | .canceled => none
  | .deadline => none
  | .plain _ => none
  | .wrap _ i => firstCoder i
  | .join a b => (firstCoder a).orElse fun _ => firstCoder b

/-- `errors.Is(err, context.Canceled)`. -/
def hasCanceled : Err → Bool
  | .canceled => true
  | .wrap _ i => hasCanceled i
  | .join a b => hasCanceled a || hasCanceled b
  | _ => false

/-- `errors.Is(err, context.DeadlineExceeded)`. -/
def hasDeadline : Err → Bool
  | .deadline => true
  | .wrap _ i => hasDeadline i
  | .join a b => hasDeadline a || hasDeadline b
  | _ => false

/-- `jrpc2.ErrorCode`. -/
def errorCode : Option Err → Code
  | none => NoError
  | some e =>
    match firstCoder e with
    | some c => c
    | none =>
      if hasCanceled e then Cancelled
      else if hasDeadline e then DeadlineExceeded
      else SystemError

/-- `Code.Err`. -/
def codeErr (c : Code) : Option Err :=
  if c = NoError then none else some (.coder c "")

/-- `err.Error()` text (only its identity matters: it becomes the wire message). -/
def errText : Err → String
  | .jerr c m _ => s!"[{c}] {m}"
  | .coder c _ => s!"error code {c}"
  | .canceled => "context canceled"
  | .deadline => "context deadline exceeded"
  | .plain m => m
  | .wrap m _ => m
  | .join a b => errText a ++ "\n" ++ errText b

/-- The JSON-RPC error object as it travels on the wire. -/
structure WireErr where
  code : Code
  msg : String
  data : Option String
  deriving Repr, DecidableEq

/-- What a handler hands back to the server. -/
inductive Outcome where
  | ok (resultJSON : String)        -- result marshalled successfully
  | unmarshalable (why : String)    -- `json.Marshal(result)` failed
  | fail (e : Err)
  deriving Repr

/-- A response member: exactly one of result / error. -/
inductive Reply where
  | result (json : String)
  | error (w : WireErr)
  deriving Repr, DecidableEq

/-- Error branch of `tasks.responses`. -/
def toWire (e : Err) : WireErr :=
  match e with
  | .jerr c m d => ⟨c, m, d⟩                       -- `task.err.(*Error)`
  | e =>
    let c := errorCode (some e)
    if c ≠ NoError then ⟨c, errText e, none⟩
    else ⟨InternalError, errText e, none⟩

/-- `invoke` + `tasks.responses` for a call. -/
def serverReply : Outcome → Reply
  | .ok r => .result r
  | .unmarshalable why => .error (toWire (.plain why))
  | .fail e => .error (toWire e)

/-- `Response.wait` + `filterError` in `Client.Call`: what the caller receives. -/
def fromWire (w : WireErr) : Err :=
  if w.code = Cancelled then .canceled
  else if w.code = DeadlineExceeded then .deadline
  else .jerr w.code w.msg w.data

/-- `(*Error).WithData`: `v = none` is a nil value; `some none` a value that fails to marshal;
`some (some j)` marshals to `j`.  Returns the result; the receiver is the (immutable) argument. -/
def withData (e : WireErr) (v : Option (Option String)) : WireErr :=
  match v with
  | none => e
  | some none => e
  | some (some j) => ⟨e.code, e.msg, some j⟩

end Jrpc.Errors
