import Jrpc.Model.Json
/-!
# Message framings (properties C11, C12)

Models of `channel/split.go`, `channel/hdr.go`, `channel/json.go` as total functions from the
remaining byte stream to a result and the rest of the stream.  How the transport fragments the
stream is invisible at this level by the contracts of `bufio.Reader` (`ReadSlice`, `ReadString`),
`io.ReadFull`, `io.CopyN` and `json.Decoder`, which deliver bytes by count / delimiter whatever the
underlying reads return; those contracts are the trusted part and are exercised by the
chunk-controlled correspondence run.
-/
namespace Jrpc.Framing
open Jrpc.Json (Bytes)

inductive RErr | eof | unexpectedEOF | invalidHeaderLine | missingLength | invalidLength | syntax
  deriving DecidableEq, Repr

inductive Res
  | ok (data : Bytes)                       -- a record, nil error
  | okErr (data : Bytes) (e : RErr)         -- data returned together with an error
  | mismatch (data : Bytes) (got : Bytes)    -- record + *ContentTypeMismatchError
  | err (e : RErr)
  deriving DecidableEq, Repr

/-! ## Split (Line = Split '\n') -/

/-- `split.Send`: refuses (writing nothing) a record containing the split byte -/
def splitSend (d : UInt8) (msg : Bytes) : Option Bytes :=
  if d ∈ msg then none else some (msg ++ [d])

/-- bytes before the first `d`, and what follows it (`none` if there is no `d`) -/
def cutAt (d : UInt8) : Bytes → Bytes × Option Bytes
  | [] => ([], none)
  | b :: r => if b = d then ([], some r) else
    let (x, y) := cutAt d r
    (b :: x, y)

/-- `split.Recv` -/
def splitRecv (d : UInt8) (s : Bytes) : Res × Bytes :=
  match cutAt d s with
  | (r, some rest) => (.ok r, rest)
  | ([], none) => (.err .eof, [])
  | (r, none) => (.okErr r .eof, [])

/-- the loop of `split.Recv` over the pieces `ReadSlice` hands out when a line exceeds its buffer:
all pieces but the last come with `ErrBufferFull`; the accumulated line is their concatenation -/
def splitAccumulate (pieces : List Bytes) (last : Bytes) : Bytes := pieces.foldl (· ++ ·) [] ++ last

/-! ## Header framings -/

structure HdrCfg where
  mtype : Bytes       -- expected / sent mime type ("" = none)
  optional : Bool     -- Header / LSP: a missing Content-Type is not an error
  deriving Repr

/-- decimal digits of `n`, least significant first; `fuel` bounds the number of digits -/
def revDigits : Nat → Nat → Bytes
  | 0, _ => []
  | fuel + 1, n => (48 + n % 10).toUInt8 :: (if n / 10 = 0 then [] else revDigits fuel (n / 10))

/-- `strconv.Itoa` for a non-negative number -/
def itoa (n : Nat) : Bytes := (revDigits (n + 1) n).reverse

def str (s : String) : Bytes := s.toUTF8.toList

def contentLengthLit : Bytes := [67, 111, 110, 116, 101, 110, 116, 45, 76, 101, 110, 103, 116, 104, 58, 32]  -- "Content-Length: "
def contentTypeLit : Bytes := [67, 111, 110, 116, 101, 110, 116, 45, 84, 121, 112, 101, 58, 32]              -- "Content-Type: "
def crlf : Bytes := [13, 10]

/-- `hdr.Send` -/
def hdrSend (cfg : HdrCfg) (msg : Bytes) : Bytes :=
  (if cfg.mtype = [] then [] else contentTypeLit ++ cfg.mtype ++ crlf) ++
  contentLengthLit ++ itoa msg.length ++ crlf ++ crlf ++ msg

/-- `ReadString('\n')`: the line including its newline, the rest, and whether a newline was found -/
def readLine : Bytes → Bytes × Bytes × Bool
  | [] => ([], [], false)
  | b :: r => if b = 10 then ([10], r, true) else
    let (l, rest, f) := readLine r
    (b :: l, rest, f)

/-- `strings.TrimRight(raw, "\r\n")` -/
def trimCRLF (l : Bytes) : Bytes := (l.reverse.dropWhile (fun c => c == 13 || c == 10)).reverse

/-- `strings.SplitN(line, ":", 2)` -/
def splitColon : Bytes → Option (Bytes × Bytes)
  | [] => none
  | b :: r => if b = 58 then some ([], r) else (splitColon r).map fun (k, v) => (b :: k, v)

def lowerByte (c : UInt8) : UInt8 := if 65 ≤ c && c ≤ 90 then c + 32 else c
/-- `strings.ToLower` on ASCII (bytes ≥ 0x80 unchanged; no non-ASCII rune lowers into the two
field names, which contain neither `i` nor `k`) -/
def toLower (bs : Bytes) : Bytes := bs.map lowerByte

def fieldType : Bytes := [99, 111, 110, 116, 101, 110, 116, 45, 116, 121, 112, 101]            -- "content-type"
def fieldLength : Bytes := [99, 111, 110, 116, 101, 110, 116, 45, 108, 101, 110, 103, 116, 104] -- "content-length"

/-- header loop of `hdr.Recv`; `fuel` bounds the number of lines (each consumes ≥ 1 byte) -/
def hdrLoop : Nat → Bytes → Bytes → Bytes → Except RErr (Bytes × Bytes × Bytes)
  | 0, _, _, _ => .error .eof
  | fuel + 1, s, ctype, clen =>
    let (raw, rest, found) := readLine s
    if !found && raw = [] then .error .eof           -- EOF with nothing read
    else
      let line := trimCRLF raw
      if line = [] then .ok (ctype, clen, rest)
      else match splitColon line with
        | none => .error .invalidHeaderLine
        | some (k, v) =>
          let clean := Jrpc.Json.trimSpace v
          let k' := toLower k
          if k' = fieldType then hdrLoop fuel rest clean clen
          else if k' = fieldLength then hdrLoop fuel rest ctype clean
          else hdrLoop fuel rest ctype clen

def digitsVal : Bytes → Nat → Option Nat
  | [], acc => some acc
  | c :: r, acc => if Jrpc.Json.isDigit c then digitsVal r (acc * 10 + (c - 48).toNat) else none

/-- optional leading sign -/
def signSplit : Bytes → Bool × Bytes
  | 43 :: r => (false, r)
  | 45 :: r => (true, r)
  | r => (false, r)

/-- `strconv.Atoi` (64-bit int): optional sign, at least one digit, decimal only, in range -/
def atoi (bs : Bytes) : Option Int :=
  let p := signSplit bs
  if p.2 = [] then none else
  match digitsVal p.2 0 with
  | none => none
  | some n =>
    if p.1 then (if n ≤ 9223372036854775808 then some (-(n : Int)) else none)
    else (if n ≤ 9223372036854775807 then some (n : Int) else none)

def maxPrealloc : Nat := 1048576

/-- body read: `io.ReadFull` into a buffer for sizes up to `maxPrealloc`, `io.CopyN` above -/
def hdrBody (size : Nat) (rest : Bytes) : Except RErr Bytes × Bytes :=
  if size ≤ rest.length then (.ok (rest.take size), rest.drop size)
  else if size > maxPrealloc then (.error .unexpectedEOF, [])
  else if rest = [] then (.error .eof, [])
  else (.error .unexpectedEOF, [])

/-- `hdr.Recv` / `opthdr.Recv` -/
def hdrRecv (cfg : HdrCfg) (s : Bytes) : Res × Bytes :=
  match hdrLoop (s.length + 1) s [] [] with
  | .error e => (.err e, [])     -- placeholder rest, refined by `hdrRest`
  | .ok (ctype, clen, rest) =>
    if clen = [] then (.err .missingLength, rest)
    else match atoi clen with
      | none => (.err .invalidLength, rest)
      | some n =>
        if n < 0 then (.err .invalidLength, rest)
        else match hdrBody n.toNat rest with
          | (.error e, rest') => (.err e, rest')
          | (.ok data, rest') =>
            if ctype = cfg.mtype then (.ok data, rest')
            else if cfg.optional && ctype = [] then (.ok data, rest')
            else (.mismatch data ctype, rest')

/-- stream position after a header-loop failure: everything up to and including the offending
line has been consumed -/
def hdrLoopRest : Nat → Bytes → Bytes
  | 0, _ => []
  | fuel + 1, s =>
    let (raw, rest, found) := readLine s
    if !found && raw = [] then []
    else
      let line := trimCRLF raw
      if line = [] then rest
      else match splitColon line with
        | none => rest
        | some _ => hdrLoopRest fuel rest

/-- `hdr.Recv` with the exact stream position after every outcome -/
def hdrRecv' (cfg : HdrCfg) (s : Bytes) : Res × Bytes :=
  match hdrRecv cfg s with
  | (.err .invalidHeaderLine, _) => (.err .invalidHeaderLine, hdrLoopRest (s.length + 1) s)
  | (.err .eof, r) => (.err .eof, r)
  | x => x

/-- receive-buffer policy of `hdr.Recv` (sizes ≤ maxPrealloc): reallocate? and how much -/
def hdrRealloc (dl size : Int) : Bool := decide (dl < size) || (decide (dl > 1048576) && decide (size < dl / 4))
def hdrIncremental (size : Int) : Bool := decide (size > 1048576)
/-- size of the up-front allocation made for a declared length -/
def hdrAlloc (dl size : Nat) : Nat :=
  if hdrIncremental size then 0 else if hdrRealloc dl size then size * 2 else 0

/-! ## Raw JSON -/

def numFinal (q : Jrpc.Json.Q) : Bool :=
  match q with | .num0 | .num1 | .dot0 | .e0 => true | _ => false
def numState (q : Jrpc.Json.Q) : Bool :=
  match q with | .neg | .num0 | .num1 | .dot | .dot0 | .e | .eSign | .e0 => true | _ => false

/-- `json.Decoder.readValue` + RawMessage extraction: `cur` holds the value's bytes so far
(reversed), `started` whether its first byte was seen -/
def rawScan (s : Jrpc.Json.S) (cur : Bytes) (started : Bool) : Bytes → Res × Bytes
  | [] =>
    if !started then (.err .eof, [])
    else if Jrpc.Json.atEnd s then (.ok cur.reverse, [])
    else (.err .unexpectedEOF, [])
  | b :: r =>
    if started && s.st = [] && s.q = .endValue then (.ok cur.reverse, b :: r)   -- string / literal ended
    else if started && s.st = [] && numFinal s.q &&
        !(match Jrpc.Json.step s b with | some s' => numState s'.q && s'.st = [] | none => false) then
      (.ok cur.reverse, b :: r)                                                  -- number ended
    else match Jrpc.Json.step s b with
      | none => (.err .syntax, [])
      | some s' =>
        if !started && Jrpc.Json.isSpace b then rawScan s' cur false r
        else if s'.q = .endTop && s'.st = [] && s.st ≠ [] then (.ok (b :: cur).reverse, r)  -- container closed
        else rawScan s' (b :: cur) true r

def isNull (bs : Bytes) : Bool := bs = [110, 117, 108, 108]

/-- `jsonc.Recv` on a fresh (non-failed) decoder; `null` becomes the empty record -/
def rawRecv (s : Bytes) : Res × Bytes :=
  match rawScan Jrpc.Json.start [] false s with
  | (.ok d, rest) => if isNull d then (.ok [], rest) else (.ok d, rest)
  | x => x

/-- `jsonc.Send` -/
def rawSend (msg : Bytes) : Bytes :=
  if msg = [] || isNull msg then [110, 117, 108, 108, 10] else msg

/-! ## Successive Recv calls -/

inductive Kind | split (d : UInt8) | hdr (cfg : HdrCfg) | raw
  deriving Repr

def recv1 : Kind → Bytes → Res × Bytes
  | .split d, s => splitRecv d s
  | .hdr cfg, s => hdrRecv' cfg s
  | .raw, s => rawRecv s

def isRec : Res → Bool
  | .ok _ => true
  | .mismatch _ _ => true
  | _ => false

/-- `n` successive `Recv` calls. A raw-JSON decoder that has failed keeps returning the same error. -/
def recvN (k : Kind) : Nat → Bytes → List Res
  | 0, _ => []
  | n + 1, s =>
    let (r, rest) := recv1 k s
    match k, r with
    | .raw, .err e => List.replicate (n + 1) (.err e)
    | _, _ => r :: recvN k n rest

end Jrpc.Framing
