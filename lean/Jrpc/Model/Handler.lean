import Jrpc.Model.Json
/-!
# handler.Check / Wrap / Positional, Args and Obj (properties C15, C16)

Decision logic of the reflective adapters. Go types enter as descriptors; decoding a JSON text into
a Go value of the parameter type is `encoding/json`'s job and stays outside (the harness applies
it to the text the model says is decoded, with the strictness the model says applies).
-/
namespace Jrpc.Handler
open Jrpc.Json (Bytes)

/-- what `Check` looks at in a parameter / result type -/
inductive TK | ctx | err | req | other
  deriving DecidableEq, Repr

structure Sig where
  isFunc : Bool := true
  ins : List TK
  variadic : Bool := false
  outs : List TK
  deriving DecidableEq, Repr

structure Info where
  hasArg : Bool          -- a non-context parameter exists
  argIsReq : Bool        -- … and it is *jrpc2.Request
  hasResult : Bool       -- a non-error result exists
  reportsError : Bool
  deriving DecidableEq, Repr

/-- `handler.Check` (the order of the tests is the source's) -/
def check (s : Sig) : Option Info :=
  if !s.isFunc then none
  else if s.ins.length = 0 || s.ins.length > 2 then none
  else if s.ins.head? ≠ some .ctx then none
  else if s.variadic then none
  else
    let no := s.outs.length
    if no < 1 || no > 2 then none
    else if no = 2 && s.outs[1]? ≠ some .err then none
    else
      let reports := s.outs.getLast? = some .err
      some { hasArg := s.ins.length = 2, argIsReq := s.ins[1]? = some .req,
             hasResult := no = 2 || !reports, reportsError := reports }

/-- the documented signature schemes, stated independently:
`func(ctx) error | func(ctx) Y | func(ctx) (Y, error) | func(ctx, X) error | func(ctx, X) Y | func(ctx, X) (Y, error)` -/
inductive Documented : Sig → Prop
  | noArgErr : Documented ⟨true, [.ctx], false, [.err]⟩
  | noArgVal (y : TK) : Documented ⟨true, [.ctx], false, [y]⟩
  | noArgValErr (y : TK) : Documented ⟨true, [.ctx], false, [y, .err]⟩
  | argErr (x : TK) : Documented ⟨true, [.ctx, x], false, [.err]⟩
  | argVal (x y : TK) : Documented ⟨true, [.ctx, x], false, [y]⟩
  | argValErr (x y : TK) : Documented ⟨true, [.ctx, x], false, [y, .err]⟩

/-! ## the argument wrapper -/

structure Opts where
  strictSet : Bool       -- SetStrict(true) (Positional forces it)
  implStrict : Bool      -- the parameter type has a DisallowUnknownFields method
  allowArray : Bool      -- AllowArray (default true)
  names : List Bytes     -- positional field names of a struct parameter ([] otherwise)
  deriving DecidableEq, Repr

/-- what the adapter does with a request -/
inductive Action where
  | noParamsError                      -- function takes no parameter but params were sent
  | callNoArg                          -- call f(ctx)
  | callReq                            -- call f(ctx, req)
  | callZero                           -- call f(ctx, zero value): empty params, nothing decoded
  | decode (strict : Bool) (text : Bytes)   -- decode `text` into the parameter type, then call once
  | invalid                            -- InvalidParams, function not called
  deriving DecidableEq, Repr

/-- one JSON object text from names and raw values, in name order -/
def objectOf : List Bytes → List Bytes → Bytes
  | n :: ns, v :: vs =>
    Jrpc.Json.quote n ++ [58] ++ v ++ (match ns, vs with | [], _ => [] | _, [] => [] | _, _ => 44 :: objectOf ns vs)
  | _, _ => []

/-- `arrayStub.translate`: an array of exactly `len names` elements becomes the object with those
names; any other array is an error; anything that is not an array passes through -/
def translate (names : List Bytes) (data : Bytes) : Option Bytes :=
  if Jrpc.Json.firstByte data != 91 then some data
  else match Jrpc.Json.elements data with
    | none => none
    | some elts => if elts.length = names.length then some (123 :: objectOf names elts ++ [125]) else none

/-- `FuncInfo.Wrap` + `argWrapper` + `Request.UnmarshalParams` -/
def wrapAction (i : Info) (o : Opts) (params : Bytes) : Action :=
  if !i.hasArg then (if params ≠ [] then .noParamsError else .callNoArg)
  else if i.argIsReq then .callReq
  else if params = [] then .callZero
  else
    let strictStub := o.strictSet && !o.implStrict
    let useArray := o.names ≠ [] && o.allowArray
    if useArray then
      match translate o.names params with
      | none => .invalid
      -- the array stub decodes strictly when it wraps a strict stub or when the target itself demands it
      | some t => .decode (strictStub || o.implStrict) t
    else
      -- strict stub, or `UnmarshalParams` finds DisallowUnknownFields on the value itself
      .decode (strictStub || o.implStrict) params

/-! ## Positional -/

/-- `handler.Positional`'s acceptance: a function `func(ctx, X1..Xn)` with as many names as
non-context parameters, not variadic (with only the context it defers to `Check`) -/
def positionalOK (s : Sig) (nnames : Nat) : Bool :=
  s.isFunc && s.ins.length ≥ 1 && s.ins.head? == some .ctx &&
  (if s.ins.length = 1 then (check s).isSome
   else !s.variadic && nnames = s.ins.length - 1 &&
        (check { s with ins := [.ctx, .other] }).isSome)

/-! ## Args and Obj -/

inductive ArgsResult where
  | notArray | wrongLength | decodeEach (pairs : List (Nat × Bytes))   -- (target index, element text) to decode
  deriving DecidableEq, Repr

/-- the text `null`, with JSON blanks around it -/
def isNullText (bs : Bytes) : Bool :=
  ((bs.dropWhile Jrpc.Json.isSpace).reverse.dropWhile Jrpc.Json.isSpace).reverse == [110, 117, 108, 108]

/-- what `json.Unmarshal(data, &elts)` with `elts []json.RawMessage` yields: the elements of an
array; `null` leaves the slice nil, i.e. no elements; anything else is an error -/
def argsElements (data : Bytes) : Option (List Bytes) :=
  if isNullText data then some [] else Jrpc.Json.elements data

/-- `Args.UnmarshalJSON`: `targets[i] = false` marks a nil slot -/
def argsUnmarshal (targets : List Bool) (data : Bytes) : ArgsResult :=
  match argsElements data with
  | none => .notArray
  | some elts =>
    if elts.length ≠ targets.length then .wrongLength
    else .decodeEach (((List.range elts.length).zip elts).filter fun p => targets.getD p.1 false)

/-- `Obj.UnmarshalJSON`: only keys present in both the map and the object are decoded -/
def objUnmarshal (keys : List Bytes) (fields : List (Bytes × Bytes)) : List (Bytes × Bytes) :=
  keys.filterMap fun k => (Jrpc.Json.lookupLastRaw k fields).map fun v => (k, v)

end Jrpc.Handler
