import Jrpc.Model.Json
import Jrpc.Model.Framing
/-!
# HTTP layer: query typing, Getter status, HTTP client channel, Bridge (properties C18, C19)
-/
namespace Jrpc.Http
open Jrpc.Json (Bytes isDigit)

/-! ## ParseQuery value typing -/

inductive QVal where
  | str (decoded : Bytes)   -- double-quoted: a JSON string
  | int | float             -- optionally signed decimal digits with optional fraction
  | ctrue | cfalse | cnull
  | bytes64                 -- single-quoted: base64 bytes
  | lit                     -- anything else: the literal string
  | err                     -- ParseQuery reports an error (unbalanced / undecodable quote)
  deriving DecidableEq, Repr

/-- `isDecimal` of getter.go: optional single sign, digits with at most one dot, at least one digit -/
def isDecimal (s : Bytes) : Bool :=
  let body := (Jrpc.Framing.signSplit s).2
  body.all (fun c => isDigit c || c == 46) && (body.filter isDigit).length > 0 && (body.filter (· == 46)).length ≤ 1

/-- does `strconv.ParseInt(s, 10, 64)` succeed: optional sign, digits only, within int64 -/
def intOK (s : Bytes) : Bool := (Jrpc.Framing.atoi s).isSome

def b64char (c : UInt8) : Bool :=
  (65 ≤ c && c ≤ 90) || (97 ≤ c && c ≤ 122) || isDigit c || c == 43 || c == 47

/-- does `base64.RawStdEncoding.DecodeString` accept (after the padding was trimmed): alphabet only
(CR / LF are skipped by the decoder), and not a dangling single character -/
def b64ok (s : Bytes) : Bool :=
  let eff := s.filter (fun c => c != 13 && c != 10)
  eff.all b64char && eff.length % 4 != 1

def trimEq (s : Bytes) : Bytes := (s.reverse.dropWhile (· == 61)).reverse

/-- does a string of decimal syntax have a finite float64 reading? `strconv.ParseFloat` fails only
when the magnitude rounds to infinity, i.e. at or beyond 1.7976931348623158e308 (the halfway point
between the largest float64 and 2^1024; a value that shares these 17 digits counts as beyond it).
Tiny values underflow to 0 without error. -/
def floatFiniteDec (s : Bytes) : Bool :=
  let body := match s with | 43 :: r => r | 45 :: r => r | r => r
  let intPart := (body.takeWhile (· != 46)).dropWhile (· == 48)
  if intPart.length ≤ 308 then true
  else if intPart.length ≥ 310 then false
  else decide (intPart.take 17 < [49, 55, 57, 55, 54, 57, 51, 49, 51, 52, 56, 54, 50, 51, 49, 53, 56])

/-- the cascade of `ParseQuery`. `floatFinite` stands for `strconv.ParseFloat` succeeding on a
string of decimal syntax (it fails only for magnitudes beyond float64) -/
def classify (floatFinite : Bytes → Bool) (s : Bytes) : QVal :=
  let first := s.head?
  let last := s.getLast?
  if s.length ≥ 2 && first == some 34 && last == some 34 then
    (if Jrpc.Json.valid s then (match Jrpc.Json.unquote s with | some d => .str d | none => .err) else .err)
  else if s ≠ [] && (first == some 34 || last == some 34) then .err
  else if intOK s then .int
  else if isDecimal s && floatFinite s then .float
  else if s = [116, 114, 117, 101] then .ctrue
  else if s = [102, 97, 108, 115, 101] then .cfalse
  else if s = [110, 117, 108, 108] then .cnull
  else if s.length ≥ 2 && first == some 39 && last == some 39 then
    (if b64ok (trimEq ((s.drop 1).dropLast)) then .bytes64 else .err)
  else if s ≠ [] && (first == some 39 || last == some 39) then .err
  else .lit

/-! ## Getter status mapping -/

inductive CallOutcome | parseFail | ok | methodNotFound | otherError
  deriving DecidableEq, Repr

def getterStatus : CallOutcome → Nat
  | .parseFail => 400 | .ok => 200 | .methodNotFound => 404 | .otherError => 500

/-! ## jhttp.Channel: one goroutine per POST, 204 short-circuit, drain on Close -/

inductive Resp | noContent | body | fail
  deriving DecidableEq, Repr

structure Chan where
  closed : Bool := false
  inflight : Nat := 0            -- request goroutines whose Do has not returned
  waiting : List Resp := []      -- goroutines blocked handing a response over
  opened : Nat := 0              -- response bodies obtained
  closedBodies : Nat := 0        -- response bodies closed
  refused : Nat := 0
  deriving DecidableEq, Repr

inductive CEv | send | doReturn (r : Resp) | recv | close
  deriving DecidableEq, Repr

def bodies (l : List Resp) : Nat := (l.filter (· == .body)).length

def cstep (s : Chan) : CEv → Option Chan
  | .send => if s.closed then some { s with refused := s.refused + 1 } else some { s with inflight := s.inflight + 1 }
  | .doReturn r =>
    if s.inflight = 0 then none else
    match r with
    | .noContent => some { s with inflight := s.inflight - 1, opened := s.opened + 1, closedBodies := s.closedBodies + 1 }
    | .body =>
      if s.closed then  -- the drain loop of Close takes it and closes the body
        some { s with inflight := s.inflight - 1, opened := s.opened + 1, closedBodies := s.closedBodies + 1 }
      else some { s with inflight := s.inflight - 1, opened := s.opened + 1, waiting := s.waiting ++ [.body] }
    | .fail => if s.closed then some { s with inflight := s.inflight - 1 }
      else some { s with inflight := s.inflight - 1, waiting := s.waiting ++ [.fail] }
  | .recv =>
    if s.closed then none else
    match s.waiting with
    | [] => none
    | x :: r =>
      if x = .body then some { s with waiting := r, closedBodies := s.closedBodies + 1 }  -- read all, close the body
      else some { s with waiting := r }
  | .close =>
    -- no further sends; every response still waiting to be handed over is drained and its body closed
    some { s with closed := true, waiting := [], closedBodies := s.closedBodies + bodies s.waiting }

def crun (s : Chan) : List CEv → Option Chan
  | [] => some s
  | e :: es => (cstep s e).bind (crun · es)

/-! ## Bridge -/

inductive Member where
  | invalid (id : Bytes)      -- statically invalid member (its id text, or [] for none)
  | call (id : Bytes)         -- valid call with the caller's id text
  | note                      -- valid notification
  deriving DecidableEq, Repr

/-- what the bridge re-issues through its shared client: one spec per valid member, in order -/
def specs : List Member → List Bool   -- `true` = notification
  | [] => []
  | .invalid _ :: r => specs r
  | .call _ :: r => false :: specs r
  | .note :: r => true :: specs r

def inboundIDs : List Member → List Bytes
  | [] => []
  | .call id :: r => id :: inboundIDs r
  | _ :: r => inboundIDs r

def staticErrors : List Member → List Bytes
  | [] => []
  | .invalid id :: r => (if id = [] then [110, 117, 108, 108] else id) :: staticErrors r
  | _ :: r => staticErrors r

/-- ids of the reply objects: the static error objects, then the backend's responses relabelled
by position with the caller's ids. `n` is the number of responses the backend returned -/
def replyIDs (ms : List Member) (n : Nat) : List Bytes := staticErrors ms ++ (inboundIDs ms).take n

inductive Shape | noContent | single | array
  deriving DecidableEq, Repr

def shape (n : Nat) : Shape := if n = 0 then .noContent else if n = 1 then .single else .array

/-- the method / content-type gate of `ServeHTTP` (no parse hook): `mt` is the media type and
`charset` the charset parameter as returned by `mime.ParseMediaType` -/
def gate (method : Bytes) (mt : Bytes) (charset : Option Bytes) : Nat :=
  if method ≠ [80, 79, 83, 84] then 405
  else if mt ≠ ([97, 112, 112, 108, 105, 99, 97, 116, 105, 111, 110, 47, 106, 115, 111, 110] : Bytes) then 415
  else match charset with
    | some cs => if cs ≠ ([117, 116, 102, 45, 56] : Bytes) ∧ cs ≠ ([117, 116, 102, 56] : Bytes) then 415 else 200
    | none => 200

end Jrpc.Http
