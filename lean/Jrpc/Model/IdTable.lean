/-!
# In-flight request ids and cancellation (property C07)

Model of `Server.used` (`id ↦ cancel function of the call's context`): duplicate detection and
reservation in `checkAndAssignLocked` / `setContext`, release in `deliver` (`cancelLocked`),
`CancelRequest` (cancels, keeps the reservation until the reply is sent), and `stopLocked`.
A call is identified by a unique `uid`; its context is cancelled when a pair `(uid, cause)` is
recorded.
-/
namespace Jrpc.IdTable

abbrev Id := Nat

structure Call where
  uid : Nat
  id : Id
  known : Bool      -- the assigner has a handler for the method
  deriving DecidableEq, Repr

inductive Cause | request | delivery | stop | unassigned
  deriving DecidableEq, Repr

inductive Verdict | run | duplicate | notFound
  deriving DecidableEq, Repr

structure St where
  used : List (Id × Nat) := []          -- reserved ids and the call that holds each
  inflight : List Call := []            -- calls whose handler has been assigned, reply not yet sent
  cancelled : List (Nat × Cause) := []  -- whose context was cancelled, and why
  verdicts : List (Nat × Verdict) := [] -- what each admitted member was told
  stopped : Bool := false
  deriving DecidableEq, Repr

inductive Ev where
  | admitB (batch : List Call)     -- `checkAndAssignLocked` on the calls of one inbound message
  | deliver (uids : List Nat)     -- `deliver` for the executed members of one message
  | cancelReq (id : Id)           -- `CancelRequest(id)`
  | stop
  deriving DecidableEq, Repr

def lookup (i : Id) : List (Id × Nat) → Option Nat
  | [] => none
  | (k, v) :: r => if k = i then some v else lookup i r

def remove (i : Id) (l : List (Id × Nat)) : List (Id × Nat) := l.filter (fun p => p.1 ≠ i)

/-- phase 2 for the members that passed phase 1, in order -/
def assign (s : St) : List Call → St
  | [] => s
  | c :: cs =>
    if c.known then
      assign { s with used := (c.id, c.uid) :: s.used, inflight := c :: s.inflight,
                      verdicts := (c.uid, .run) :: s.verdicts } cs
    else
      -- reserved by `setContext`, released at once because no handler will run
      assign { s with verdicts := (c.uid, .notFound) :: s.verdicts,
                      cancelled := (c.uid, .unassigned) :: s.cancelled } cs

/-- release the id of a delivered call and cancel whatever context the table holds for it -/
def release (s : St) (c : Call) : St :=
  match lookup c.id s.used with
  | some u => { s with used := remove c.id s.used, cancelled := (u, .delivery) :: s.cancelled,
                       inflight := s.inflight.filter (fun x => x ≠ c) }
  | none => { s with inflight := s.inflight.filter (fun x => x ≠ c) }

def releaseAll (s : St) : List Call → St
  | [] => s
  | c :: cs => releaseAll (release s c) cs

def step (s : St) : Ev → Option St
  | .admitB batch =>
    if s.stopped then none else   -- a stopped server dispatches only retained notifications (no ids)
    -- phase 1: ids used twice in the batch fail together; ids reserved by earlier messages fail
    let dupInBatch := fun (c : Call) => (batch.filter (fun x => x.id = c.id)).length ≥ 2
    let rejected := batch.filter fun c => dupInBatch c || (lookup c.id s.used).isSome
    let ok := batch.filter fun c => !(dupInBatch c || (lookup c.id s.used).isSome)
    let s1 := { s with verdicts := rejected.map (fun c => (c.uid, Verdict.duplicate)) ++ s.verdicts }
    some (assign s1 ok)
  | .deliver uids =>
    some (releaseAll s (s.inflight.filter fun c => uids.contains c.uid))
  | .cancelReq i =>
    match lookup i s.used with
    | some u => some { s with cancelled := (u, .request) :: s.cancelled }
    | none => some s
  | .stop =>
    some { s with cancelled := s.used.map (fun p => (p.2, Cause.stop)) ++ s.cancelled, used := [], stopped := true }

def run (s : St) : List Ev → Option St
  | [] => some s
  | e :: es => (step s e).bind (run · es)

def init : St := {}

end Jrpc.IdTable
