/-!
# Byte-level JSON as `encoding/json` sees it

The validity scanner of `encoding/json` (scanner.go) modelled state by state as a pushdown
automaton `step : S → UInt8 → Option S` (`none` = syntax error) folded over the bytes, plus the
pieces of the decoder the library relies on: splitting a valid top-level array / object into the
raw texts of its elements / members (`json.Unmarshal` into `[]json.RawMessage` and
`map[string]json.RawMessage`), string unquoting for keys and string fields, and `bytes.TrimSpace`
/ `firstByte`.  Everything is total and executable; there is no fuel and no nested inductive.
-/
namespace Jrpc.Json

abbrev Bytes := List UInt8

inductive Frame | objKey | objVal | arr
  deriving DecidableEq, Repr

/-- the scanner's `step` function values -/
inductive Q
  | beginValueOrEmpty | beginValue | beginStringOrEmpty | beginString | endValue | endTop
  | inString | inStringEsc | escU | escU1 | escU12 | escU123
  | neg | num1 | num0 | dot | dot0 | e | eSign | e0
  | t | tr | tru | f | fa | fal | fals | n | nu | nul
  deriving DecidableEq, Repr

structure S where
  q : Q
  st : List Frame
  deriving DecidableEq, Repr

def maxNestingDepth : Nat := 10000

def isSpace (c : UInt8) : Bool := c == 32 || c == 9 || c == 13 || c == 10
def isDigit (c : UInt8) : Bool := 48 ≤ c && c ≤ 57
def isHex (c : UInt8) : Bool := isDigit c || (97 ≤ c && c ≤ 102) || (65 ≤ c && c ≤ 70)

/-- `popParseState` -/
def pop : List Frame → S
  | [] => ⟨.endTop, []⟩          -- unreachable: pop is only called with a non-empty stack
  | [_] => ⟨.endTop, []⟩
  | _ :: r => ⟨.endValue, r⟩

/-- `stateEndValue` -/
def endValue (st : List Frame) (c : UInt8) : Option S :=
  match st with
  | [] => if isSpace c then some ⟨.endTop, []⟩ else none       -- stateEndTop
  | fr :: r =>
    if isSpace c then some ⟨.endValue, st⟩ else
    match fr with
    | .objKey => if c == 58 then some ⟨.beginValue, .objVal :: r⟩ else none
    | .objVal =>
      if c == 44 then some ⟨.beginString, .objKey :: r⟩
      else if c == 125 then some (pop st) else none
    | .arr =>
      if c == 44 then some ⟨.beginValue, st⟩
      else if c == 93 then some (pop st) else none

/-- `pushParseState` -/
def push (fr : Frame) (st : List Frame) (q : Q) : Option S :=
  if st.length + 1 ≤ maxNestingDepth then some ⟨q, fr :: st⟩ else none

/-- `stateBeginValue` -/
def beginValue (st : List Frame) (c : UInt8) : Option S :=
  if isSpace c then some ⟨.beginValue, st⟩
  else if c == 123 then push .objKey st .beginStringOrEmpty
  else if c == 91 then push .arr st .beginValueOrEmpty
  else if c == 34 then some ⟨.inString, st⟩
  else if c == 45 then some ⟨.neg, st⟩
  else if c == 48 then some ⟨.num0, st⟩
  else if c == 116 then some ⟨.t, st⟩
  else if c == 102 then some ⟨.f, st⟩
  else if c == 110 then some ⟨.n, st⟩
  else if 49 ≤ c && c ≤ 57 then some ⟨.num1, st⟩
  else none

def beginString (st : List Frame) (c : UInt8) : Option S :=
  if isSpace c then some ⟨.beginString, st⟩
  else if c == 34 then some ⟨.inString, st⟩ else none

def lit (st : List Frame) (c want : UInt8) (next : Q) : Option S :=
  if c == want then some ⟨next, st⟩ else none

/-- one scanner step -/
def step (s : S) (c : UInt8) : Option S :=
  let st := s.st
  match s.q with
  | .beginValueOrEmpty =>
    if isSpace c then some s
    else if c == 93 then endValue st c else beginValue st c
  | .beginValue => if isSpace c then some s else beginValue st c
  | .beginStringOrEmpty =>
    if isSpace c then some s
    else if c == 125 then
      (match st with
       | _ :: r => endValue (.objVal :: r) c
       | [] => none)
    else beginString st c
  | .beginString => if isSpace c then some s else beginString st c
  | .endValue => endValue st c
  | .endTop => if isSpace c then some s else none
  | .inString =>
    if c == 34 then some ⟨.endValue, st⟩
    else if c == 92 then some ⟨.inStringEsc, st⟩
    else if c < 32 then none else some s
  | .inStringEsc =>
    if c == 98 || c == 102 || c == 110 || c == 114 || c == 116 || c == 92 || c == 47 || c == 34 then
      some ⟨.inString, st⟩
    else if c == 117 then some ⟨.escU, st⟩ else none
  | .escU => if isHex c then some ⟨.escU1, st⟩ else none
  | .escU1 => if isHex c then some ⟨.escU12, st⟩ else none
  | .escU12 => if isHex c then some ⟨.escU123, st⟩ else none
  | .escU123 => if isHex c then some ⟨.inString, st⟩ else none
  | .neg =>
    if c == 48 then some ⟨.num0, st⟩
    else if 49 ≤ c && c ≤ 57 then some ⟨.num1, st⟩ else none
  | .num1 => if isDigit c then some s else
    (if c == 46 then some ⟨.dot, st⟩ else if c == 101 || c == 69 then some ⟨.e, st⟩ else endValue st c)
  | .num0 =>
    if c == 46 then some ⟨.dot, st⟩ else if c == 101 || c == 69 then some ⟨.e, st⟩ else endValue st c
  | .dot => if isDigit c then some ⟨.dot0, st⟩ else none
  | .dot0 => if isDigit c then some s else
    (if c == 101 || c == 69 then some ⟨.e, st⟩ else endValue st c)
  | .e => if c == 43 || c == 45 then some ⟨.eSign, st⟩ else if isDigit c then some ⟨.e0, st⟩ else none
  | .eSign => if isDigit c then some ⟨.e0, st⟩ else none
  | .e0 => if isDigit c then some s else endValue st c
  | .t => lit st c 114 .tr
  | .tr => lit st c 117 .tru
  | .tru => lit st c 101 .endValue
  | .f => lit st c 97 .fa
  | .fa => lit st c 108 .fal
  | .fal => lit st c 115 .fals
  | .fals => lit st c 101 .endValue
  | .n => lit st c 117 .nu
  | .nu => lit st c 108 .nul
  | .nul => lit st c 108 .endValue

def start : S := ⟨.beginValue, []⟩

def run (s : S) : Bytes → Option S
  | [] => some s
  | b :: bs => (step s b).bind (run · bs)

/-- `scanner.eof`: the text is complete iff after a final space the scanner is at `endTop`. -/
def atEnd (s : S) : Bool :=
  match s.q with
  | .endTop => true
  | _ => match step s 32 with
    | some s' => s'.q == .endTop
    | none => false

/-- `json.Valid` / `checkValid`. -/
def valid (bs : Bytes) : Bool :=
  match run start bs with
  | some s => atEnd s
  | none => false

theorem run_append (s : S) (a b : Bytes) : run s (a ++ b) = (run s a).bind (run · b) := by
  induction a generalizing s with
  | nil => simp [run]
  | cons x xs ih =>
    simp only [List.cons_append, run]
    cases h : step s x with
    | none => simp
    | some s' => simp [ih]

/-! ## bytes.TrimSpace / firstByte (ASCII white space; see DESIGN for the Unicode caveat) -/

def isAsciiSpace (c : UInt8) : Bool := c == 32 || c == 9 || c == 10 || c == 11 || c == 12 || c == 13

def trimLeft (bs : Bytes) : Bytes := bs.dropWhile isAsciiSpace
def trimRight (bs : Bytes) : Bytes := (bs.reverse.dropWhile isAsciiSpace).reverse
def trimSpace (bs : Bytes) : Bytes := trimRight (trimLeft bs)

/-- `firstByte` of json.go: first non-blank byte or 0 -/
def firstByte (bs : Bytes) : UInt8 :=
  match trimLeft bs with
  | [] => 0
  | b :: _ => b

/-! ## Splitting a valid text into raw sub-values

`elements` gives, for a valid array text, the raw texts of its elements exactly as
`json.Unmarshal(data, &[]json.RawMessage)` stores them (no surrounding white space);
`members` does the same for an object text (`map[string]json.RawMessage` before key decoding:
pairs of raw key text and raw value text, in source order, duplicates kept).
Both walk the text with the scanner and cut at depth-1 delimiters. -/

structure Cut where
  s : S
  cur : Bytes          -- reversed bytes of the element being collected
  started : Bool       -- a non-space byte of the current element has been seen
  out : List Bytes     -- finished elements, reversed
  deriving Repr

/-- Feed one byte of an array/object body. `depth1` says whether the scanner stack had exactly one
frame before the byte (i.e. we are directly inside the outer container). -/
def cutStep (c : Cut) (b : UInt8) : Option Cut :=
  match step c.s b with
  | none => none
  | some s' =>
    let d := c.s.st.length
    let d' := s'.st.length
    -- a delimiter of the outer container: scanner was in a position to end a depth-1 value
    let isDelim := d == 1 && (b == 44 || b == 58) &&
        (match c.s.q with | .inString | .inStringEsc | .escU | .escU1 | .escU12 | .escU123 => false | _ => true)
    let isClose := d == 1 && d' == 0
    let isOpen := d == 0 && d' == 1
    if isOpen then some { c with s := s' }
    else if isDelim || isClose then
      let fin := if c.started then (c.cur.dropWhile isSpace).reverse :: c.out else c.out
      some { s := s', cur := [], started := false, out := fin }
    else if !c.started && isSpace b then some { c with s := s' }
    else some { c with s := s', cur := b :: c.cur, started := true }

def cutRun (c : Cut) : Bytes → Option Cut
  | [] => some c
  | b :: bs => (cutStep c b).bind (cutRun · bs)

/-- raw pieces between depth-1 delimiters of a valid container text -/
def pieces (bs : Bytes) : Option (List Bytes) :=
  if !valid bs then none else
  match cutRun ⟨start, [], false, []⟩ bs with
  | some c => some c.out.reverse
  | none => none

/-- elements of a valid JSON array text; `none` if the text is invalid or not an array -/
def elements (bs : Bytes) : Option (List Bytes) :=
  if firstByte bs != 91 then none else pieces bs

def pairUp : List Bytes → Option (List (Bytes × Bytes))
  | [] => some []
  | k :: v :: r => (pairUp r).map ((k, v) :: ·)
  | [_] => none

/-- members (raw key text, raw value text) of a valid JSON object text -/
def members (bs : Bytes) : Option (List (Bytes × Bytes)) :=
  if firstByte bs != 123 then none else (pieces bs).bind pairUp

/-! ## String literals -/

def hexv (c : UInt8) : Nat :=
  if isDigit c then (c - 48).toNat else if 97 ≤ c && c ≤ 102 then (c - 87).toNat else (c - 55).toNat

/-- UTF-8 encoding of a code point (surrogates and out-of-range become U+FFFD) -/
def utf8 (n : Nat) : Bytes :=
  if n < 0x80 then [n.toUInt8]
  else if n < 0x800 then [(0xC0 + n / 64).toUInt8, (0x80 + n % 64).toUInt8]
  else if (0xD800 ≤ n && n < 0xE000) || n > 0x10FFFF then [0xEF, 0xBF, 0xBD]
  else if n < 0x10000 then [(0xE0 + n / 4096).toUInt8, (0x80 + n / 64 % 64).toUInt8, (0x80 + n % 64).toUInt8]
  else [(0xF0 + n / 262144).toUInt8, (0x80 + n / 4096 % 64).toUInt8, (0x80 + n / 64 % 64).toUInt8, (0x80 + n % 64).toUInt8]

def hex4 : Bytes → Option (Nat × Bytes)
  | a :: b :: c :: d :: r =>
    if isHex a && isHex b && isHex c && isHex d then
      some (hexv a * 4096 + hexv b * 256 + hexv c * 16 + hexv d, r) else none
  | _ => none

/-- body of `unquote` on the bytes between the quotes (valid UTF-8 input passes through;
the harness keeps generated strings valid UTF-8, so the U+FFFD substitution of invalid bytes is
outside the modelled domain). Structural on a fuel equal to the length. -/
def unquoteBody : Nat → Bytes → Option Bytes
  | 0, [] => some []
  | 0, _ => none
  | _ + 1, [] => some []
  | fuel + 1, 92 :: r =>
    (match r with
     | 117 :: r' =>
       (match hex4 r' with
        | none => none
        | some (u, r'') =>
          if 0xD800 ≤ u && u < 0xDC00 then
            (match r'' with
             | 92 :: 117 :: r3 =>
               (match hex4 r3 with
                | some (l, r4) =>
                  if 0xDC00 ≤ l && l < 0xE000 then
                    (unquoteBody fuel r4).map (utf8 (0x10000 + (u - 0xD800) * 1024 + (l - 0xDC00)) ++ ·)
                  else (unquoteBody fuel r'').map (utf8 0xFFFD ++ ·)
                | none => (unquoteBody fuel r'').map (utf8 0xFFFD ++ ·))
             | _ => (unquoteBody fuel r'').map (utf8 0xFFFD ++ ·))
          else (unquoteBody fuel r'').map (utf8 u ++ ·))
     | 98 :: r' => (unquoteBody fuel r').map (8 :: ·)
     | 102 :: r' => (unquoteBody fuel r').map (12 :: ·)
     | 110 :: r' => (unquoteBody fuel r').map (10 :: ·)
     | 114 :: r' => (unquoteBody fuel r').map (13 :: ·)
     | 116 :: r' => (unquoteBody fuel r').map (9 :: ·)
     | 92 :: r' => (unquoteBody fuel r').map (92 :: ·)
     | 47 :: r' => (unquoteBody fuel r').map (47 :: ·)
     | 34 :: r' => (unquoteBody fuel r').map (34 :: ·)
     | _ => none)
  | fuel + 1, c :: r => if c == 34 || c < 32 then none else (unquoteBody fuel r).map (c :: ·)

/-- decode a JSON string literal text (`"…"`) into its bytes; `none` if it is not a string literal -/
def unquote (bs : Bytes) : Option Bytes :=
  match bs with
  | 34 :: r =>
    (match r.reverse with
     | 34 :: body => unquoteBody (body.length) body.reverse
     | _ => none)
  | _ => none

def hexDigitByte (n : Nat) : UInt8 := if n < 10 then (48 + n).toUInt8 else (87 + n).toUInt8

/-- `json.Marshal` of a Go string (valid UTF-8 assumed): the default HTML-safe escaping -/
def escByte (c : UInt8) : Bytes :=
  if c == 34 then [92, 34]
  else if c == 92 then [92, 92]
  else if c == 8 then [92, 98]
  else if c == 12 then [92, 102]
  else if c == 10 then [92, 110]
  else if c == 13 then [92, 114]
  else if c == 9 then [92, 116]
  else if c < 32 || c == 60 || c == 62 || c == 38 then
    [92, 117, 48, 48, hexDigitByte (c.toNat / 16), hexDigitByte (c.toNat % 16)]
  else [c]

def quoteBody : Bytes → Bytes
  | 0xE2 :: 0x80 :: 0xA8 :: r => [92, 117, 50, 48, 50, 56] ++ quoteBody r
  | 0xE2 :: 0x80 :: 0xA9 :: r => [92, 117, 50, 48, 50, 57] ++ quoteBody r
  | c :: r => escByte c ++ quoteBody r
  | [] => []

def quote (bs : Bytes) : Bytes := 34 :: quoteBody bs ++ [34]

/-- Go map semantics on decoded (key, raw value) pairs: the last duplicate wins -/
def lookupLastRaw (k : Bytes) : List (Bytes × Bytes) → Option Bytes
  | [] => none
  | (k', v) :: r => match lookupLastRaw k r with
    | some x => some x
    | none => if k' = k then some v else none

end Jrpc.Json
