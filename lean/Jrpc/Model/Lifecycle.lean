/-!
# Server life cycle (property C08)

Event machine for `Start`, the reader (`read`: Recv, then the locked section), the dispatcher
(`nextRequest` / `serve`), the per-batch goroutines, `stopLocked` (reached from `Stop`, from a
failed `Recv`) and `WaitStatus`.  Operations that would kill the process (the postcondition panic
of `WaitStatus`, `Start` on a running server, and — in the unrepaired code — processing a record
against a nil channel / a closed work signal) lead to an explicit `crashed` state.
-/
namespace Jrpc.Lifecycle

inductive Cause | stopped | closed | failed
  deriving DecidableEq, Repr

inductive Status | stoppedOk | closedOk | error
  deriving DecidableEq, Repr

structure St where
  running : Bool := false        -- s.ch != nil
  err : Option Cause := none     -- s.err
  closes : Nat := 0              -- Close calls on the channel of the current start
  starts : Nat := 0
  queue : Nat := 0               -- batches in s.inq
  reader : Bool := false         -- reader goroutine alive
  held : Bool := false           -- reader has a record in hand (after Recv, before the lock)
  disp : Bool := false           -- dispatcher goroutine alive
  batches : Nat := 0             -- per-batch goroutines alive (their handlers included)
  crashed : Bool := false
  deriving DecidableEq, Repr

inductive Ev where
  | start
  | recvRecord                   -- Recv returned a record (possibly together with EOF)
  | recvFail (c : Cause)         -- Recv returned an error: closed / failed
  | readProcess (enqueue : Bool) -- the reader's critical section for the record in hand
  | dispTake                     -- dispatcher pops a batch and starts its goroutine
  | dispExit                     -- dispatcher sees a stopped server with an empty queue
  | batchDone                    -- a per-batch goroutine has delivered and exits
  | stop                         -- Stop()
  | keep (k : Nat)               -- (part of stopLocked) k queued notifications retained — see `stopLocked`
  | waitStatus
  deriving DecidableEq, Repr

/-- `stopLocked`: idempotent; closes the channel once; keeps `k ≤ queue` retained notifications -/
def stopLocked (s : St) (c : Cause) (k : Nat) : St :=
  if !s.running then s
  else { s with running := false, err := some c, closes := s.closes + 1, queue := min k s.queue }

def step (s : St) : Ev → Option St
  | .start =>
    if s.crashed then none
    else if s.running then some { s with crashed := true }      -- "server is already running"
    else some { s with running := true, err := none, closes := 0, starts := s.starts + 1,
                       reader := true, held := false, disp := true }
  | .recvRecord => if s.reader && !s.held && !s.crashed then some { s with held := true } else none
  | .recvFail c => if s.reader && !s.held && !s.crashed then
      some { stopLocked s c s.queue with reader := false } else none
  | .readProcess enq =>
    if s.held && !s.crashed then
      if !s.running then some { s with held := false }             -- stopped meanwhile: discard
      else some { s with held := false, queue := if enq then s.queue + 1 else s.queue }
    else none
  | .dispTake => if s.disp && s.queue > 0 && !s.crashed then
      some { s with queue := s.queue - 1, batches := s.batches + 1 } else none
  | .dispExit => if s.disp && !s.running && s.queue = 0 && !s.crashed then some { s with disp := false } else none
  | .batchDone => if s.batches > 0 && !s.crashed then some { s with batches := s.batches - 1 } else none
  | .stop => if s.crashed then none else some (stopLocked s .stopped s.queue)
  | .keep k => if s.crashed then none else some { s with queue := min k s.queue }  -- dropping queued calls at stop
  | .waitStatus =>
    if !s.reader && !s.disp && s.batches = 0 && !s.crashed then
      if s.queue ≠ 0 then some { s with crashed := true }          -- "s.inq is not empty at shutdown"
      else some s
    else none

def run (s : St) : List Ev → Option St
  | [] => some s
  | e :: es => (step s e).bind (run · es)

/-- `WaitStatus`'s classification of the recorded cause -/
def classify : Option Cause → Status
  | some .stopped => .stoppedOk
  | some .closed => .closedOk
  | _ => .error

end Jrpc.Lifecycle
