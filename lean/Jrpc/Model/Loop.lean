/-!
# server.Loop (property C20)

Per accepted connection: `newService` → `Assigner` (ok / fail) → `Start` → `WaitStatus` → `Finish`,
tracked by a wait group; a context watcher stops the server; Loop returns after the wait.
Each server obeys the life-cycle contract of C08 (it exits after Stop / peer close).
-/
namespace Jrpc.Loop

inductive Phase where
  | accepted      -- goroutine started, newService not yet called
  | created       -- newService returned
  | failed        -- Assigner failed: connection closed, goroutine exits (no server, no Finish)
  | serving       -- server started
  | exited        -- WaitStatus returned
  | finished      -- Finish called, goroutine exits
  deriving DecidableEq, Repr

structure Conn where
  phase : Phase
  services : Nat := 0      -- newService calls made for this connection
  finishes : Nat := 0      -- Finish calls made for this connection
  closedByLoop : Bool := false
  stopped : Bool := false  -- the context watcher has called Stop
  deriving DecidableEq, Repr

inductive Ret | nilErr | err
  deriving DecidableEq, Repr

structure St where
  conns : List Conn := []
  ctxDone : Bool := false
  acceptFailed : Option Bool := none   -- some true = closing error, some false = other error
  returned : Option Ret := none
  deriving DecidableEq, Repr

inductive Ev where
  | accept
  | svcNew (k : Nat)
  | assigner (k : Nat) (ok : Bool)
  | srvExit (k : Nat)          -- guard: C08 contract — the server has fully exited
  | finish (k : Nat)
  | ctxCancel
  | watcherStop (k : Nat)
  | acceptFail (closing : Bool)
  | ret
  deriving DecidableEq, Repr

def setConn (cs : List Conn) (k : Nat) (c : Conn) : List Conn := cs.set k c

/-- a per-connection goroutine is done (its `wg.Done` has run) -/
def done (c : Conn) : Bool := c.phase = .failed || c.phase = .finished

def step (s : St) : Ev → Option St
  | .accept => if s.acceptFailed.isSome then none else some { s with conns := s.conns ++ [{ phase := .accepted }] }
  | .svcNew k => match s.conns[k]? with
    | some c => if c.phase = .accepted then some { s with conns := setConn s.conns k { c with phase := .created, services := c.services + 1 } } else none
    | none => none
  | .assigner k ok => match s.conns[k]? with
    | some c => if c.phase = .created then
        (if ok then some { s with conns := setConn s.conns k { c with phase := .serving } }
         else some { s with conns := setConn s.conns k { c with phase := .failed, closedByLoop := true } }) else none
    | none => none
  | .srvExit k => match s.conns[k]? with
    | some c => if c.phase = .serving then some { s with conns := setConn s.conns k { c with phase := .exited } } else none
    | none => none
  | .finish k => match s.conns[k]? with
    | some c => if c.phase = .exited then some { s with conns := setConn s.conns k { c with phase := .finished, finishes := c.finishes + 1 } } else none
    | none => none
  | .ctxCancel => some { s with ctxDone := true }
  | .watcherStop k => match s.conns[k]? with
    | some c => if s.ctxDone && c.phase = .serving then some { s with conns := setConn s.conns k { c with stopped := true } } else none
    | none => none
  | .acceptFail closing => if s.acceptFailed.isSome then none else some { s with acceptFailed := some closing }
  | .ret =>
    -- `wg.Wait()` then return: only when the accepter has failed and every goroutine is done
    match s.acceptFailed with
    | some closing => if s.returned.isNone && s.conns.all done then
        some { s with returned := some (if closing then .nilErr else .err) } else none
    | none => none

def run (s : St) : List Ev → Option St
  | [] => some s
  | e :: es => (step s e).bind (run · es)

end Jrpc.Loop
