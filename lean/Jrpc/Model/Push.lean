/-!
# Server push (property C09)

Model of `Notify` / `Callback` / `pushReq`, the callback table `Server.call` with its id counter,
reply interception in the reader (`filterBatchLocked`, before queueing), the context watcher
(`waitCallback`), `stopLocked`, and the caller's `wait`.  The peer is arbitrary: replies with any
id arrive in any order, duplicated, late or unsolicited.
-/
namespace Jrpc.Push

inductive Res where
  | reply (payload : Nat)   -- the peer's reply (its content is identified by `payload`)
  | ctxErr                  -- the callback's context ended (cancel, deadline, or server stop)
  deriving DecidableEq, Repr

inductive Out where
  | call (id : Nat) | notify
  deriving DecidableEq, Repr

inductive Ret where
  | unsupported | connClosed | sendFailed | res (r : Res)
  deriving DecidableEq, Repr

structure St where
  allowPush : Bool
  running : Bool := true
  nextId : Nat := 1
  table : List Nat := []            -- ids of outstanding callbacks
  slots : List (Nat × Res) := []    -- what was put into each callback's 1-buffered slot
  sent : List Out := []             -- outbound requests, newest first
  refused : List Ret := []          -- immediate refusals handed to callers
  deriving DecidableEq, Repr

inductive Ev where
  | pushCall | pushNotify
  | pushCallLost                           -- `Callback` whose request the channel failed to send
  | peerReply (id : Nat) (payload : Nat)   -- a reply-shaped member is read
  | ctxDone (id : Nat)                     -- the watcher of callback `id` wakes up
  | stop
  deriving DecidableEq, Repr

def step (s : St) : Ev → St
  | .pushCall =>
    if !s.allowPush then { s with refused := .unsupported :: s.refused }
    else if !s.running then { s with refused := .connClosed :: s.refused }
    else { s with nextId := s.nextId + 1, table := s.nextId :: s.table, sent := .call s.nextId :: s.sent }
  | .pushCallLost =>
    -- the call has been registered (id consumed, table entry, watcher running) when the Send fails;
    -- the caller is told at once, the entry stays until its context ends or the server stops
    if !s.allowPush then { s with refused := .unsupported :: s.refused }
    else if !s.running then { s with refused := .connClosed :: s.refused }
    else { s with nextId := s.nextId + 1, table := s.nextId :: s.table, refused := .sendFailed :: s.refused }
  | .pushNotify =>
    if !s.allowPush then { s with refused := .unsupported :: s.refused }
    else if !s.running then { s with refused := .connClosed :: s.refused }
    else { s with sent := .notify :: s.sent }
  | .peerReply id p =>
    if id ∈ s.table then { s with table := s.table.erase id, slots := (id, .reply p) :: s.slots }
    else s                                   -- late, duplicate or unsolicited: discarded
  | .ctxDone id =>
    if id ∈ s.table then { s with table := s.table.erase id, slots := (id, .ctxErr) :: s.slots }
    else s                                   -- already answered: nothing to do
  | .stop =>
    if !s.running then s
    else { s with running := false, table := [], slots := s.table.map (fun i => (i, Res.ctxErr)) ++ s.slots }

def run (s : St) : List Ev → St
  | [] => s
  | e :: es => run (step s e) es

/-- what `Callback` returns for `id` once its slot is filled -/
def result (s : St) (id : Nat) : Option Res := (s.slots.find? (·.1 = id)).map (·.2)

end Jrpc.Push
