/-!
# Handler semaphore (property C06)

`Server.invoke` acquires one unit of a FIFO weighted semaphore of size `concurrency(opts)` before
it calls the handler and releases it (deferred) when the handler returns.  Model of
`x/sync/semaphore.Weighted` for weight 1: immediate acquisition only when a unit is free and
nobody queues; otherwise FIFO queueing; `Release` hands freed units to the head waiters at once;
a waiter whose context ends leaves the queue (and a context that is already done never acquires).
-/
namespace Jrpc.Sem

structure St where
  limit : Nat
  holding : List Nat := []   -- tasks that hold a unit (handler running or about to be called)
  waiters : List Nat := []   -- FIFO
  gone : List Nat := []      -- tasks that gave up waiting (answered with the context error)
  finished : List Nat := []
  deriving DecidableEq, Repr

inductive Ev where
  | acquire (u : Nat)        -- task u calls Acquire with a live context
  | acquireDead (u : Nat)    -- task u calls Acquire with a context that is already done
  | abandon (u : Nat)        -- waiting task u's context ends
  | finish (u : Nat)         -- u's handler returned: Release (grants to head waiters)
  deriving DecidableEq, Repr

def free (s : St) : Nat := s.limit - s.holding.length

/-- `notifyWaiters`: hand free units to the queue head -/
def grant : Nat → St → St
  | 0, s => s
  | fuel + 1, s =>
    match s.waiters with
    | w :: ws => if s.holding.length < s.limit then grant fuel { s with holding := s.holding ++ [w], waiters := ws } else s
    | [] => s

def step (s : St) : Ev → Option St
  | .acquire u =>
    if u ∈ s.holding ∨ u ∈ s.waiters ∨ u ∈ s.gone ∨ u ∈ s.finished then none
    else if s.holding.length < s.limit ∧ s.waiters = [] then some { s with holding := s.holding ++ [u] }
    else some { s with waiters := s.waiters ++ [u] }
  | .acquireDead u =>
    if u ∈ s.holding ∨ u ∈ s.waiters ∨ u ∈ s.gone ∨ u ∈ s.finished then none
    else some { s with gone := u :: s.gone }
  | .abandon u =>
    if u ∈ s.waiters then
      let s1 := { s with waiters := s.waiters.erase u, gone := u :: s.gone }
      some (grant s1.waiters.length s1)
    else none
  | .finish u =>
    if u ∈ s.holding then
      let s1 := { s with holding := s.holding.erase u, finished := u :: s.finished }
      some (grant s1.waiters.length s1)
    else none

def run (s : St) : List Ev → Option St
  | [] => some s
  | e :: es => (step s e).bind (run · es)

def init (limit : Nat) : St := { limit := limit }

/-- `ServerOptions.concurrency`: values below 1 mean "number of CPUs" -/
def concurrency (sNil : Bool) (conc ncpu : Int) : Int := if sNil || conc < 1 then ncpu else conc

end Jrpc.Sem
