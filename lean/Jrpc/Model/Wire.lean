import Jrpc.Model.Json
import Jrpc.GoPrelude
/-!
# JSON-RPC wire layer (properties C01 (pure half), C02, C13)

* byte layer: `envelope : Bytes → Envelope` — what `jmessages.parseJSON` gets from
  `encoding/json` (invalid / one raw member / a list of raw members), and `memberView` — what
  `jmessage.parseJSON` gets from unmarshalling one member into `map[string]json.RawMessage`;
* logic layer: `parseMember : MemberView → Msg` (the tolerant field scan with its deferred error),
  the reader's classification (`filterBatch`), `checkAndAssign`, `responses`, the reply shape;
* the hand-written encoder `toJSON` at byte level.
All nondeterminism of the Go code (map iteration order with first-error-wins) is made explicit:
`Msg.errs` is the list of field errors in *some* order and the theorems hold for every order.
-/
namespace Jrpc.Wire
open Jrpc.Json

abbrev Code := Int
def ParseError : Code := -32700
def InvalidRequest : Code := -32600
def MethodNotFound : Code := -32601

/-! ## byte layer -/

inductive Envelope where
  | invalid                         -- not valid JSON: one `{id:null, −32700}`
  | single (raw : Bytes)            -- a non-array value: one member, not a batch
  | batch (raws : List Bytes)       -- an array: its elements
  deriving Repr, DecidableEq

/-- `jmessages.parseJSON`: the first non-blank byte decides between value and array -/
def envelope (data : Bytes) : Envelope :=
  if !valid data then .invalid
  else if firstByte data != 91 then .single (trimSpace data)
  else match elements data with
    | some es => .batch es
    | none => .invalid

inductive MemberView where
  | notObject                                   -- number, string, array, bool: unmarshal into a map fails
  | null                                        -- `null` unmarshals into a nil map without error
  | object (fields : List (Bytes × Bytes))      -- decoded key, raw value; source order, duplicates kept
  deriving Repr, DecidableEq

/-- what `json.Unmarshal(raw, &map[string]json.RawMessage)` sees (raw is a valid JSON value text) -/
def memberView (raw : Bytes) : MemberView :=
  match raw with
  | 123 :: _ =>
    (match members raw with
     | some kvs =>
       (match kvs.mapM (fun (k, v) => (unquote k).map fun k' => (k', v)) with
        | some fs => .object fs
        | none => .notObject)
     | none => .notObject)
  | [110, 117, 108, 108] => .null
  | _ => .notObject

/-! ## logic layer: one member -/

def isNull (v : Bytes) : Bool := v = [110, 117, 108, 108]

/-- `isValidID` of json.go -/
def isValidID (v : Bytes) : Bool :=
  if v.length = 0 || isNull v then true
  else match v with
    | c :: _ => c == 34 || c == 45 || (48 ≤ c && c ≤ 57)
    | [] => true

/-- `fixID`: `null` is a synonym for an unset id -/
def fixID (id : Bytes) : Bytes := if isNull id then [] else id

def version : Bytes := [50, 46, 48]  -- "2.0"

/-- Go map semantics: the last duplicate wins -/
def lookupLast (k : Bytes) : List (Bytes × Bytes) → Option Bytes
  | [] => none
  | (k', v) :: r => match lookupLast k r with
    | some x => some x
    | none => if k' = k then some v else none

/-- `json.Unmarshal(val, &string)`: a string literal, or `null` (leaves the default ""), else an error -/
def decodeString (val : Bytes) : Option Bytes :=
  if isNull val then some [] else unquote val

/-- is `val` an integer literal that fits `int32` (what decoding into `Code` accepts) -/
def int32Literal (val : Bytes) : Bool :=
  let ds := match val with | 45 :: r => r | r => r
  !ds.isEmpty && ds.all isDigit && ds.length ≤ 10 &&
    (let n := ds.foldl (fun a c => a * 10 + (c - 48).toNat) 0
     if val.head? = some 45 then n ≤ 2147483648 else n ≤ 2147483647)

def lowerAscii (bs : Bytes) : Bytes := bs.map fun c => if 65 ≤ c && c ≤ 90 then c + 32 else c

/-- does `json.Unmarshal(val, &*Error)` succeed? (null: yes, pointer stays nil; object: every
`code`/`message` member — matched case-insensitively, last duplicate wins — must have the right
type; anything else: no, and the pointer has been allocated) -/
def errorValueOK (val : Bytes) : Bool :=
  if isNull val then true
  else match val with
    | 123 :: _ =>
      (match members val with
       | some kvs =>
         kvs.all fun (k, v) =>
           match (unquote k).map lowerAscii with
           | some [99, 111, 100, 101] => isNull v || int32Literal v                   -- "code"
           | some [109, 101, 115, 115, 97, 103, 101] => (decodeString v).isSome      -- "message"
           | _ => true
       | none => false)
    | _ => false

structure Msg where
  v : Bytes := []            -- decoded "jsonrpc" ("" when absent / null)
  id : Bytes := []           -- raw id, [] when absent or invalid
  m : Bytes := []            -- decoded method
  p : Bytes := []            -- raw params, [] when absent or null
  hasE : Bool := false       -- `E != nil`
  r : Bytes := []            -- raw result ([] = absent)
  extra : Bool := false      -- unknown keys present
  errs : List Code := []     -- deferred error: the code is one of these (map order decides); [] = valid
  deriving Repr, DecidableEq

def kJsonrpc : Bytes := [106, 115, 111, 110, 114, 112, 99]
def kId : Bytes := [105, 100]
def kMethod : Bytes := [109, 101, 116, 104, 111, 100]
def kParams : Bytes := [112, 97, 114, 97, 109, 115]
def kError : Bytes := [101, 114, 114, 111, 114]
def kResult : Bytes := [114, 101, 115, 117, 108, 116]
def knownKeys : List Bytes := [kJsonrpc, kId, kMethod, kParams, kError, kResult]

/-- string-typed field (`jsonrpc`, `method`): a wrong type is a parse error -/
def scanString (o : Option Bytes) : Bytes × List Code :=
  match o with
  | none => ([], [])
  | some val => (match decodeString val with | some s => (s, []) | none => ([], [ParseError]))

def scanID (o : Option Bytes) : Bytes × List Code :=
  match o with
  | none => ([], [])
  | some val => if isValidID val then (val, []) else ([], [InvalidRequest])

def scanParams (o : Option Bytes) : Bytes × List Code :=
  match o with
  | none => ([], [])
  | some val =>
    let p := if isNull val then [] else val
    let fb := firstByte p
    (p, if fb != 0 && fb != 91 && fb != 123 then [InvalidRequest] else [])

/-- outbound parameter policy shared by `Client.marshalParams` and `Server.pushReq`, applied to the
bytes `json.Marshal` produced: `null` means no parameters (member omitted), an array or object is
transmitted as is, anything else is refused before anything is sent -/
def outParams (bits : Bytes) : Jrpc.GoPrelude.ParamsDecision :=
  if isNull bits then .leaveOut
  else
    let fb := firstByte bits
    if fb != 91 && fb != 123 then .refuse else .keep bits

def scanError (o : Option Bytes) : Bool × List Code :=
  match o with
  | none => (false, [])
  | some val => if errorValueOK val then (!isNull val, []) else (true, [ParseError])

/-- the three post-checks (`fail` keeps an earlier error, so they matter only without one) -/
def postChecks (v m : Bytes) (hasE : Bool) (r : Bytes) (extra : Bool) : List Code :=
  if v != version then [InvalidRequest]
  else if m != [] && (hasE || r != []) then [InvalidRequest]
  else if extra then [InvalidRequest]
  else []

/-- `jmessage.parseJSON` on an object: field scan (errors collected; Go keeps the first one it
meets in map order), then the post-checks -/
def parseObject (fields : List (Bytes × Bytes)) : Msg :=
  let get := fun k => lookupLast k fields
  let v := scanString (get kJsonrpc)
  let id := scanID (get kId)
  let m := scanString (get kMethod)
  let p := scanParams (get kParams)
  let e := scanError (get kError)
  let r := (get kResult).getD []
  let extra := fields.any fun (k, _) => !knownKeys.contains k
  let fieldErrs := v.2 ++ id.2 ++ m.2 ++ p.2 ++ e.2
  { v := v.1, id := id.1, m := m.1, p := p.1, hasE := e.1, r := r, extra := extra,
    errs := if fieldErrs != [] then fieldErrs else postChecks v.1 m.1 e.1 r extra }

/-- `jmessage.parseJSON` -/
def parseMember : MemberView → Msg
  | .notObject => { errs := [ParseError] }
  | .null => parseObject []
  | .object fs => parseObject fs

def Msg.isRequestOrNotification (j : Msg) : Bool := j.m != [] && !j.hasE && j.r == []
def Msg.isNotification (j : Msg) : Bool := j.isRequestOrNotification && fixID j.id == []

/-! ## logic layer: the server -/

structure Cfg where
  allowPush : Bool
  /-- the handler assignment (after the built-in gate): does the method have a handler? -/
  known : Bytes → Bool

/-- `filterBatchLocked` with no callback outstanding: on a push-enabled server an unmatched
reply-shaped member is dropped -/
def keepMember (cfg : Cfg) (j : Msg) : Bool :=
  j.isRequestOrNotification || !(cfg.allowPush && j.m == [] && (j.hasE || j.r != []))

/-- outcome of one queued member (no ids reserved by earlier batches) -/
inductive Outcome where
  | run                      -- handler invoked (call or notification)
  | fail (codes : List Code) -- answered/ignored with one of these codes, handler not invoked
  deriving Repr, DecidableEq

/-- ids (after `fixID`) that occur at least twice among the members of the batch -/
def dupIds (ms : List Msg) : List Bytes :=
  let ids := (ms.map fun j => fixID j.id).filter (· != [])
  ids.filter fun i => ids.count i ≥ 2

/-- `checkAndAssignLocked` for one member of a batch -/
def classify (cfg : Cfg) (dups : List Bytes) (j : Msg) : Outcome :=
  if fixID j.id != [] && dups.contains (fixID j.id) then .fail [InvalidRequest]   -- duplicate request ID
  else if j.errs != [] then .fail j.errs
  else if j.m == [] then .fail [InvalidRequest]                                    -- empty method name
  else if cfg.known j.m then .run
  else .fail [MethodNotFound]

/-- one entry of the reply -/
structure ReplyEntry where
  id : Bytes                       -- raw id text; `null` when the request had none
  codes : List Code                -- [] = result of the handler; else an error with one of these codes
  deriving Repr, DecidableEq

def nullText : Bytes := [110, 117, 108, 108]

/-- `tasks.responses` for one member: id-less members are reported only for −32700 / −32600 -/
def respond (j : Msg) (o : Outcome) : Option ReplyEntry :=
  let id := fixID j.id
  match o with
  | .run => if id == [] then none else some ⟨id, []⟩
  | .fail codes =>
    if id == [] then
      (if codes.all (fun c => c == ParseError || c == InvalidRequest) then some ⟨nullText, codes⟩ else none)
    else some ⟨id, codes⟩

inductive Reply where
  | nothing
  | single (e : ReplyEntry)
  | array (es : List ReplyEntry)
  deriving Repr, DecidableEq

structure Served where
  reply : Reply
  /-- methods whose handlers ran, in member order -/
  handled : List Bytes
  deriving Repr, DecidableEq

/-- the whole path of one inbound record through a running server with nothing in flight -/
def serve (cfg : Cfg) (data : Bytes) : Served :=
  match envelope data with
  | .invalid => ⟨.single ⟨nullText, [ParseError]⟩, []⟩
  | .batch [] => ⟨.single ⟨nullText, [InvalidRequest]⟩, []⟩
  | env =>
    let (raws, isBatch) := match env with
      | .single r => ([r], false)
      | .batch rs => (rs, true)
      | .invalid => ([], false)
    let msgs := raws.map fun r => parseMember (memberView r)
    let kept := msgs.filter (keepMember cfg)
    let dups := dupIds kept
    let outs := kept.map fun j => (j, classify cfg dups j)
    let entries := outs.filterMap fun (j, o) => respond j o
    let handled := outs.filterMap fun (j, o) => match o with | .run => some j.m | _ => none
    let reply := match entries, isBatch with
      | [], _ => Reply.nothing
      | [e], false => Reply.single e
      | es, _ => Reply.array es
    ⟨reply, handled⟩

/-- `ParseRequests`: `none` = top-level error; otherwise one parsed member per batch member, in order -/
def parseRequests (data : Bytes) : Option (List Msg) :=
  match envelope data with
  | .invalid => none
  | .single r => some [parseMember (memberView r)]
  | .batch rs => some (rs.map fun r => parseMember (memberView r))

/-- the `Error` field `ParseRequests` reports for a member: the member parser's deferred error,
or - for a member without a method name, which is not a request at all - "empty method name";
`[]` = the request is valid -/
def parsedFlag (j : Msg) : List Code :=
  if j.errs != [] then j.errs else if j.m == [] then [InvalidRequest] else []

/-! ## the encoder (`jmessage.toJSON`, `jmessages.toJSON`) -/

structure OutMsg where
  id : Bytes := []            -- raw id text ([] = none)
  m : Bytes := []             -- method (a Go string)
  p : Bytes := []             -- raw params
  r : Bytes := []             -- raw result
  e : Option Bytes := none    -- marshalled error object
  batch : Bool := false
  deriving Repr, DecidableEq

def lit (s : List Nat) : Bytes := s.map (·.toUInt8)

def prefixLit : Bytes := lit [123, 34, 106, 115, 111, 110, 114, 112, 99, 34, 58, 34, 50, 46, 48, 34]  -- {"jsonrpc":"2.0"
def idLit : Bytes := lit [44, 34, 105, 100, 34, 58]                         -- ,"id":
def methodLit : Bytes := lit [44, 34, 109, 101, 116, 104, 111, 100, 34, 58] -- ,"method":
def paramsLit : Bytes := lit [44, 34, 112, 97, 114, 97, 109, 115, 34, 58]   -- ,"params":
def resultLit : Bytes := lit [44, 34, 114, 101, 115, 117, 108, 116, 34, 58] -- ,"result":
def errorLit : Bytes := lit [44, 34, 101, 114, 114, 111, 114, 34, 58]       -- ,"error":

/-- `jmessage.toJSON` -/
def toJSON (j : OutMsg) : Bytes :=
  prefixLit ++ (if j.id = [] then [] else idLit ++ j.id) ++
  (if j.m ≠ [] then methodLit ++ quote j.m ++ (if j.p = [] then [] else paramsLit ++ j.p)
   else if j.r ≠ [] then resultLit ++ j.r
   else match j.e with
     | some e => errorLit ++ e
     | none => []) ++ [125]

/-- an outbound request as `Client.req` / `Server.pushReq` build it: `marshalled` is `none` for Go
`nil` parameters, else the bytes `json.Marshal` produced; `none` = the call is refused, nothing sent -/
def requestOut (id m : Bytes) (marshalled : Option Bytes) (batch : Bool := false) : Option OutMsg :=
  match marshalled with
  | none => some { id := id, m := m, batch := batch }
  | some bits =>
    match outParams bits with
    | .leaveOut => some { id := id, m := m, batch := batch }
    | .keep b => some { id := id, m := m, p := b, batch := batch }
    | .refuse => none

def joinComma : List Bytes → Bytes
  | [] => []
  | x :: r => x ++ (r.map (44 :: ·)).flatten

/-- `jmessages.toJSON`: a single non-batch message is sent bare, anything else as an array -/
def toJSONs (js : List OutMsg) : Bytes :=
  match js with
  | [j] => if !j.batch then toJSON j else 91 :: toJSON j ++ [93]
  | _ => 91 :: joinComma (js.map toJSON) ++ [93]

/-- marshalled `Error` object: code, message (always), data (when non-empty) -/
def errorJSON (code : Int) (msg : Bytes) (data : Bytes) : Bytes :=
  lit [123, 34, 99, 111, 100, 101, 34, 58] ++ (toString code).toUTF8.toList ++
  lit [44, 34, 109, 101, 115, 115, 97, 103, 101, 34, 58] ++ quote msg ++
  (if data = [] then [] else lit [44, 34, 100, 97, 116, 97, 34, 58] ++ data) ++ [125]

/-! ### Encoding a batch of replies (server.go `tasks.responses` + `deliver` → `encode`)

`json.Marshal` of an `*Error` fails exactly when its `Data` (a `json.RawMessage`) is present and
not valid JSON; one such entry makes the encoding of the whole reply batch fail, and `deliver`
then sends nothing. `responses` therefore drops data that cannot be encoded. -/

/-- an `Error` value as the library holds it: code, message, raw data (`[]` = none) -/
structure ErrVal where
  code : Int
  msg : Bytes
  data : Bytes := []
  deriving DecidableEq, Repr

/-- `json.Marshal(e)` for `e : *Error` -/
def marshalError (e : ErrVal) : Option Bytes :=
  if e.data = [] ∨ valid e.data = true then some (errorJSON e.code e.msg e.data) else none

/-- what `responses` puts into the reply for a handler error -/
def sanitizeError (e : ErrVal) : ErrVal :=
  if e.data.length ≠ 0 ∧ valid e.data = false then { code := e.code, msg := e.msg } else e

/-- the outcome of one call as `responses` sees it: a marshalled result (validated when the
handler returned) or an error value -/
inductive ReplyOutcome
  | result (r : Bytes)
  | error (e : ErrVal)
  deriving DecidableEq, Repr

/-- one reply object -/
def replyMsg (id : Bytes) (batch : Bool) : ReplyOutcome → Option OutMsg
  | .result r => some { id := id, r := r, batch := batch }
  | .error e => (marshalError e).map fun t => { id := id, e := some t, batch := batch }

/-- the entries `responses` builds from the handlers' outcomes -/
def sanitizeOutcome : ReplyOutcome → ReplyOutcome
  | .result r => .result r
  | .error e => .error (sanitizeError e)

/-- the (id, entry) list `responses` hands to `deliver` -/
def builtReplies : List (Bytes × ReplyOutcome) → List (Bytes × ReplyOutcome)
  | [] => []
  | (rid, o) :: rest => (rid, sanitizeOutcome o) :: builtReplies rest

/-- the reply objects, or nothing if one cannot be marshalled -/
def replyMsgs (batch : Bool) : List (Bytes × ReplyOutcome) → Option (List OutMsg)
  | [] => some []
  | (rid, o) :: rest =>
    match replyMsg rid batch o, replyMsgs batch rest with
    | some m, some ms => some (m :: ms)
    | _, _ => none

/-- `encode`: all replies of one inbound message, or nothing at all if one cannot be marshalled -/
def encodeReplies (batch : Bool) (rs : List (Bytes × ReplyOutcome)) : Option Bytes :=
  (replyMsgs batch rs).map toJSONs

/-- opts.go `handleCallback`: the bytes the client hands to `Send` as the reply to a server
callback - the reply object for the handler's outcome (error data that cannot be encoded
dropped), or NOTHING (`bits, _ := rsp.toJSON()`) if it cannot be encoded -/
def callbackReplyBytes (id : Bytes) (o : ReplyOutcome) : Bytes :=
  match replyMsg id false (sanitizeOutcome o) with
  | some m => toJSON m
  | none => []

end Jrpc.Wire
