import Jrpc.Oracle.Util
import Jrpc.Model.Wire
/-! Oracle for C02 / C01 (pure half): `c02 <allowPush 0|1> <hexrecord>` →
`R <none|single|array> {<idhex> <r|code,code…>}… H <hexmethod>…`
The harness server knows the methods `ok`, `echo` and the built-in `rpc.serverInfo`. -/
namespace Jrpc.Oracle.C02
open Jrpc.Oracle Jrpc.Wire

def knownMethods : List Bytes := ["ok".toUTF8.toList, "echo".toUTF8.toList, "rpc.serverInfo".toUTF8.toList, "m".toUTF8.toList, "m2".toUTF8.toList]

def showEntry (e : ReplyEntry) : String :=
  hexOfBytes e.id ++ " " ++ (if e.codes.isEmpty then "r" else ",".intercalate (e.codes.eraseDups.map toString))

def showServed (s : Served) : String :=
  let r := match s.reply with
    | .nothing => "R none"
    | .single e => "R single " ++ showEntry e
    | .array es => "R array " ++ " ".intercalate (es.map showEntry)
  r ++ " H" ++ String.join (s.handled.map fun m => " " ++ hexOfBytes m)

def handle (toks : List String) : String :=
  match toks with
  | [p, hex] =>
    match bytesOfHex hex with
    | some data => showServed (serve ⟨p == "1", fun m => knownMethods.contains m⟩ data)
    | none => "bad-op"
  | _ => "bad-op"

/-- `c13p <hexrecord>`: ParseRequests — `err` | one entry per member: `<idhex> <hexmethod> <hexparams> <codes|ok>` -/
def handleParse (toks : List String) : String :=
  match toks with
  | [hex] =>
    match bytesOfHex hex with
    | some data =>
      match envelope data with
      | .invalid => "err"
      | env =>
        let raws := match env with | .single r => [r] | .batch rs => rs | .invalid => []
        "ok" ++ String.join (raws.map fun r =>
          let j := parseMember (memberView r)
          " | " ++ hexOfBytes (fixID j.id) ++ " " ++ hexOfBytes j.m ++ " " ++ hexOfBytes j.p ++ " " ++
            (if (parsedFlag j).isEmpty then "ok" else ",".intercalate ((parsedFlag j).eraseDups.map toString)))
    | none => "bad-op"
  | _ => "bad-op"

end Jrpc.Oracle.C02
