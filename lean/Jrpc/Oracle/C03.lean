import Jrpc.Oracle.Util
import Jrpc.Model.Barrier
/-! Oracle for C03: `c03 <ev>…` with ev ::= `a:<uid><n|c>,…` (arrive; `a:` = empty batch) |
`s:<uid>` | `f:<uid>` | `x` (stop) → `accept <states>` | `reject <index of the first refused event>` -/
namespace Jrpc.Oracle.C03
open Jrpc.Oracle Jrpc.Barrier

def parseEv (t : String) : Option Ev :=
  if t == "x" then some .stop
  else match t.splitOn ":" with
    | ["s", u] => u.toNat?.map .start
    | ["f", u] => u.toNat?.map .finish
    | ["a", ms] =>
      if ms == "" then some (.arrive []) else
      (ms.splitOn ",").mapM (fun (m : String) =>
        let cs := m.toList
        let isNote := cs.getLast? == some 'n'
        (String.ofList cs.dropLast).toNat?.map fun u => (u, isNote)) |>.map .arrive
    | _ => none

def go (ss : List St) (i : Nat) : List Ev → String
  | [] => s!"accept {ss.length}"
  | e :: es =>
    let ss' := closure 64 ((closure 64 ss).filterMap (step · e))
    if ss'.isEmpty then s!"reject {i}" else go ss' (i + 1) es

def handle (toks : List String) : String :=
  match toks.mapM parseEv with
  | some evs => go [init] 0 evs
  | none => "bad-op"

end Jrpc.Oracle.C03
