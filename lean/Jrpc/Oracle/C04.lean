import Jrpc.Oracle.Util
import Jrpc.Model.Client
/-! Oracle for C04 / C05: `c04 <ev>…`, ev ::= `a` id allocated | `s:<id,id…>:<1|0>` send | `d:<id>:<payload>` |
`w:<id>` watcher | `x:<cause>` stop | `o:<id>` observe → per `o`: `<id>=<reply:p|ctx|stop|none>`; finally
`| cancel=<ids> pending=<n> next=<id> causes=<list>` -/
namespace Jrpc.Oracle.C04
open Jrpc.Oracle Jrpc.Client

def natList (s : String) : List Nat := if s == "" then [] else (s.splitOn ",").filterMap (·.toNat?)

def handle (toks : List String) : String :=
  let rec go (s : St) (out : List String) : List String → String
    | [] => " ".intercalate out.reverse ++
        s!" | cancel={s.onCancel.reverse} pending={s.pending.length} next={s.nextId} causes={s.stopCauses} sent={s.transmitted.length}"
    | t :: r =>
      match t.splitOn ":" with
      | ["a"] => go (step s .alloc) out r
      | ["s", ids, ok] => go (step s (.send (natList ids) (ok == "1"))) out r
      | ["d", id, p] => go (step s (.deliver (id.toNat?.getD 0) (p.toNat?.getD 0))) out r
      | ["w", id] => go (step s (.ctxDone (id.toNat?.getD 0))) out r
      | ["x", c] => go (step s (.stop (c.toNat?.getD 0))) out r
      | ["o", id] =>
        let v := match result s (id.toNat?.getD 0) with
          | some (.reply p) => s!"reply:{p}" | some .ctxErr => "ctx" | some .stopErr => "stop" | none => "none"
        go s (s!"{id}={v}" :: out) r
      | _ => "bad-op"
  go {} [] toks

end Jrpc.Oracle.C04
