import Jrpc.Oracle.Util
import Jrpc.Model.Sem
import Jrpc.Model.IdTable
/-! Oracles for C06 and C07 (deterministic replay of harness-inferred events).

`c06 <limit> <ev>…`, ev ::= `q:<u>` acquire | `Q:<u>` acquire with a dead context | `a:<u>` abandon |
`s:<u>` handler start (must hold a unit) | `f:<u>` finish → `ok max=<n>` | `reject <i> <why>`

`c07 <ev>…`, ev ::= `A:<uid>.<id>.<k|u>,…` admit | `D:<uid>,…` deliver | `C:<id>` CancelRequest | `X` stop |
`o:<uid>` observe → for each `o`: `<uid>=<live|cancelled>`; at the end `V <uid>=<verdict>…` -/
namespace Jrpc.Oracle.C06
open Jrpc.Oracle

def handleSem (toks : List String) : String :=
  match toks with
  | lim :: evs =>
    match lim.toNat? with
    | none => "bad-op"
    | some limit =>
      let rec go (s : Jrpc.Sem.St) (started : List Nat) (mx : Nat) (i : Nat) : List String → String
        | [] => s!"ok max={mx} waiting={s.waiters.length} holding={s.holding.length}"
        | t :: r =>
          match t.splitOn ":" with
          | [k, us] =>
            match us.toNat? with
            | none => "bad-op"
            | some u =>
              if k == "s" then
                if u ∈ s.holding then go s (u :: started) mx (i + 1) r
                else s!"reject {i} handler-started-without-a-unit"
              else
                let ev := if k == "q" then some (Jrpc.Sem.Ev.acquire u) else if k == "Q" then some (.acquireDead u)
                  else if k == "a" then some (.abandon u) else if k == "f" then some (.finish u) else none
                match ev with
                | none => "bad-op"
                | some ev =>
                  match Jrpc.Sem.step s ev with
                  | none => s!"reject {i} event-not-enabled"
                  | some s' => go s' started (max mx s'.holding.length) (i + 1) r
          | _ => "bad-op"
      go (Jrpc.Sem.init limit) [] 0 0 evs
  | _ => "bad-op"

open Jrpc.IdTable in
def handleIds (toks : List String) : String :=
  let parseCall (t : String) : Option Call :=
    match t.splitOn "." with
    | [u, i, k] => do some ⟨← u.toNat?, ← i.toNat?, k == "k"⟩
    | _ => none
  let rec go (s : St) (out : List String) : List String → String
    | [] =>
      " ".intercalate (out.reverse ++ ["V"] ++ s.verdicts.reverse.map fun (u, v) =>
        s!"{u}=" ++ (match v with | .run => "run" | .duplicate => "dup" | .notFound => "notfound")) ++
        s!" used={s.used.length}"
    | t :: r =>
      if t == "X" then (match step s .stop with | some s' => go s' out r | none => "reject")
      else match t.splitOn ":" with
        | ["A", cs] =>
          (match (if cs == "" then some [] else (cs.splitOn ",").mapM parseCall) with
           | some batch => (match step s (.admitB batch) with | some s' => go s' out r | none => go s out r)
           | none => "bad-op")
        | ["D", us] =>
          (match (if us == "" then some [] else (us.splitOn ",").mapM (·.toNat?)) with
           | some uids => (match step s (.deliver uids) with | some s' => go s' out r | none => "reject")
           | none => "bad-op")
        | ["C", i] => (match i.toNat? with
           | some i => (match step s (.cancelReq i) with | some s' => go s' out r | none => "reject")
           | none => go s out r)   -- a non-numeric id is never reserved: no-op
        | ["o", u] => (match u.toNat? with
           | some u =>
             let c := s.cancelled.any fun (v, k) => v == u && (k == .request || k == .stop)
             go s (s!"{u}={if c then "cancelled" else "live"}" :: out) r
           | none => "bad-op")
        | _ => "bad-op"
  go init [] toks

end Jrpc.Oracle.C06
