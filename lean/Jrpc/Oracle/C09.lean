import Jrpc.Oracle.Util
import Jrpc.Model.Push
/-! Oracle for C09: `c09 <allowPush 0|1> <ev>…`, ev ::= `c:<id>` Callback pushed with this id | `n` Notify |
`C` Callback refused | `cf:<id>` Callback registered with this id, its request lost in transmission | `N` Notify refused | `r:<id>:<payload>` reply-shaped member read | `w:<id>` watcher fired |
`x` stop | `o:<id>` observe → per `o`: `<id>=<reply:p|ctx|none>`; and `c` checks the id is the model's next id -/
namespace Jrpc.Oracle.C09
open Jrpc.Oracle Jrpc.Push

def handle (toks : List String) : String :=
  match toks with
  | a :: evs =>
    let rec go (s : St) (out : List String) (i : Nat) : List String → String
      | [] => " ".intercalate out.reverse ++ s!" | outstanding={s.table.length} sent={s.sent.length}"
      | t :: r =>
        match t.splitOn ":" with
        | ["c", id] =>
          let s' := step s .pushCall
          if s'.sent.head? == some (Out.call (id.toNat?.getD 0)) then go s' out (i + 1) r
          else s!"reject {i} callback-id-or-gate-differs (model next id {s.nextId}, running {s.running})"
        | ["cf", id] =>   -- a callback registered under this id whose request was lost in transmission
          let s' := step s .pushCallLost
          if s'.table.head? == some (id.toNat?.getD 0) && s'.sent.length == s.sent.length then go s' out (i + 1) r
          else s!"reject {i} lost-callback-id-or-gate-differs (model next id {s.nextId}, running {s.running})"
        | ["n"] =>
          let s' := step s .pushNotify
          if s'.sent.head? == some Out.notify && s'.sent.length == s.sent.length + 1 then go s' out (i + 1) r else s!"reject {i} notify-gate-differs"
        | ["C"] => let s' := step s .pushCall; if s'.sent.length == s.sent.length then go s' out (i + 1) r else s!"reject {i} callback-should-have-been-sent"
        | ["N"] => let s' := step s .pushNotify; if s'.sent.length == s.sent.length then go s' out (i + 1) r else s!"reject {i} notify-should-have-been-sent"
        | ["r", id, p] => go (step s (.peerReply (id.toNat?.getD 0) (p.toNat?.getD 0))) out (i + 1) r
        | ["w", id] => go (step s (.ctxDone (id.toNat?.getD 0))) out (i + 1) r
        | ["x"] => go (step s .stop) out (i + 1) r
        | ["o", id] =>
          let v := match result s (id.toNat?.getD 0) with
            | some (.reply p) => s!"reply:{p}" | some .ctxErr => "ctx" | none => "none"
          go s (s!"{id}={v}" :: out) (i + 1) r
        | _ => "bad-op"
    go { allowPush := a == "1" } [] 0 evs
  | _ => "bad-op"

end Jrpc.Oracle.C09
