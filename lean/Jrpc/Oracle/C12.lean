import Jrpc.Oracle.Util
import Jrpc.Model.Framing
/-! Oracle for C11/C12.
`c12 <kind> <n> <hexstream>` → the results of `n` successive Recv calls on that stream
`c11s <kind> <hexmsg>` → `out <hex>` (bytes Send writes) | `refuse`
kind ::= `split:<byte>` | `hdr:<optional 0|1>:<hexmtype>` | `raw` -/
namespace Jrpc.Oracle.C12
open Jrpc.Oracle Jrpc.Framing

def parseKind (s : String) : Option Kind :=
  match s.splitOn ":" with
  | ["split", d] => d.toNat?.map fun n => .split n.toUInt8
  | ["hdr", o, m] => (bytesOfHex m).map fun mt => .hdr ⟨mt, o == "1"⟩
  | ["raw"] => some .raw
  | _ => none

def showErr : RErr → String
  | .eof => "eof" | .unexpectedEOF => "ueof" | .invalidHeaderLine => "badline"
  | .missingLength => "nolen" | .invalidLength => "badlen" | .syntax => "syntax"

def showRes : Res → String
  | .ok d => "K:" ++ hexOfBytes d
  | .okErr d e => "KE:" ++ hexOfBytes d ++ ":" ++ showErr e
  | .mismatch d g => "M:" ++ hexOfBytes d ++ ":" ++ hexOfBytes g
  | .err e => "E:" ++ showErr e

def handle (toks : List String) : String :=
  match toks with
  | [k, n, hex] =>
    match parseKind k, n.toNat?, bytesOfHex hex with
    | some kind, some n, some s => " ".intercalate ((recvN kind n s).map showRes)
    | _, _, _ => "bad-op"
  | _ => "bad-op"

def handleSend (toks : List String) : String :=
  match toks with
  | [k, hex] =>
    match parseKind k, bytesOfHex hex with
    | some (.split d), some m => (match splitSend d m with | some o => "out " ++ hexOfBytes o | none => "refuse")
    | some (.hdr cfg), some m => "out " ++ hexOfBytes (hdrSend cfg m)
    | some .raw, some m => "out " ++ hexOfBytes (rawSend m)
    | _, _ => "bad-op"
  | _ => "bad-op"

end Jrpc.Oracle.C12
