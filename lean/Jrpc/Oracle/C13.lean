import Jrpc.Oracle.Util
import Jrpc.Model.Wire
import Jrpc.Proofs.RoundTrip
/-! Oracle for C13: `c13e <batchflag 0|1> <msg>…` where
msg ::= `<idhex|-> <methodhex|-> <paramshex|-> <resulthex|-> <errcode|-> <errmsghex|-> <errdatahex|->`
→ hex of the bytes `jmessages.toJSON` produces. `-` = absent/empty. -/
namespace Jrpc.Oracle.C13
open Jrpc.Oracle Jrpc.Wire

def opt (s : String) : Option Bytes := if s == "-" then some [] else bytesOfHex s

partial def parseMsgs (b : Bool) : List String → Option (List OutMsg)
  | [] => some []
  | id :: m :: p :: r :: ec :: em :: ed :: rest => do
    let id ← opt id
    let m ← opt m
    let p ← opt p
    let r ← opt r
    let e ← if ec == "-" then some none else do
      let c ← ec.toInt?
      let msg ← opt em
      let d ← opt ed
      some (some (errorJSON c msg d))
    let tl ← parseMsgs b rest
    some ({ id := id, m := m, p := p, r := r, e := e, batch := b } :: tl)
  | _ => none

def handle (toks : List String) : String :=
  match toks with
  | b :: rest =>
    match parseMsgs (b == "1") rest with
    | some ms => hexOfBytes (toJSONs ms)
    | none => "bad-op"
  | _ => "bad-op"

/-- `c13q <marshalledhex|->` → `omit` | `keep` | `refuse` (`-` = Go nil parameters) -/
def handleParams (toks : List String) : String :=
  match toks with
  | ["-"] => "omit"
  | [h] =>
    match bytesOfHex h with
    | some b =>
      match outParams b with
      | .leaveOut => "omit"
      | .keep _ => "keep"
      | .refuse => "refuse"
    | none => "bad-op"
  | _ => "bad-op"

/-- `c13b <hex>` → `1` iff the text meets the hypothesis `partB` of `emit_parse_roundtrip`
(one trimmed JSON value, nesting below the scanner's limit) -/
def handlePart (toks : List String) : String :=
  match toks with
  | [h] =>
    match bytesOfHex h with
    | some b => if partB b then "1" else "0"
    | none => "bad-op"
  | _ => "bad-op"

/-- `c13x <code> <msghex|-> <datahex|->` → `1` iff the hypotheses of `emit_parse_roundtrip_error`
hold of this error object (code text, data, and the whole marshalled text) -/
def handleErrParts (toks : List String) : String :=
  match toks with
  | [c, m, d] =>
    match c.toInt?, opt m, opt d with
    | some code, some msg, some data =>
      let ct := (toString code).toUTF8.toList
      if partB ct && int32Literal ct && (data == [] || partB data) && partB (errorJSON code msg data) then "1" else "0"
    | _, _, _ => "bad-op"
  | _ => "bad-op"

end Jrpc.Oracle.C13
