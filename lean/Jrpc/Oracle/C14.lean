import Jrpc.Oracle.Util
import Jrpc.Model.Errors
/-! Oracle for C14: `c14 <tree>` → `wire <code> <hexmsg> <hexdata|none> client <kind> <code>`;
`c14r <outcome>` for results. Tree grammar (prefix): `J code hexmsg hexdata|none`, `C code hexmsg`,
`X`, `D`, `P hexmsg`, `W hexmsg tree`, `N tree tree`. -/
namespace Jrpc.Oracle.C14
open Jrpc.Oracle Jrpc.Errors

partial def parseTree : List String → Option (Err × List String)
  | "J" :: c :: m :: d :: r => do
    let c ← parseInt? c
    let m ← strOfHex m
    let d ← if d == "none" then some none else (strOfHex d).map some
    some (.jerr c m d, r)
  | "C" :: c :: m :: r => do
    let c ← parseInt? c
    let m ← strOfHex m
    some (.coder c m, r)
  | "X" :: r => some (.canceled, r)
  | "D" :: r => some (.deadline, r)
  | "P" :: m :: r => do some (.plain (← strOfHex m), r)
  | "W" :: m :: r => do
    let m ← strOfHex m
    let (i, r) ← parseTree r
    some (.wrap m i, r)
  | "N" :: r => do
    let (a, r) ← parseTree r
    let (b, r) ← parseTree r
    some (.join a b, r)
  | _ => none

/-- Text of `err.Error()` as the harness builds its values: custom coders return their message,
`%w` wrappers are `msg: inner`, joins are newline-separated. -/
def goText : Err → String
  | .jerr c m _ => s!"[{c}] {m}"
  | .coder _ m => m
  | .canceled => "context canceled"
  | .deadline => "context deadline exceeded"
  | .plain m => m
  | .wrap m i => m ++ ": " ++ goText i
  | .join a b => goText a ++ "\n" ++ goText b

def showClient : Err → String
  | .canceled => "canceled"
  | .deadline => "deadline"
  | .jerr c m d => s!"jerr {c} {hexOfStr m} " ++ (match d with | none => "none" | some d => hexOfStr d)
  | _ => "other"

def handle (toks : List String) : String :=
  match parseTree toks with
  | some (e, []) =>
    let w := toWire e
    -- the model's message is `errText`; the wire text for non-*Error values is Go's Error() text
    let msg := match e with | .jerr _ m _ => m | _ => goText e
    let d := match w.data with | none => "none" | some d => hexOfStr d
    s!"wire {w.code} {hexOfStr msg} {d} client {showClient (fromWire ⟨w.code, msg, w.data⟩)} code {errorCode (some (fromWire w))} hcode {errorCode (some e)}"
  | _ => "bad-op"

end Jrpc.Oracle.C14
