import Jrpc.Oracle.Util
import Jrpc.Model.Handler
/-! Oracle for C15 / C16.
`c15k <isfunc 0|1> <variadic 0|1> <ins|-> <outs|->` (kinds c e r o, concatenated) → `accept <hasArg><argIsReq><hasResult><reportsError>` | `reject`
`c15w <hasArg> <argIsReq> <strictSet> <implStrict> <allowArray> <names hex,hex|-> <hexparams|->` →
   `noparams | callnoarg | callreq | callzero | decode <0|1> <hextext> | invalid`
`c16p <isfunc> <variadic> <ins> <outs> <nnames>` → `accept | reject`
`c16a <targets e.g. 101|-> <hexdata>` → `notarray | wronglength | each <i>:<hex>,…` -/
namespace Jrpc.Oracle.C15
open Jrpc.Oracle Jrpc.Handler

def kinds (s : String) : List TK :=
  if s == "-" then [] else s.toList.filterMap fun c =>
    match c with | 'c' => some TK.ctx | 'e' => some .err | 'r' => some .req | 'o' => some .other | _ => none

def b (s : String) : Bool := s == "1"

def handleCheck (toks : List String) : String :=
  match toks with
  | [f, v, i, o] =>
    match check ⟨b f, kinds i, b v, kinds o⟩ with
    | some inf => s!"accept {if inf.hasArg then 1 else 0}{if inf.argIsReq then 1 else 0}{if inf.hasResult then 1 else 0}{if inf.reportsError then 1 else 0}"
    | none => "reject"
  | _ => "bad-op"

def handleWrap (toks : List String) : String :=
  match toks with
  | [ha, ar, ss, is, aa, names, params] =>
    let ns := if names == "-" then some [] else (names.splitOn ",").mapM bytesOfHex
    match ns, bytesOfHex params with
    | some ns, some p =>
      match wrapAction ⟨b ha, b ar, true, true⟩ ⟨b ss, b is, b aa, ns⟩ p with
      | .noParamsError => "noparams" | .callNoArg => "callnoarg" | .callReq => "callreq" | .callZero => "callzero"
      | .decode s t => s!"decode {if s then 1 else 0} {hexOfBytes t}" | .invalid => "invalid"
    | _, _ => "bad-op"
  | _ => "bad-op"

def handlePositional (toks : List String) : String :=
  match toks with
  | [f, v, i, o, n] => if positionalOK ⟨b f, kinds i, b v, kinds o⟩ (n.toNat?.getD 0) then "accept" else "reject"
  | _ => "bad-op"

def handleArgs (toks : List String) : String :=
  match toks with
  | [t, hex] =>
    match bytesOfHex hex with
    | some d =>
      let targets := if t == "-" then [] else t.toList.map (· == '1')
      match argsUnmarshal targets d with
      | .notArray => "notarray" | .wrongLength => "wronglength"
      | .decodeEach ps => "each " ++ ",".intercalate (ps.map fun (i, v) => s!"{i}:{hexOfBytes v}")
    | none => "bad-op"
  | _ => "bad-op"

end Jrpc.Oracle.C15
