import Jrpc.Oracle.Util
import Jrpc.Model.Dispatch
/-! Oracle for C17.
`c17 <builtin 0|1> <topo> <hexname>` → `builtin` | `notfound` | `h <tag>`
`c17n <topo>` → sorted names (hex, comma separated) of a top-level assigner, or `*`
topo ::= `M(` hex,hex,… `)` | `S(` hex=topo;hex=topo;… `)` | `F` (an assigner that is not a Namer: maps every name to tag `F`) -/
namespace Jrpc.Oracle.C17
open Jrpc.Oracle Jrpc.Dispatch

inductive Topo where
  | map (keys : List Name)
  | svc (entries : List (Name × Topo))
  | fn

def takeHex : List Char → (List Char × List Char)
  | [] => ([], [])
  | c :: r => if (hexVal c).isSome || c == '-' then let (a, b) := takeHex r; (c :: a, b) else ([], c :: r)

def nameOf (cs : List Char) : Option Name := bytesOfHex (String.ofList cs)

mutual
partial def parseTopo : List Char → Option (Topo × List Char)
  | 'F' :: r => some (.fn, r)
  | 'M' :: '(' :: r => parseKeys r []
  | 'S' :: '(' :: r => parseEntries r []
  | _ => none
partial def parseKeys (cs : List Char) (acc : List Name) : Option (Topo × List Char) :=
  match cs with
  | ')' :: r => some (.map acc.reverse, r)
  | ',' :: r => parseKeys r acc
  | _ =>
    let (h, r) := takeHex cs
    if h.isEmpty then none else do
      let n ← nameOf h
      parseKeys r (n :: acc)
partial def parseEntries (cs : List Char) (acc : List (Name × Topo)) : Option (Topo × List Char) :=
  match cs with
  | ')' :: r => some (.svc acc.reverse, r)
  | ';' :: r => parseEntries r acc
  | _ =>
    let (h, r) := takeHex cs
    match r with
    | '=' :: r => do
      let n ← nameOf h
      let (t, r) ← parseTopo r
      parseEntries r ((n, t) :: acc)
    | _ => none
end

/-- the model assigner denoted by a topology; handler tags are `/`-joined hex paths -/
partial def assigner (path : String) : Topo → Assigner String
  | .map keys => mapAssign (keys.map fun k => (k, path ++ hexOfBytes k))
  | .svc es => svcAssign (es.map fun (k, t) => (k, assigner (path ++ hexOfBytes k ++ "/") t))
  | .fn => fun _ => some (path ++ "F")

partial def names : Topo → Option (List Name)
  | .map keys => some (mapNames (keys.map fun k => (k, ())))
  | .svc es => some (svcNames (es.map fun (k, t) => (k, names t)))
  | .fn => none

def handle (toks : List String) : String :=
  match toks with
  | [b, topo, name] =>
    match parseTopo topo.toList, bytesOfHex name with
    | some (t, []), some n =>
      match serverAssign (b == "1") (assigner "" t) n with
      | .builtinInfo => "builtin"
      | .notFound => "notfound"
      | .user h => "h " ++ h
    | _, _ => "bad-op"
  | _ => "bad-op"

def handleNames (toks : List String) : String :=
  match toks with
  | [topo] =>
    match parseTopo topo.toList with
    | some (t, []) =>
      match names t with
      | none => "*"
      | some ns => "names " ++ ",".intercalate (ns.map hexOfBytes)
    | _ => "bad-op"
  | _ => "bad-op"

end Jrpc.Oracle.C17
