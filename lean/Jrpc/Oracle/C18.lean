import Jrpc.Oracle.Util
import Jrpc.Model.Http
import Jrpc.Model.Loop
/-! Oracles for C18, C19, C20.
`c19q <hexvalue>` → `str <hex> | int | float | true | false | null | bytes | lit | err`
`c19c <ev>…` ev ::= `s` send | `r:<n|b|f>` Do returns (204 / body / failure) | `v` recv | `c` close →
   `ok opened=<n> closed=<n> inflight=<n> waiting=<n> refused=<n>` | `reject <i>`
`c18 <m,m,…>` m ::= `i<hexid|->` | `c<hexid>` | `n` → `ids <hex,hex…|-> shape <noContent|single|array>`
`c20 <ev>…` ev ::= `a` | `n:<k>` | `g:<k>:<1|0>` | `x:<k>` | `f:<k>` | `c` | `w:<k>` | `e:<1|0>` | `r` →
   `ok ret=<nil|err|none> services=<…> finishes=<…>` | `reject <i>` -/
namespace Jrpc.Oracle.C18
open Jrpc.Oracle Jrpc.Http

def handleQuery (toks : List String) : String :=
  match toks with
  | [hex] =>
    match bytesOfHex hex with
    | some s =>
      match classify floatFiniteDec s with
      | .str d => "str " ++ hexOfBytes d
      | .int => "int" | .float => "float" | .ctrue => "true" | .cfalse => "false" | .cnull => "null"
      | .bytes64 => "bytes" | .lit => "lit" | .err => "err"
    | none => "bad-op"
  | _ => "bad-op"

def handleChan (toks : List String) : String :=
  let rec go (s : Chan) (i : Nat) : List String → String
    | [] => s!"ok opened={s.opened} closed={s.closedBodies} inflight={s.inflight} waiting={s.waiting.length} refused={s.refused}"
    | t :: r =>
      let ev : Option CEv := match t.splitOn ":" with
        | ["s"] => some .send | ["v"] => some .recv | ["c"] => some .close
        | ["r", "n"] => some (.doReturn .noContent) | ["r", "b"] => some (.doReturn .body) | ["r", "f"] => some (.doReturn .fail)
        | _ => none
      match ev with
      | none => "bad-op"
      | some e => match cstep s e with
        | some s' => go s' (i + 1) r
        | none => s!"reject {i}"
  go {} 0 toks

def parseMember (t : String) : Option Member :=
  match t.toList with
  | 'n' :: [] => some .note
  | 'i' :: r => (if r == ['-'] then some [] else bytesOfHex (String.ofList r)).map .invalid
  | 'c' :: r => (bytesOfHex (String.ofList r)).map .call
  | _ => none

def handleBridge (toks : List String) : String :=
  match toks with
  | [ms] =>
    match (if ms == "-" then some [] else (ms.splitOn ",").mapM parseMember) with
    | some members =>
      let ids := replyIDs members (inboundIDs members).length
      let sh := match shape ids.length with | .noContent => "noContent" | .single => "single" | .array => "array"
      "ids " ++ (if ids.isEmpty then "-" else ",".intercalate (ids.map hexOfBytes)) ++ " shape " ++ sh ++
        s!" specs {(specs members).length}"
    | none => "bad-op"
  | _ => "bad-op"

open Jrpc.Loop in
def handleLoop (toks : List String) : String :=
  let rec go (s : St) (i : Nat) : List String → String
    | [] =>
      let r := match s.returned with | some .nilErr => "nil" | some .err => "err" | none => "none"
      s!"ok ret={r} services={s.conns.map (·.services)} finishes={s.conns.map (·.finishes)} closed={s.conns.map (·.closedByLoop)}"
    | t :: r =>
      let n := fun (x : String) => x.toNat?.getD 0
      let ev : Option Ev := match t.splitOn ":" with
        | ["a"] => some .accept | ["n", k] => some (.svcNew (n k)) | ["g", k, ok] => some (.assigner (n k) (ok == "1"))
        | ["x", k] => some (.srvExit (n k)) | ["f", k] => some (.finish (n k)) | ["c"] => some .ctxCancel
        | ["w", k] => some (.watcherStop (n k)) | ["e", c] => some (.acceptFail (c == "1")) | ["r"] => some .ret
        | _ => none
      match ev with
      | none => "bad-op"
      | some e => match step s e with
        | some s' => go s' (i + 1) r
        | none => s!"reject {i} {t}"
  go {} 0 toks

end Jrpc.Oracle.C18
