/-! Shared helpers of the oracle driver: hex coding and token handling (core Lean only). -/
namespace Jrpc.Oracle

abbrev Bytes := List UInt8

def hexDigit (n : UInt8) : Char :=
  if n < 10 then Char.ofNat (48 + n.toNat) else Char.ofNat (87 + n.toNat)

def hexOfBytes (bs : Bytes) : String :=
  if bs.isEmpty then "-" else
  String.ofList (bs.foldr (fun (b : UInt8) acc => hexDigit (b >>> 4) :: hexDigit (b &&& 15) :: acc) [])

def hexVal (c : Char) : Option UInt8 :=
  if '0' ≤ c ∧ c ≤ '9' then some (c.toNat - 48).toUInt8
  else if 'a' ≤ c ∧ c ≤ 'f' then some (c.toNat - 87).toUInt8
  else if 'A' ≤ c ∧ c ≤ 'F' then some (c.toNat - 55).toUInt8
  else none

def bytesOfHexAux : List Char → Bytes → Option Bytes
  | [], acc => some acc.reverse
  | [_], _ => none
  | a :: b :: r, acc =>
    match hexVal a, hexVal b with
    | some x, some y => bytesOfHexAux r ((x <<< 4 ||| y) :: acc)
    | _, _ => none

/-- `-` denotes the empty byte string. -/
def bytesOfHex (s : String) : Option Bytes :=
  if s == "-" then some [] else bytesOfHexAux s.toList []

def strOfHex (s : String) : Option String :=
  (bytesOfHex s).bind fun bs => String.fromUTF8? (ByteArray.mk bs.toArray)

def hexOfStr (s : String) : String := hexOfBytes s.toUTF8.toList

def tokens (line : String) : List String :=
  (line.splitOn " ").filter (· ≠ "")

def parseInt? (s : String) : Option Int := s.toInt?

end Jrpc.Oracle
