import Jrpc.Model.Framing
/-! Helper lemmas: `atoi (itoa n) = n`. -/
namespace Jrpc.Framing
open Jrpc.Json (Bytes isDigit)

/-- value of a little-endian digit list -/
def valR : Bytes → Nat
  | [] => 0
  | c :: r => (c - 48).toNat + 10 * valR r

def allDigits (bs : Bytes) : Prop := ∀ c ∈ bs, isDigit c = true

theorem digit_byte (k : Nat) (h : k < 10) :
    isDigit (48 + k).toUInt8 = true ∧ ((48 + k).toUInt8 - 48).toNat = k := by
  have : k = 0 ∨ k = 1 ∨ k = 2 ∨ k = 3 ∨ k = 4 ∨ k = 5 ∨ k = 6 ∨ k = 7 ∨ k = 8 ∨ k = 9 := by omega
  rcases this with h | h | h | h | h | h | h | h | h | h <;> subst h <;> decide

theorem revDigits_spec (fuel n : Nat) (h : n < fuel) :
    valR (revDigits fuel n) = n ∧ allDigits (revDigits fuel n) ∧ revDigits fuel n ≠ [] := by
  induction fuel generalizing n with
  | zero => omega
  | succ f ih =>
    have hd := digit_byte (n % 10) (Nat.mod_lt _ (by decide))
    unfold revDigits
    by_cases hz : n / 10 = 0
    · simp only [hz, if_true]
      refine ⟨?_, ?_, by simp⟩
      · simp only [valR, hd.2]; omega
      · intro c hc; simp only [List.mem_singleton] at hc; subst hc; exact hd.1
    · simp only [hz, if_false]
      have hlt : n / 10 < f := by omega
      obtain ⟨h1, h2, _⟩ := ih (n / 10) hlt
      refine ⟨?_, ?_, by simp⟩
      · simp only [valR, hd.2, h1]; omega
      · intro c hc
        simp only [List.mem_cons] at hc
        rcases hc with hc | hc
        · subst hc; exact hd.1
        · exact h2 c hc

theorem valR_append (a b : Bytes) : valR (a ++ b) = valR a + 10 ^ a.length * valR b := by
  induction a with
  | nil => simp [valR]
  | cons c r ih => simp only [List.cons_append, valR, ih, List.length_cons, Nat.pow_succ]; grind

theorem digitsVal_spec (xs : Bytes) (a : Nat) (h : allDigits xs) :
    digitsVal xs a = some (a * 10 ^ xs.length + valR xs.reverse) := by
  induction xs generalizing a with
  | nil => simp [digitsVal, valR]
  | cons c r ih =>
    have hc : isDigit c = true := h c (by simp)
    have hr : allDigits r := fun x hx => h x (by simp [hx])
    simp only [digitsVal, hc, if_true, ih _ hr, List.reverse_cons, valR_append, List.length_reverse,
      List.length_cons, valR, Nat.pow_succ]
    congr 1
    grind

theorem digitsVal_itoa (n : Nat) : digitsVal (itoa n) 0 = some n ∧ itoa n ≠ [] ∧ allDigits (itoa n) := by
  obtain ⟨h1, h2, h3⟩ := revDigits_spec (n + 1) n (by omega)
  unfold itoa
  have had : allDigits (revDigits (n + 1) n).reverse := fun c hc => h2 c (by simpa using hc)
  refine ⟨?_, by simpa using h3, had⟩
  rw [digitsVal_spec _ 0 had]; simp [h1]

/-- `Atoi(Itoa(n)) = n` for every length an `int` can hold -/
theorem atoi_itoa (n : Nat) (h : n ≤ 9223372036854775807) : atoi (itoa n) = some (n : Int) := by
  obtain ⟨h1, h2, h3⟩ := digitsVal_itoa n
  unfold atoi
  cases hi : itoa n with
  | nil => exact absurd hi h2
  | cons c r =>
    have hc : isDigit c = true := h3 c (by simp [hi])
    have h43 : c ≠ 43 := by intro e; subst e; simp [isDigit] at hc
    have h45 : c ≠ 45 := by intro e; subst e; simp [isDigit] at hc
    rw [hi] at h1
    have key : signSplit (c :: r) = (false, c :: r) := by
      unfold signSplit
      split
      · rename_i heq; simp only [List.cons.injEq] at heq; exact absurd heq.1 h43
      · rename_i heq; simp only [List.cons.injEq] at heq; exact absurd heq.1 h45
      · rfl
    simp only [key, h1]
    simp [h]

end Jrpc.Framing
