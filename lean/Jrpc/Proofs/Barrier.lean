import Jrpc.Model.Barrier
/-! Invariant of the queue + barrier machine and its preservation by every event. -/
namespace Jrpc.Barrier

def passed (s : St) : List Mem := s.released ++ s.running ++ s.finished ++ s.done
def batches (s : St) : List (List Mem) := s.parked.toList ++ s.queue
def pending (s : St) : List Mem := (batches s).flatten
def live (s : St) : List Mem := s.released ++ s.running ++ s.finished

structure Inv (s : St) : Prop where
  nbar_eq : s.nbar = countNotes (live s)
  finNotes : ∀ m ∈ s.finished, m.note = true
  sorted : (pending s).Pairwise (fun a b => a.seq ≤ b.seq)
  uniform : ∀ b ∈ batches s, ∀ x ∈ b, ∀ y ∈ b, x.seq = y.seq
  below : ∀ r ∈ passed s, ∀ q ∈ pending s, r.seq ≤ q.seq
  fresh : (∀ m ∈ passed s, m.seq < s.nextSeq) ∧ (∀ m ∈ pending s, m.seq < s.nextSeq)
  notesAre : ∀ n ∈ s.notes, n.note = true
  notesWhere : ∀ n ∈ s.notes, n ∈ passed s ∨ n ∈ pending s
  order : ∀ r ∈ passed s, ∀ n ∈ passed s, n.note = true → n.seq < r.seq → n ∈ s.done

theorem countNotes_append (a b : List Mem) : countNotes (a ++ b) = countNotes a + countNotes b := by
  simp [countNotes, List.filter_append]

theorem countNotes_zero_mem (l : List Mem) (h : countNotes l = 0) (m : Mem) (hm : m ∈ l) : m.note = false := by
  unfold countNotes at h
  have : m ∉ l.filter (·.note) := by
    rw [List.length_eq_zero_iff.mp h]; simp
  simp [List.mem_filter, hm] at this
  simpa using this

theorem countNotes_erase (l : List Mem) (m : Mem) (hm : m ∈ l) :
    countNotes (l.erase m) = if m.note then countNotes l - 1 else countNotes l := by
  unfold countNotes
  induction l with
  | nil => simp at hm
  | cons x r ih =>
    by_cases hx : x = m
    · subst hx
      simp only [List.erase_cons_head]
      by_cases hn : x.note = true <;> simp [List.filter_cons, hn]
    · have hm' : m ∈ r := by
        rcases List.mem_cons.mp hm with e | e
        · exact absurd e.symm hx
        · exact e
      have hb : ¬ (x == m) = true := by simpa using hx
      simp only [List.erase_cons_tail hb]
      by_cases hn : x.note = true
      · simp only [List.filter_cons, hn, if_true, List.length_cons, ih hm']
        by_cases hmn : m.note = true
        · simp only [hmn, if_true]
          have : 0 < (r.filter (·.note)).length := by
            apply List.length_pos_of_mem (a := m)
            simp [List.mem_filter, hm', hmn]
          omega
        · simp [hmn]
      · simp only [List.filter_cons, hn, Bool.false_eq_true, if_false, ih hm']

theorem countNotes_pos (l : List Mem) (m : Mem) (hm : m ∈ l) (hn : m.note = true) : 0 < countNotes l := by
  unfold countNotes
  apply List.length_pos_of_mem (a := m)
  simp [List.mem_filter, hm, hn]

theorem find_mem {l : List Mem} {u : Nat} {m : Mem} (h : l.find? (·.uid = u) = some m) : m ∈ l :=
  List.mem_of_find?_eq_some h

theorem mem_erase_or {l : List Mem} {x m : Mem} (h : x ∈ l) : x ∈ l.erase m ∨ x = m := by
  by_cases e : x = m
  · exact Or.inr e
  · exact Or.inl ((List.mem_erase_of_ne e).mpr h)

theorem inv_init : Inv init := by
  refine ⟨rfl, ?_, ?_, ?_, ?_, ⟨?_, ?_⟩, ?_, ?_, ?_⟩ <;> simp [init, passed, pending, batches, live]


/-! ### preservation -/

theorem inv_arrive (s : St) (ms : List (Nat × Bool)) (h : Inv s) :
    ∀ s', step s (.arrive ms) = some s' → Inv s' := by
  intro s' hs
  simp only [step, Option.some.injEq] at hs
  subst hs
  let b := ms.map fun (p : Nat × Bool) => (⟨p.1, p.2, s.nextSeq⟩ : Mem)
  have hbseq : ∀ x ∈ b, x.seq = s.nextSeq := by
    intro x hx; simp only [b, List.mem_map] at hx; obtain ⟨p, _, rfl⟩ := hx; rfl
  have hpend : pending { s with nextSeq := s.nextSeq + 1, queue := s.queue ++ [b], notes := s.notes ++ b.filter (·.note) }
      = pending s ++ b := by
    simp [pending, batches, List.flatten_append]
  refine ⟨h.nbar_eq, h.finNotes, ?_, ?_, ?_, ⟨?_, ?_⟩, ?_, ?_, h.order⟩
  · rw [hpend, List.pairwise_append]
    refine ⟨h.sorted, ?_, ?_⟩
    · apply List.pairwise_of_forall_mem_list
      intro x hx y hy; rw [hbseq x hx, hbseq y hy]; exact Nat.le_refl _
    · intro x hx y hy
      rw [hbseq y hy]; exact Nat.le_of_lt (h.fresh.2 x hx)
  · intro c hc
    have hbat : batches { s with nextSeq := s.nextSeq + 1, queue := s.queue ++ [b], notes := s.notes ++ b.filter (·.note) }
        = batches s ++ [b] := by simp [batches]
    rw [hbat] at hc
    rcases List.mem_append.mp hc with hc | hc
    · exact h.uniform c hc
    · simp only [List.mem_singleton] at hc
      subst hc; intro x hx y hy; rw [hbseq x hx, hbseq y hy]
  · intro r hr q hq
    rw [hpend] at hq
    rcases List.mem_append.mp hq with hq | hq
    · exact h.below r hr q hq
    · rw [hbseq q hq]; exact Nat.le_of_lt (h.fresh.1 r hr)
  · intro m hm; exact Nat.lt_succ_of_lt (h.fresh.1 m hm)
  · intro m hm
    rw [hpend] at hm
    rcases List.mem_append.mp hm with hm | hm
    · exact Nat.lt_succ_of_lt (h.fresh.2 m hm)
    · rw [hbseq m hm]; exact Nat.lt_succ_self _
  · intro n hn
    rcases List.mem_append.mp hn with hn | hn
    · exact h.notesAre n hn
    · simpa using (List.mem_filter.mp hn).2
  · intro n hn
    rw [hpend]
    rcases List.mem_append.mp hn with hn | hn
    · rcases h.notesWhere n hn with w | w
      · exact Or.inl w
      · exact Or.inr (List.mem_append_left _ w)
    · exact Or.inr (List.mem_append_right _ (List.mem_filter.mp hn).1)

theorem inv_pop (s : St) (h : Inv s) : ∀ s', step s .pop = some s' → Inv s' := by
  intro s' hs
  simp only [step] at hs
  cases hp : s.parked with
  | some x => simp [hp] at hs
  | none =>
    cases hq : s.queue with
    | nil => simp [hp, hq] at hs
    | cons b q =>
      simp only [hp, hq, Option.some.injEq] at hs
      subst hs
      have hb : batches { s with parked := some b, queue := q } = batches s := by
        simp [batches, hp, hq]
      have hpd : pending { s with parked := some b, queue := q } = pending s := by
        simp [pending, hb]
      exact ⟨h.nbar_eq, h.finNotes, by rw [hpd]; exact h.sorted, by rw [hb]; exact h.uniform,
        by intro r hr x hx; rw [hpd] at hx; exact h.below r hr x hx,
        ⟨h.fresh.1, by intro m hm; rw [hpd] at hm; exact h.fresh.2 m hm⟩, h.notesAre,
        by intro n hn; rw [hpd]; exact h.notesWhere n hn, h.order⟩

theorem inv_pass (s : St) (h : Inv s) : ∀ s', step s .pass = some s' → Inv s' := by
  intro s' hs
  simp only [step] at hs
  cases hp : s.parked with
  | none => simp [hp] at hs
  | some b =>
    by_cases hz : s.nbar = 0
    · simp only [hp, hz, if_true, Option.some.injEq] at hs
      subst hs
      have hlive0 : countNotes (live s) = 0 := by rw [← h.nbar_eq]; exact hz
      have hpend : pending s = b ++ s.queue.flatten := by simp [pending, batches, hp]
      have hb_in : ∀ x ∈ b, x ∈ pending s := by intro x hx; rw [hpend]; exact List.mem_append_left _ hx
      have hpassed : ∀ x, x ∈ passed { s with parked := none, nbar := countNotes b, released := s.released ++ b } ↔
          x ∈ passed s ∨ x ∈ b := by
        intro x; simp only [passed, List.mem_append]; grind
      have hpend' : pending { s with parked := none, nbar := countNotes b, released := s.released ++ b } = s.queue.flatten := by
        simp [pending, batches]
      have hsorted := h.sorted
      rw [hpend, List.pairwise_append] at hsorted
      refine ⟨?_, h.finNotes, ?_, ?_, ?_, ⟨?_, ?_⟩, h.notesAre, ?_, ?_⟩
      · show countNotes b = countNotes (s.released ++ b ++ s.running ++ s.finished)
        have : countNotes (s.released ++ s.running ++ s.finished) = 0 := hlive0
        simp only [countNotes_append] at this ⊢
        omega
      · rw [hpend']; exact hsorted.2.1
      · intro c hc
        have hc' : c ∈ s.queue := by simpa [batches] using hc
        exact h.uniform c (by simp [batches, hc'])
      · intro r hr q hq
        rw [hpend'] at hq
        rcases (hpassed r).mp hr with hr | hr
        · exact h.below r hr q (by rw [hpend]; exact List.mem_append_right _ hq)
        · exact hsorted.2.2 r hr q hq
      · intro m hm
        rcases (hpassed m).mp hm with hm | hm
        · exact h.fresh.1 m hm
        · exact h.fresh.2 m (hb_in m hm)
      · intro m hm; rw [hpend'] at hm
        exact h.fresh.2 m (by rw [hpend]; exact List.mem_append_right _ hm)
      · intro n hn
        rcases h.notesWhere n hn with w | w
        · exact Or.inl ((hpassed n).mpr (Or.inl w))
        · rw [hpend] at w
          rcases List.mem_append.mp w with w | w
          · exact Or.inl ((hpassed n).mpr (Or.inr w))
          · exact Or.inr (by rw [hpend']; exact w)
      · intro r hr n hn hnote hlt
        show n ∈ s.done
        rcases (hpassed n).mp hn with hn | hn
        · -- an old notification: the barrier was at zero, so it is done
          simp only [passed, List.mem_append] at hn
          rcases hn with hl | hd
          · have := countNotes_zero_mem (live s) hlive0 n (by simp only [live, List.mem_append]; exact hl)
            rw [hnote] at this; exact absurd this (by decide)
          · exact hd
        · -- a notification of the batch being released: nothing released is strictly later... earlier
          rcases (hpassed r).mp hr with hr | hr
          · have := h.below r hr n (hb_in n hn); omega
          · have := h.uniform b (by simp [batches, hp]) n hn r hr; omega
    · simp [hp, hz] at hs

/-- moving members around inside `passed` (without touching queue, parked, notes) keeps the
order-related clauses, provided nothing leaves `passed` and `done` only grows -/
theorem inv_move (s s' : St) (h : Inv s)
    (hq : s'.queue = s.queue) (hp : s'.parked = s.parked) (hn : s'.nextSeq = s.nextSeq) (hnotes : s'.notes = s.notes)
    (hsub : ∀ x, x ∈ passed s' ↔ x ∈ passed s) (hdone : ∀ x ∈ s.done, x ∈ s'.done)
    (hnbar : s'.nbar = countNotes (live s')) (hfin : ∀ m ∈ s'.finished, m.note = true) : Inv s' := by
  have hb : batches s' = batches s := by simp [batches, hq, hp]
  have hpd : pending s' = pending s := by simp [pending, hb]
  refine ⟨hnbar, hfin, by rw [hpd]; exact h.sorted, by rw [hb]; exact h.uniform, ?_, ⟨?_, ?_⟩, ?_, ?_, ?_⟩
  · intro r hr q hq'; rw [hpd] at hq'; exact h.below r ((hsub r).mp hr) q hq'
  · intro m hm; rw [hn]; exact h.fresh.1 m ((hsub m).mp hm)
  · intro m hm; rw [hn]; rw [hpd] at hm; exact h.fresh.2 m hm
  · rw [hnotes]; exact h.notesAre
  · intro n hn'; rw [hnotes] at hn'; rw [hpd]
    rcases h.notesWhere n hn' with w | w
    · exact Or.inl ((hsub n).mpr w)
    · exact Or.inr w
  · intro r hr n hn' hnote hlt
    exact hdone n (h.order r ((hsub r).mp hr) n ((hsub n).mp hn') hnote hlt)

theorem inv_start (s : St) (u : Nat) (h : Inv s) : ∀ s', step s (.start u) = some s' → Inv s' := by
  intro s' hs
  simp only [step] at hs
  cases hf : s.released.find? (·.uid = u) with
  | none => simp [hf] at hs
  | some m =>
    simp only [hf, Option.some.injEq] at hs
    subst hs
    have hm : m ∈ s.released := find_mem hf
    refine inv_move s _ h ?_ ?_ ?_ ?_ ?_ ?_ ?_ ?_ <;> try rfl
    · intro x
      simp only [passed, List.mem_append, List.mem_cons]
      constructor
      · rintro (((h1 | h1 | h1) | h1) | h1)
        · exact Or.inl (Or.inl (Or.inl (List.mem_of_mem_erase h1)))
        · subst h1; exact Or.inl (Or.inl (Or.inl hm))
        · exact Or.inl (Or.inl (Or.inr h1))
        · exact Or.inl (Or.inr h1)
        · exact Or.inr h1
      · rintro (((h1 | h1) | h1) | h1)
        · rcases mem_erase_or (m := m) h1 with e | e
          · exact Or.inl (Or.inl (Or.inl e))
          · exact Or.inl (Or.inl (Or.inr (Or.inl e)))
        · exact Or.inl (Or.inl (Or.inr (Or.inr h1)))
        · exact Or.inl (Or.inr h1)
        · exact Or.inr h1
    · intro x hx; exact hx
    · show s.nbar = countNotes (s.released.erase m ++ (m :: s.running) ++ s.finished)
      rw [h.nbar_eq]
      simp only [live, countNotes_append, countNotes_erase _ _ hm]
      have hc : countNotes (m :: s.running) = (if m.note then 1 else 0) + countNotes s.running := by
        unfold countNotes; by_cases hn : m.note = true <;> simp [List.filter_cons, hn]; omega
      rw [hc]
      by_cases hn : m.note = true
      · have := countNotes_pos _ _ hm hn
        simp [hn]; omega
      · simp [hn]
    · exact h.finNotes

theorem inv_finish (s : St) (u : Nat) (h : Inv s) : ∀ s', step s (.finish u) = some s' → Inv s' := by
  intro s' hs
  simp only [step] at hs
  cases hf : s.running.find? (·.uid = u) with
  | none => simp [hf] at hs
  | some m =>
    have hm : m ∈ s.running := find_mem hf
    by_cases hn : m.note = true
    · simp only [hf, hn, if_true, Option.some.injEq] at hs
      subst hs
      refine inv_move s _ h ?_ ?_ ?_ ?_ ?_ ?_ ?_ ?_ <;> try rfl
      · intro x
        simp only [passed, List.mem_append, List.mem_cons]
        constructor
        · rintro (((h1 | h1) | h1 | h1) | h1)
          · exact Or.inl (Or.inl (Or.inl h1))
          · exact Or.inl (Or.inl (Or.inr (List.mem_of_mem_erase h1)))
          · subst h1; exact Or.inl (Or.inl (Or.inr hm))
          · exact Or.inl (Or.inr h1)
          · exact Or.inr h1
        · rintro (((h1 | h1) | h1) | h1)
          · exact Or.inl (Or.inl (Or.inl h1))
          · rcases mem_erase_or (m := m) h1 with e | e
            · exact Or.inl (Or.inl (Or.inr e))
            · exact Or.inl (Or.inr (Or.inl e))
          · exact Or.inl (Or.inr (Or.inr h1))
          · exact Or.inr h1
      · intro x hx; exact hx
      · show s.nbar = countNotes (s.released ++ s.running.erase m ++ (m :: s.finished))
        rw [h.nbar_eq]
        simp only [live, countNotes_append, countNotes_erase _ _ hm, hn, if_true]
        have hc : countNotes (m :: s.finished) = 1 + countNotes s.finished := by
          unfold countNotes; simp [List.filter_cons, hn]; omega
        have := countNotes_pos _ _ hm hn
        rw [hc]; omega
      · intro x hx
        rcases List.mem_cons.mp hx with e | e
        · subst e; exact hn
        · exact h.finNotes x e
    · simp only [hf, hn, Bool.false_eq_true, if_false, Option.some.injEq] at hs
      subst hs
      refine inv_move s _ h ?_ ?_ ?_ ?_ ?_ ?_ ?_ ?_ <;> try rfl
      · intro x
        simp only [passed, List.mem_append, List.mem_cons]
        constructor
        · rintro (((h1 | h1) | h1) | h1 | h1)
          · exact Or.inl (Or.inl (Or.inl h1))
          · exact Or.inl (Or.inl (Or.inr (List.mem_of_mem_erase h1)))
          · exact Or.inl (Or.inr h1)
          · subst h1; exact Or.inl (Or.inl (Or.inr hm))
          · exact Or.inr h1
        · rintro (((h1 | h1) | h1) | h1)
          · exact Or.inl (Or.inl (Or.inl h1))
          · rcases mem_erase_or (m := m) h1 with e | e
            · exact Or.inl (Or.inl (Or.inr e))
            · exact Or.inr (Or.inl e)
          · exact Or.inl (Or.inr h1)
          · exact Or.inr (Or.inr h1)
      · intro x hx; exact List.mem_cons_of_mem _ hx
      · show s.nbar = countNotes (s.released ++ s.running.erase m ++ s.finished)
        rw [h.nbar_eq]
        simp [live, countNotes_append, countNotes_erase _ _ hm, hn]
      · exact h.finNotes

theorem inv_signal (s : St) (u : Nat) (h : Inv s) : ∀ s', step s (.signal u) = some s' → Inv s' := by
  intro s' hs
  simp only [step] at hs
  cases hf : s.finished.find? (·.uid = u) with
  | none => simp [hf] at hs
  | some m =>
    simp only [hf, Option.some.injEq] at hs
    subst hs
    have hm : m ∈ s.finished := find_mem hf
    have hn : m.note = true := h.finNotes m hm
    refine inv_move s _ h ?_ ?_ ?_ ?_ ?_ ?_ ?_ ?_ <;> try rfl
    · intro x
      simp only [passed, List.mem_append, List.mem_cons]
      constructor
      · rintro (((h1 | h1) | h1) | h1 | h1)
        · exact Or.inl (Or.inl (Or.inl h1))
        · exact Or.inl (Or.inl (Or.inr h1))
        · exact Or.inl (Or.inr (List.mem_of_mem_erase h1))
        · subst h1; exact Or.inl (Or.inr hm)
        · exact Or.inr h1
      · rintro (((h1 | h1) | h1) | h1)
        · exact Or.inl (Or.inl (Or.inl h1))
        · exact Or.inl (Or.inl (Or.inr h1))
        · rcases mem_erase_or (m := m) h1 with e | e
          · exact Or.inl (Or.inr e)
          · exact Or.inr (Or.inl e)
        · exact Or.inr (Or.inr h1)
    · intro x hx; exact List.mem_cons_of_mem _ hx
    · show s.nbar - 1 = countNotes (s.released ++ s.running ++ s.finished.erase m)
      rw [h.nbar_eq]
      simp only [live, countNotes_append, countNotes_erase _ _ hm, hn, if_true]
      have := countNotes_pos _ _ hm hn
      omega
    · intro x hx; exact h.finNotes x (List.mem_of_mem_erase hx)

theorem inv_stop (s : St) (h : Inv s) : ∀ s', step s .stop = some s' → Inv s' := by
  intro s' hs
  simp only [step, Option.some.injEq] at hs
  subst hs
  have hflat : ((s.queue.flatten.filter (·.note)).map fun m => [m]).flatten = s.queue.flatten.filter (·.note) := by
    induction s.queue.flatten.filter (·.note) with
    | nil => rfl
    | cons a r ih => simp [ih]
  have hpend' : pending { s with queue := (s.queue.flatten.filter (·.note)).map fun m => [m] }
      = s.parked.toList.flatten ++ s.queue.flatten.filter (·.note) := by
    simp only [pending, batches, List.flatten_append, hflat]
  have hpend : pending s = s.parked.toList.flatten ++ s.queue.flatten := by
    simp [pending, batches, List.flatten_append]
  have hsub : ∀ x, x ∈ pending { s with queue := (s.queue.flatten.filter (·.note)).map fun m => [m] } → x ∈ pending s := by
    intro x hx; rw [hpend'] at hx; rw [hpend]
    rcases List.mem_append.mp hx with e | e
    · exact List.mem_append_left _ e
    · exact List.mem_append_right _ (List.mem_filter.mp e).1
  refine ⟨h.nbar_eq, h.finNotes, ?_, ?_, ?_, ⟨h.fresh.1, ?_⟩, h.notesAre, ?_, h.order⟩
  · rw [hpend']
    have := h.sorted
    rw [hpend] at this
    exact this.sublist (List.Sublist.append (List.Sublist.refl _) (List.filter_sublist))
  · intro c hc
    simp only [batches, List.mem_append, List.mem_map] at hc
    rcases hc with hc | ⟨m, _, rfl⟩
    · exact h.uniform c (by simp [batches, hc])
    · intro x hx y hy; simp at hx hy; rw [hx, hy]
  · intro r hr q hq; exact h.below r hr q (hsub q hq)
  · intro m hm; exact h.fresh.2 m (hsub m hm)
  · intro n hn
    rcases h.notesWhere n hn with w | w
    · exact Or.inl w
    · right
      rw [hpend']; rw [hpend] at w
      rcases List.mem_append.mp w with e | e
      · exact List.mem_append_left _ e
      · exact List.mem_append_right _ (List.mem_filter.mpr ⟨e, by simpa using h.notesAre n hn⟩)

theorem inv_step (s : St) (e : Ev) (h : Inv s) : ∀ s', step s e = some s' → Inv s' := by
  cases e with
  | arrive ms => exact inv_arrive s ms h
  | pop => exact inv_pop s h
  | pass => exact inv_pass s h
  | start u => exact inv_start s u h
  | finish u => exact inv_finish s u h
  | signal u => exact inv_signal s u h
  | stop => exact inv_stop s h

theorem inv_run (es : List Ev) (s s' : St) (h : Inv s) (hr : run s es = some s') : Inv s' := by
  induction es generalizing s with
  | nil => simp [run] at hr; subst hr; exact h
  | cons e es ih =>
    simp only [run] at hr
    cases hs : step s e with
    | none => simp [hs] at hr
    | some s1 => simp [hs] at hr; exact ih s1 (inv_step s e h s1 hs) hr

/-! ### progress: live handlers can always finish -/

def mu (s : St) : Nat := 3 * s.released.length + 2 * s.running.length + s.finished.length

theorem find_head (m : Mem) (l : List Mem) : (m :: l).find? (·.uid = m.uid) = some m := by
  simp [List.find?]

/-- one more handler event is always possible while something is live, and it makes progress -/
theorem live_step (s : St) (_hinv : Inv s) (hl : live s ≠ []) :
    ∃ e s', step s e = some s' ∧ mu s' < mu s ∧ s'.parked = s.parked ∧ s'.queue = s.queue := by
  cases hr : s.released with
  | cons m rest =>
    refine ⟨.start m.uid, { s with released := (m :: rest).erase m, running := m :: s.running }, ?_, ?_, rfl, rfl⟩
    · simp [step, hr]
    · simp [mu, hr]; omega
  | nil =>
    cases hrun : s.running with
    | cons m rest =>
      by_cases hn : m.note = true
      · refine ⟨.finish m.uid, { s with running := (m :: rest).erase m, finished := m :: s.finished }, ?_, ?_, rfl, rfl⟩
        · simp [step, hrun, hn]
        · simp [mu, hr, hrun]; omega
      · refine ⟨.finish m.uid, { s with running := (m :: rest).erase m, done := m :: s.done }, ?_, ?_, rfl, rfl⟩
        · simp [step, hrun, hn]
        · simp [mu, hr, hrun]
    | nil =>
      cases hf : s.finished with
      | cons m rest =>
        refine ⟨.signal m.uid, { s with finished := (m :: rest).erase m, nbar := s.nbar - 1, done := m :: s.done }, ?_, ?_, rfl, rfl⟩
        · simp [step, hf]
        · simp [mu, hr, hrun, hf]
      | nil => exact absurd (by simp [live, hr, hrun, hf]) hl

theorem run_append' (s : St) (a b : List Ev) : run s (a ++ b) = (run s a).bind (run · b) := by
  induction a generalizing s with
  | nil => simp [run]
  | cons e es ih =>
    simp only [List.cons_append, run]
    cases h : step s e with
    | none => simp
    | some t => simp [ih]

/-- the handlers that are live can always run to completion, whatever else is pending: there is a
continuation (handler starts, returns, barrier signals only) after which nothing is live -/
theorem drain (n : Nat) : ∀ (s : St), mu s = n → Inv s →
    ∃ es s', run s es = some s' ∧ live s' = [] ∧ s'.parked = s.parked ∧ s'.queue = s.queue ∧ Inv s' := by
  induction n using Nat.strongRecOn with
  | _ n ih =>
    intro s hn hinv
    by_cases hl : live s = []
    · exact ⟨[], s, rfl, hl, rfl, rfl, hinv⟩
    · obtain ⟨e, s1, hstep, hlt, hp, hq⟩ := live_step s hinv hl
      have hinv1 : Inv s1 := inv_step s e hinv s1 hstep
      obtain ⟨es, s2, hrun, hl2, hp2, hq2, hinv2⟩ := ih (mu s1) (by omega) s1 rfl hinv1
      refine ⟨e :: es, s2, ?_, hl2, by rw [hp2, hp], by rw [hq2, hq], hinv2⟩
      simp [run, hstep, hrun]

end Jrpc.Barrier
