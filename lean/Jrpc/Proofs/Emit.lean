import Jrpc.Model.Wire
/-! Helper lemmas for `emit_parse_roundtrip`: the scanner automaton run on a value nested one level
deep mirrors its run on the value alone (`run_lift`), hence the member splitter cuts an emitted
object text exactly at the delimiters the encoder wrote. -/
namespace Jrpc.Json

/-- scanner states inside a string literal -/
def strQ (q : Q) : Bool :=
  match q with
  | .inString | .inStringEsc | .escU | .escU1 | .escU12 | .escU123 => true
  | _ => false

/-- at top level and outside a string, the scanner rejects `,` and `:` -/
theorem top_no_delim (q : Q) (hq : strQ q = false) :
    step ⟨q, []⟩ 44 = none ∧ step ⟨q, []⟩ 58 = none := by
  cases q <;> first | (exact absurd hq (by decide)) | decide

def liftQ (q : Q) : Q := if q = .endTop then .endValue else q

/-- the state one level deep that corresponds to a state of the stand-alone run -/
def lift (fr : Frame) (s : S) : S := ⟨liftQ s.q, s.st ++ [fr]⟩

theorem pop_lift (fr : Frame) (x : Frame) (r : List Frame) :
    pop ((x :: r) ++ [fr]) = lift fr (pop (x :: r)) := by
  cases r with
  | nil => rfl
  | cons y r' => rfl

theorem endValue_lift (fr : Frame) (st : List Frame) (c : UInt8) (s' : S)
    (h : endValue st c = some s') : endValue (st ++ [fr]) c = some (lift fr s') := by
  cases st with
  | nil =>
    simp only [endValue] at h
    by_cases hs : isSpace c = true
    · simp only [hs, if_true, Option.some.injEq] at h; subst h
      simp [endValue, hs, lift, liftQ]
    · simp [hs] at h
  | cons x r =>
    simp only [endValue, List.cons_append] at h ⊢
    by_cases hs : isSpace c = true
    · simp only [hs, if_true, Option.some.injEq] at h ⊢; subst h; simp [lift, liftQ]
    · simp only [hs, Bool.false_eq_true, if_false] at h ⊢
      cases x with
      | objKey =>
        simp only at h ⊢
        split at h
        · simp only [Option.some.injEq] at h; subst h; simp [*, lift, liftQ]
        · simp at h
      | objVal =>
        simp only at h ⊢
        split at h
        · simp only [Option.some.injEq] at h; subst h; simp [*, lift, liftQ]
        · split at h
          · simp only [Option.some.injEq] at h; subst h
            simp only [*, if_true]
            exact congrArg some (pop_lift fr .objVal r)
          · simp at h
      | arr =>
        simp only at h ⊢
        split at h
        · simp only [Option.some.injEq] at h; subst h; simp [*, lift, liftQ]
        · split at h
          · simp only [Option.some.injEq] at h; subst h
            simp only [*, if_true]
            exact congrArg some (pop_lift fr .arr r)
          · simp at h

theorem push_lift (fr x : Frame) (st : List Frame) (q : Q) (hq : q ≠ .endTop)
    (hd : st.length + 2 ≤ maxNestingDepth) :
    push x (st ++ [fr]) q = some (lift fr ⟨q, x :: st⟩) := by
  have : st.length + 1 + 1 ≤ maxNestingDepth := by omega
  simp [push, this, lift, liftQ, hq]

theorem push_some (x : Frame) (st : List Frame) (q : Q) (s' : S) (h : push x st q = some s') :
    s' = ⟨q, x :: st⟩ := by
  unfold push at h; split at h
  · simpa using h.symm
  · simp at h

theorem beginValue_lift (fr : Frame) (st : List Frame) (c : UInt8) (s' : S)
    (hd : st.length + 2 ≤ maxNestingDepth)
    (h : beginValue st c = some s') : beginValue (st ++ [fr]) c = some (lift fr s') := by
  unfold beginValue at h ⊢
  repeat' split at h
  all_goals first
    | (injection h with h; subst h; simp [*, lift, liftQ]; done)
    | (have := push_some _ _ _ _ h; subst this; simp only [*, if_true, if_false, Bool.false_eq_true]
       exact push_lift fr _ st _ (by decide) hd)
    | (simp at h; done)

theorem beginString_lift (fr : Frame) (st : List Frame) (c : UInt8) (s' : S)
    (h : beginString st c = some s') : beginString (st ++ [fr]) c = some (lift fr s') := by
  unfold beginString at h ⊢
  repeat' split at h
  all_goals first
    | (injection h with h; subst h; simp [*, lift, liftQ]; done)
    | (simp at h; done)

theorem lit_lift (fr : Frame) (st : List Frame) (c w : UInt8) (nx : Q) (s' : S) (hn : nx ≠ .endTop)
    (h : lit st c w nx = some s') : lit (st ++ [fr]) c w nx = some (lift fr s') := by
  unfold lit at h ⊢
  split at h
  · injection h with h; subst h; simp [*, lift, liftQ, hn]
  · simp at h

/-- **one step one level deep mirrors the stand-alone step** -/
theorem step_lift (fr : Frame) (s s' : S) (b : UInt8) (hd : s.st.length + 2 ≤ maxNestingDepth)
    (h : step s b = some s') : step (lift fr s) b = some (lift fr s') := by
  obtain ⟨q, st⟩ := s
  simp only at hd
  cases q
  case endTop =>
    simp only [lift, liftQ, if_true]
    simp only [step] at h ⊢
    split at h
    · injection h with h; subst h
      cases st <;> simp [endValue, *, lift, liftQ]
    · simp at h
  case beginStringOrEmpty =>
    simp only [lift, liftQ, reduceCtorEq, if_false]
    simp only [step] at h ⊢
    split at h
    · injection h with h; subst h; simp [*, lift, liftQ]
    · split at h
      · cases st with
        | nil => simp at h
        | cons x r =>
          simp only [*, if_true, if_false, List.cons_append]
          exact endValue_lift fr (.objVal :: r) b s' h
      · simp only [*, if_true, if_false]; exact beginString_lift fr st b s' h
  all_goals
    simp only [lift, liftQ, reduceCtorEq, if_false]
    simp only [step] at h ⊢
    repeat' split at h
    all_goals first
      | (injection h with h; subst h; simp [*, lift, liftQ]; done)
      | ((try simp only [*, if_true, if_false, Bool.false_eq_true])
         first
          | exact endValue_lift fr st b s' h
          | exact beginValue_lift fr st b s' hd h
          | exact beginString_lift fr st b s' h
          | exact lit_lift fr st b _ _ s' (by decide) h)
      | (simp at h; done)

/-- the value being scanned never nests deeper than the scanner allows one level further in -/
def depthOK (s : S) : Bytes → Bool
  | [] => true
  | b :: r => decide (s.st.length + 2 ≤ maxNestingDepth) &&
    (match step s b with
     | some s' => depthOK s' r
     | none => true)

theorem run_lift (fr : Frame) (s s' : S) (v : Bytes) (h : run s v = some s') (hd : depthOK s v = true) :
    run (lift fr s) v = some (lift fr s') := by
  induction v generalizing s with
  | nil => simp [run] at h ⊢; rw [h]
  | cons b r ih =>
    simp only [run] at h ⊢
    cases hs : step s b with
    | none => simp [hs] at h
    | some t =>
      simp only [hs, Option.bind_some] at h
      simp only [depthOK, hs, Bool.and_eq_true, decide_eq_true_eq] at hd
      rw [step_lift fr s t b hd.1 hs]
      exact ih t h hd.2

/-- `cutStep` with the string-state test named -/
theorem cutStep_def (c : Cut) (b : UInt8) :
    cutStep c b =
      match step c.s b with
      | none => none
      | some s' =>
        let d := c.s.st.length
        let d' := s'.st.length
        let isDelim := d == 1 && (b == 44 || b == 58) && !strQ c.s.q
        let isClose := d == 1 && d' == 0
        let isOpen := d == 0 && d' == 1
        if isOpen then some { c with s := s' }
        else if isDelim || isClose then
          let fin := if c.started then (c.cur.dropWhile isSpace).reverse :: c.out else c.out
          some { s := s', cur := [], started := false, out := fin }
        else if !c.started && isSpace b then some { c with s := s' }
        else some { c with s := s', cur := b :: c.cur, started := true } := by
  obtain ⟨⟨q, st⟩, cur, started, out⟩ := c
  cases q <;> rfl

theorem strQ_liftQ (q : Q) : strQ (liftQ q) = strQ q := by cases q <;> rfl

/-- inside a value one level deep nothing is cut: the byte joins the current piece -/
theorem cutStep_inner (fr : Frame) (s s' : S) (b : UInt8) (cur : Bytes) (out : List Bytes)
    (h : step s b = some s') (hd : s.st.length + 2 ≤ maxNestingDepth) :
    cutStep ⟨lift fr s, cur, true, out⟩ b = some ⟨lift fr s', b :: cur, true, out⟩ := by
  rw [cutStep_def]
  simp only [step_lift fr s s' b hd h]
  have hlen : (lift fr s).st.length = s.st.length + 1 := by simp [lift]
  have hlen' : (lift fr s').st.length = s'.st.length + 1 := by simp [lift]
  have hdelim : ((lift fr s).st.length == 1 && (b == 44 || b == 58) && !strQ (lift fr s).q) = false := by
    rw [hlen]
    show (_ && _ && !strQ (liftQ s.q)) = false
    rw [strQ_liftQ]
    cases hq : strQ s.q with
    | true => simp
    | false =>
      cases hst : s.st with
      | cons x r => simp
      | nil =>
        have hs : s = ⟨s.q, []⟩ := by cases s; simp_all
        have := top_no_delim s.q hq
        by_cases h44 : b = 44
        · subst h44; rw [hs, this.1] at h; simp at h
        · by_cases h58 : b = 58
          · subst h58; rw [hs, this.2] at h; simp at h
          · simp [h44, h58]
  simp only [hdelim]
  simp [hlen, hlen']

theorem cutRun_inner (fr : Frame) (s s' : S) (v cur : Bytes) (out : List Bytes)
    (h : run s v = some s') (hd : depthOK s v = true) :
    cutRun ⟨lift fr s, cur, true, out⟩ v = some ⟨lift fr s', v.reverse ++ cur, true, out⟩ := by
  induction v generalizing s cur with
  | nil => simp [run] at h; simp [cutRun, h]
  | cons b r ih =>
    simp only [run] at h
    cases hs : step s b with
    | none => simp [hs] at h
    | some t =>
      simp only [hs, Option.bind_some] at h
      simp only [depthOK, hs, Bool.and_eq_true, decide_eq_true_eq] at hd
      simp only [cutRun, cutStep_inner fr s t b cur out hs hd.1, Option.bind_some]
      rw [ih t (b :: cur) h hd.2]
      simp

end Jrpc.Json
