import Jrpc.Model.Wire
/-! Helper lemmas for `emit_parse_roundtrip`: the scanner automaton run on a value nested one level
deep mirrors its run on the value alone (`run_lift`), hence the member splitter cuts an emitted
object text exactly at the delimiters the encoder wrote. -/
namespace Jrpc.Json

/-- scanner states inside a string literal -/
def strQ (q : Q) : Bool :=
  match q with
  | .inString | .inStringEsc | .escU | .escU1 | .escU12 | .escU123 => true
  | _ => false

/-- at top level and outside a string, the scanner rejects `,` and `:` -/
theorem top_no_delim (q : Q) (hq : strQ q = false) :
    step ⟨q, []⟩ 44 = none ∧ step ⟨q, []⟩ 58 = none := by
  cases q <;> first | (exact absurd hq (by decide)) | decide

def liftQ (q : Q) : Q := if q = .endTop then .endValue else q

/-- the state one level deep that corresponds to a state of the stand-alone run -/
def lift (fr : Frame) (s : S) : S := ⟨liftQ s.q, s.st ++ [fr]⟩

theorem pop_lift (fr : Frame) (x : Frame) (r : List Frame) :
    pop ((x :: r) ++ [fr]) = lift fr (pop (x :: r)) := by
  cases r with
  | nil => rfl
  | cons y r' => rfl

theorem endValue_lift (fr : Frame) (st : List Frame) (c : UInt8) (s' : S)
    (h : endValue st c = some s') : endValue (st ++ [fr]) c = some (lift fr s') := by
  cases st with
  | nil =>
    simp only [endValue] at h
    by_cases hs : isSpace c = true
    · simp only [hs, if_true, Option.some.injEq] at h; subst h
      simp [endValue, hs, lift, liftQ]
    · simp [hs] at h
  | cons x r =>
    simp only [endValue, List.cons_append] at h ⊢
    by_cases hs : isSpace c = true
    · simp only [hs, if_true, Option.some.injEq] at h ⊢; subst h; simp [lift, liftQ]
    · simp only [hs, Bool.false_eq_true, if_false] at h ⊢
      cases x with
      | objKey =>
        simp only at h ⊢
        split at h
        · simp only [Option.some.injEq] at h; subst h; simp [*, lift, liftQ]
        · simp at h
      | objVal =>
        simp only at h ⊢
        split at h
        · simp only [Option.some.injEq] at h; subst h; simp [*, lift, liftQ]
        · split at h
          · simp only [Option.some.injEq] at h; subst h
            simp only [*, if_true]
            exact congrArg some (pop_lift fr .objVal r)
          · simp at h
      | arr =>
        simp only at h ⊢
        split at h
        · simp only [Option.some.injEq] at h; subst h; simp [*, lift, liftQ]
        · split at h
          · simp only [Option.some.injEq] at h; subst h
            simp only [*, if_true]
            exact congrArg some (pop_lift fr .arr r)
          · simp at h

theorem push_lift (fr x : Frame) (st : List Frame) (q : Q) (hq : q ≠ .endTop)
    (hd : st.length + 2 ≤ maxNestingDepth) :
    push x (st ++ [fr]) q = some (lift fr ⟨q, x :: st⟩) := by
  have : st.length + 1 + 1 ≤ maxNestingDepth := by omega
  simp [push, this, lift, liftQ, hq]

theorem push_some (x : Frame) (st : List Frame) (q : Q) (s' : S) (h : push x st q = some s') :
    s' = ⟨q, x :: st⟩ := by
  unfold push at h; split at h
  · simpa using h.symm
  · simp at h

theorem beginValue_lift (fr : Frame) (st : List Frame) (c : UInt8) (s' : S)
    (hd : st.length + 2 ≤ maxNestingDepth)
    (h : beginValue st c = some s') : beginValue (st ++ [fr]) c = some (lift fr s') := by
  unfold beginValue at h ⊢
  repeat' split at h
  all_goals first
    | (injection h with h; subst h; simp [*, lift, liftQ]; done)
    | (have := push_some _ _ _ _ h; subst this; simp only [*, if_true, if_false, Bool.false_eq_true]
       exact push_lift fr _ st _ (by decide) hd)
    | (simp at h; done)

theorem beginString_lift (fr : Frame) (st : List Frame) (c : UInt8) (s' : S)
    (h : beginString st c = some s') : beginString (st ++ [fr]) c = some (lift fr s') := by
  unfold beginString at h ⊢
  repeat' split at h
  all_goals first
    | (injection h with h; subst h; simp [*, lift, liftQ]; done)
    | (simp at h; done)

theorem lit_lift (fr : Frame) (st : List Frame) (c w : UInt8) (nx : Q) (s' : S) (hn : nx ≠ .endTop)
    (h : lit st c w nx = some s') : lit (st ++ [fr]) c w nx = some (lift fr s') := by
  unfold lit at h ⊢
  split at h
  · injection h with h; subst h; simp [*, lift, liftQ, hn]
  · simp at h

/-- **one step one level deep mirrors the stand-alone step** -/
theorem step_lift (fr : Frame) (s s' : S) (b : UInt8) (hd : s.st.length + 2 ≤ maxNestingDepth)
    (h : step s b = some s') : step (lift fr s) b = some (lift fr s') := by
  obtain ⟨q, st⟩ := s
  simp only at hd
  cases q
  case endTop =>
    simp only [lift, liftQ, if_true]
    simp only [step] at h ⊢
    split at h
    · injection h with h; subst h
      cases st <;> simp [endValue, *, lift, liftQ]
    · simp at h
  case beginStringOrEmpty =>
    simp only [lift, liftQ, reduceCtorEq, if_false]
    simp only [step] at h ⊢
    split at h
    · injection h with h; subst h; simp [*, lift, liftQ]
    · split at h
      · cases st with
        | nil => simp at h
        | cons x r =>
          simp only [*, if_true, if_false, List.cons_append]
          exact endValue_lift fr (.objVal :: r) b s' h
      · simp only [*, if_true, if_false]; exact beginString_lift fr st b s' h
  all_goals
    simp only [lift, liftQ, reduceCtorEq, if_false]
    simp only [step] at h ⊢
    repeat' split at h
    all_goals first
      | (injection h with h; subst h; simp [*, lift, liftQ]; done)
      | ((try simp only [*, if_true, if_false, Bool.false_eq_true])
         first
          | exact endValue_lift fr st b s' h
          | exact beginValue_lift fr st b s' hd h
          | exact beginString_lift fr st b s' h
          | exact lit_lift fr st b _ _ s' (by decide) h)
      | (simp at h; done)

/-- the value being scanned never nests deeper than the scanner allows one level further in -/
def depthOK (s : S) : Bytes → Bool
  | [] => true
  | b :: r => decide (s.st.length + 2 ≤ maxNestingDepth) &&
    (match step s b with
     | some s' => depthOK s' r
     | none => true)

theorem run_lift (fr : Frame) (s s' : S) (v : Bytes) (h : run s v = some s') (hd : depthOK s v = true) :
    run (lift fr s) v = some (lift fr s') := by
  induction v generalizing s with
  | nil => simp [run] at h ⊢; rw [h]
  | cons b r ih =>
    simp only [run] at h ⊢
    cases hs : step s b with
    | none => simp [hs] at h
    | some t =>
      simp only [hs, Option.bind_some] at h
      simp only [depthOK, hs, Bool.and_eq_true, decide_eq_true_eq] at hd
      rw [step_lift fr s t b hd.1 hs]
      exact ih t h hd.2

/-- `cutStep` with the string-state test named -/
theorem cutStep_def (c : Cut) (b : UInt8) :
    cutStep c b =
      match step c.s b with
      | none => none
      | some s' =>
        let d := c.s.st.length
        let d' := s'.st.length
        let isDelim := d == 1 && (b == 44 || b == 58) && !strQ c.s.q
        let isClose := d == 1 && d' == 0
        let isOpen := d == 0 && d' == 1
        if isOpen then some { c with s := s' }
        else if isDelim || isClose then
          let fin := if c.started then (c.cur.dropWhile isSpace).reverse :: c.out else c.out
          some { s := s', cur := [], started := false, out := fin }
        else if !c.started && isSpace b then some { c with s := s' }
        else some { c with s := s', cur := b :: c.cur, started := true } := by
  obtain ⟨⟨q, st⟩, cur, started, out⟩ := c
  cases q <;> rfl

theorem strQ_liftQ (q : Q) : strQ (liftQ q) = strQ q := by cases q <;> rfl

/-- inside a value one level deep nothing is cut: the byte joins the current piece (a blank before
the piece has started is skipped instead, which is excluded here) -/
theorem cutStep_inner' (fr : Frame) (s s' : S) (b : UInt8) (cur : Bytes) (out : List Bytes) (started : Bool)
    (h : step s b = some s') (hd : s.st.length + 2 ≤ maxNestingDepth)
    (hs : started = true ∨ isSpace b = false) :
    cutStep ⟨lift fr s, cur, started, out⟩ b = some ⟨lift fr s', b :: cur, true, out⟩ := by
  rw [cutStep_def]
  simp only [step_lift fr s s' b hd h]
  have hlen : (lift fr s).st.length = s.st.length + 1 := by simp [lift]
  have hlen' : (lift fr s').st.length = s'.st.length + 1 := by simp [lift]
  have hdelim : ((lift fr s).st.length == 1 && (b == 44 || b == 58) && !strQ (lift fr s).q) = false := by
    rw [hlen]
    show (_ && _ && !strQ (liftQ s.q)) = false
    rw [strQ_liftQ]
    cases hq : strQ s.q with
    | true => simp
    | false =>
      cases hst : s.st with
      | cons x r => simp
      | nil =>
        have hse : s = ⟨s.q, []⟩ := by cases s; simp_all
        have := top_no_delim s.q hq
        by_cases h44 : b = 44
        · subst h44; rw [hse, this.1] at h; simp at h
        · by_cases h58 : b = 58
          · subst h58; rw [hse, this.2] at h; simp at h
          · simp [h44, h58]
  simp only [hdelim]
  rcases hs with hs | hs <;> simp [hlen, hlen', hs]

theorem cutStep_inner (fr : Frame) (s s' : S) (b : UInt8) (cur : Bytes) (out : List Bytes)
    (h : step s b = some s') (hd : s.st.length + 2 ≤ maxNestingDepth) :
    cutStep ⟨lift fr s, cur, true, out⟩ b = some ⟨lift fr s', b :: cur, true, out⟩ :=
  cutStep_inner' fr s s' b cur out true h hd (Or.inl rfl)

theorem cutRun_inner (fr : Frame) (s s' : S) (v cur : Bytes) (out : List Bytes)
    (h : run s v = some s') (hd : depthOK s v = true) :
    cutRun ⟨lift fr s, cur, true, out⟩ v = some ⟨lift fr s', v.reverse ++ cur, true, out⟩ := by
  induction v generalizing s cur with
  | nil => simp [run] at h; simp [cutRun, h]
  | cons b r ih =>
    simp only [run] at h
    cases hs : step s b with
    | none => simp [hs] at h
    | some t =>
      simp only [hs, Option.bind_some] at h
      simp only [depthOK, hs, Bool.and_eq_true, decide_eq_true_eq] at hd
      simp only [cutRun, cutStep_inner fr s t b cur out hs hd.1, Option.bind_some]
      rw [ih t (b :: cur) h hd.2]
      simp

/-- states in which a value one level deep is complete, so that the next `,` `:` `}` `]` acts as the
end of that value -/
def endQ (q : Q) : Bool :=
  match q with
  | .endValue | .num1 | .num0 | .dot0 | .e0 => true
  | _ => false

theorem endQ_step (q : Q) (fr : Frame) (c : UInt8) (hq : endQ q = true)
    (hc : c = 44 ∨ c = 58 ∨ c = 125 ∨ c = 93) : step ⟨q, [fr]⟩ c = endValue [fr] c := by
  rcases hc with h | h | h | h <;> subst h <;> cases q <;> first | (exact absurd hq (by decide)) | rfl

theorem endQ_not_str (q : Q) (hq : endQ q = true) : strQ q = false := by
  cases q <;> first | (exact absurd hq (by decide)) | rfl

/-- a stand-alone run that is complete (`atEnd`) corresponds, one level deep, to an end state on
the bare frame -/
theorem atEnd_lift (fr : Frame) (s : S) (h : atEnd s = true) (hinv : s.q = .endTop → s.st = []) :
    (lift fr s).st = [fr] ∧ endQ (lift fr s).q = true := by
  obtain ⟨q, st⟩ := s
  have key : st = [] ∧ endQ (liftQ q) = true := by
    have h1 : isHex 32 = false := by decide
    have h2 : isDigit 32 = false := by decide
    have h3 : isSpace 32 = true := by decide
    cases q <;> simp only [atEnd, step] at h <;>
      first
        | (exact ⟨hinv rfl, by decide⟩)
        | (cases st <;> simp_all [endValue, lit, beginValue, beginString, push, endQ, liftQ])
  exact ⟨by simp [lift, key.1], key.2⟩

def TopInv (s : S) : Prop := s.q = .endTop → s.st = []

theorem pop_inv (st : List Frame) : TopInv (pop st) := by
  unfold TopInv
  match st with
  | [] => intro _; rfl
  | [_] => intro _; rfl
  | _ :: _ :: _ => intro h; simp [pop] at h

theorem endValue_inv (st : List Frame) (c : UInt8) (s' : S) (h : endValue st c = some s') : TopInv s' := by
  unfold endValue at h
  repeat' split at h
  all_goals first
    | (injection h with h; subst h; first | exact pop_inv _ | (intro hq; first | rfl | (simp at hq)))
    | (simp at h; done)

theorem step_inv (s s' : S) (b : UInt8) (h : step s b = some s') (hi : TopInv s) : TopInv s' := by
  obtain ⟨q, st⟩ := s
  cases q
  all_goals
    simp only [step] at h
    repeat' split at h
    all_goals first
      | (injection h with h; subst h; first | exact hi | (intro hq; simp at hq))
      | exact endValue_inv _ _ _ h
      | (unfold beginValue at h; repeat' split at h
         all_goals first
           | (injection h with h; subst h; intro hq; simp at hq)
           | (have := push_some _ _ _ _ h; subst this; intro hq; simp at hq)
           | (simp at h; done))
      | (unfold beginString at h; repeat' split at h
         all_goals first
           | (injection h with h; subst h; intro hq; simp at hq)
           | (simp at h; done))
      | (unfold lit at h; split at h
         · injection h with h; subst h; intro hq; simp at hq
         · simp at h)
      | (simp at h; done)

theorem run_inv (s s' : S) (v : Bytes) (h : run s v = some s') (hi : TopInv s) : TopInv s' := by
  induction v generalizing s with
  | nil => simp [run] at h; subst h; exact hi
  | cons b r ih =>
    simp only [run] at h
    cases hs : step s b with
    | none => simp [hs] at h
    | some t => simp only [hs, Option.bind_some] at h; exact ih t h (step_inv s t b hs hi)

theorem cutRun_append (c : Cut) (a b : Bytes) : cutRun c (a ++ b) = (cutRun c a).bind (cutRun · b) := by
  induction a generalizing c with
  | nil => simp [cutRun]
  | cons x xs ih =>
    simp only [List.cons_append, cutRun]
    cases h : cutStep c x with
    | none => simp
    | some c' => simp [ih]

/-- `v` is cut as ONE piece when it stands as a value directly inside an object or array: scanned
from the value position under any frame, no delimiter is seen inside it, the whole text joins the
current piece, and the scanner ends ready for the container's next delimiter -/
def CutsAsValue (v : Bytes) : Prop :=
  ∀ (fr : Frame) (out : List Bytes), ∃ s1 : S,
    cutRun ⟨⟨.beginValue, [fr]⟩, [], false, out⟩ v = some ⟨s1, v.reverse, true, out⟩ ∧
    s1.st = [fr] ∧ endQ s1.q = true

/-- an executable description of "one trimmed JSON value that nests less deep than the scanner's
limit minus one" -/
structure Tok (v : Bytes) : Prop where
  first : ∃ b r, v = b :: r ∧ isSpace b = false
  runs : ∃ s1, run start v = some s1 ∧ atEnd s1 = true
  depth : depthOK start v = true

theorem tok_cuts (v : Bytes) (h : Tok v) : CutsAsValue v := by
  intro fr out
  obtain ⟨b, r, hv, hb⟩ := h.first
  obtain ⟨s1, hrun, hend⟩ := h.runs
  subst hv
  simp only [run] at hrun
  cases hs : step start b with
  | none => simp [hs] at hrun
  | some t =>
    simp only [hs, Option.bind_some] at hrun
    have hd := h.depth
    simp only [depthOK, hs, Bool.and_eq_true, decide_eq_true_eq] at hd
    have h1 := cutStep_inner' fr start t b [] out false hs hd.1 (Or.inr hb)
    have h2 := cutRun_inner fr t s1 r [b] out hrun hd.2
    have hinv : TopInv s1 := run_inv t s1 r hrun (step_inv start t b hs (by intro hq; rfl))
    obtain ⟨e1, e2⟩ := atEnd_lift fr s1 hend hinv
    refine ⟨lift fr s1, ?_, e1, e2⟩
    have hl : lift fr start = ⟨.beginValue, [fr]⟩ := rfl
    rw [hl] at h1
    simp only [cutRun, h1, Option.bind_some, h2]
    simp

/-- a word that the cutter, inside a string literal one level deep, swallows whole and that leaves
the scanner inside the string -/
def StrWord (w : Bytes) : Prop :=
  ∀ (fr : Frame) (cur : Bytes) (out : List Bytes),
    cutRun ⟨⟨.inString, [fr]⟩, cur, true, out⟩ w = some ⟨⟨.inString, [fr]⟩, w.reverse ++ cur, true, out⟩

theorem strWord_nil : StrWord [] := by intro fr cur out; simp [cutRun]

theorem strWord_append {a b : Bytes} (ha : StrWord a) (hb : StrWord b) : StrWord (a ++ b) := by
  intro fr cur out
  rw [cutRun_append, ha fr cur out]
  simp only [Option.bind_some]
  rw [hb fr (a.reverse ++ cur) out]
  simp

theorem cutStep_str (q q' : Q) (fr : Frame) (b : UInt8) (cur : Bytes) (out : List Bytes)
    (hq : strQ q = true) (h : step ⟨q, [fr]⟩ b = some ⟨q', [fr]⟩) :
    cutStep ⟨⟨q, [fr]⟩, cur, true, out⟩ b = some ⟨⟨q', [fr]⟩, b :: cur, true, out⟩ := by
  rw [cutStep_def]
  simp [h, hq]

theorem isHex_hexDigitByte (n : Nat) (h : n < 16) : isHex (hexDigitByte n) = true := by
  revert n; decide

theorem strWord_plain (c : UInt8) (h1 : c ≠ 34) (h2 : c ≠ 92) (h3 : ¬ c < 32) : StrWord [c] := by
  intro fr cur out
  have hs : step ⟨.inString, [fr]⟩ c = some ⟨.inString, [fr]⟩ := by
    simp [step, h1, h2, h3]
  simp [cutRun, cutStep_str .inString .inString fr c cur out rfl hs]

theorem strWord_esc2 (c : UInt8) (hc : c = 98 ∨ c = 102 ∨ c = 110 ∨ c = 114 ∨ c = 116 ∨ c = 92 ∨ c = 47 ∨ c = 34) :
    StrWord [92, c] := by
  intro fr cur out
  have s1 : step ⟨.inString, [fr]⟩ 92 = some ⟨.inStringEsc, [fr]⟩ := rfl
  have s2 : step ⟨.inStringEsc, [fr]⟩ c = some ⟨.inString, [fr]⟩ := by
    rcases hc with h | h | h | h | h | h | h | h <;> subst h <;> rfl
  simp [cutRun, cutStep_str .inString .inStringEsc fr 92 cur out rfl s1,
    cutStep_str .inStringEsc .inString fr c (92 :: cur) out rfl s2]

theorem strWord_u (a b c d : UInt8) (ha : isHex a = true) (hb : isHex b = true) (hc : isHex c = true) (hd : isHex d = true) :
    StrWord [92, 117, a, b, c, d] := by
  intro fr cur out
  have s1 : step ⟨.inString, [fr]⟩ 92 = some ⟨.inStringEsc, [fr]⟩ := rfl
  have s2 : step ⟨.inStringEsc, [fr]⟩ 117 = some ⟨.escU, [fr]⟩ := rfl
  have s3 : step ⟨.escU, [fr]⟩ a = some ⟨.escU1, [fr]⟩ := by simp [step, ha]
  have s4 : step ⟨.escU1, [fr]⟩ b = some ⟨.escU12, [fr]⟩ := by simp [step, hb]
  have s5 : step ⟨.escU12, [fr]⟩ c = some ⟨.escU123, [fr]⟩ := by simp [step, hc]
  have s6 : step ⟨.escU123, [fr]⟩ d = some ⟨.inString, [fr]⟩ := by simp [step, hd]
  simp [cutRun, cutStep_str _ _ fr 92 cur out rfl s1, cutStep_str _ _ fr 117 _ out rfl s2,
    cutStep_str _ _ fr a _ out rfl s3, cutStep_str _ _ fr b _ out rfl s4,
    cutStep_str _ _ fr c _ out rfl s5, cutStep_str _ _ fr d _ out rfl s6]

theorem strWord_escByte (c : UInt8) : StrWord (escByte c) := by
  unfold escByte
  split
  · exact strWord_esc2 34 (by simp)
  split
  · exact strWord_esc2 92 (by simp)
  split
  · exact strWord_esc2 98 (by simp)
  split
  · exact strWord_esc2 102 (by simp)
  split
  · exact strWord_esc2 110 (by simp)
  split
  · exact strWord_esc2 114 (by simp)
  split
  · exact strWord_esc2 116 (by simp)
  split
  · have hlt : c.toNat < 256 := c.toNat_lt
    exact strWord_u 48 48 _ _ (by decide) (by decide)
      (isHex_hexDigitByte _ (by omega)) (isHex_hexDigitByte _ (by omega))
  · rename_i h34 h92 _ _ _ _ _ hlast
    simp only [Bool.or_eq_true, decide_eq_true_eq, beq_iff_eq, not_or] at hlast
    exact strWord_plain c (by simpa using h34) (by simpa using h92) hlast.1.1.1

theorem strWord_quoteBody (x : Bytes) : StrWord (quoteBody x) := by
  induction x using quoteBody.induct with
  | case1 r ih =>
    rw [quoteBody]
    exact strWord_append (strWord_u 50 48 50 56 (by decide) (by decide) (by decide) (by decide)) ih
  | case2 r ih =>
    rw [quoteBody]
    exact strWord_append (strWord_u 50 48 50 57 (by decide) (by decide) (by decide) (by decide)) ih
  | case3 c r h1 h2 ih =>
    rw [quoteBody]
    · exact strWord_append (strWord_escByte c) ih
    · exact h1
    · exact h2
  | case4 => rw [quoteBody]; exact strWord_nil

/-- a string literal produced by `quote` is cut as one piece, from a value or a key position -/
theorem quote_cuts_from (x : Bytes) (q0 : Q) (hq0 : q0 = .beginValue ∨ q0 = .beginString ∨ q0 = .beginStringOrEmpty)
    (fr : Frame) (out : List Bytes) :
    cutRun ⟨⟨q0, [fr]⟩, [], false, out⟩ (quote x) = some ⟨⟨.endValue, [fr]⟩, (quote x).reverse, true, out⟩ := by
  unfold quote
  have h0 : cutStep ⟨⟨q0, [fr]⟩, [], false, out⟩ 34 = some ⟨⟨.inString, [fr]⟩, [34], true, out⟩ := by
    rcases hq0 with h | h | h <;> subst h <;> (rw [cutStep_def]; rfl)
  have hlast : ∀ cur, cutStep ⟨⟨.inString, [fr]⟩, cur, true, out⟩ 34 = some ⟨⟨.endValue, [fr]⟩, 34 :: cur, true, out⟩ :=
    fun cur => cutStep_str .inString .endValue fr 34 cur out rfl rfl
  simp only [cutRun, h0, Option.bind_some, cutRun_append, strWord_quoteBody x fr [34] out, hlast]
  simp

theorem quote_cuts (x : Bytes) : CutsAsValue (quote x) := by
  intro fr out
  exact ⟨⟨.endValue, [fr]⟩, quote_cuts_from x .beginValue (Or.inl rfl) fr out, rfl, rfl⟩

/-- the piece is finished by the container's next delimiter -/
theorem cutStep_colon (q : Q) (cur : Bytes) (out : List Bytes) (hq : endQ q = true) :
    cutStep ⟨⟨q, [.objKey]⟩, cur, true, out⟩ 58 =
      some ⟨⟨.beginValue, [.objVal]⟩, [], false, (cur.dropWhile isSpace).reverse :: out⟩ := by
  rw [cutStep_def]
  simp only [endQ_step q .objKey 58 hq (by simp)]
  simp [endValue, isSpace, endQ_not_str q hq]

theorem cutStep_comma (q : Q) (cur : Bytes) (out : List Bytes) (hq : endQ q = true) :
    cutStep ⟨⟨q, [.objVal]⟩, cur, true, out⟩ 44 =
      some ⟨⟨.beginString, [.objKey]⟩, [], false, (cur.dropWhile isSpace).reverse :: out⟩ := by
  rw [cutStep_def]
  simp only [endQ_step q .objVal 44 hq (by simp)]
  simp [endValue, isSpace, endQ_not_str q hq]

theorem cutStep_close (q : Q) (cur : Bytes) (out : List Bytes) (hq : endQ q = true) :
    cutStep ⟨⟨q, [.objVal]⟩, cur, true, out⟩ 125 =
      some ⟨⟨.endTop, []⟩, [], false, (cur.dropWhile isSpace).reverse :: out⟩ := by
  rw [cutStep_def]
  simp only [endQ_step q .objVal 125 hq (by simp)]
  simp [endValue, isSpace, pop]

/-- the text between the braces of an object with these (key text, value text) members -/
def objBody : List (Bytes × Bytes) → Bytes
  | [] => []
  | [(k, v)] => k ++ 58 :: v
  | (k, v) :: r => k ++ 58 :: v ++ 44 :: objBody r

def objText (kvs : List (Bytes × Bytes)) : Bytes := 123 :: objBody kvs ++ [125]

def flatPairs : List (Bytes × Bytes) → List Bytes
  | [] => []
  | (k, v) :: r => k :: v :: flatPairs r

/-- what the encoder guarantees of a member: the key is a quoted string, the value is cut as one
piece and carries no trailing blank -/
structure GoodMember (kv : Bytes × Bytes) : Prop where
  key : ∃ x, kv.1 = quote x
  val : CutsAsValue kv.2
  trimR : kv.2.reverse.dropWhile isSpace = kv.2.reverse

theorem quote_trimR (x : Bytes) : (quote x).reverse.dropWhile isSpace = (quote x).reverse := by
  unfold quote
  simp [List.dropWhile, isSpace]

theorem cut_member (k v : Bytes) (h : GoodMember (k, v)) (q0 : Q)
    (hq0 : q0 = .beginValue ∨ q0 = .beginString ∨ q0 = .beginStringOrEmpty) (out : List Bytes) :
    ∃ s1 : S, cutRun ⟨⟨q0, [.objKey]⟩, [], false, out⟩ (k ++ 58 :: v) = some ⟨s1, v.reverse, true, k :: out⟩ ∧
      s1.st = [.objVal] ∧ endQ s1.q = true := by
  obtain ⟨x, hx⟩ := h.key
  simp only at hx
  subst hx
  obtain ⟨s1, hc, hst, hq⟩ := h.val .objVal (quote x :: out)
  refine ⟨s1, ?_, hst, hq⟩
  rw [cutRun_append, quote_cuts_from x q0 hq0 .objKey out]
  simp only [Option.bind_some, cutRun, cutStep_colon .endValue _ out rfl, quote_trimR, List.reverse_reverse]
  exact hc

theorem cut_objBody (kvs : List (Bytes × Bytes)) (hne : kvs ≠ []) (h : ∀ kv ∈ kvs, GoodMember kv) :
    ∀ (q0 : Q), (q0 = .beginValue ∨ q0 = .beginString ∨ q0 = .beginStringOrEmpty) → ∀ (out : List Bytes),
      cutRun ⟨⟨q0, [.objKey]⟩, [], false, out⟩ (objBody kvs ++ [125]) =
        some ⟨⟨.endTop, []⟩, [], false, (flatPairs kvs).reverse ++ out⟩ := by
  induction kvs with
  | nil => exact absurd rfl hne
  | cons kv rest ih =>
    intro q0 hq0 out
    obtain ⟨k, v⟩ := kv
    have hm : GoodMember (k, v) := h (k, v) (by simp)
    obtain ⟨s1, hc, hst, hq⟩ := cut_member k v hm q0 hq0 out
    have hs1 : s1 = ⟨s1.q, [.objVal]⟩ := by cases s1; simp_all
    cases rest with
    | nil =>
      simp only [objBody, flatPairs]
      rw [cutRun_append, hc]
      simp only [Option.bind_some, cutRun]
      rw [hs1, cutStep_close s1.q _ _ hq, hm.trimR]
      simp
    | cons kv2 rest2 =>
      have hrest : ∀ kv ∈ kv2 :: rest2, GoodMember kv := fun kv hkv => h kv (by simp [hkv])
      have ih' := ih (by simp) hrest .beginString (Or.inr (Or.inl rfl)) (v :: k :: out)
      simp only [objBody, flatPairs]
      have e : k ++ 58 :: v ++ 44 :: objBody (kv2 :: rest2) ++ [125] =
          (k ++ 58 :: v) ++ (44 :: (objBody (kv2 :: rest2) ++ [125])) := by simp
      rw [e, cutRun_append, hc]
      simp only [Option.bind_some, cutRun]
      rw [hs1, cutStep_comma s1.q _ _ hq, hm.trimR]
      simp only [Option.bind_some, List.reverse_reverse]
      rw [ih']
      simp [flatPairs]

theorem cutStep_state' (c : Cut) (b : UInt8) : (cutStep c b).map (·.s) = step c.s b := by
  unfold cutStep
  cases h : step c.s b with
  | none => rfl
  | some s' =>
    simp only
    repeat' split
    all_goals rfl

theorem cutRun_state (c c' : Cut) (bs : Bytes) (h : cutRun c bs = some c') : run c.s bs = some c'.s := by
  induction bs generalizing c with
  | nil => simp [cutRun] at h; subst h; rfl
  | cons b r ih =>
    simp only [cutRun] at h
    have hs := cutStep_state' c b
    cases hc : cutStep c b with
    | none => simp [hc] at h
    | some c1 =>
      rw [hc] at hs h
      simp only [Option.map_some, Option.bind_some] at hs h
      simp only [run, ← hs, Option.bind_some]
      exact ih c1 h

theorem pairUp_flatPairs (kvs : List (Bytes × Bytes)) : pairUp (flatPairs kvs) = some kvs := by
  induction kvs with
  | nil => rfl
  | cons kv r ih => obtain ⟨k, v⟩ := kv; simp [flatPairs, pairUp, ih]

/-- **the member splitter recovers exactly the members the encoder wrote** -/
theorem members_objText (kvs : List (Bytes × Bytes)) (hne : kvs ≠ []) (h : ∀ kv ∈ kvs, GoodMember kv) :
    members (objText kvs) = some kvs := by
  have h0 : cutStep ⟨start, [], false, []⟩ 123 = some ⟨⟨.beginStringOrEmpty, [.objKey]⟩, [], false, []⟩ := by
    rw [cutStep_def]; rfl
  have hcut : cutRun ⟨start, [], false, []⟩ (objText kvs) = some ⟨⟨.endTop, []⟩, [], false, (flatPairs kvs).reverse⟩ := by
    unfold objText
    simp only [List.cons_append, cutRun, h0, Option.bind_some]
    have := cut_objBody kvs hne h .beginStringOrEmpty (Or.inr (Or.inr rfl)) []
    simpa using this
  have hrun := cutRun_state _ _ _ hcut
  have hvalid : valid (objText kvs) = true := by
    unfold valid
    simp only at hrun
    rw [hrun]; rfl
  have hfb : firstByte (objText kvs) = 123 := by
    unfold objText firstByte trimLeft
    simp [List.dropWhile, isAsciiSpace]
  unfold members pieces
  simp [hfb, hvalid, hcut, pairUp_flatPairs]

end Jrpc.Json
