import Jrpc.Proofs.Atoi
/-! Helper lemmas for the header framing round trip. -/
namespace Jrpc.Framing
open Jrpc.Json (Bytes isDigit isAsciiSpace trimSpace trimLeft trimRight)

/-- a byte string survives `TrimSpace` when its first and last bytes are not blank -/
def Trimmed (x : Bytes) : Prop :=
  (∀ c, x.head? = some c → isAsciiSpace c = false) ∧ (∀ c, x.getLast? = some c → isAsciiSpace c = false)

theorem dropWhile_head_false (p : UInt8 → Bool) (x : Bytes) (h : ∀ c, x.head? = some c → p c = false) :
    x.dropWhile p = x := by
  cases x with
  | nil => rfl
  | cons c r => simp [List.dropWhile_cons, h c rfl]

theorem trimSpace_id (x : Bytes) (h : Trimmed x) : trimSpace x = x := by
  unfold trimSpace trimRight trimLeft
  rw [dropWhile_head_false _ x h.1]
  have : x.reverse.dropWhile isAsciiSpace = x.reverse := by
    apply dropWhile_head_false
    intro c hc
    apply h.2
    rw [List.getLast?_eq_head?_reverse]; exact hc
  rw [this]; simp

theorem trimSpace_space_cons (x : Bytes) (h : Trimmed x) : trimSpace (32 :: x) = x := by
  have : trimLeft (32 :: x) = trimLeft x := by
    unfold trimLeft; simp [List.dropWhile_cons, isAsciiSpace]
  have h2 := trimSpace_id x h
  unfold trimSpace at *
  rw [this]; exact h2

theorem digits_trimmed (x : Bytes) (h : allDigits x) : Trimmed x := by
  have nd : ∀ c, isDigit c = true → isAsciiSpace c = false := by
    intro c hc
    simp only [isDigit, Bool.and_eq_true, decide_eq_true_eq] at hc
    simp only [isAsciiSpace, Bool.or_eq_false_iff, beq_eq_false_iff_ne, ne_eq]
    obtain ⟨h1, h2⟩ := hc
    refine ⟨⟨⟨⟨⟨?_, ?_⟩, ?_⟩, ?_⟩, ?_⟩, ?_⟩ <;> (intro e; subst e; revert h1; decide)
  constructor
  · intro c hc
    cases x with
    | nil => simp at hc
    | cons a r => simp at hc; subst hc; exact nd _ (h _ (by simp))
  · intro c hc
    exact nd _ (h _ (List.mem_of_getLast? hc))

theorem readLine_line' (l rest : Bytes) (h : (10 : UInt8) ∉ l) :
    readLine (l ++ 10 :: rest) = (l ++ [10], rest, true) := by
  induction l with
  | nil => simp [readLine]
  | cons b r ih =>
    have hb : b ≠ 10 := by intro e; simp [e] at h
    have hr : (10 : UInt8) ∉ r := by intro e; simp [e] at h
    simp [readLine, hb, ih hr]

theorem trimCRLF_crlf' (l : Bytes) (h : ∀ c, l.getLast? = some c → c ≠ 13 ∧ c ≠ 10) :
    trimCRLF (l ++ [13, 10]) = l := by
  unfold trimCRLF
  simp only [List.reverse_append, List.reverse_cons, List.reverse_nil, List.nil_append,
    List.cons_append, List.dropWhile_cons]
  simp
  cases hl : l.reverse with
  | nil => simp [List.reverse_eq_nil_iff.mp hl]
  | cons c cs =>
    have : l.getLast? = some c := by
      rw [List.getLast?_eq_head?_reverse, hl]; rfl
    obtain ⟨h1, h2⟩ := h c this
    simp [h1, h2]
    have := congrArg List.reverse hl
    simpa using this.symm


/-- one well-formed header line `key: value\r\n` is consumed by one iteration of the loop -/
theorem hdrLoop_line (f : Nat) (l rest ct cl k v : Bytes)
    (hnl : (10 : UInt8) ∉ l) (hne : l ≠ [])
    (hlast : ∀ c, l.getLast? = some c → c ≠ 13 ∧ c ≠ 10)
    (hsplit : splitColon l = some (k, v)) :
    hdrLoop (f + 1) (l ++ 13 :: 10 :: rest) ct cl =
      (if toLower k = fieldType then hdrLoop f rest (trimSpace v) cl
       else if toLower k = fieldLength then hdrLoop f rest ct (trimSpace v)
       else hdrLoop f rest ct cl) := by
  have h1 : (10 : UInt8) ∉ l ++ [13] := by simp [hnl]
  have hrl : readLine (l ++ 13 :: 10 :: rest) = (l ++ [13, 10], rest, true) := by
    have := Jrpc.Framing.readLine_line' (l ++ [13]) rest h1
    simpa using this
  conv => lhs; unfold hdrLoop
  simp only [hrl]
  have htrim : trimCRLF (l ++ [13, 10]) = l := trimCRLF_crlf' l hlast
  simp [htrim, hne, hsplit]

end Jrpc.Framing

namespace Jrpc.Framing
open Jrpc.Json (Bytes isDigit isAsciiSpace trimSpace trimLeft trimRight)

theorem hdrLoop_blank (f : Nat) (rest ct cl : Bytes) :
    hdrLoop (f + 1) (13 :: 10 :: rest) ct cl = .ok (ct, cl, rest) := by
  conv => lhs; unfold hdrLoop
  have : readLine (13 :: 10 :: rest) = ([13, 10], rest, true) := by simp [readLine]
  simp only [this]
  have h2 : trimCRLF [13, 10] = [] := by decide
  simp [h2]

/-- a mime type the sender can use: non-empty, no newline, no blank at either end -/
structure GoodMime (mt : Bytes) : Prop where
  ne : mt ≠ []
  nonl : (10 : UInt8) ∉ mt
  trimmed : Trimmed mt

theorem splitColon_ctype (mt : Bytes) :
    splitColon (contentTypeLit ++ mt) = some ([67, 111, 110, 116, 101, 110, 116, 45, 84, 121, 112, 101], 32 :: mt) := by
  simp [contentTypeLit, splitColon]

theorem splitColon_clen (x : Bytes) :
    splitColon (contentLengthLit ++ x) =
      some ([67, 111, 110, 116, 101, 110, 116, 45, 76, 101, 110, 103, 116, 104], 32 :: x) := by
  simp [contentLengthLit, splitColon]

theorem last_of_append_ne (a b : Bytes) (hb : b ≠ []) (c : UInt8) (h : (a ++ b).getLast? = some c) :
    b.getLast? = some c := by
  rw [List.getLast?_append] at h
  cases hb' : b.getLast? with
  | none => exact absurd (List.getLast?_eq_none_iff.mp hb') hb
  | some x => rw [hb'] at h; simpa using h

theorem space_not_crlf (c : UInt8) (h : isAsciiSpace c = false) : c ≠ 13 ∧ c ≠ 10 := by
  constructor <;> (intro e; subst e; simp [isAsciiSpace] at h)

/-- the length line of the sender is consumed and yields the decimal text of the length -/
theorem hdrLoop_lenline (f n : Nat) (rest ct cl : Bytes) :
    hdrLoop (f + 1) (contentLengthLit ++ itoa n ++ 13 :: 10 :: rest) ct cl = hdrLoop f rest ct (itoa n) := by
  obtain ⟨_, hne, hall⟩ := digitsVal_itoa n
  have htr := digits_trimmed _ hall
  have hnl : (10 : UInt8) ∉ contentLengthLit ++ itoa n := by
    simp only [List.mem_append, not_or]
    refine ⟨by decide, ?_⟩
    intro h; have := hall _ h; simp [isDigit] at this
  have hlast : ∀ c, (contentLengthLit ++ itoa n).getLast? = some c → c ≠ 13 ∧ c ≠ 10 := by
    intro c hc
    exact space_not_crlf c (htr.2 c (last_of_append_ne _ _ hne c hc))
  rw [hdrLoop_line f (contentLengthLit ++ itoa n) rest ct cl _ _ hnl (by simp [contentLengthLit]) hlast
    (splitColon_clen (itoa n))]
  have k2 : toLower [67, 111, 110, 116, 101, 110, 116, 45, 76, 101, 110, 103, 116, 104] = fieldLength := by decide
  have k3 : fieldLength ≠ fieldType := by decide
  simp only [k2, k3, if_true, if_false]
  rw [trimSpace_space_cons _ htr]

theorem hdrLoop_typeline (f : Nat) (mt rest ct cl : Bytes) (hm : GoodMime mt) :
    hdrLoop (f + 1) (contentTypeLit ++ mt ++ 13 :: 10 :: rest) ct cl = hdrLoop f rest mt cl := by
  have hnl : (10 : UInt8) ∉ contentTypeLit ++ mt := by
    simp only [List.mem_append, not_or]; exact ⟨by decide, hm.nonl⟩
  have hlast : ∀ c, (contentTypeLit ++ mt).getLast? = some c → c ≠ 13 ∧ c ≠ 10 := by
    intro c hc
    exact space_not_crlf c (hm.trimmed.2 c (last_of_append_ne _ _ hm.ne c hc))
  rw [hdrLoop_line f (contentTypeLit ++ mt) rest ct cl _ _ hnl (by simp [contentTypeLit]) hlast
    (splitColon_ctype mt)]
  have k1 : toLower [67, 111, 110, 116, 101, 110, 116, 45, 84, 121, 112, 101] = fieldType := by decide
  simp only [k1, if_true]
  rw [trimSpace_space_cons _ hm.trimmed]

/-- the header block of one sent message, whatever follows it -/
theorem hdrLoop_send (cfg : HdrCfg) (f : Nat) (body : Bytes) (n : Nat)
    (hm : cfg.mtype = [] ∨ GoodMime cfg.mtype) :
    hdrLoop (f + 3)
      ((if cfg.mtype = [] then [] else contentTypeLit ++ cfg.mtype ++ crlf) ++
        contentLengthLit ++ itoa n ++ crlf ++ crlf ++ body) [] [] =
      .ok (cfg.mtype, itoa n, body) := by
  rcases hm with hm | hm
  · simp only [hm, if_true, List.nil_append, crlf, List.append_assoc, List.cons_append]
    have := hdrLoop_lenline (f + 2) n (13 :: 10 :: body) [] []
    simp only [List.append_assoc] at this
    show hdrLoop (f + 2 + 1) _ _ _ = _
    rw [this]
    exact hdrLoop_blank (f + 1) body [] (itoa n)
  · simp only [hm.ne, if_false, crlf, List.append_assoc, List.cons_append, List.nil_append]
    have h1 := hdrLoop_typeline (f + 2) cfg.mtype
      (contentLengthLit ++ (itoa n ++ 13 :: 10 :: 13 :: 10 :: body)) [] [] hm
    simp only [List.append_assoc] at h1
    show hdrLoop (f + 2 + 1) _ _ _ = _
    rw [h1]
    have h2 := hdrLoop_lenline (f + 1) n (13 :: 10 :: body) cfg.mtype []
    simp only [List.append_assoc] at h2
    show hdrLoop (f + 1 + 1) _ _ _ = _
    rw [h2]
    exact hdrLoop_blank f body cfg.mtype (itoa n)

theorem hdrBody_exact (msg rest : Bytes) : hdrBody msg.length (msg ++ rest) = (.ok msg, rest) := by
  unfold hdrBody; simp

/-- **one framed message followed by anything is received intact**, for every payload (any bytes,
any length an `int` can hold, including 0) under StrictHeader / Header / LSP with equal types -/
theorem hdr_recv_send (cfg : HdrCfg) (msg rest : Bytes)
    (hm : cfg.mtype = [] ∨ GoodMime cfg.mtype) (hlen : msg.length ≤ 9223372036854775807) :
    hdrRecv' cfg (hdrSend cfg msg ++ rest) = (.ok msg, rest) := by
  have hl : ∃ f, (hdrSend cfg msg ++ rest).length + 1 = f + 3 := by
    refine ⟨(hdrSend cfg msg ++ rest).length - 2, ?_⟩
    have : (hdrSend cfg msg ++ rest).length ≥ 4 := by
      unfold hdrSend; simp [contentLengthLit, crlf]; omega
    omega
  obtain ⟨f, hf⟩ := hl
  have hloop : hdrLoop ((hdrSend cfg msg ++ rest).length + 1) (hdrSend cfg msg ++ rest) [] [] =
      .ok (cfg.mtype, itoa msg.length, msg ++ rest) := by
    rw [hf]
    have := hdrLoop_send cfg f (msg ++ rest) msg.length hm
    unfold hdrSend
    simpa [List.append_assoc] using this
  obtain ⟨_, hne, _⟩ := digitsVal_itoa msg.length
  have hrecv : hdrRecv cfg (hdrSend cfg msg ++ rest) = (.ok msg, rest) := by
    unfold hdrRecv
    rw [hloop]
    simp only [hne, if_false, atoi_itoa _ hlen]
    have : ¬ ((msg.length : Int) < 0) := by omega
    simp only [this, if_false, Int.toNat_natCast, hdrBody_exact, if_true]
  unfold hdrRecv'
  rw [hrecv]

end Jrpc.Framing
