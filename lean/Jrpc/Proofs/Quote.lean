import Jrpc.Model.Json
/-! Helper lemmas: decoding a string literal that `quote` (the model of `json.Marshal` on a Go
string) produced gives the string back, for every byte string. -/
namespace Jrpc.Json

theorem hexv_hexDigitByte (n : Nat) (h : n < 16) : hexv (hexDigitByte n) = n ∧ isHex (hexDigitByte n) = true := by
  revert n; decide

theorem hex4_lit (a b c d : UInt8) (r : Bytes) (ha : isHex a = true) (hb : isHex b = true) (hc : isHex c = true) (hd : isHex d = true) :
    hex4 (a :: b :: c :: d :: r) = some (hexv a * 4096 + hexv b * 256 + hexv c * 16 + hexv d, r) := by
  simp [hex4, ha, hb, hc, hd]

theorem utf8_small (c : UInt8) (h : c.toNat < 128) : utf8 c.toNat = [c] := by
  unfold utf8
  simp [h]

/-- one escaped byte is decoded back -/
theorem unquoteBody_escByte (c : UInt8) (fuel : Nat) (rest : Bytes) :
    unquoteBody (fuel + 1) (escByte c ++ rest) = (unquoteBody fuel rest).map (c :: ·) := by
  unfold escByte
  split
  · rename_i h; have : c = 34 := by simpa using h
    subst this; simp [unquoteBody]
  split
  · rename_i h; have : c = 92 := by simpa using h
    subst this; simp [unquoteBody]
  split
  · rename_i h; have : c = 8 := by simpa using h
    subst this; simp [unquoteBody]
  split
  · rename_i h; have : c = 12 := by simpa using h
    subst this; simp [unquoteBody]
  split
  · rename_i h; have : c = 10 := by simpa using h
    subst this; simp [unquoteBody]
  split
  · rename_i h; have : c = 13 := by simpa using h
    subst this; simp [unquoteBody]
  split
  · rename_i h; have : c = 9 := by simpa using h
    subst this; simp [unquoteBody]
  split
  · rename_i hsmall
    have hlt : c.toNat < 128 := by
      simp only [Bool.or_eq_true, decide_eq_true_eq, beq_iff_eq] at hsmall
      rcases hsmall with ((h | h) | h) | h
      · have := UInt8.lt_iff_toNat_lt.mp h; simp at this; omega
      · subst h; decide
      · subst h; decide
      · subst h; decide
    have h1 := hexv_hexDigitByte (c.toNat / 16) (by omega)
    have h2 := hexv_hexDigitByte (c.toNat % 16) (by omega)
    have h0 : isHex 48 = true := by decide
    have hv0 : hexv 48 = 0 := by decide
    simp only [List.cons_append, List.nil_append, unquoteBody, hex4_lit 48 48 _ _ rest h0 h0 h1.2 h2.2, hv0, h1.1, h2.1]
    have hval : 0 * 4096 + 0 * 256 + c.toNat / 16 * 16 + c.toNat % 16 = c.toNat := by omega
    rw [hval]
    have hns : (decide (0xD800 ≤ c.toNat) && decide (c.toNat < 0xDC00)) = false := by
      simp; omega
    simp only [hns, Bool.false_eq_true, if_false, utf8_small c hlt]
    cases unquoteBody fuel rest <;> simp
  · rename_i h34 h92 _ _ _ _ _ hlast
    simp only [Bool.or_eq_true, decide_eq_true_eq, beq_iff_eq, not_or] at hlast
    have e34 : c ≠ 34 := by simpa using h34
    have e92 : c ≠ 92 := by simpa using h92
    have hge : ¬ c < 32 := hlast.1.1.1
    simp only [List.cons_append, List.nil_append]
    rw [unquoteBody.eq_def]
    simp [e34, e92, hge]

theorem escByte_length_pos (c : UInt8) : 1 ≤ (escByte c).length := by
  unfold escByte; repeat' split
  all_goals simp

theorem unquoteBody_u2028 (fuel : Nat) (rest : Bytes) (d : UInt8) (hd : d = 56 ∨ d = 57) :
    unquoteBody (fuel + 1) ([92, 117, 50, 48, 50, d] ++ rest) =
      (unquoteBody fuel rest).map ([0xE2, 0x80, if d = 56 then 0xA8 else 0xA9] ++ ·) := by
  rcases hd with h | h <;> subst h
  · have hx : hex4 (50 :: 48 :: 50 :: 56 :: rest) = some (0x2028, rest) := by
      rw [hex4_lit _ _ _ _ _ (by decide) (by decide) (by decide) (by decide)]; rfl
    simp only [List.cons_append, List.nil_append, unquoteBody, hx]
    have : utf8 0x2028 = [0xE2, 0x80, 0xA8] := by decide
    simp [this]
  · have hx : hex4 (50 :: 48 :: 50 :: 57 :: rest) = some (0x2029, rest) := by
      rw [hex4_lit _ _ _ _ _ (by decide) (by decide) (by decide) (by decide)]; rfl
    simp only [List.cons_append, List.nil_append, unquoteBody, hx]
    have : utf8 0x2029 = [0xE2, 0x80, 0xA9] := by decide
    simp [this]

theorem unquoteBody_nil (fuel : Nat) : unquoteBody fuel [] = some [] := by
  cases fuel <;> rfl

theorem unquoteBody_quoteBody (x : Bytes) :
    ∀ fuel, (quoteBody x).length ≤ fuel → unquoteBody fuel (quoteBody x) = some x := by
  induction x using quoteBody.induct with
  | case1 r ih =>
    intro fuel hf
    rw [quoteBody] at hf ⊢
    cases fuel with
    | zero => simp at hf
    | succ f =>
      rw [unquoteBody_u2028 f _ 56 (Or.inl rfl), ih f (by simp at hf; omega)]
      simp
  | case2 r ih =>
    intro fuel hf
    rw [quoteBody] at hf ⊢
    cases fuel with
    | zero => simp at hf
    | succ f =>
      rw [unquoteBody_u2028 f _ 57 (Or.inr rfl), ih f (by simp at hf; omega)]
      simp
  | case3 c r h1 h2 ih =>
    intro fuel hf
    rw [quoteBody] at hf ⊢
    · cases fuel with
      | zero => have := escByte_length_pos c; rw [List.length_append] at hf; omega
      | succ f =>
        rw [unquoteBody_escByte, ih f (by have := escByte_length_pos c; rw [List.length_append] at hf; omega)]
        simp
    · exact h1
    · exact h2
    · exact h1
    · exact h2
  | case4 => intro fuel _; rw [quoteBody]; exact unquoteBody_nil fuel

/-- **decoding a string literal produced by the encoder gives back the string** -/
theorem unquote_quote (x : Bytes) : unquote (quote x) = some x := by
  unfold unquote quote
  simp only [List.cons_append, List.reverse_append, List.reverse_cons, List.reverse_nil, List.nil_append, List.singleton_append,
    List.reverse_reverse, List.length_reverse]
  exact unquoteBody_quoteBody x _ (Nat.le_refl _)

end Jrpc.Json
