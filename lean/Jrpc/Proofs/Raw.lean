import Jrpc.Model.Framing
/-! Helper lemmas: the raw-JSON receiver returns a container value exactly, whatever follows it. -/
namespace Jrpc.Framing
open Jrpc.Json (Bytes S Q step run start)

/-- `v` scans as one JSON object / array: it starts with `{` or `[`, the scanner ends at top level
exactly at its last byte, and the stack is non-empty after every proper non-empty prefix -/
structure IsContainer (v : Bytes) : Prop where
  scans : ∃ s, run start v = some s ∧ s.q = .endTop ∧ s.st = []
  open_ : ∀ p t, p ≠ [] → p <+: v → p ≠ v → run start p = some t → t.st ≠ []
  first : ∃ c r, v = c :: r ∧ Jrpc.Json.isSpace c = false

theorem run_snoc (s : S) (p : Bytes) (b : UInt8) :
    run s (p ++ [b]) = (run s p).bind (fun t => step t b) := by
  rw [Jrpc.Json.run_append]
  cases run s p with
  | none => rfl
  | some t => simp [run]

/-- the scanning loop, started after a non-empty proper prefix `p` of the container has been
consumed, returns the whole container and leaves exactly what follows it -/
theorem rawScan_suffix (v rest : Bytes) (hv : IsContainer v) :
    ∀ (q p : Bytes) (s : S), p ++ q = v → p ≠ [] → q ≠ [] → run start p = some s →
      rawScan s p.reverse true (q ++ rest) = (.ok v, rest) := by
  intro q
  induction q with
  | nil => intro p s _ _ hq; exact absurd rfl hq
  | cons b q' ih =>
    intro p s hpq hpne _ hrun
    have hprefix : p <+: v := ⟨b :: q', hpq⟩
    have hpv : p ≠ v := by
      intro e; rw [e] at hpq
      have := congrArg List.length hpq; simp at this
    have hst : s.st ≠ [] := hv.open_ p s hpne hprefix hpv hrun
    -- state after the next byte
    have hrun' : run start (p ++ [b]) = (step s b) := by rw [run_snoc, hrun]; rfl
    obtain ⟨sf, hsf, hq1, hq2⟩ := hv.scans
    have hstep : ∃ s', step s b = some s' := by
      cases hs : step s b with
      | some s' => exact ⟨s', rfl⟩
      | none =>
        exfalso
        have : run start v = none := by
          rw [← hpq, show p ++ b :: q' = (p ++ [b]) ++ q' by simp, Jrpc.Json.run_append, hrun', hs]; rfl
        rw [this] at hsf; simp at hsf
    obtain ⟨s', hs'⟩ := hstep
    have hdst : decide (s.st = []) = false := by simp [hst]
    rw [List.cons_append, rawScan]
    simp only [hdst, Bool.and_false, Bool.false_and, Bool.false_eq_true, if_false, hs', Bool.not_true]
    by_cases hlast : q' = []
    · -- last byte: the scanner reaches top level
      subst hlast
      have hvp : v = p ++ [b] := by rw [← hpq]
      have : run start v = some s' := by rw [hvp, hrun', hs']
      rw [this] at hsf
      simp only [Option.some.injEq] at hsf
      subst hsf
      simp [hq1, hq2, hst, hvp]
    · -- not the last byte: still inside the container
      have hp' : (p ++ [b]) ++ q' = v := by rw [← hpq]; simp
      have hprefix' : (p ++ [b]) <+: v := ⟨q', hp'⟩
      have hne' : (p ++ [b]) ≠ v := by
        intro e; rw [e] at hp'
        have := congrArg List.length hp'; simp at this
        exact hlast this
      have hst' : s'.st ≠ [] := hv.open_ (p ++ [b]) s' (by simp) hprefix' hne' (by rw [hrun', hs'])
      have hdst' : decide (s'.st = []) = false := by simp [hst']
      simp only [hdst', Bool.and_false, Bool.false_and, Bool.false_eq_true, if_false]
      have := ih (p ++ [b]) s' hp' (by simp) hlast (by rw [hrun', hs'])
      simpa using this

/-- **a container value followed by anything is received exactly** -/
theorem raw_recv_container (v rest : Bytes) (hv : IsContainer v) (hnn : isNull v = false) :
    rawRecv (v ++ rest) = (.ok v, rest) := by
  obtain ⟨c, r, hcr, hsp⟩ := hv.first
  have hscan : rawScan start [] false (v ++ rest) = (.ok v, rest) := by
    subst hcr
    -- first byte: not a space, starts the value
    obtain ⟨sf, hsf, _, _⟩ := hv.scans
    have hstep : ∃ s1, step start c = some s1 := by
      cases hs : step start c with
      | some s1 => exact ⟨s1, rfl⟩
      | none => simp [run, hs] at hsf
    obtain ⟨s1, hs1⟩ := hstep
    by_cases hr : r = []
    · -- a one-byte container does not exist: the stack would have to be empty after a proper prefix… there is none;
      -- but `{` / `[` alone never reaches top level
      subst hr
      simp only [run, hs1, Option.bind_some, Option.some.injEq] at hsf
      subst hsf
      exfalso
      -- after one byte from `start`, endTop with an empty stack is impossible
      rename_i hq hst
      simp only [step, start] at hs1
      revert hs1 hq hst
      simp only [Jrpc.Json.beginValue, Jrpc.Json.push, hsp, Bool.false_eq_true, if_false]
      repeat' split
      all_goals (intro h; first | (subst h; intro a _; simp at a) | (simp only [Option.some.injEq] at h; subst h; intro a _; simp at a) | (simp at h))
    · simp only [List.cons_append, rawScan, Bool.false_and, Bool.false_eq_true, if_false, hs1]
      have c0 : ¬ (!false && Jrpc.Json.isSpace c) = true := by simp [hsp]
      simp only [c0, if_false]
      have hopen : s1.st ≠ [] := hv.open_ [c] s1 (by simp) ⟨r, rfl⟩ (by intro e; simp at e; exact hr e) (by simp [run, hs1])
      have c3 : ¬ (decide (s1.q = Q.endTop) && decide (s1.st = []) && decide (start.st ≠ [])) = true := by simp [start]
      simp only [c3, if_false]
      have := rawScan_suffix (c :: r) rest hv r [c] s1 rfl (by simp) hr (by simp [run, hs1])
      simpa using this
  unfold rawRecv
  rw [hscan]
  simp [hnn]

end Jrpc.Framing

namespace Jrpc.Framing
open Jrpc.Json (Bytes S Q step run start)

/-- executable test: every state after a proper non-empty prefix has a non-empty stack and the last
byte brings the scanner to top level -/
def scanOpen (s : S) : Bytes → Bool
  | [] => false
  | [b] => match step s b with
    | some t => t.q == .endTop && t.st == []
    | none => false
  | b :: c :: r => match step s b with
    | some t => t.st != [] && scanOpen t (c :: r)
    | none => false

def isContainerB (v : Bytes) : Bool :=
  match v with
  | c :: _ => !Jrpc.Json.isSpace c && scanOpen start v
  | [] => false

theorem scanOpen_spec (s : S) (v : Bytes) (h : scanOpen s v = true) :
    (∃ t, run s v = some t ∧ t.q = .endTop ∧ t.st = []) ∧
    (∀ p t, p ≠ [] → p <+: v → p ≠ v → run s p = some t → t.st ≠ []) := by
  induction v generalizing s with
  | nil => simp [scanOpen] at h
  | cons b r ih =>
    cases r with
    | nil =>
      simp only [scanOpen] at h
      cases hs : step s b with
      | none => simp [hs] at h
      | some t =>
        simp only [hs, Bool.and_eq_true, beq_iff_eq] at h
        refine ⟨⟨t, by simp [run, hs], h.1, by simpa using h.2⟩, ?_⟩
        intro p t' hne hp hpv
        obtain ⟨q, hq⟩ := hp
        cases p with
        | nil => exact absurd rfl hne
        | cons x xs =>
          simp only [List.cons_append, List.cons.injEq] at hq
          have : xs = [] := by
            have := hq.2; cases xs with
            | nil => rfl
            | cons y ys => simp at this
          subst this
          rw [hq.1] at hpv; exact absurd rfl hpv
    | cons c r' =>
      simp only [scanOpen] at h
      cases hs : step s b with
      | none => simp [hs] at h
      | some t =>
        simp only [hs, Bool.and_eq_true, bne_iff_ne, ne_eq] at h
        obtain ⟨ih1, ih2⟩ := ih t h.2
        refine ⟨?_, ?_⟩
        · obtain ⟨u, hu, a, b'⟩ := ih1
          exact ⟨u, by simp only [run, hs, Option.bind_some]; simpa [run] using hu, a, b'⟩
        · intro p t' hne hp hpv hrun
          obtain ⟨q, hq⟩ := hp
          cases p with
          | nil => exact absurd rfl hne
          | cons x xs =>
            simp only [List.cons_append, List.cons.injEq] at hq
            obtain ⟨hx, hxs⟩ := hq
            subst hx
            simp only [run, hs, Option.bind_some] at hrun
            cases xs with
            | nil => simp [run] at hrun; subst hrun; exact h.1
            | cons y ys =>
              apply ih2 (y :: ys) t' (by simp) ⟨q, hxs⟩ _ hrun
              intro e; apply hpv; rw [e]

theorem isContainerB_spec (v : Bytes) (h : isContainerB v = true) : IsContainer v := by
  cases v with
  | nil => simp [isContainerB] at h
  | cons c r =>
    simp only [isContainerB, Bool.and_eq_true, Bool.not_eq_true'] at h
    obtain ⟨h1, h2⟩ := scanOpen_spec start (c :: r) h.2
    exact ⟨h1, h2, ⟨c, r, rfl, h.1⟩⟩

end Jrpc.Framing
