import Jrpc.Proofs.Emit
import Jrpc.Proofs.Quote
/-! Helper lemmas: an emitted request is the object text of its members; the member splitter, key
decoding and the member parser take it back to the same id, method and params. -/
namespace Jrpc.Wire
open Jrpc.Json

theorem prefixLit_eq : prefixLit = 123 :: (quote kJsonrpc ++ 58 :: quote version) := by decide
theorem idLit_eq : idLit = 44 :: (quote kId ++ [58]) := by decide
theorem methodLit_eq : methodLit = 44 :: (quote kMethod ++ [58]) := by decide
theorem paramsLit_eq : paramsLit = 44 :: (quote kParams ++ [58]) := by decide

/-- the members a request is emitted with -/
def requestMembers (j : OutMsg) : List (Bytes × Bytes) :=
  [(quote kJsonrpc, quote version)] ++ (if j.id = [] then [] else [(quote kId, j.id)]) ++
  [(quote kMethod, quote j.m)] ++ (if j.p = [] then [] else [(quote kParams, j.p)])

theorem toJSON_request (j : OutMsg) (hm : j.m ≠ []) : toJSON j = objText (requestMembers j) := by
  unfold toJSON requestMembers objText
  simp only [hm, ne_eq, not_false_eq_true, if_true, prefixLit_eq, idLit_eq, methodLit_eq, paramsLit_eq]
  by_cases hid : j.id = [] <;> by_cases hp : j.p = [] <;> simp [hid, hp, objBody]

/-- a pre-encoded part (id, params) as `json.Marshal` yields it: one trimmed JSON value -/
structure Part (v : Bytes) : Prop where
  tok : Tok v
  trimR : v.reverse.dropWhile isSpace = v.reverse

theorem good_quoted (k x : Bytes) : GoodMember (quote k, quote x) :=
  ⟨⟨k, rfl⟩, quote_cuts x, quote_trimR x⟩

theorem good_part (k v : Bytes) (h : Part v) : GoodMember (quote k, v) :=
  ⟨⟨k, rfl⟩, tok_cuts v h.tok, h.trimR⟩

theorem members_request (j : OutMsg) (hm : j.m ≠ []) (hid : j.id = [] ∨ Part j.id) (hp : j.p = [] ∨ Part j.p) :
    members (toJSON j) = some (requestMembers j) := by
  rw [toJSON_request j hm]
  apply members_objText
  · unfold requestMembers; simp
  · intro kv hkv
    unfold requestMembers at hkv
    simp only [List.mem_append, List.mem_singleton] at hkv
    rcases hkv with ((h | h) | h) | h
    · subst h; exact good_quoted _ _
    · split at h
      · simp at h
      · simp only [List.mem_singleton] at h; subst h
        rcases hid with e | e
        · rename_i hne; exact absurd e hne
        · exact good_part _ _ e
    · subst h; exact good_quoted _ _
    · split at h
      · simp at h
      · simp only [List.mem_singleton] at h; subst h
        rcases hp with e | e
        · rename_i hne; exact absurd e hne
        · exact good_part _ _ e

/-- the decoded view of an emitted request -/
def requestFields (j : OutMsg) : List (Bytes × Bytes) :=
  [(kJsonrpc, quote version)] ++ (if j.id = [] then [] else [(kId, j.id)]) ++
  [(kMethod, quote j.m)] ++ (if j.p = [] then [] else [(kParams, j.p)])

theorem memberView_request (j : OutMsg) (hm : j.m ≠ []) (hid : j.id = [] ∨ Part j.id) (hp : j.p = [] ∨ Part j.p) :
    memberView (toJSON j) = .object (requestFields j) := by
  have hmem := members_request j hm hid hp
  have h123 : ∃ r, toJSON j = 123 :: r := by
    rw [toJSON_request j hm]; exact ⟨_, rfl⟩
  obtain ⟨r, hr⟩ := h123
  unfold memberView
  rw [hr] at hmem ⊢
  simp only [hmem]
  unfold requestMembers requestFields
  by_cases h1 : j.id = [] <;> by_cases h2 : j.p = [] <;> simp [h1, h2, unquote_quote]

theorem isNull_quote (x : Bytes) : isNull (quote x) = false := by
  simp [isNull, quote]

theorem not_null_of_structured (p : Bytes) (h : firstByte p = 91 ∨ firstByte p = 123) : isNull p = false := by
  cases hn : isNull p with
  | false => rfl
  | true =>
    have : p = [110, 117, 108, 108] := by simpa [isNull] using hn
    subst this
    revert h; decide

/-- **an emitted request parses back, under the library's own member parser, to the same id, method
and params, with no error** -/
theorem parse_emitted_request (j : OutMsg) (hm : j.m ≠ [])
    (hid : j.id = [] ∨ (Part j.id ∧ isValidID j.id = true))
    (hp : j.p = [] ∨ (Part j.p ∧ (firstByte j.p = 91 ∨ firstByte j.p = 123))) :
    parseMember (memberView (toJSON j)) =
      { v := version, id := j.id, m := j.m, p := j.p, hasE := false, r := [], extra := false, errs := [] } := by
  rw [memberView_request j hm (hid.imp id (·.1)) (hp.imp id (·.1))]
  have k1 : kJsonrpc ≠ kId := by decide
  have k2 : kJsonrpc ≠ kMethod := by decide
  have k3 : kJsonrpc ≠ kParams := by decide
  have k4 : kId ≠ kMethod := by decide
  have k5 : kId ≠ kParams := by decide
  have k6 : kMethod ≠ kParams := by decide
  have k7 : kJsonrpc ≠ kError := by decide
  have k8 : kId ≠ kError := by decide
  have k9 : kMethod ≠ kError := by decide
  have k10 : kParams ≠ kError := by decide
  have k11 : kJsonrpc ≠ kResult := by decide
  have k12 : kId ≠ kResult := by decide
  have k13 : kMethod ≠ kResult := by decide
  have k14 : kParams ≠ kResult := by decide
  have m1 : kJsonrpc ∈ knownKeys := by decide
  have m2 : kId ∈ knownKeys := by decide
  have m3 : kMethod ∈ knownKeys := by decide
  have m4 : kParams ∈ knownKeys := by decide
  have hv : decodeString (quote version) = some version := by
    simp [decodeString, isNull_quote, unquote_quote]
  have hmth : decodeString (quote j.m) = some j.m := by
    simp [decodeString, isNull_quote, unquote_quote]
  have hmne : (j.m != []) = true := by simpa using hm
  unfold parseMember requestFields
  by_cases h1 : j.id = [] <;> by_cases h2 : j.p = []
  · simp [h1, h2, parseObject, lookupLast, scanString, scanID, scanParams, scanError, postChecks, hv, hmth,
      k1, k2, k3, k4, k5, k6, k7, k8, k9, k10, k11, k12, k13, k14, m1, m2, m3, m4, Ne.symm, hmne]
  · have hp' := (hp.resolve_left h2)
    have hnn := not_null_of_structured j.p hp'.2
    have hfb : (firstByte j.p != 0 && firstByte j.p != 91 && firstByte j.p != 123) = false := by
      rcases hp'.2 with h | h <;> simp [h]
    simp [h1, h2, parseObject, lookupLast, scanString, scanID, scanParams, scanError, postChecks, hv, hmth,
      k1, k2, k3, k4, k5, k6, k7, k8, k9, k10, k11, k12, k13, k14, m1, m2, m3, m4, Ne.symm, hmne, hnn, hfb]
  · have hid' := (hid.resolve_left h1)
    simp [h1, h2, parseObject, lookupLast, scanString, scanID, scanParams, scanError, postChecks, hv, hmth,
      k1, k2, k3, k4, k5, k6, k7, k8, k9, k10, k11, k12, k13, k14, m1, m2, m3, m4, Ne.symm, hmne, hid'.2]
  · have hid' := (hid.resolve_left h1)
    have hp' := (hp.resolve_left h2)
    have hnn := not_null_of_structured j.p hp'.2
    have hfb : (firstByte j.p != 0 && firstByte j.p != 91 && firstByte j.p != 123) = false := by
      rcases hp'.2 with h | h <;> simp [h]
    simp [h1, h2, parseObject, lookupLast, scanString, scanID, scanParams, scanError, postChecks, hv, hmth,
      k1, k2, k3, k4, k5, k6, k7, k8, k9, k10, k11, k12, k13, k14, m1, m2, m3, m4, Ne.symm, hmne, hnn, hfb, hid'.2]

theorem resultLit_eq : resultLit = 44 :: (quote kResult ++ [58]) := by decide

/-- the members a successful response is emitted with -/
def resultMembers (j : OutMsg) : List (Bytes × Bytes) :=
  [(quote kJsonrpc, quote version), (quote kId, j.id), (quote kResult, j.r)]

theorem toJSON_result (j : OutMsg) (hm : j.m = []) (hid : j.id ≠ []) (hr : j.r ≠ []) :
    toJSON j = objText (resultMembers j) := by
  unfold toJSON resultMembers objText
  simp [hm, hid, hr, prefixLit_eq, idLit_eq, resultLit_eq, objBody]

theorem memberView_result (j : OutMsg) (hm : j.m = []) (hid : j.id ≠ []) (hr : j.r ≠ [])
    (pid : Part j.id) (pr : Part j.r) :
    memberView (toJSON j) = .object [(kJsonrpc, quote version), (kId, j.id), (kResult, j.r)] := by
  have hmem : members (toJSON j) = some (resultMembers j) := by
    rw [toJSON_result j hm hid hr]
    apply members_objText
    · simp [resultMembers]
    · intro kv hkv
      simp only [resultMembers, List.mem_cons, List.mem_nil_iff, or_false] at hkv
      rcases hkv with h | h | h <;> subst h
      · exact good_quoted _ _
      · exact good_part _ _ pid
      · exact good_part _ _ pr
  have h123 : ∃ r, toJSON j = 123 :: r := by
    rw [toJSON_result j hm hid hr]; exact ⟨_, rfl⟩
  obtain ⟨r, hr'⟩ := h123
  unfold memberView
  rw [hr'] at hmem ⊢
  simp only [hmem]
  simp [resultMembers, unquote_quote]

/-- **an emitted successful response parses back to the same id and result, with no error** -/
theorem parse_emitted_result (j : OutMsg) (hm : j.m = []) (hid : j.id ≠ []) (hr : j.r ≠ [])
    (pid : Part j.id) (hvid : isValidID j.id = true) (pr : Part j.r) :
    parseMember (memberView (toJSON j)) =
      { v := version, id := j.id, m := [], p := [], hasE := false, r := j.r, extra := false, errs := [] } := by
  rw [memberView_result j hm hid hr pid pr]
  have k1 : kJsonrpc ≠ kId := by decide
  have k2 : kJsonrpc ≠ kMethod := by decide
  have k3 : kJsonrpc ≠ kParams := by decide
  have k4 : kId ≠ kMethod := by decide
  have k5 : kId ≠ kParams := by decide
  have k7 : kJsonrpc ≠ kError := by decide
  have k8 : kId ≠ kError := by decide
  have k11 : kJsonrpc ≠ kResult := by decide
  have k12 : kId ≠ kResult := by decide
  have k13 : kResult ≠ kMethod := by decide
  have k14 : kResult ≠ kParams := by decide
  have k15 : kResult ≠ kError := by decide
  have m1 : kJsonrpc ∈ knownKeys := by decide
  have m2 : kId ∈ knownKeys := by decide
  have m3 : kResult ∈ knownKeys := by decide
  have hv : decodeString (quote version) = some version := by
    simp [decodeString, isNull_quote, unquote_quote]
  unfold parseMember
  simp [parseObject, lookupLast, scanString, scanID, scanParams, scanError, postChecks, hv,
    k1, k2, k3, k4, k5, k7, k8, k11, k12, k13, k14, k15, m1, m2, m3, Ne.symm, hvid]


/-- executable test for `Part` -/
def partB (v : Bytes) : Bool :=
  (match v with | b :: _ => !isSpace b | [] => false) &&
  (match run start v with | some s1 => atEnd s1 | none => false) &&
  depthOK start v && (v.reverse.dropWhile isSpace == v.reverse)

theorem partB_spec (v : Bytes) (h : partB v = true) : Part v := by
  unfold partB at h
  simp only [Bool.and_eq_true, beq_iff_eq] at h
  obtain ⟨⟨⟨h1, h2⟩, h3⟩, h4⟩ := h
  refine ⟨⟨?_, ?_, h3⟩, h4⟩
  · cases v with
    | nil => simp at h1
    | cons b r => exact ⟨b, r, rfl, by simpa using h1⟩
  · cases hr : run start v with
    | none => simp [hr] at h2
    | some s1 => exact ⟨s1, rfl, by simpa [hr] using h2⟩

def kCode : Bytes := [99, 111, 100, 101]
def kMessage : Bytes := [109, 101, 115, 115, 97, 103, 101]
def kData : Bytes := [100, 97, 116, 97]

/-- the members of a marshalled `Error` object: code text, quoted message, data when present -/
def errorMembers (c msg d : Bytes) : List (Bytes × Bytes) :=
  [(quote kCode, c), (quote kMessage, quote msg)] ++ (if d = [] then [] else [(quote kData, d)])

theorem errorJSON_eq (code : Int) (msg d : Bytes) :
    errorJSON code msg d = objText (errorMembers (toString code).toUTF8.toList msg d) := by
  have h1 : lit [123, 34, 99, 111, 100, 101, 34, 58] = 123 :: (quote kCode ++ [58]) := by decide
  have h2 : lit [44, 34, 109, 101, 115, 115, 97, 103, 101, 34, 58] = 44 :: (quote kMessage ++ [58]) := by decide
  have h3 : lit [44, 34, 100, 97, 116, 97, 34, 58] = 44 :: (quote kData ++ [58]) := by decide
  unfold errorJSON errorMembers objText
  rw [h1, h2, h3]
  by_cases hd : d = [] <;> simp [hd, objBody]

theorem errorLit_eq : errorLit = 44 :: (quote kError ++ [58]) := by decide

theorem members_error (c msg d : Bytes) (pc : Part c) (pd : d = [] ∨ Part d) :
    members (objText (errorMembers c msg d)) = some (errorMembers c msg d) := by
  apply members_objText
  · simp [errorMembers]
  · intro kv hkv
    simp only [errorMembers, List.mem_append, List.mem_cons, List.mem_nil_iff, or_false] at hkv
    rcases hkv with (h | h) | h
    · subst h; exact good_part _ _ pc
    · subst h; exact good_quoted _ _
    · split at h
      · simp at h
      · simp only [List.mem_singleton] at h; subst h
        rcases pd with e | e
        · rename_i hne; exact absurd e hne
        · exact good_part _ _ e

/-- the decoder accepts a marshalled `Error` object: `code` is an int32 literal, `message` a string -/
theorem errorValueOK_marshalled (c msg d : Bytes) (pc : Part c) (hc : int32Literal c = true) (pd : d = [] ∨ Part d) :
    errorValueOK (objText (errorMembers c msg d)) = true := by
  have hm := members_error c msg d pc pd
  have hnn : isNull (objText (errorMembers c msg d)) = false := by simp [isNull, objText]
  unfold errorValueOK
  rw [hnn]
  simp only [Bool.false_eq_true, if_false]
  have h123 : objText (errorMembers c msg d) = 123 :: (objBody (errorMembers c msg d) ++ [125]) := by
    simp [objText]
  rw [h123] at hm ⊢
  simp only [hm]
  have l1 : lowerAscii kCode = [99, 111, 100, 101] := by decide
  have l2 : lowerAscii kMessage = [109, 101, 115, 115, 97, 103, 101] := by decide
  have l3 : lowerAscii [100, 97, 116, 97] = [100, 97, 116, 97] := by decide
  have hmsg : (decodeString (quote msg)).isSome = true := by
    simp [decodeString, isNull_quote, unquote_quote]
  by_cases hd : d = []
  · simp [errorMembers, hd, unquote_quote, l1, l2, hc, hmsg]
  · simp [errorMembers, hd, unquote_quote, l1, l2, hc, hmsg, kData, l3]

/-- **an emitted error response parses back to the same id with its error object accepted** -/
theorem parse_emitted_error (j : OutMsg) (c msg d : Bytes) (hm : j.m = []) (hid : j.id ≠ []) (hr : j.r = [])
    (he : j.e = some (objText (errorMembers c msg d)))
    (pid : Part j.id) (hvid : isValidID j.id = true)
    (pc : Part c) (hc : int32Literal c = true) (pd : d = [] ∨ Part d)
    (pe : Part (objText (errorMembers c msg d))) :
    parseMember (memberView (toJSON j)) =
      { v := version, id := j.id, m := [], p := [], hasE := true, r := [], extra := false, errs := [] } := by
  let e := objText (errorMembers c msg d)
  have htj : toJSON j = objText [(quote kJsonrpc, quote version), (quote kId, j.id), (quote kError, e)] := by
    unfold toJSON objText
    simp [hm, hid, hr, he, prefixLit_eq, idLit_eq, errorLit_eq, objBody, e]
  have hmem : members (toJSON j) = some [(quote kJsonrpc, quote version), (quote kId, j.id), (quote kError, e)] := by
    rw [htj]
    apply members_objText
    · simp
    · intro kv hkv
      simp only [List.mem_cons, List.mem_nil_iff, or_false] at hkv
      rcases hkv with h | h | h <;> subst h
      · exact good_quoted _ _
      · exact good_part _ _ pid
      · exact good_part _ _ pe
  have hview : memberView (toJSON j) = .object [(kJsonrpc, quote version), (kId, j.id), (kError, e)] := by
    have h123 : ∃ r, toJSON j = 123 :: r := by rw [htj]; exact ⟨_, rfl⟩
    obtain ⟨r, hr'⟩ := h123
    unfold memberView
    rw [hr'] at hmem ⊢
    simp only [hmem]
    simp [unquote_quote]
  rw [hview]
  have hok : errorValueOK e = true := errorValueOK_marshalled c msg d pc hc pd
  have hnn : isNull e = false := by simp [isNull, objText, e]
  have k1 : kJsonrpc ≠ kId := by decide
  have k2 : kJsonrpc ≠ kMethod := by decide
  have k3 : kJsonrpc ≠ kParams := by decide
  have k4 : kId ≠ kMethod := by decide
  have k5 : kId ≠ kParams := by decide
  have k7 : kJsonrpc ≠ kError := by decide
  have k8 : kId ≠ kError := by decide
  have k11 : kJsonrpc ≠ kResult := by decide
  have k12 : kId ≠ kResult := by decide
  have k13 : kError ≠ kMethod := by decide
  have k14 : kError ≠ kParams := by decide
  have k15 : kError ≠ kResult := by decide
  have m1 : kJsonrpc ∈ knownKeys := by decide
  have m2 : kId ∈ knownKeys := by decide
  have m3 : kError ∈ knownKeys := by decide
  have hv : decodeString (quote version) = some version := by
    simp [decodeString, isNull_quote, unquote_quote]
  unfold parseMember
  simp [parseObject, lookupLast, scanString, scanID, scanParams, scanError, postChecks, hv,
    k1, k2, k3, k4, k5, k7, k8, k11, k12, k13, k14, k15, m1, m2, m3, Ne.symm, hvid, hok, hnn]


end Jrpc.Wire
