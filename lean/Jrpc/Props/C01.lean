import Jrpc.Model.BatchRun
import Jrpc.Model.Wire
/-! # C01 — exactly one correlated response per call, none per notification

The content and shape of the reply (one entry per call in request order, carrying that call's
id; id-less members only for −32700/−32600; array iff the inbound message was an array; nothing
when there is nothing to report) are theorems about `Jrpc.Wire.serve` (see `Props.C02`:
`respond_id_echo`, `call_answered`, `notification_silent`, `reply_shape`).  This file proves the
concurrency half on the per-message machine: one invocation per member, one delivery, only after
every handler has returned, and completeness at quiescence. -/
namespace Jrpc.Props.C01
open Jrpc.BatchRun

theorem statusOf_set (u v : Nat) (st : Status) (ms : List (Nat × Status)) :
    statusOf v (setStatus u st ms) =
      if v = u then (if (statusOf u ms).isSome then some st else none) else statusOf v ms := by
  induction ms with
  | nil => simp [setStatus, statusOf]
  | cons p r ih =>
    obtain ⟨w, s⟩ := p
    unfold setStatus
    by_cases hw : w = u
    · simp only [hw, if_true]
      subst hw
      by_cases hv : v = w
      · subst hv; simp [statusOf]
      · have : w ≠ v := fun e => hv e.symm
        simp [statusOf, hv, this]
    · simp only [hw, if_false]
      by_cases hv : v = u
      · subst hv
        have hne : w ≠ v := hw
        simp only [statusOf, hne, if_false, if_true]
        rw [ih]; simp
      · by_cases hwv : w = v
        · simp [statusOf, hwv, hv]
        · simp only [statusOf, hwv, if_false, hv]
          rw [ih]; simp [hv]

/-- the number of times `u`'s handler has been invoked so far -/
def invocations (s : St) (u : Nat) : Nat := s.starts.count u

/-- invariant: a member that is still pending has never been started; any other has been started
exactly once -/
def Inv (s : St) : Prop :=
  (∀ u, statusOf u s.members = some .pending → invocations s u = 0) ∧
  (∀ u, statusOf u s.members = some .running ∨ statusOf u s.members = some .done → invocations s u = 1) ∧
  (∀ u, statusOf u s.members = none → invocations s u = 0) ∧
  s.delivered ≤ 1 ∧ (s.delivered = 1 → allDone s.members = true)

theorem inv_init (uids : List Nat) : Inv (init uids) := by
  have hs : ∀ u, statusOf u (uids.map fun v => (v, Status.pending)) = some .pending ∨
      statusOf u (uids.map fun v => (v, Status.pending)) = none := by
    intro u
    induction uids with
    | nil => right; rfl
    | cons v r ih =>
      simp only [List.map_cons, statusOf]
      by_cases h : v = u
      · simp [h]
      · simp only [h, if_false]; exact ih
  refine ⟨fun u _ => by simp [invocations, init], ?_, fun u _ => by simp [invocations, init], by simp [init], by simp [init]⟩
  intro u h
  simp only [init] at h
  rcases hs u with e | e <;> rcases h with h | h <;> rw [e] at h <;> simp at h

theorem allDone_set_done (u : Nat) (ms : List (Nat × Status)) (h : allDone ms = true) :
    allDone (setStatus u .done ms) = true := by
  induction ms with
  | nil => rfl
  | cons p r ih =>
    obtain ⟨w, s⟩ := p
    simp only [allDone, List.all_cons, Bool.and_eq_true] at h ⊢
    unfold setStatus
    split
    · simp only [List.all_cons, Bool.and_eq_true]; exact ⟨by simp, h.2⟩
    · simp only [List.all_cons, Bool.and_eq_true]; exact ⟨h.1, ih h.2⟩

theorem allDone_status (ms : List (Nat × Status)) (h : allDone ms = true) (u : Nat) (st : Status)
    (hs : statusOf u ms = some st) : st = .done := by
  induction ms with
  | nil => simp [statusOf] at hs
  | cons p r ih =>
    obtain ⟨w, s⟩ := p
    simp only [allDone, List.all_cons, Bool.and_eq_true] at h
    unfold statusOf at hs
    by_cases hw : w = u
    · simp [hw] at hs; subst hs; simpa using h.1
    · simp only [hw, if_false] at hs; exact ih h.2 hs

theorem inv_step (s : St) (e : Ev) (h : Inv s) : ∀ s', step s e = some s' → Inv s' := by
  intro s' hs
  obtain ⟨h0, h1, hn, hd, hdd⟩ := h
  cases e with
  | start u =>
    simp only [step] at hs
    split at hs
    · rename_i hp
      simp only [Option.some.injEq] at hs; subst hs
      refine ⟨?_, ?_, ?_, hd, ?_⟩
      · intro v hv
        rw [statusOf_set] at hv
        by_cases e : v = u
        · subst e; simp [hp] at hv
        · simp only [e, if_false] at hv
          simp only [invocations, List.count_cons]
          have := h0 v hv
          simp only [invocations] at this
          have hne : ¬ (u == v) = true := by simpa using fun x => e x.symm
          simp [this, hne]
      · intro v hv
        simp only [statusOf_set] at hv
        simp only [invocations, List.count_cons]
        by_cases e : v = u
        · subst e
          have := h0 v hp
          simp only [invocations] at this
          simp [this]
        · simp only [e, if_false] at hv
          have := h1 v hv
          simp only [invocations] at this
          have hne : ¬ (u == v) = true := by simpa using fun x => e x.symm
          simp [this, hne]
      · intro v hv
        rw [statusOf_set] at hv
        by_cases e : v = u
        · subst e; simp [hp] at hv
        · simp only [e, if_false] at hv
          simp only [invocations, List.count_cons]
          have := hn v hv
          simp only [invocations] at this
          have hne : ¬ (u == v) = true := by simpa using fun x => e x.symm
          simp [this, hne]
      · intro hdel
        have := allDone_status _ (hdd hdel) u .pending hp
        cases this
    · simp at hs
  | finish u =>
    simp only [step] at hs
    split at hs
    · rename_i hp
      simp only [Option.some.injEq] at hs; subst hs
      refine ⟨?_, ?_, ?_, hd, ?_⟩
      · intro v hv
        rw [statusOf_set] at hv
        by_cases e : v = u
        · subst e; simp [hp] at hv
        · simp only [e, if_false] at hv; exact h0 v hv
      · intro v hv
        simp only [statusOf_set] at hv
        by_cases e : v = u
        · subst e; exact h1 v (Or.inl hp)
        · simp only [e, if_false] at hv; exact h1 v hv
      · intro v hv
        rw [statusOf_set] at hv
        by_cases e : v = u
        · subst e; simp [hp] at hv
        · simp only [e, if_false] at hv; exact hn v hv
      · intro hdel; exact allDone_set_done u _ (hdd hdel)
    · simp at hs
  | deliver =>
    simp only [step] at hs
    split at hs
    · rename_i hg
      simp only [Option.some.injEq] at hs; subst hs
      simp only [Bool.and_eq_true, beq_iff_eq] at hg
      exact ⟨h0, h1, hn, by simp, fun _ => hg.1⟩
    · simp at hs

theorem inv_run (es : List Ev) (s s' : St) (h : Inv s) (hr : run s es = some s') : Inv s' := by
  induction es generalizing s with
  | nil => simp [run] at hr; subst hr; exact h
  | cons e es ih =>
    simp only [run] at hr
    cases hs : step s e with
    | none => simp [hs] at hr
    | some s1 => simp [hs] at hr; exact ih s1 (inv_step s e h s1 hs) hr

/-- **each member's handler is invoked at most once** — in every run, for every completion order -/
theorem handler_once (uids : List Nat) (es : List Ev) (s : St) (hr : run (init uids) es = some s) (u : Nat) :
    invocations s u ≤ 1 := by
  obtain ⟨h0, h1, hn, _, _⟩ := inv_run es _ s (inv_init uids) hr
  cases hst : statusOf u s.members with
  | none => rw [hn u hst]; omega
  | some st =>
    cases st with
    | pending => rw [h0 u hst]; omega
    | running => rw [h1 u (Or.inl hst)]; omega
    | done => rw [h1 u (Or.inr hst)]; omega

/-- **the reply is delivered at most once, and only after every handler of the message has returned** -/
theorem deliver_once_after_all (uids : List Nat) (es : List Ev) (s : St) (hr : run (init uids) es = some s) :
    s.delivered ≤ 1 ∧ (s.delivered = 1 → allDone s.members = true) := by
  obtain ⟨_, _, _, hd, hdd⟩ := inv_run es _ s (inv_init uids) hr
  exact ⟨hd, hdd⟩

/-- **completeness at quiescence**: if nothing is enabled any more, every member has run exactly
once and the reply has been delivered exactly once -/
theorem quiescent_complete (uids : List Nat) (es : List Ev) (s : St) (hr : run (init uids) es = some s)
    (hq : enabled s = []) : allDone s.members = true ∧ s.delivered = 1 := by
  obtain ⟨_, _, _, hd, _⟩ := inv_run es _ s (inv_init uids) hr
  unfold enabled at hq
  rw [List.append_eq_nil_iff] at hq
  have hall : allDone s.members = true := by
    simp only [allDone, List.all_eq_true]
    intro p hp
    have := List.filterMap_eq_nil_iff.mp hq.1 p hp
    cases hs : p.2 with
    | pending => rw [hs] at this; simp at this
    | running => rw [hs] at this; simp at this
    | done => rfl
  refine ⟨hall, ?_⟩
  have h2 := hq.2
  simp only [hall, Bool.true_and] at h2
  by_cases h0 : s.delivered = 0
  · simp [h0] at h2
  · omega

-- non-vacuity
example : (run (init [1, 2]) [.start 2, .start 1, .finish 1, .finish 2, .deliver]).map (·.delivered) = some 1 := by decide
example : run (init [1, 2]) [.start 1, .finish 1, .deliver] = none := by decide        -- not before all returned
example : run (init [1]) [.start 1, .start 1] = none := by decide                      -- never twice

/-! ### the reply batch can always be encoded (finding F17)

`deliver` sends the encoded batch or - if encoding fails - nothing, for any of the calls of that
inbound message. So "every call gets its response" needs the encoding to be total on what
`responses` builds. It is, because `responses` drops error data that cannot be encoded. -/

open Jrpc.Wire in
/-- a sanitised error always marshals -/
theorem sanitized_marshals (e : ErrVal) : (marshalError (sanitizeError e)).isSome = true := by
  unfold sanitizeError marshalError
  by_cases h : e.data.length ≠ 0 ∧ Jrpc.Json.valid e.data = false
  · simp [h]
  · simp only [h, if_false]
    by_cases hd : e.data = []
    · simp [hd]
    · have hl : e.data.length ≠ 0 := by simpa using hd
      have hv : Jrpc.Json.valid e.data = true := by
        cases hb : Jrpc.Json.valid e.data with
        | true => rfl
        | false => exact absurd ⟨hl, hb⟩ h
      simp [hv]

open Jrpc.Wire in
/-- it keeps the handler's code and message, and it keeps everything when the data is encodable -/
theorem sanitize_keeps (e : ErrVal) :
    (sanitizeError e).code = e.code ∧ (sanitizeError e).msg = e.msg ∧
    ((e.data = [] ∨ Jrpc.Json.valid e.data = true) → sanitizeError e = e) := by
  unfold sanitizeError
  refine ⟨?_, ?_, ?_⟩
  · split <;> rfl
  · split <;> rfl
  · intro h
    rcases h with h | h
    · simp [h]
    · simp [h]

open Jrpc.Wire in
/-- **every reply batch built by `responses` encodes**, with one entry per call, in order, each
under its own id: whatever the handlers returned, one message is produced for the inbound message
(so `deliver` never drops the replies of the other calls of a batch because of one call's error
value) -/
theorem reply_batch_entries (batch : Bool) (rs : List (Jrpc.Json.Bytes × ReplyOutcome)) :
    ∃ ms, replyMsgs batch (builtReplies rs) = some ms ∧ ms.map (·.id) = rs.map (·.1) := by
  induction rs with
  | nil => exact ⟨[], rfl, rfl⟩
  | cons p rest ih =>
    obtain ⟨rid, o⟩ := p
    obtain ⟨ms, hms, hids⟩ := ih
    cases o with
    | result r =>
      refine ⟨{ id := rid, r := r, batch := batch } :: ms, ?_, by simp [hids]⟩
      simp only [builtReplies, replyMsgs, sanitizeOutcome, replyMsg, hms]
    | error e =>
      obtain ⟨t, ht⟩ := Option.isSome_iff_exists.mp (sanitized_marshals e)
      refine ⟨{ id := rid, e := some t, batch := batch } :: ms, ?_, by simp [hids]⟩
      simp only [builtReplies, replyMsgs, sanitizeOutcome, replyMsg, ht, hms, Option.map_some]

open Jrpc.Wire in
theorem reply_batch_encodes (batch : Bool) (rs : List (Jrpc.Json.Bytes × ReplyOutcome)) :
    (encodeReplies batch (builtReplies rs)).isSome = true := by
  obtain ⟨ms, hms, _⟩ := reply_batch_entries batch rs
  simp [encodeReplies, hms]

-- the mechanism of F17: without that step one unencodable error value loses the whole batch
open Jrpc.Wire in
example : encodeReplies true [([49], .error { code := 7, msg := [120], data := [123, 34, 97, 34, 58] }), ([50], .result [34, 111, 107, 34])] = none := by decide
open Jrpc.Wire in
example : (encodeReplies true (builtReplies [([49], .error { code := 7, msg := [120], data := [123, 34, 97, 34, 58] }), ([50], .result [34, 111, 107, 34])])).isSome = true := by decide

end Jrpc.Props.C01
