import Jrpc.Model.Wire
/-! # C02 — JSON-RPC 2.0 conformance on arbitrary inbound records

The theorems are about the logic layer and hold for *every* `MemberView` (every set of keys and
raw values `encoding/json` can hand over) and every byte string through `envelope`. -/
namespace Jrpc.Props.C02
open Jrpc.Wire Jrpc.Json

/-- undecodable JSON ⇒ exactly one error object with id null and code −32700; no handler -/
theorem undecodable_is_parse_error (cfg : Cfg) (data : Bytes) (h : valid data = false) :
    serve cfg data = ⟨.single ⟨nullText, [ParseError]⟩, []⟩ := by
  simp [serve, envelope, h]

/-- an empty array ⇒ exactly one −32600 with id null; no handler -/
theorem empty_batch (cfg : Cfg) (data : Bytes) (h : envelope data = .batch []) :
    serve cfg data = ⟨.single ⟨nullText, [InvalidRequest]⟩, []⟩ := by
  simp [serve, h]

def Two (l : List Code) : Prop := ∀ c ∈ l, c = ParseError ∨ c = InvalidRequest

theorem two_append {a b : List Code} (ha : Two a) (hb : Two b) : Two (a ++ b) := by
  intro c hc; rcases List.mem_append.mp hc with h | h
  · exact ha c h
  · exact hb c h

theorem scanString_two (o : Option Bytes) : Two (scanString o).2 := by
  unfold scanString; cases o with
  | none => intro c hc; simp at hc
  | some v =>
    cases hd : decodeString v with
    | none => intro c hc; simp [hd] at hc; simp [hc]
    | some x => intro c hc; simp [hd] at hc

theorem scanID_two (o : Option Bytes) : Two (scanID o).2 := by
  unfold scanID; cases o with
  | none => intro c hc; simp at hc
  | some v => by_cases h : isValidID v = true <;> (intro c hc; simp [h] at hc; try simp [hc])

theorem scanParams_two (o : Option Bytes) : Two (scanParams o).2 := by
  unfold scanParams; cases o with
  | none => intro c hc; simp at hc
  | some v => intro c hc; simp only at hc; split at hc <;> simp at hc; (try simp [hc.2]); (try simp [hc])

theorem scanError_two (o : Option Bytes) : Two (scanError o).2 := by
  unfold scanError; cases o with
  | none => intro c hc; simp at hc
  | some v => by_cases h : errorValueOK v = true <;> (intro c hc; simp [h] at hc; try simp [hc])

theorem postChecks_two (v m : Bytes) (e : Bool) (r : Bytes) (x : Bool) : Two (postChecks v m e r x) := by
  unfold postChecks; intro c hc
  split at hc
  · simp at hc; simp [hc]
  · split at hc
    · simp at hc; simp [hc]
    · split at hc
      · simp at hc; simp [hc]
      · simp at hc

/-- every deferred validation error of a member is −32700 or −32600, whatever the member is -/
theorem member_error_codes (mv : MemberView) :
    ∀ c ∈ (parseMember mv).errs, c = ParseError ∨ c = InvalidRequest := by
  have key : ∀ fs, Two (parseObject fs).errs := by
    intro fs
    unfold parseObject
    simp only
    split
    · exact two_append (two_append (two_append (two_append (scanString_two _) (scanID_two _))
        (scanString_two _)) (scanParams_two _)) (scanError_two _)
    · exact postChecks_two _ _ _ _ _
  cases mv with
  | notObject => simp [parseMember]
  | null => exact key []
  | object fs => exact key fs

/-- a handler runs only for a member that is a valid request: no deferred error, a non-empty
method the assigner knows, and an id that is not duplicated inside the batch -/
theorem no_handler_for_invalid (cfg : Cfg) (dups : List Bytes) (j : Msg)
    (h : classify cfg dups j = .run) :
    j.errs = [] ∧ j.m ≠ [] ∧ cfg.known j.m = true ∧ ¬ (fixID j.id ≠ [] ∧ dups.contains (fixID j.id) = true) := by
  unfold classify at h
  split at h
  · simp at h
  · rename_i hd
    split at h
    · simp at h
    · rename_i he
      split at h
      · simp at h
      · rename_i hm
        split at h
        · rename_i hk
          refine ⟨by simpa using he, by simpa using hm, hk, ?_⟩
          intro ⟨a, b⟩; apply hd; simp [a]; simpa using b
        · simp at h

/-- the codes the server can answer with: −32700 / −32600 for an invalid member, −32601 only for
a well-formed request whose method has no handler (unknown or reserved) -/
theorem classify_codes (cfg : Cfg) (dups : List Bytes) (mv : MemberView) (codes : List Code)
    (h : classify cfg dups (parseMember mv) = .fail codes) :
    (∀ c ∈ codes, c = ParseError ∨ c = InvalidRequest) ∨
    (codes = [MethodNotFound] ∧ (parseMember mv).errs = [] ∧ (parseMember mv).m ≠ [] ∧
      cfg.known (parseMember mv).m = false) := by
  unfold classify at h
  split at h
  · simp at h; subst h; left; simp
  · split at h
    · simp at h; subst h; left; exact member_error_codes mv
    · rename_i he
      split at h
      · simp at h; subst h; left; simp
      · rename_i hm
        split at h
        · simp at h
        · rename_i hk
          simp at h; subst h; right
          exact ⟨rfl, by simpa using he, by simpa using hm, by simpa using hk⟩

/-- the id of a reply entry is the member's own id text, or `null` when the member has none
(absent, invalid type, or the literal `null`) -/
theorem respond_id_echo (j : Msg) (o : Outcome) (e : ReplyEntry) (h : respond j o = some e) :
    (fixID j.id ≠ [] ∧ e.id = fixID j.id) ∨ (fixID j.id = [] ∧ e.id = nullText) := by
  unfold respond at h
  cases o with
  | run =>
    simp only at h
    split at h
    · simp at h
    · rename_i hid; simp at h; subst h; left; exact ⟨by simpa using hid, rfl⟩
  | fail codes =>
    simp only at h
    split at h
    · rename_i hid
      split at h
      · simp at h; subst h; right; exact ⟨by simpa using hid, rfl⟩
      · simp at h
    · rename_i hid; simp at h; subst h; left; exact ⟨by simpa using hid, rfl⟩

/-- an echoed id is always a JSON string or number: the field scan keeps only such ids -/
theorem echoed_id_is_string_or_number (fs : List (Bytes × Bytes)) :
    isValidID (parseObject fs).id = true := by
  unfold parseObject
  simp only
  unfold scanID
  cases h : lookupLast kId fs with
  | none => simp; decide
  | some val =>
    by_cases hv : isValidID val = true
    · simp [hv]
    · simp [hv]; decide

/-- a notification is never answered: not when its handler ran, and not for method-not-found -/
theorem notification_silent (j : Msg) (h : fixID j.id = []) :
    respond j .run = none ∧ respond j (.fail [MethodNotFound]) = none := by
  simp [respond, h, ParseError, InvalidRequest, MethodNotFound]

/-- …but parse and validation errors of an id-less member are reported, with id null -/
theorem idless_invalid_reported (j : Msg) (codes : List Code) (h : fixID j.id = [])
    (hc : ∀ c ∈ codes, c = ParseError ∨ c = InvalidRequest) :
    respond j (.fail codes) = some ⟨nullText, codes⟩ := by
  have : codes.all (fun c => c == ParseError || c == InvalidRequest) = true := by
    simp only [List.all_eq_true, Bool.or_eq_true, beq_iff_eq]
    exact hc
  simp [respond, h, this]

/-- a call is always answered, with its own id -/
theorem call_answered (j : Msg) (o : Outcome) (h : fixID j.id ≠ []) :
    ∃ codes, respond j o = some ⟨fixID j.id, codes⟩ := by
  cases o with
  | run => exact ⟨[], by simp [respond, h]⟩
  | fail codes => exact ⟨codes, by simp [respond, h]⟩

/-- an id of `null` counts as absent -/
theorem null_id_counts_as_absent : isValidID nullText = true ∧ fixID nullText = [] := by decide

/-- on a push-enabled server a reply-shaped member that matches no outstanding callback is
dropped before it is queued (so it is neither answered nor handled) -/
theorem unmatched_reply_dropped (cfg : Cfg) (j : Msg) (hp : cfg.allowPush = true) (hm : j.m = [])
    (hr : j.hasE = true ∨ j.r ≠ []) : keepMember cfg j = false := by
  unfold keepMember Msg.isRequestOrNotification
  rcases hr with h | h <;> simp [hp, hm, h]

/-- without push (or for anything that is not reply-shaped) every member is kept and answered -/
theorem non_push_keeps_all (cfg : Cfg) (j : Msg) (hp : cfg.allowPush = false) : keepMember cfg j = true := by
  simp [keepMember, hp]

/-- the reply is an array only for an inbound array, and a bare object only for a bare value
(the two envelope errors aside) -/
theorem reply_shape (cfg : Cfg) (data r : Bytes) (h : envelope data = .single r) :
    ∀ es, (serve cfg data).reply ≠ .array es := by
  intro es
  unfold serve
  rw [h]
  simp only
  generalize hk : List.filterMap _ _ = entries
  have hlen : entries.length ≤ 1 := by
    rw [← hk]
    refine Nat.le_trans (List.length_filterMap_le _ _) ?_
    simp only [List.length_map]
    refine Nat.le_trans (List.length_filter_le _ _) ?_
    simp
  match entries, hlen with
  | [], _ => simp
  | [e], _ => simp
  | _ :: _ :: _, hl => simp at hl

-- non-vacuity: concrete members
example : (parseMember (.object [(kJsonrpc, [34, 50, 46, 48, 34]), (kId, [116, 114, 117, 101]), (kMethod, [34, 109, 34])])).errs = [InvalidRequest] := by decide
example : classify ⟨false, fun _ => false⟩ [] (parseMember (.object [(kJsonrpc, [34, 50, 46, 48, 34]), (kId, [49]), (kMethod, [34, 109, 34])])) = .fail [MethodNotFound] := by decide

end Jrpc.Props.C02
