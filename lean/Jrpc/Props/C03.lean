import Jrpc.Proofs.Barrier
/-! # C03 — a notification completes before any later-arriving request starts -/
namespace Jrpc.Props.C03
open Jrpc.Barrier

/-- **notification order**: in every run of the machine (any arrival sequence, any handler
durations, any interleaving of reader, dispatcher, handler goroutines and `Stop`), at the moment
a handler is started for a request `r`, every notification that arrived in an earlier inbound
message has completely finished (its handler returned and the barrier was signalled) -/
theorem notification_order (es : List Ev) (s : St) (hr : run init es = some s)
    (u : Nat) (s' : St) (hstart : step s (.start u) = some s') :
    ∃ r, s.released.find? (·.uid = u) = some r ∧
      ∀ n ∈ s.notes, n.seq < r.seq → n ∈ s.done := by
  have hinv := inv_run es init s inv_init hr
  simp only [step] at hstart
  cases hf : s.released.find? (·.uid = u) with
  | none => simp [hf] at hstart
  | some r =>
    refine ⟨r, rfl, ?_⟩
    intro n hn hlt
    have hrp : r ∈ passed s := by
      simp only [passed, List.mem_append]; exact Or.inl (Or.inl (Or.inl (find_mem hf)))
    rcases hinv.notesWhere n hn with w | w
    · exact hinv.order r hrp n w (hinv.notesAre n hn) hlt
    · have := hinv.below r hrp n w; omega

/-- a notification that is `done` did finish: `done` is only entered through `finish` (calls) or
`finish` then `signal` (notifications), so "in `done`" means "its handler has returned" -/
theorem done_monotone (s : St) (e : Ev) (s' : St) (h : step s e = some s') : ∀ m ∈ s.done, m ∈ s'.done := by
  intro m hm
  cases e with
  | arrive ms => simp only [step, Option.some.injEq] at h; subst h; exact hm
  | stop => simp only [step, Option.some.injEq] at h; subst h; exact hm
  | pop =>
    simp only [step] at h
    split at h
    · simp only [Option.some.injEq] at h; subst h; exact hm
    · simp at h
  | pass =>
    simp only [step] at h
    split at h
    · split at h
      · simp only [Option.some.injEq] at h; subst h; exact hm
      · simp at h
    · simp at h
  | start u =>
    simp only [step] at h
    split at h
    · simp only [Option.some.injEq] at h; subst h; exact hm
    · simp at h
  | finish u =>
    simp only [step] at h
    split at h
    · split at h
      · simp only [Option.some.injEq] at h; subst h; exact hm
      · simp only [Option.some.injEq] at h; subst h; exact List.mem_cons_of_mem _ hm
    · simp at h
  | signal u =>
    simp only [step] at h
    split at h
    · simp only [Option.some.injEq] at h; subst h; exact List.mem_cons_of_mem _ hm
    · simp at h

/-- a running *call* never holds the barrier: the counter counts unfinished notifications only,
so with no notification outstanding the dispatcher passes, however many calls are running -/
theorem calls_do_not_delay (es : List Ev) (s : St) (hr : run init es = some s)
    (hnotes : ∀ m ∈ live s, m.note = false) (b : List Mem) (hp : s.parked = some b) :
    ∃ s', step s .pass = some s' := by
  have hinv := inv_run es init s inv_init hr
  have hz : s.nbar = 0 := by
    rw [hinv.nbar_eq]
    unfold countNotes
    rw [List.length_eq_zero_iff, List.filter_eq_nil_iff]
    intro m hm; simp [hnotes m hm]
  simp [step, hp, hz]

/-- **the dispatcher is never wedged**: in every reachable state in which a batch is waiting at
the barrier, the handlers in flight can finish and the batch then passes -/
theorem parked_batch_passes (es : List Ev) (s : St) (hr : run init es = some s)
    (b : List Mem) (hp : s.parked = some b) :
    ∃ es' s', run s es' = some s' ∧ s'.parked = none ∧ ∀ m ∈ b, m ∈ s'.released := by
  have hinv := inv_run es init s inv_init hr
  obtain ⟨es1, s1, hrun1, hl1, hp1, _, hinv1⟩ := drain (mu s) s rfl hinv
  have hz : s1.nbar = 0 := by rw [hinv1.nbar_eq, hl1]; rfl
  have hp1' : s1.parked = some b := by rw [hp1, hp]
  refine ⟨es1 ++ [.pass], { s1 with parked := none, nbar := countNotes b, released := s1.released ++ b }, ?_, rfl, ?_⟩
  · rw [run_append', hrun1]
    simp [run, step, hp1', hz]
  · intro m hm; simp [hm]


/-- and the dispatcher always takes the next batch when it is idle -/
theorem pop_enabled (s : St) (b : List Mem) (q : List (List Mem)) (hp : s.parked = none) (hq : s.queue = b :: q) :
    ∃ s', step s .pop = some s' := by simp [step, hp, hq]

/-- the model does not over-serialise: members of one inbound message may run concurrently -/
theorem same_batch_concurrent :
    ∃ s, run init [.arrive [(1, false), (2, true)], .pop, .pass, .start 1, .start 2] = some s ∧
      s.running.length = 2 := by
  refine ⟨_, rfl, ?_⟩; decide

/-- a later call does wait for an earlier notification: `pass` is refused while it runs -/
example : run init [.arrive [(1, true)], .arrive [(2, false)], .pop, .pass, .start 1, .pop, .pass] = none := by decide
/-- …and proceeds once the notification has finished and signalled -/
example : (run init [.arrive [(1, true)], .arrive [(2, false)], .pop, .pass, .start 1, .pop, .finish 1, .signal 1, .pass, .start 2]).isSome = true := by decide

end Jrpc.Props.C03
