import Jrpc.Model.Client
/-! # C04 / C05 — client: replies matched by id; every operation completes exactly once -/
namespace Jrpc.Props.C04
open Jrpc.Client

theorem idsFrom_mem (k n i : Nat) : i ∈ idsFrom k n ↔ k ≤ i ∧ i < k + n := by
  induction n generalizing k with
  | zero => simp [idsFrom]
  | succ m ih => simp only [idsFrom, List.mem_cons, ih]; omega

theorem idsFrom_nodup (k n : Nat) : (idsFrom k n).Nodup := by
  induction n generalizing k with
  | zero => simp [idsFrom]
  | succ m ih =>
    simp only [idsFrom, List.nodup_cons]
    refine ⟨?_, ih _⟩
    rw [idsFrom_mem]; omega

theorem idsFrom_sorted (k n : Nat) : (idsFrom k n).Pairwise (· < ·) := by
  induction n generalizing k with
  | zero => simp [idsFrom]
  | succ m ih =>
    simp only [idsFrom, List.pairwise_cons]
    refine ⟨?_, ih _⟩
    intro a ha; rw [idsFrom_mem] at ha; omega

structure Inv (s : St) : Prop where
  allocFresh : ∀ i ∈ s.allocated, i < s.nextId
  allocNew : ∀ i ∈ s.allocated, i ∉ s.pending ∧ ∀ p ∈ s.slots, p.1 ≠ i
  pendFresh : ∀ i ∈ s.pending, i < s.nextId
  slotFresh : ∀ p ∈ s.slots, p.1 < s.nextId
  pendNodup : s.pending.Nodup
  disjoint : ∀ i ∈ s.pending, ∀ p ∈ s.slots, p.1 ≠ i
  slotOnce : (s.slots.map (·.1)).Nodup
  cancelUnanswered : ∀ i ∈ s.onCancel, ∃ r, (i, r) ∈ s.slots ∧ r ≠ .reply 0 ∧ ∀ p, r ≠ .reply p
  causeOnce : s.stopCauses.length ≤ 1 ∧ (s.stopped = true ↔ s.stopCauses.length = 1)

theorem inv_init : Inv {} := by
  refine ⟨by simp, by simp, by simp, by simp, by simp, by simp, by simp, by simp, by simp⟩

theorem inv_step (s : St) (e : Ev) (h : Inv s) : Inv (step s e) := by
  cases e with
  | alloc =>
    simp only [step]
    refine ⟨?_, ?_, fun i hi => Nat.lt_succ_of_lt (h.pendFresh i hi), fun p hp => Nat.lt_succ_of_lt (h.slotFresh p hp),
      h.pendNodup, h.disjoint, h.slotOnce, h.cancelUnanswered, h.causeOnce⟩
    · intro i hi
      rcases List.mem_cons.mp hi with e | e
      · simp [e]
      · exact Nat.lt_succ_of_lt (h.allocFresh i e)
    · intro i hi
      rcases List.mem_cons.mp hi with e | e
      · subst e
        exact ⟨fun hm => Nat.lt_irrefl _ (h.pendFresh _ hm), fun p hp e => Nat.lt_irrefl _ (e ▸ h.slotFresh p hp)⟩
      · exact h.allocNew i e
  | send ids ok =>
    simp only [step]
    split
    · exact h
    · rename_i hg
      have hg' : ids.all (· ∈ s.allocated) = true ∧ ids.Nodup := by
        by_cases a : ids.all (· ∈ s.allocated) = true
        · by_cases b : ids.Nodup
          · exact ⟨a, b⟩
          · exfalso; simp [a, b] at hg
        · exfalso; simp [a] at hg
      have hall : ∀ i ∈ ids, i ∈ s.allocated := by
        intro i hi; have := List.all_eq_true.mp hg'.1 i hi; simpa using this
      have hfa : ∀ i ∈ s.allocated.filter (· ∉ ids), i ∈ s.allocated := fun i hi => (List.mem_filter.mp hi).1
      split
      · exact ⟨fun i hi => h.allocFresh i (hfa i hi), fun i hi => h.allocNew i (hfa i hi), h.pendFresh, h.slotFresh,
          h.pendNodup, h.disjoint, h.slotOnce, h.cancelUnanswered, h.causeOnce⟩
      · split
        · exact ⟨fun i hi => h.allocFresh i (hfa i hi), fun i hi => h.allocNew i (hfa i hi), h.pendFresh, h.slotFresh,
            h.pendNodup, h.disjoint, h.slotOnce, h.cancelUnanswered, h.causeOnce⟩
        · refine ⟨fun i hi => h.allocFresh i (hfa i hi), ?_, ?_, h.slotFresh, ?_, ?_, h.slotOnce, h.cancelUnanswered, h.causeOnce⟩
          · intro i hi
            have hi' := List.mem_filter.mp hi
            have hni : i ∉ ids := by simpa using hi'.2
            refine ⟨?_, (h.allocNew i hi'.1).2⟩
            intro hm
            rcases List.mem_append.mp hm with e | e
            · exact hni e
            · exact (h.allocNew i hi'.1).1 e
          · intro i hi
            rcases List.mem_append.mp hi with e | e
            · exact h.allocFresh i (hall i e)
            · exact h.pendFresh i e
          · rw [List.nodup_append]
            refine ⟨hg'.2, h.pendNodup, ?_⟩
            intro a ha b hb e
            subst e
            exact (h.allocNew a (hall a ha)).1 hb
          · intro i hi p hp
            rcases List.mem_append.mp hi with e | e
            · exact (h.allocNew i (hall i e)).2 p hp
            · exact h.disjoint i e p hp
  | deliver id p =>
    simp only [step]
    split
    · rename_i hm
      refine ⟨h.allocFresh, ?_, fun i hi => h.pendFresh i (List.mem_of_mem_erase hi), ?_, h.pendNodup.erase id, ?_, ?_, ?_, h.causeOnce⟩
      · intro i hi
        have := h.allocNew i hi
        refine ⟨fun hm' => this.1 (List.mem_of_mem_erase hm'), ?_⟩
        intro q hq
        rcases List.mem_cons.mp hq with e | e
        · subst e; intro e2; exact this.1 (e2 ▸ hm)
        · exact this.2 q e
      · intro q hq
        rcases List.mem_cons.mp hq with e | e
        · subst e; exact h.pendFresh id hm
        · exact h.slotFresh q e
      · intro i hi q hq
        have hi' := (List.Nodup.mem_erase_iff h.pendNodup).mp hi
        rcases List.mem_cons.mp hq with e | e
        · subst e; exact fun x => hi'.1 x.symm
        · exact h.disjoint i hi'.2 q e
      · simp only [List.map_cons, List.nodup_cons]
        refine ⟨?_, h.slotOnce⟩
        intro hx
        obtain ⟨q, hq, hqe⟩ := List.mem_map.mp hx
        exact h.disjoint id hm q hq hqe
      · intro i hi
        obtain ⟨r, hr, hne⟩ := h.cancelUnanswered i hi
        exact ⟨r, List.mem_cons_of_mem _ hr, hne⟩
    · exact h
  | ctxDone id =>
    simp only [step]
    split
    · rename_i hm
      refine ⟨h.allocFresh, ?_, fun i hi => h.pendFresh i (List.mem_of_mem_erase hi), ?_, h.pendNodup.erase id, ?_, ?_, ?_, h.causeOnce⟩
      · intro i hi
        have := h.allocNew i hi
        refine ⟨fun hm' => this.1 (List.mem_of_mem_erase hm'), ?_⟩
        intro q hq
        rcases List.mem_cons.mp hq with e | e
        · subst e; intro e2; exact this.1 (e2 ▸ hm)
        · exact this.2 q e
      · intro q hq
        rcases List.mem_cons.mp hq with e | e
        · subst e; exact h.pendFresh id hm
        · exact h.slotFresh q e
      · intro i hi q hq
        have hi' := (List.Nodup.mem_erase_iff h.pendNodup).mp hi
        rcases List.mem_cons.mp hq with e | e
        · subst e; exact fun x => hi'.1 x.symm
        · exact h.disjoint i hi'.2 q e
      · simp only [List.map_cons, List.nodup_cons]
        refine ⟨?_, h.slotOnce⟩
        intro hx
        obtain ⟨q, hq, hqe⟩ := List.mem_map.mp hx
        exact h.disjoint id hm q hq hqe
      · intro i hi
        rcases List.mem_cons.mp hi with e | e
        · subst e
          refine ⟨_, List.mem_cons_self, ?_, ?_⟩ <;> (split <;> simp)
        · obtain ⟨r, hr, hne⟩ := h.cancelUnanswered i e
          exact ⟨r, List.mem_cons_of_mem _ hr, hne⟩
    · exact h
  | stop c =>
    simp only [step]
    split
    · exact h
    · rename_i hs
      exact ⟨h.allocFresh, h.allocNew, h.pendFresh, h.slotFresh, h.pendNodup, h.disjoint, h.slotOnce, h.cancelUnanswered, by simp⟩

theorem inv_run (es : List Ev) (s : St) (h : Inv s) : Inv (run s es) := by
  induction es generalizing s with
  | nil => exact h
  | cons e es ih => exact ih _ (inv_step s e h)

/-- **ids are never shared by two requests in flight** (and never reused): the counter only grows -/
theorem ids_unique (es : List Ev) :
    (run {} es).pending.Nodup ∧ (∀ i ∈ (run {} es).pending, i < (run {} es).nextId) :=
  ⟨(inv_run es {} inv_init).pendNodup, (inv_run es {} inv_init).pendFresh⟩

/-- **each request's slot is written exactly once**, whatever the peer sends (duplicates, unknown
ids, any order or grouping) and whenever contexts end or the client stops: so `wait` never blocks
on a full slot, every operation completes exactly once, and each reply is consumed by at most one
request -/
theorem slot_written_once (es : List Ev) : ((run {} es).slots.map (·.1)).Nodup :=
  (inv_run es {} inv_init).slotOnce

/-- **matched by id**: the reply a call completes with is a member that bore that call's id and
arrived while the call was pending -/
theorem matched_by_id (s : St) (id p j q : Nat) (h : (j, Res.reply q) ∈ (step s (.deliver id p)).slots) :
    (j, Res.reply q) ∈ s.slots ∨ (j = id ∧ q = p ∧ id ∈ s.pending) := by
  simp only [step] at h
  split at h
  · rename_i hm
    rcases List.mem_cons.mp h with e | e
    · simp at e; exact Or.inr ⟨e.1, e.2, hm⟩
    · exact Or.inl e
  · exact Or.inl h

/-- a duplicate reply, a reply with an unknown id, or one arriving after the context ended is discarded -/
theorem unknown_or_duplicate_discarded (s : St) (id p : Nat) (h : id ∉ s.pending) : step s (.deliver id p) = s := by
  simp [step, h]

/-- **`Batch` keeps spec order**: the ids of the call entries are allocated consecutively in spec
order (so the slice of responses, built in that order with notifications omitted, is in spec order) -/
theorem batch_order (start : Nat) (notify : List Bool) :
    (batchIds start notify).Pairwise (· < ·) ∧ (batchIds start notify).length = (notify.filter (!·)).length := by
  refine ⟨idsFrom_sorted _ _, ?_⟩
  unfold batchIds
  generalize (notify.filter (!·)).length = n
  induction n generalizing start with
  | zero => rfl
  | succ m ih => simp [idsFrom, ih]

/-! ### C05 -/

/-- **a stopped client transmits nothing**: operations fail immediately -/
theorem stopped_no_transmit (s : St) (ids : List Nat) (ok : Bool) (h : s.stopped = true) :
    (step s (.send ids ok)).transmitted = s.transmitted ∧ (step s (.send ids ok)).pending = s.pending := by
  simp only [step, h]; split <;> simp

/-- a failed Send registers nothing (no zombie that would never be fulfilled) -/
theorem failed_send_registers_nothing (s : St) (ids : List Nat) (h : s.stopped = false) :
    (step s (.send ids false)).pending = s.pending ∧ (step s (.send ids false)).transmitted = s.transmitted := by
  simp only [step, h]; split <;> simp

/-- **OnCancel runs only for requests that ended without a reply**: every id handed to the hook
has a slot holding a context / stop error, never a reply -/
theorem oncancel_iff_unanswered (es : List Ev) (i : Nat) (hi : i ∈ (run {} es).onCancel) :
    ∃ r, (i, r) ∈ (run {} es).slots ∧ ∀ p, r ≠ .reply p := by
  obtain ⟨r, hr, _, hne⟩ := (inv_run es {} inv_init).cancelUnanswered i hi
  exact ⟨r, hr, hne⟩

/-- …and at most once per request (the hook is scheduled by the one writer of the slot) -/
theorem answered_never_cancelled (s : St) (id : Nat) (h : id ∉ s.pending) :
    (step s (.ctxDone id)).onCancel = s.onCancel := by simp [step, h]

/-- **OnStop runs once, with the first cause** -/
theorem onstop_once_first_cause (es : List Ev) :
    (run {} es).stopCauses.length ≤ 1 ∧ ((run {} es).stopped = true ↔ (run {} es).stopCauses.length = 1) :=
  (inv_run es {} inv_init).causeOnce

theorem first_cause_kept (s : St) (c : Nat) (h : s.stopped = true) : step s (.stop c) = s := by
  simp [step, h]

/-- what a request completes with: the reply if it was delivered first, the context's own error
if the context ended first, a stop error if the client stopped first -/
theorem completion_value (s : St) (id : Nat) (h : id ∈ s.pending) :
    (∀ p, result (step s (.deliver id p)) id = some (.reply p)) ∧
    result (step s (.ctxDone id)) id = some (if s.stopped then .stopErr else .ctxErr) := by
  constructor
  · intro p; simp [step, h, result]
  · simp [step, h, result]

-- non-vacuity
example : (run {} [.alloc, .alloc, .send [1, 2] true, .deliver 2 7, .deliver 2 8, .ctxDone 1, .deliver 1 9, .stop 5, .alloc, .send [3] true]).slots
    = [(1, .ctxErr), (2, .reply 7)] := by decide

end Jrpc.Props.C04
