import Jrpc.Model.Sem
/-! # C06 — handler concurrency stays within the limit and is work-conserving -/
namespace Jrpc.Props.C06
open Jrpc.Sem

structure Inv (s : St) : Prop where
  bound : s.holding.length ≤ s.limit
  conserving : s.holding.length < s.limit → s.waiters = []
  goneOut : ∀ u ∈ s.gone, u ∉ s.holding ∧ u ∉ s.waiters
  nodupW : s.waiters.Nodup
  disjoint : ∀ u ∈ s.waiters, u ∉ s.holding

theorem grant_limit (fuel : Nat) (s : St) : (grant fuel s).limit = s.limit := by
  induction fuel generalizing s with
  | zero => rfl
  | succ f ih =>
    unfold grant
    split
    · split
      · rw [ih]
      · rfl
    · rfl

theorem grant_gone (fuel : Nat) (s : St) : (grant fuel s).gone = s.gone := by
  induction fuel generalizing s with
  | zero => rfl
  | succ f ih =>
    unfold grant
    split
    · split
      · rw [ih]
      · rfl
    · rfl

/-- granting keeps the bound, keeps `gone` tasks out, and — given enough fuel — leaves no waiter
while a unit is free -/
theorem grant_inv (fuel : Nat) (s : St)
    (hb : s.holding.length ≤ s.limit) (hg : ∀ u ∈ s.gone, u ∉ s.holding ∧ u ∉ s.waiters)
    (hn : s.waiters.Nodup) (hd : ∀ u ∈ s.waiters, u ∉ s.holding) (hf : s.waiters.length ≤ fuel) :
    Inv (grant fuel s) := by
  induction fuel generalizing s with
  | zero =>
    have : s.waiters = [] := List.length_eq_zero_iff.mp (Nat.le_zero.mp hf)
    exact ⟨hb, fun _ => this, hg, hn, hd⟩
  | succ f ih =>
    unfold grant
    cases hw : s.waiters with
    | nil => simp only; exact ⟨hb, fun _ => hw, hg, hn, hd⟩
    | cons w ws =>
      simp only
      by_cases hl : s.holding.length < s.limit
      · simp only [hl, if_true]
        rw [hw] at hn hd hf
        have hwn : w ∉ ws := (List.nodup_cons.mp hn).1
        apply ih
        · simp; omega
        · intro u hu
          have := hg u hu
          rw [hw] at this
          simp only [List.mem_append, List.mem_singleton, not_or]
          refine ⟨⟨this.1, ?_⟩, fun h => this.2 (List.mem_cons_of_mem _ h)⟩
          intro e; subst e; exact this.2 (by simp)
        · exact (List.nodup_cons.mp hn).2
        · intro u hu
          simp only [List.mem_append, List.mem_singleton, not_or]
          exact ⟨hd u (List.mem_cons_of_mem _ hu), fun e => hwn (e ▸ hu)⟩
        · simp at hf; exact hf
      · simp only [hl, if_false]
        refine ⟨hb, fun h => absurd h hl, hg, hn, hd⟩

theorem inv_init (limit : Nat) : Inv (init limit) := by
  refine ⟨by simp [init], fun _ => rfl, ?_, by simp [init], ?_⟩ <;> simp [init]

theorem inv_step (s : St) (e : Ev) (h : Inv s) : ∀ s', step s e = some s' → Inv s' := by
  intro s' hs
  cases e with
  | acquire u =>
    simp only [step] at hs
    split at hs
    · simp at hs
    · rename_i hnew
      simp only [not_or] at hnew
      split at hs
      · rename_i hc
        simp only [Option.some.injEq] at hs; subst hs
        refine ⟨by simp; omega, ?_, ?_, h.nodupW, ?_⟩
        · intro _; exact hc.2
        · intro x hx
          have := h.goneOut x hx
          simp only [List.mem_append, List.mem_singleton, not_or]
          exact ⟨⟨this.1, fun e => hnew.2.2.1 (e ▸ hx)⟩, this.2⟩
        · intro x hx; rw [hc.2] at hx; simp at hx
      · rename_i hc
        simp only [Option.some.injEq] at hs; subst hs
        refine ⟨h.bound, ?_, ?_, ?_, ?_⟩
        · intro hl
          have hw := h.conserving hl
          exact absurd ⟨hl, hw⟩ hc
        · intro x hx
          have := h.goneOut x hx
          simp only [List.mem_append, List.mem_singleton, not_or]
          exact ⟨this.1, this.2, fun e => hnew.2.2.1 (e ▸ hx)⟩
        · rw [List.nodup_append]
          refine ⟨h.nodupW, by simp, ?_⟩
          intro a ha b hb; simp at hb; subst hb; intro e; subst e; exact hnew.2.1 ha
        · intro x hx
          rcases List.mem_append.mp hx with hx | hx
          · exact h.disjoint x hx
          · simp at hx; subst hx; exact hnew.1
  | acquireDead u =>
    simp only [step] at hs
    split at hs
    · simp at hs
    · rename_i hnew
      simp only [not_or] at hnew
      simp only [Option.some.injEq] at hs; subst hs
      refine ⟨h.bound, h.conserving, ?_, h.nodupW, h.disjoint⟩
      intro x hx
      rcases List.mem_cons.mp hx with e | e
      · subst e; exact ⟨hnew.1, hnew.2.1⟩
      · exact h.goneOut x e
  | abandon u =>
    simp only [step] at hs
    split at hs
    · rename_i hu
      simp only [Option.some.injEq] at hs; subst hs
      apply grant_inv
      · exact h.bound
      · intro x hx
        rcases List.mem_cons.mp hx with e | e
        · subst e
          exact ⟨h.disjoint x hu, fun hm => (List.Nodup.mem_erase_iff h.nodupW).mp hm |>.1 rfl⟩
        · have := h.goneOut x e
          exact ⟨this.1, fun hm => this.2 (List.mem_of_mem_erase hm)⟩
      · exact h.nodupW.erase u
      · intro x hx; exact h.disjoint x (List.mem_of_mem_erase hx)
      · exact Nat.le_refl _
    · simp at hs
  | finish u =>
    simp only [step] at hs
    split at hs
    · rename_i hu
      simp only [Option.some.injEq] at hs; subst hs
      apply grant_inv
      · have := List.length_erase_of_mem hu
        simp only [this]; have := h.bound; omega
      · intro x hx
        have := h.goneOut x hx
        exact ⟨fun hm => this.1 (List.mem_of_mem_erase hm), this.2⟩
      · exact h.nodupW
      · intro x hx hm; exact h.disjoint x hx (List.mem_of_mem_erase hm)
      · exact Nat.le_refl _
    · simp at hs

theorem inv_run (es : List Ev) (s s' : St) (h : Inv s) (hr : run s es = some s') : Inv s' := by
  induction es generalizing s with
  | nil => simp [run] at hr; subst hr; exact h
  | cons e es ih =>
    simp only [run] at hr
    cases hs : step s e with
    | none => simp [hs] at hr
    | some s1 => simp [hs] at hr; exact ih s1 (inv_step s e h s1 hs) hr

theorem step_limit (s : St) (e : Ev) (s1 : St) (hs : step s e = some s1) : s1.limit = s.limit := by
  cases e with
  | acquire u =>
    simp only [step] at hs
    split at hs
    · simp at hs
    · split at hs <;> (simp only [Option.some.injEq] at hs; subst hs; rfl)
  | acquireDead u =>
    simp only [step] at hs
    split at hs
    · simp at hs
    · simp only [Option.some.injEq] at hs; subst hs; rfl
  | abandon u =>
    simp only [step] at hs
    split at hs
    · simp only [Option.some.injEq] at hs; subst hs; rw [grant_limit]
    · simp at hs
  | finish u =>
    simp only [step] at hs
    split at hs
    · simp only [Option.some.injEq] at hs; subst hs; rw [grant_limit]
    · simp at hs

theorem limit_const (es : List Ev) (s s' : St) (hr : run s es = some s') : s'.limit = s.limit := by
  induction es generalizing s with
  | nil => simp [run] at hr; subst hr; rfl
  | cons e es ih =>
    simp only [run] at hr
    cases hs : step s e with
    | none => simp [hs] at hr
    | some s1 =>
      simp [hs] at hr
      rw [ih s1 hr, step_limit s e s1 hs]

/-- **at no instant do more handlers execute than the limit allows**, for every limit and every
history of acquisitions, completions and cancellations -/
theorem running_le_limit (limit : Nat) (es : List Ev) (s : St) (hr : run (init limit) es = some s) :
    s.holding.length ≤ limit := by
  have := (inv_run es _ s (inv_init limit) hr).bound
  rw [limit_const es _ s hr] at this; exact this

/-- **work-conserving**: whenever fewer than the limit are executing, nobody is waiting -/
theorem work_conserving (limit : Nat) (es : List Ev) (s : St) (hr : run (init limit) es = some s)
    (hfree : s.holding.length < limit) : s.waiters = [] := by
  have h := inv_run es _ s (inv_init limit) hr
  apply h.conserving
  rw [limit_const es _ s hr]; exact hfree

/-- a task that gave up waiting (its context ended) never holds a unit afterwards — its handler
never runs; it is answered with the context's error -/
theorem cancelled_waiter_never_runs (limit : Nat) (es : List Ev) (s : St)
    (hr : run (init limit) es = some s) (u : Nat) (hu : u ∈ s.gone) : u ∉ s.holding ∧ u ∉ s.waiters :=
  (inv_run es _ s (inv_init limit) hr).goneOut u hu

/-- a released request with a live context always gets in line: `acquire` is enabled for any fresh task -/
theorem acquire_enabled (s : St) (u : Nat) (h : u ∉ s.holding ∧ u ∉ s.waiters ∧ u ∉ s.gone ∧ u ∉ s.finished) :
    ∃ s', step s (.acquire u) = some s' := by
  simp only [step]
  have : ¬ (u ∈ s.holding ∨ u ∈ s.waiters ∨ u ∈ s.gone ∨ u ∈ s.finished) := by
    intro hh; rcases hh with a | a | a | a
    · exact h.1 a
    · exact h.2.1 a
    · exact h.2.2.1 a
    · exact h.2.2.2 a
  simp only [this, if_false]
  split <;> exact ⟨_, rfl⟩

/-- the option's floor and default: values < 1 (or nil options) mean the number of CPUs -/
theorem concurrency_floor (sNil : Bool) (conc ncpu : Int) (h : 1 ≤ ncpu) : 1 ≤ concurrency sNil conc ncpu := by
  unfold concurrency
  split
  · exact h
  · rename_i hc; simp at hc; omega

-- non-vacuity
example : (run (init 2) [.acquire 1, .acquire 2, .acquire 3, .finish 1]).map (fun s => (s.holding, s.waiters)) = some ([2, 3], []) := by decide
example : (run (init 1) [.acquire 1, .acquire 2, .abandon 2, .finish 1]).map (fun s => (s.holding, s.gone)) = some ([], [2]) := by decide

end Jrpc.Props.C06
