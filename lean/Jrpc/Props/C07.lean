import Jrpc.Model.IdTable
/-! # C07 — cancellation hits only its target; ids reserved only while in flight -/
namespace Jrpc.Props.C07
open Jrpc.IdTable

theorem lookup_mem {i : Id} {u : Nat} {l : List (Id × Nat)} (h : lookup i l = some u) : (i, u) ∈ l := by
  induction l with
  | nil => simp [lookup] at h
  | cons p r ih =>
    obtain ⟨k, v⟩ := p
    unfold lookup at h
    by_cases hk : k = i
    · simp [hk] at h; subst h; subst hk; simp
    · simp [hk] at h; exact List.mem_cons_of_mem _ (ih h)

theorem lookup_none_iff {i : Id} {l : List (Id × Nat)} : lookup i l = none ↔ ∀ p ∈ l, p.1 ≠ i := by
  induction l with
  | nil => simp [lookup]
  | cons p r ih =>
    obtain ⟨k, v⟩ := p
    unfold lookup
    by_cases hk : k = i
    · simp [hk]
    · simp [hk, ih]

theorem lookup_remove (i : Id) (l : List (Id × Nat)) : lookup i (remove i l) = none := by
  rw [lookup_none_iff]; intro p hp; simp [remove] at hp; exact hp.2

theorem lookup_remove_ne (i j : Id) (l : List (Id × Nat)) (h : j ≠ i) : lookup j (remove i l) = lookup j l := by
  induction l with
  | nil => rfl
  | cons p r ih =>
    obtain ⟨k, v⟩ := p
    have ih' : lookup j (List.filter (fun p => decide (p.1 ≠ i)) r) = lookup j r := ih
    show lookup j (List.filter (fun p => decide (p.1 ≠ i)) ((k, v) :: r)) = lookup j ((k, v) :: r)
    by_cases hk : k = i
    · subst hk
      have hkj : k ≠ j := fun e => h e.symm
      simp only [List.filter_cons, ne_eq, not_true_eq_false, decide_false, Bool.false_eq_true, if_false]
      rw [ih']; simp [lookup, hkj]
    · simp only [List.filter_cons, ne_eq, hk, not_false_eq_true, decide_true, if_true]
      by_cases hj : k = j
      · simp [lookup, hj]
      · simp only [lookup, hj, if_false]; exact ih'

/-- **CancelRequest for an unknown or finished id does nothing** -/
theorem cancel_unknown_noop (s : St) (i : Id) (h : lookup i s.used = none) : step s (.cancelReq i) = some s := by
  simp [step, h]

/-- **CancelRequest cancels exactly the holder of that id** and keeps the reservation, so a second
request with the id is still rejected while the first is in flight -/
theorem cancel_hits_holder (s : St) (i : Id) (u : Nat) (h : lookup i s.used = some u) :
    step s (.cancelReq i) = some { s with cancelled := (u, .request) :: s.cancelled } := by
  simp [step, h]

/-- releasing one delivered call cancels at most the context the table holds *under that call's id*
and frees exactly that id -/
theorem release_effect (s : St) (c : Call) :
    (release s c).cancelled = (match lookup c.id s.used with
      | some u => (u, Cause.delivery) :: s.cancelled | none => s.cancelled) ∧
    lookup c.id (release s c).used = none ∧
    (∀ j, j ≠ c.id → lookup j (release s c).used = lookup j s.used) := by
  unfold release
  cases h : lookup c.id s.used with
  | none => simp [h]
  | some u =>
    refine ⟨by simp, by simpa using lookup_remove _ _, ?_⟩
    intro j hj; simpa using lookup_remove_ne _ _ _ hj

/-- the table agrees with the set of in-flight calls -/
structure Inv (s : St) : Prop where
  holder : ∀ i u, lookup i s.used = some u → ∃ c ∈ s.inflight, c.id = i ∧ c.uid = u
  idsUnique : ∀ c ∈ s.inflight, ∀ d ∈ s.inflight, c.id = d.id → s.stopped = false → c = d
  reserved : s.stopped = false → ∀ c ∈ s.inflight, lookup c.id s.used = some c.uid
  nodup : s.inflight.Nodup

/-- **the completion of a call cancels only that call**: with the table in agreement with the
in-flight set, the context cancelled by a delivery is the delivered call's own -/
theorem deliver_cancels_only_own (s : St) (h : Inv s) (c : Call) (hc : c ∈ s.inflight) (hs : s.stopped = false) :
    (release s c).cancelled = (c.uid, .delivery) :: s.cancelled ∧ lookup c.id (release s c).used = none := by
  have := release_effect s c
  rw [h.reserved hs c hc] at this
  exact ⟨this.1, this.2.1⟩

/-- **once the reply has been sent the id is accepted again** — whatever the outcome -/
theorem id_reusable_after_reply (s : St) (c : Call) : lookup c.id (release s c).used = none :=
  (release_effect s c).2.1

/-- a second request with a reserved id is rejected (`duplicate`) -/
def dupVerdict (s : St) (batch : List Call) (c : Call) : Bool :=
  (batch.filter (fun x => x.id = c.id)).length ≥ 2 || (lookup c.id s.used).isSome

theorem assign_used_superset (s : St) (cs : List Call) (i : Id) (u : Nat)
    (hfresh : ∀ c ∈ cs, c.id ≠ i) (h : lookup i s.used = some u) : lookup i (assign s cs).used = some u := by
  induction cs generalizing s with
  | nil => exact h
  | cons c r ih =>
    unfold assign
    have hr : ∀ x ∈ r, x.id ≠ i := fun x hx => hfresh x (by simp [hx])
    have hc : c.id ≠ i := hfresh c (by simp)
    split
    · apply ih _ hr
      simp only [lookup, hc, if_false]; exact h
    · exact ih _ hr h

theorem assign_cancelled (s : St) (cs : List Call) (u : Nat) (k : Cause) (hk : k ≠ .unassigned)
    : (u, k) ∈ (assign s cs).cancelled → (u, k) ∈ s.cancelled := by
  induction cs generalizing s with
  | nil => exact id
  | cons c r ih =>
    unfold assign
    split
    · exact ih _
    · intro h
      have := ih _ h
      simp only [List.mem_cons, Prod.mk.injEq] at this
      rcases this with ⟨_, e⟩ | e
      · exact absurd e hk
      · exact e

/-- **a duplicate is rejected without disturbing the first call**: admitting a batch leaves every
existing reservation in place and cancels the context of no call (the only cancellations it records
are the throw-away contexts of members without a handler) -/
theorem dup_rejected_without_disturbing (s : St) (batch : List Call) (s' : St)
    (h : step s (.admitB batch) = some s') (i : Id) (u : Nat) (hu : lookup i s.used = some u) :
    lookup i s'.used = some u ∧ ∀ k, k ≠ Cause.unassigned → (u, k) ∈ s'.cancelled → (u, k) ∈ s.cancelled := by
  simp only [step] at h
  split at h
  · simp at h
  · simp only [Option.some.injEq] at h; subst h
    constructor
    · apply assign_used_superset
      · intro c hc e
        simp only [List.mem_filter, Bool.not_eq_true', Bool.or_eq_false_iff] at hc
        have := hc.2.2
        rw [e, hu] at this; simp at this
      · exact hu
    · intro k hk hm
      exact assign_cancelled _ _ u k hk hm |> fun x => by simpa using x

/-- two members of one batch with the same id both fail -/
theorem in_batch_duplicates_both_fail (s : St) (batch : List Call) (a b : Call)
    (ha : a ∈ batch) (hb : b ∈ batch) (hab : a ≠ b) (hid : a.id = b.id) :
    dupVerdict s batch a = true ∧ dupVerdict s batch b = true := by
  have two : ∀ x : Call, x.id = a.id → 2 ≤ (batch.filter (fun y => decide (y.id = x.id))).length := by
    intro x hx
    have h1 : a ∈ batch.filter (fun y => decide (y.id = x.id)) := by simp [List.mem_filter, ha, hx]
    have h2 : b ∈ batch.filter (fun y => decide (y.id = x.id)) := by simp [List.mem_filter, hb, hx, hid]
    cases hl : batch.filter (fun y => decide (y.id = x.id)) with
    | nil => rw [hl] at h1; simp at h1
    | cons p r =>
      cases r with
      | nil => rw [hl] at h1 h2; simp at h1 h2; exact absurd (h1.trans h2.symm) hab
      | cons q r' => simp
  unfold dupVerdict
  constructor
  · have := two a rfl; simp; left; omega
  · have := two b hid.symm; simp; left; omega

/-- Stop cancels every in-flight call and empties the table -/
theorem stop_cancels_all (s : St) (s' : St) (h : step s .stop = some s') :
    s'.used = [] ∧ ∀ p ∈ s.used, (p.2, Cause.stop) ∈ s'.cancelled := by
  simp only [step, Option.some.injEq] at h; subst h
  refine ⟨rfl, ?_⟩
  intro p hp
  simp only [List.mem_append, List.mem_map]
  exact Or.inl ⟨p, hp, rfl⟩

/-! ### the agreement invariant holds in every reachable state -/

theorem assign_stopped (s : St) (cs : List Call) : (assign s cs).stopped = s.stopped := by
  induction cs generalizing s with
  | nil => rfl
  | cons c r ih => unfold assign; split <;> rw [ih]

theorem inv_assign (s : St) (cs : List Call) (h : Inv s) (hs : s.stopped = false)
    (hfree : ∀ c ∈ cs, lookup c.id s.used = none)
    (hdist : cs.Pairwise (fun a b => a.id ≠ b.id)) : Inv (assign s cs) := by
  induction cs generalizing s with
  | nil => exact h
  | cons c r ih =>
    unfold assign
    have hr : ∀ x ∈ r, lookup x.id s.used = none := fun x hx => hfree x (by simp [hx])
    have hcfree : lookup c.id s.used = none := hfree c (by simp)
    have hd := List.pairwise_cons.mp hdist
    split
    · apply ih
      · refine ⟨?_, ?_, ?_, ?_⟩
        rotate_left 3
        · simp only [List.nodup_cons]
          refine ⟨?_, h.nodup⟩
          intro hm
          have := h.reserved hs c hm
          rw [hcfree] at this; simp at this
        · intro i u hl
          simp only [lookup] at hl
          by_cases e : c.id = i
          · simp [e] at hl; subst hl; exact ⟨c, by simp, e, rfl⟩
          · simp only [e, if_false] at hl
            obtain ⟨d, hd1, hd2⟩ := h.holder i u hl
            exact ⟨d, by simp [hd1], hd2⟩
        · intro a ha b hb hab _
          simp only [List.mem_cons] at ha hb
          rcases ha with ha | ha <;> rcases hb with hb | hb
          · rw [ha, hb]
          · subst ha
            have := h.reserved hs b hb
            rw [← hab, hcfree] at this; simp at this
          · subst hb
            have := h.reserved hs a ha
            rw [hab, hcfree] at this; simp at this
          · exact h.idsUnique a ha b hb hab hs
        · intro _ a ha
          simp only [List.mem_cons] at ha
          rcases ha with ha | ha
          · subst ha; simp [lookup]
          · have := h.reserved hs a ha
            simp only [lookup]
            by_cases e : c.id = a.id
            · rw [← e, hcfree] at this; simp at this
            · simp only [e, if_false]; exact this
      · exact hs
      · intro x hx
        simp only [lookup]
        have : c.id ≠ x.id := hd.1 x hx
        simp only [this, if_false]; exact hr x hx
      · exact hd.2
    · apply ih
      · exact ⟨h.holder, h.idsUnique, h.reserved, h.nodup⟩
      · exact hs
      · exact hr
      · exact hd.2

theorem inv_release (s : St) (c : Call) (h : Inv s) (hc : c ∈ s.inflight) : Inv (release s c) := by
  have hinf : ∀ x, x ∈ (release s c).inflight ↔ x ∈ s.inflight ∧ x ≠ c := by
    intro x; unfold release; split <;> simp [List.mem_filter]
  have hstop : (release s c).stopped = s.stopped := by unfold release; split <;> rfl
  have heff := release_effect s c
  refine ⟨?_, ?_, ?_, ?_⟩
  rotate_left 3
  · unfold release; split <;> exact h.nodup.filter _
  · intro i u hl
    by_cases e : i = c.id
    · subst e; rw [heff.2.1] at hl; simp at hl
    · rw [heff.2.2 i e] at hl
      obtain ⟨d, hd1, hd2, hd3⟩ := h.holder i u hl
      refine ⟨d, (hinf d).mpr ⟨hd1, ?_⟩, hd2, hd3⟩
      intro hdc; subst hdc; exact e hd2.symm
  · intro a ha b hb hab hs
    rw [hstop] at hs
    exact h.idsUnique a ((hinf a).mp ha).1 b ((hinf b).mp hb).1 hab hs
  · intro hs a ha
    rw [hstop] at hs
    have ha' := (hinf a).mp ha
    have hne : a.id ≠ c.id := fun e => ha'.2 (h.idsUnique a ha'.1 c hc e hs)
    rw [heff.2.2 a.id hne]
    exact h.reserved hs a ha'.1

theorem inv_releaseAll (s : St) (cs : List Call) (h : Inv s) (hc : ∀ c ∈ cs, c ∈ s.inflight)
    (hnd : cs.Nodup) : Inv (releaseAll s cs) := by
  induction cs generalizing s with
  | nil => exact h
  | cons c r ih =>
    unfold releaseAll
    have hd := List.nodup_cons.mp hnd
    apply ih _ (inv_release s c h (hc c (by simp)))
    · intro x hx
      have : x ∈ s.inflight := hc x (by simp [hx])
      have hne : x ≠ c := fun e => hd.1 (e ▸ hx)
      unfold release; split <;> simp [List.mem_filter, this, hne]
    · exact hd.2

theorem filter_once_pairwise (batch : List Call) (P : Call → Bool)
    (hP : ∀ c, P c = true → (batch.filter (fun x => decide (x.id = c.id))).length < 2) :
    (batch.filter P).Pairwise (fun a b => a.id ≠ b.id) := by
  induction batch with
  | nil => simp
  | cons x r ih =>
    have hr : ∀ c, P c = true → (r.filter (fun y => decide (y.id = c.id))).length < 2 := by
      intro c hc
      have := hP c hc
      simp only [List.filter_cons] at this
      split at this
      · simp at this; omega
      · exact this
    by_cases hx : P x = true
    · simp only [List.filter_cons, hx, if_true, List.pairwise_cons]
      refine ⟨?_, ih hr⟩
      intro b hb e
      have hb' := (List.mem_filter.mp hb).1
      have := hP x hx
      simp only [List.filter_cons, decide_true, if_true, List.length_cons] at this
      have hpos : 0 < (r.filter (fun y => decide (y.id = x.id))).length := by
        apply List.length_pos_of_mem (a := b)
        simp [List.mem_filter, hb', e]
      omega
    · simp only [List.filter_cons, hx, Bool.false_eq_true, if_false]; exact ih hr

theorem inv_init : Inv init := by
  refine ⟨?_, ?_, ?_, ?_⟩ <;> simp [init, lookup]

theorem inv_step (s : St) (e : Ev) (h : Inv s) : ∀ s', step s e = some s' → Inv s' := by
  intro s' hs
  cases e with
  | admitB batch =>
    simp only [step] at hs
    split at hs
    · simp at hs
    · rename_i hst
      simp only [Option.some.injEq] at hs; subst hs
      apply inv_assign
      · exact ⟨h.holder, h.idsUnique, h.reserved, h.nodup⟩
      · simpa using hst
      · intro c hc
        simp only [List.mem_filter, Bool.not_eq_true', Bool.or_eq_false_iff] at hc
        cases hl : lookup c.id s.used with
        | none => rfl
        | some u => have := hc.2.2; rw [hl] at this; simp at this
      · apply filter_once_pairwise
        intro c hc
        simp only [Bool.not_eq_true', Bool.or_eq_false_iff, decide_eq_false_iff_not] at hc
        have := hc.1; omega
  | deliver uids =>
    simp only [step, Option.some.injEq] at hs; subst hs
    apply inv_releaseAll s _ h
    · intro c hc; exact (List.mem_filter.mp hc).1
    · exact h.nodup.filter _
  | cancelReq i =>
    simp only [step] at hs
    split at hs <;> (simp only [Option.some.injEq] at hs; subst hs; exact ⟨h.holder, h.idsUnique, h.reserved, h.nodup⟩)
  | stop =>
    simp only [step, Option.some.injEq] at hs; subst hs
    refine ⟨?_, ?_, ?_, h.nodup⟩
    · intro i u hl; simp [lookup] at hl
    · intro a _ b _ _ hst; simp at hst
    · intro hst; simp at hst

theorem inv_run (es : List Ev) (s s' : St) (h : Inv s) (hr : run s es = some s') : Inv s' := by
  induction es generalizing s with
  | nil => simp [run] at hr; subst hr; exact h
  | cons e es ih =>
    simp only [run] at hr
    cases hs : step s e with
    | none => simp [hs] at hr
    | some s1 => simp [hs] at hr; exact ih s1 (inv_step s e h s1 hs) hr

/-- **reserved exactly while in flight**: in every reachable state of a running server the table
holds precisely the ids of the calls whose handler was assigned and whose reply has not been sent -/
theorem reserved_iff_inflight (es : List Ev) (s : St) (hr : run init es = some s) (hs : s.stopped = false) (i : Id) :
    (lookup i s.used).isSome ↔ ∃ c ∈ s.inflight, c.id = i := by
  have h := inv_run es init s inv_init hr
  constructor
  · intro hl
    cases hu : lookup i s.used with
    | none => rw [hu] at hl; simp at hl
    | some u => obtain ⟨c, hc, hci, _⟩ := h.holder i u hu; exact ⟨c, hc, hci⟩
  · rintro ⟨c, hc, rfl⟩
    rw [h.reserved hs c hc]; rfl

/-- **in every reachable state, delivering a call cancels that call only** -/
theorem delivery_cancels_only_own_reachable (es : List Ev) (s : St) (hr : run init es = some s)
    (hs : s.stopped = false) (c : Call) (hc : c ∈ s.inflight) :
    (release s c).cancelled = (c.uid, .delivery) :: s.cancelled :=
  (deliver_cancels_only_own s (inv_run es init s inv_init hr) c hc hs).1

-- the scenarios of the two defects, as facts about the repaired model
/-- F1: after a call to an unknown method is answered, its id is free -/
example : (run init [.admitB [⟨1, 7, false⟩], .admitB [⟨2, 7, true⟩]]).map (·.verdicts) =
    some [(2, .run), (1, .notFound)] := by decide
/-- F7: CancelRequest keeps the id reserved; the duplicate is rejected; the first call's delivery
cancels only the first call -/
example : (run init [.admitB [⟨1, 1, true⟩], .cancelReq 1, .admitB [⟨2, 1, true⟩], .deliver [1]]).map
    (fun s => (s.verdicts, s.cancelled)) =
    some ([(2, .duplicate), (1, .run)], [(1, .delivery), (1, .request)]) := by decide

end Jrpc.Props.C07
