import Jrpc.Model.Lifecycle
/-! # C08 — clean, crash-free, restartable shutdown -/
namespace Jrpc.Props.C08
open Jrpc.Lifecycle

/-- `Start` is only called on a server that is not running (documented precondition) -/
def legal (s : St) : Ev → Bool
  | .start => !s.running
  | _ => true

def runLegal (s : St) : List Ev → Option St
  | [] => some s
  | e :: es => if legal s e then (step s e).bind (runLegal · es) else none

structure Inv (s : St) : Prop where
  alive : s.crashed = false
  closeOnce : s.closes ≤ 1
  closedIff : s.starts > 0 → (s.closes = 1 ↔ s.running = false)
  drained : s.disp = false → s.running = false ∧ s.queue = 0
  errSet : s.running = false → s.starts > 0 → s.err.isSome
  fresh : s.starts = 0 → s.running = false ∧ s.disp = false ∧ s.reader = false ∧ s.queue = 0 ∧ s.held = false ∧ s.closes = 0

theorem stopLocked_props (s : St) (c : Cause) (k : Nat) :
    (stopLocked s c k).running = false ∧ (stopLocked s c k).crashed = s.crashed ∧
    (stopLocked s c k).disp = s.disp ∧ (stopLocked s c k).starts = s.starts ∧
    (stopLocked s c k).queue ≤ s.queue ∧
    (stopLocked s c k).closes = (if s.running then s.closes + 1 else s.closes) ∧
    (stopLocked s c k).err = (if s.running then some c else s.err) ∧
    (stopLocked s c k).reader = s.reader ∧ (stopLocked s c k).held = s.held ∧ (stopLocked s c k).batches = s.batches := by
  unfold stopLocked
  by_cases h : s.running = true
  · simp [h]; exact Nat.min_le_right _ _
  · have h' : s.running = false := by simpa using h
    simp [h']

theorem inv_init : Inv {} := by
  refine ⟨rfl, by simp, by simp, by simp, by simp, by simp⟩

theorem inv_stopLocked (s : St) (c : Cause) (k : Nat) (h : Inv s) : Inv (stopLocked s c k) := by
  obtain ⟨p1, p2, p3, p4, p5, p6, p7, p8, p9, p10⟩ := stopLocked_props s c k
  refine ⟨by rw [p2]; exact h.alive, ?_, ?_, ?_, ?_, ?_⟩
  · rw [p6]; split
    · rename_i hr
      have hs : s.starts > 0 := by
        by_cases z : s.starts = 0
        · have := (h.fresh z).1; rw [hr] at this; simp at this
        · omega
      have := (h.closedIff hs)
      have hne : s.closes ≠ 1 := fun e => by have := this.mp e; rw [hr] at this; simp at this
      have := h.closeOnce; omega
    · exact h.closeOnce
  · intro hs; rw [p4] at hs
    rw [p6, p1]
    constructor
    · intro _; rfl
    · intro _
      split
      · rename_i hr
        have hne : s.closes ≠ 1 := fun e => by have := (h.closedIff hs).mp e; rw [hr] at this; simp at this
        have := h.closeOnce; omega
      · rename_i hr
        exact (h.closedIff hs).mpr (by simpa using hr)
  · intro hd; rw [p3] at hd
    have := h.drained hd
    exact ⟨p1, by have := this.2; omega⟩
  · intro _ hs; rw [p4] at hs
    rw [p7]; split
    · rfl
    · rename_i hr; exact h.errSet (by simpa using hr) hs
  · intro hs; rw [p4] at hs
    have f := h.fresh hs
    refine ⟨p1, by rw [p3]; exact f.2.1, by rw [p8]; exact f.2.2.1, by have := f.2.2.2.1; omega, by rw [p9]; exact f.2.2.2.2.1, ?_⟩
    rw [p6, f.1]; simp [f.2.2.2.2.2]

theorem inv_step (s : St) (e : Ev) (h : Inv s) (hl : legal s e = true) : ∀ s', step s e = some s' → Inv s' := by
  intro s' hs
  have ha := h.alive
  cases e with
  | start =>
    simp only [legal, Bool.not_eq_true'] at hl
    simp only [step, ha, hl, Bool.false_eq_true, if_false, Option.some.injEq] at hs
    subst hs
    refine ⟨by simp, by simp, by simp, by simp, by simp, by simp⟩
  | recvRecord =>
    simp only [step] at hs
    split at hs
    · simp only [Option.some.injEq] at hs; subst hs
      exact ⟨ha, h.closeOnce, h.closedIff, h.drained, h.errSet, by
        intro z; have f := h.fresh z; rename_i hc; simp [f.2.2.1] at hc⟩
    · simp at hs
  | recvFail c =>
    simp only [step] at hs
    split at hs
    · simp only [Option.some.injEq] at hs; subst hs
      have hi := inv_stopLocked s c s.queue h
      rename_i hc
      exact ⟨hi.alive, hi.closeOnce, hi.closedIff, hi.drained, hi.errSet, by
        intro z
        have : (stopLocked s c s.queue).starts = s.starts := (stopLocked_props s c s.queue).2.2.2.1
        have f := h.fresh (by rw [← this]; exact z)
        simp [f.2.2.1] at hc⟩
    · simp at hs
  | readProcess enq =>
    simp only [step] at hs
    split at hs
    · rename_i hc
      split at hs
      · simp only [Option.some.injEq] at hs; subst hs
        exact ⟨ha, h.closeOnce, h.closedIff, h.drained, h.errSet, by
          intro z; have f := h.fresh z; simp [f.2.2.2.2.1] at hc⟩
      · rename_i hr
        simp only [Option.some.injEq] at hs; subst hs
        refine ⟨ha, h.closeOnce, h.closedIff, ?_, h.errSet, by
          intro z; have f := h.fresh z; simp [f.2.2.2.2.1] at hc⟩
        intro hd
        have := h.drained hd
        simp [this.1] at hr
    · simp at hs
  | dispTake =>
    simp only [step] at hs
    split at hs
    · rename_i hc
      simp only [Option.some.injEq] at hs; subst hs
      refine ⟨ha, h.closeOnce, h.closedIff, ?_, h.errSet, by
        intro z; have f := h.fresh z; simp [f.2.1] at hc⟩
      intro hd; simp only at hd; simp [hd] at hc
    · simp at hs
  | dispExit =>
    simp only [step] at hs
    split at hs
    · rename_i hc
      simp only [Option.some.injEq] at hs; subst hs
      simp only [Bool.and_eq_true, Bool.not_eq_true', decide_eq_true_eq] at hc
      refine ⟨ha, h.closeOnce, h.closedIff, fun _ => ⟨hc.1.1.2, hc.1.2⟩, h.errSet, by
        intro z; have f := h.fresh z; simp [f.2.1] at hc⟩
    · simp at hs
  | batchDone =>
    simp only [step] at hs
    split at hs
    · simp only [Option.some.injEq] at hs; subst hs
      exact ⟨ha, h.closeOnce, h.closedIff, h.drained, h.errSet, h.fresh⟩
    · simp at hs
  | stop =>
    simp only [step, ha, Bool.false_eq_true, if_false, Option.some.injEq] at hs
    subst hs; exact inv_stopLocked s _ _ h
  | keep k =>
    simp only [step, ha, Bool.false_eq_true, if_false, Option.some.injEq] at hs
    subst hs
    refine ⟨by simp, h.closeOnce, h.closedIff, ?_, h.errSet, ?_⟩
    · intro hd; have := h.drained hd; exact ⟨this.1, by simp [this.2]⟩
    · intro z; have f := h.fresh z; exact ⟨f.1, f.2.1, f.2.2.1, by simp [f.2.2.2.1], f.2.2.2.2.1, f.2.2.2.2.2⟩
  | waitStatus =>
    simp only [step] at hs
    split at hs
    · rename_i hc
      simp only [Bool.and_eq_true, Bool.not_eq_true', decide_eq_true_eq] at hc
      have hq : s.queue = 0 := (h.drained hc.1.1.2).2
      simp only [hq, ne_eq, not_true_eq_false, if_false, Option.some.injEq] at hs
      subst hs; exact h
    · simp at hs

theorem inv_run (es : List Ev) (s s' : St) (h : Inv s) (hr : runLegal s es = some s') : Inv s' := by
  induction es generalizing s with
  | nil => simp [runLegal] at hr; subst hr; exact h
  | cons e es ih =>
    simp only [runLegal] at hr
    split at hr
    · rename_i hl
      cases hs : step s e with
      | none => simp [hs] at hr
      | some s1 => simp [hs] at hr; exact ih s1 (inv_step s e h hl s1 hs) hr
    · simp at hr

/-- **no interleaving of records, handler completions, Stop / close / failure makes the server
panic**: no reachable state is crashed — in particular a record received around or after the stop
is discarded, and `WaitStatus` never meets a non-empty queue -/
theorem never_crashes (es : List Ev) (s : St) (hr : runLegal {} es = some s) : s.crashed = false :=
  (inv_run es {} s inv_init hr).alive

/-- **each start ends exactly once**: the channel is closed at most once per start, and exactly
once as soon as the server is no longer running -/
theorem close_once_per_start (es : List Ev) (s : St) (hr : runLegal {} es = some s) :
    s.closes ≤ 1 ∧ (s.starts > 0 → (s.closes = 1 ↔ s.running = false)) :=
  ⟨(inv_run es {} s inv_init hr).closeOnce, (inv_run es {} s inv_init hr).closedIff⟩

/-- **the first cause wins**: once stopped, further Stop / failure events leave the recorded cause alone -/
theorem first_cause_wins (s : St) (c : Cause) (k : Nat) (h : s.running = false) :
    (stopLocked s c k).err = s.err ∧ (stopLocked s c k).closes = s.closes := by
  simp [stopLocked, h]

theorem stop_records_cause (s : St) (c : Cause) (k : Nat) (h : s.running = true) :
    (stopLocked s c k).err = some c := by simp [stopLocked, h]

/-- **status classification**: Stopped for Stop, Closed for peer close, the error otherwise; the
three outcomes are mutually exclusive (at most one flag) -/
theorem status_classification :
    classify (some .stopped) = .stoppedOk ∧ classify (some .closed) = .closedOk ∧
    classify (some .failed) = .error ∧ classify none = .error := by decide

/-- **WaitStatus returns only after every handler has returned** (its guard is the wait group:
reader, dispatcher and every per-batch goroutine have exited), and then the queue is empty -/
theorem waitstatus_after_handlers (es : List Ev) (s s' : St) (hr : runLegal {} es = some s)
    (hw : step s .waitStatus = some s') :
    s.reader = false ∧ s.disp = false ∧ s.batches = 0 ∧ s.queue = 0 ∧ s' = s := by
  have h := inv_run es {} s inv_init hr
  simp only [step] at hw
  split at hw
  · rename_i hc
    simp only [Bool.and_eq_true, Bool.not_eq_true', decide_eq_true_eq] at hc
    have hq : s.queue = 0 := (h.drained hc.1.1.2).2
    simp only [hq, ne_eq, not_true_eq_false, if_false, Option.some.injEq] at hw
    exact ⟨hc.1.1.1, hc.1.1.2, hc.1.2, hq, hw.symm⟩
  · simp at hw

/-- **restartable**: once `WaitStatus` can return, `Start` is legal again and yields a running
server with an empty queue, an open channel and no recorded cause -/
theorem restartable (es : List Ev) (s : St) (hr : runLegal {} es = some s)
    (hw : (step s .waitStatus).isSome) :
    ∃ s', step s .start = some s' ∧ s'.running = true ∧ s'.err = none ∧ s'.queue = 0 ∧ s'.closes = 0 ∧
      s'.crashed = false ∧ s'.reader = true ∧ s'.disp = true := by
  have h := inv_run es {} s inv_init hr
  cases hws : step s .waitStatus with
  | none => rw [hws] at hw; simp at hw
  | some s1 =>
    obtain ⟨_, hd, _, hq, _⟩ := waitstatus_after_handlers es s s1 hr hws
    have hrun : s.running = false := (h.drained hd).1
    refine ⟨{ s with running := true, err := none, closes := 0, starts := s.starts + 1, reader := true,
                      held := false, disp := true }, ?_, rfl, rfl, hq, rfl, h.alive, rfl, rfl⟩
    simp [step, h.alive, hrun]

/-- the unrepaired reader (records processed against a stopped server) is NOT crash-free: the
witness history of findings F2/F3 — the property theorem above is about the repaired code -/
def legacyReadProcess (s : St) : St := if !s.running then { s with crashed := true } else { s with held := false }
example : (legacyReadProcess ((run {} [.start, .recvRecord, .stop]).getD {})).crashed = true := by decide

-- non-vacuity
example : (runLegal {} [.start, .recvRecord, .stop, .readProcess true, .dispExit, .recvFail .closed, .waitStatus, .start]).isSome = true := by decide
example : ((runLegal {} [.start, .recvRecord, .readProcess true, .dispTake, .stop, .recvFail .closed, .dispExit, .batchDone, .waitStatus]).map (fun s => classify s.err)) = some .stoppedOk := by decide

end Jrpc.Props.C08
