import Jrpc.Model.Push
/-! # C09 — server push: delivery, matching, timeout, shutdown -/
namespace Jrpc.Props.C09
open Jrpc.Push

/-- **without AllowPush nothing is transmitted**: both calls are refused and the outbound history
is unchanged; likewise after the connection has ended -/
theorem push_gate (s : St) (h : s.allowPush = false) :
    (step s .pushCall).sent = s.sent ∧ (step s .pushNotify).sent = s.sent ∧
    (step s .pushCall).refused = .unsupported :: s.refused ∧ (step s .pushNotify).refused = .unsupported :: s.refused := by
  simp [step, h]

theorem push_after_close (s : St) (ha : s.allowPush = true) (h : s.running = false) :
    (step s .pushCall).sent = s.sent ∧ (step s .pushNotify).sent = s.sent ∧
    (step s .pushCall).refused = .connClosed :: s.refused ∧ (step s .pushNotify).refused = .connClosed :: s.refused := by
  simp [step, ha, h]

/-- a Notify transmits exactly one id-less request; a Callback exactly one request with a fresh id -/
theorem notify_one_idless (s : St) (ha : s.allowPush = true) (hr : s.running = true) :
    (step s .pushNotify).sent = .notify :: s.sent ∧ (step s .pushCall).sent = .call s.nextId :: s.sent := by
  simp [step, ha, hr]

structure Inv (s : St) : Prop where
  tableFresh : ∀ i ∈ s.table, i < s.nextId
  slotFresh : ∀ p ∈ s.slots, p.1 < s.nextId
  tableNodup : s.table.Nodup
  disjoint : ∀ i ∈ s.table, ∀ p ∈ s.slots, p.1 ≠ i
  slotOnce : (s.slots.map (·.1)).Nodup

theorem inv_init (a : Bool) : Inv { allowPush := a } := ⟨by simp, by simp, by simp, by simp, by simp⟩

theorem inv_step (s : St) (e : Ev) (h : Inv s) : Inv (step s e) := by
  cases e with
  | pushCall =>
    simp only [step]
    split
    · exact ⟨h.tableFresh, h.slotFresh, h.tableNodup, h.disjoint, h.slotOnce⟩
    · split
      · exact ⟨h.tableFresh, h.slotFresh, h.tableNodup, h.disjoint, h.slotOnce⟩
      · refine ⟨?_, ?_, ?_, ?_, h.slotOnce⟩
        · intro i hi
          rcases List.mem_cons.mp hi with e | e
          · simp [e]
          · exact Nat.lt_succ_of_lt (h.tableFresh i e)
        · intro p hp; exact Nat.lt_succ_of_lt (h.slotFresh p hp)
        · refine List.nodup_cons.mpr ⟨?_, h.tableNodup⟩
          intro hm; exact Nat.lt_irrefl _ (h.tableFresh _ hm)
        · intro i hi p hp
          rcases List.mem_cons.mp hi with e | e
          · subst e; exact Nat.ne_of_lt (h.slotFresh p hp)
          · exact h.disjoint i e p hp
  | pushCallLost =>
    simp only [step]
    split
    · exact ⟨h.tableFresh, h.slotFresh, h.tableNodup, h.disjoint, h.slotOnce⟩
    · split
      · exact ⟨h.tableFresh, h.slotFresh, h.tableNodup, h.disjoint, h.slotOnce⟩
      · refine ⟨?_, ?_, ?_, ?_, h.slotOnce⟩
        · intro i hi
          rcases List.mem_cons.mp hi with e | e
          · simp [e]
          · exact Nat.lt_succ_of_lt (h.tableFresh i e)
        · intro p hp; exact Nat.lt_succ_of_lt (h.slotFresh p hp)
        · refine List.nodup_cons.mpr ⟨?_, h.tableNodup⟩
          intro hm; exact Nat.lt_irrefl _ (h.tableFresh _ hm)
        · intro i hi p hp
          rcases List.mem_cons.mp hi with e | e
          · subst e; exact Nat.ne_of_lt (h.slotFresh p hp)
          · exact h.disjoint i e p hp
  | pushNotify =>
    simp only [step]
    split
    · exact ⟨h.tableFresh, h.slotFresh, h.tableNodup, h.disjoint, h.slotOnce⟩
    · split <;> exact ⟨h.tableFresh, h.slotFresh, h.tableNodup, h.disjoint, h.slotOnce⟩
  | peerReply id p =>
    simp only [step]
    split
    · rename_i hm
      refine ⟨fun i hi => h.tableFresh i (List.mem_of_mem_erase hi), ?_, h.tableNodup.erase id, ?_, ?_⟩
      · intro q hq
        rcases List.mem_cons.mp hq with e | e
        · subst e; exact h.tableFresh id hm
        · exact h.slotFresh q e
      · intro i hi q hq
        have hi' := (List.Nodup.mem_erase_iff h.tableNodup).mp hi
        rcases List.mem_cons.mp hq with e | e
        · subst e; exact fun x => hi'.1 x.symm
        · exact h.disjoint i hi'.2 q e
      · simp only [List.map_cons, List.nodup_cons]
        refine ⟨?_, h.slotOnce⟩
        intro hx
        obtain ⟨q, hq, hqe⟩ := List.mem_map.mp hx
        exact h.disjoint id hm q hq hqe
    · exact h
  | ctxDone id =>
    simp only [step]
    split
    · rename_i hm
      refine ⟨fun i hi => h.tableFresh i (List.mem_of_mem_erase hi), ?_, h.tableNodup.erase id, ?_, ?_⟩
      · intro q hq
        rcases List.mem_cons.mp hq with e | e
        · subst e; exact h.tableFresh id hm
        · exact h.slotFresh q e
      · intro i hi q hq
        have hi' := (List.Nodup.mem_erase_iff h.tableNodup).mp hi
        rcases List.mem_cons.mp hq with e | e
        · subst e; exact fun x => hi'.1 x.symm
        · exact h.disjoint i hi'.2 q e
      · simp only [List.map_cons, List.nodup_cons]
        refine ⟨?_, h.slotOnce⟩
        intro hx
        obtain ⟨q, hq, hqe⟩ := List.mem_map.mp hx
        exact h.disjoint id hm q hq hqe
    · exact h
  | stop =>
    simp only [step]
    split
    · exact h
    · refine ⟨by simp, ?_, by simp, by simp, ?_⟩
      · intro p hp
        rcases List.mem_append.mp hp with e | e
        · obtain ⟨i, hi, rfl⟩ := List.mem_map.mp e; exact h.tableFresh i hi
        · exact h.slotFresh p e
      · simp only [List.map_append, List.map_map]
        rw [List.nodup_append]
        refine ⟨?_, h.slotOnce, ?_⟩
        · have : (List.map ((fun x => x.1) ∘ fun i => (i, Res.ctxErr)) s.table) = s.table := by
            induction s.table with
            | nil => rfl
            | cons a r ih => simp [ih]
          rw [this]; exact h.tableNodup
        · intro a ha b hb
          obtain ⟨i, hi, rfl⟩ := List.mem_map.mp ha
          obtain ⟨q, hq, rfl⟩ := List.mem_map.mp hb
          exact fun e => h.disjoint i hi q hq e.symm

theorem inv_run (es : List Ev) (s : St) (h : Inv s) : Inv (run s es) := by
  induction es generalizing s with
  | nil => exact h
  | cons e es ih => exact ih _ (inv_step s e h)

/-- a callback whose request could not be sent is told so at once and transmits nothing; its id is
spent all the same (never handed out again), and it is outstanding until its context ends or the
server stops, like any other -/
theorem lost_request_returns_at_once (s : St) (ha : s.allowPush = true) (hr : s.running = true) :
    (step s .pushCallLost).refused = .sendFailed :: s.refused ∧ (step s .pushCallLost).sent = s.sent ∧
    (step s .pushCallLost).nextId = s.nextId + 1 ∧ s.nextId ∈ (step s .pushCallLost).table := by
  simp [step, ha, hr]

/-- **callback ids are unique among outstanding callbacks and never reused** -/
theorem callback_id_fresh (a : Bool) (es : List Ev) :
    let s := run { allowPush := a } es
    s.table.Nodup ∧ (∀ i ∈ s.table, i < s.nextId) ∧ (∀ p ∈ s.slots, p.1 < s.nextId) := by
  have h := inv_run es _ (inv_init a)
  exact ⟨h.tableNodup, h.tableFresh, h.slotFresh⟩

/-- **a callback's slot is written exactly once** (by the reply interception, the watcher or the
stop — whichever removes the id from the table), so the 1-buffered slot never blocks and
`Callback` returns exactly once -/
theorem slot_written_once (a : Bool) (es : List Ev) :
    ((run { allowPush := a } es).slots.map (·.1)).Nodup := (inv_run es _ (inv_init a)).slotOnce

/-- **never another callback's reply**: a reply payload lands in the slot of the id it bears -/
theorem never_foreign_reply (s : St) (id p : Nat) (j : Nat) (q : Nat)
    (h : (j, Res.reply q) ∈ (step s (.peerReply id p)).slots) :
    (j, Res.reply q) ∈ s.slots ∨ (j = id ∧ q = p ∧ id ∈ s.table) := by
  simp only [step] at h
  split at h
  · rename_i hm
    rcases List.mem_cons.mp h with e | e
    · simp at e; exact Or.inr ⟨e.1, e.2, hm⟩
    · exact Or.inl e
  · exact Or.inl h

/-- **a late, duplicate or unsolicited reply is discarded**: it completes nothing and provokes no
outbound message -/
theorem late_reply_discarded (s : St) (id p : Nat) (h : id ∉ s.table) : step s (.peerReply id p) = s := by
  simp [step, h]

/-- the context watcher after an answer does nothing -/
theorem watcher_after_reply_noop (s : St) (id : Nat) (h : id ∉ s.table) : step s (.ctxDone id) = s := by
  simp [step, h]

/-- Stop ends every outstanding callback with an error and refuses later pushes -/
theorem stop_ends_callbacks (s : St) (hr : s.running = true) :
    (step s .stop).table = [] ∧ (∀ i ∈ s.table, (i, Res.ctxErr) ∈ (step s .stop).slots) ∧ (step s .stop).running = false := by
  simp only [step, hr, Bool.not_true, Bool.false_eq_true, if_false]
  refine ⟨trivial, ?_, trivial⟩
  intro i hi
  exact List.mem_append_left _ (List.mem_map.mpr ⟨i, hi, rfl⟩)

/-- reply interception does not depend on the dispatcher: it is enabled in every state (the
machine has no guard on it), in particular while request dispatch is parked behind an unfinished
notification — so a notification handler may itself await a callback -/
theorem reply_delivered_while_parked (s : St) (id p : Nat) (h : id ∈ s.table) :
    result (step s (.peerReply id p)) id = some (.reply p) := by
  simp [step, h, result]

-- non-vacuity: reply vs timeout race, late reply, stop
example : (run { allowPush := true } [.pushCall, .pushCall, .peerReply 2 7, .ctxDone 1, .peerReply 1 9, .peerReply 2 8]).slots
    = [(1, .ctxErr), (2, .reply 7)] := by decide

end Jrpc.Props.C09
