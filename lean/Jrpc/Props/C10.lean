import Jrpc.Model.Discipline
import Jrpc.Model.Wire
/-! # C10 — channel discipline: one sender, one receiver, no Send/Close overlap -/
namespace Jrpc.Props.C10
open Jrpc.Discipline

structure Inv (s : St) : Prop where
  owned : ∀ p ∈ s.inOp, s.holder = some p.1
  single : s.inOp.length ≤ 1
  recvReader : ∀ g ∈ s.inRecv, g = s.reader
  recvSingle : s.inRecv.length ≤ 1

theorem inv_step (s : St) (e : Ev) (h : Inv s) : ∀ s', step s e = some s' → Inv s' := by
  intro s' hs
  cases e with
  | lock g =>
    simp only [step] at hs
    split at hs
    · rename_i hn
      simp only [Option.some.injEq] at hs; subst hs
      refine ⟨?_, h.single, h.recvReader, h.recvSingle⟩
      intro p hp; have := h.owned p hp; rw [hn] at this; simp at this
    · simp at hs
  | unlock g =>
    simp only [step] at hs
    split at hs
    · rename_i hg
      simp only [Option.some.injEq] at hs; subst hs
      refine ⟨?_, h.single, h.recvReader, h.recvSingle⟩
      intro p hp
      have h1 := h.owned p hp
      rw [hg.1] at h1
      have h2 := List.all_eq_true.mp hg.2 p hp
      simp at h1 h2; exact absurd h1.symm h2
    · simp at hs
  | opBegin g o =>
    simp only [step] at hs
    split at hs
    · rename_i hg
      simp only [Option.some.injEq] at hs; subst hs
      have hempty : s.inOp = [] := by
        cases hi : s.inOp with
        | nil => rfl
        | cons p r =>
          have h1 := h.owned p (by simp [hi])
          rw [hg.1] at h1
          have h2 := List.all_eq_true.mp hg.2 p (by simp [hi])
          simp at h1 h2; exact absurd h1.symm h2
      refine ⟨?_, by simp [hempty], h.recvReader, h.recvSingle⟩
      intro p hp
      simp only [hempty, List.mem_singleton] at hp
      subst hp; exact hg.1
    · simp at hs
  | opEnd g o =>
    simp only [step] at hs
    split at hs
    · simp only [Option.some.injEq] at hs; subst hs
      refine ⟨fun p hp => h.owned p (List.mem_of_mem_erase hp), ?_, h.recvReader, h.recvSingle⟩
      exact Nat.le_trans (List.length_erase_le) h.single
    · simp at hs
  | recvBegin g =>
    simp only [step] at hs
    split at hs
    · rename_i hg
      simp only [Option.some.injEq] at hs; subst hs
      have hempty : s.inRecv = [] := by
        cases hi : s.inRecv with
        | nil => rfl
        | cons x r =>
          have := h.recvReader x (by simp [hi])
          rw [hi] at hg
          simp at hg
          exact absurd (this.trans hg.1.symm).symm hg.2.1
      exact ⟨h.owned, h.single, by intro x hx; simp [hempty] at hx; rw [hx]; exact hg.1, by simp [hempty]⟩
    · simp at hs
  | recvEnd g =>
    simp only [step] at hs
    split at hs
    · simp only [Option.some.injEq] at hs; subst hs
      exact ⟨h.owned, h.single, fun x hx => h.recvReader x (List.mem_of_mem_erase hx),
        Nat.le_trans (List.length_erase_le) h.recvSingle⟩
    · simp at hs

theorem inv_run (es : List Ev) (s s' : St) (h : Inv s) (hr : run s es = some s') : Inv s' := by
  induction es generalizing s with
  | nil => simp [run] at hr; subst hr; exact h
  | cons e es ih =>
    simp only [run] at hr
    cases hs : step s e with
    | none => simp [hs] at hr
    | some s1 => simp [hs] at hr; exact ih s1 (inv_step s e h s1 hs) hr

theorem inv_init (r : Nat) : Inv { reader := r } := ⟨by simp, by simp, by simp, by simp⟩

/-- **never two Send calls at once, never a Send overlapping a Close** -/
theorem no_overlapping_send_or_close (r : Nat) (es : List Ev) (s : St) (hr : run { reader := r } es = some s) :
    s.inOp.length ≤ 1 := (inv_run es _ s (inv_init r) hr).single

theorem step_reader (s : St) (e : Ev) (s' : St) (hs : step s e = some s') : s'.reader = s.reader := by
  cases e <;> simp only [step] at hs <;> split at hs <;>
    first | (simp only [Option.some.injEq] at hs; subst hs; rfl) | (simp at hs)

theorem run_reader (es : List Ev) (s s' : St) (hr : run s es = some s') : s'.reader = s.reader := by
  induction es generalizing s with
  | nil => simp [run] at hr; subst hr; rfl
  | cons e es ih =>
    simp only [run] at hr
    cases hs : step s e with
    | none => simp [hs] at hr
    | some s1 => simp [hs] at hr; rw [ih s1 hr, step_reader s e s1 hs]

/-- **never two Recv calls at once**, and only the reader receives -/
theorem single_receiver (r : Nat) (es : List Ev) (s : St) (hr : run { reader := r } es = some s) :
    s.inRecv.length ≤ 1 ∧ ∀ g ∈ s.inRecv, g = r := by
  have h := inv_run es _ s (inv_init r) hr
  have hreader : s.reader = r := run_reader es _ s hr
  exact ⟨h.recvSingle, fun g hg => hreader ▸ h.recvReader g hg⟩

/-- a Send or Close in progress belongs to the goroutine that holds the mutex -/
theorem op_under_lock (r : Nat) (es : List Ev) (s : St) (hr : run { reader := r } es = some s) :
    ∀ p ∈ s.inOp, s.holder = some p.1 := (inv_run es _ s (inv_init r) hr).owned

-- non-vacuity: a legal interleaving, and an unserialised Send refused by the guards
example : (run { reader := 9 } [.recvBegin 9, .lock 1, .opBegin 1 .send, .opEnd 1 .send, .unlock 1, .lock 2, .opBegin 2 .close]).isSome = true := by decide
example : run { reader := 9 } [.lock 1, .opBegin 1 .send, .opBegin 2 .send] = none := by decide

/-! ### the reply to a callback is always a whole message (finding F18) -/

open Jrpc.Wire in
/-- whatever the `OnCallback` handler returned - a result, an error, an error whose data is not
JSON - the record handed to `Send` is the text of one reply object: it begins with
`{"jsonrpc":"2.0"` and ends with `}`; in particular it is never empty -/
theorem callback_reply_is_message (id : Jrpc.Json.Bytes) (o : ReplyOutcome) :
    ∃ m : OutMsg, callbackReplyBytes id o = toJSON m ∧ m.id = id ∧
      callbackReplyBytes id o ≠ [] := by
  unfold callbackReplyBytes
  cases o with
  | result r =>
    refine ⟨{ id := id, r := r, batch := false }, by simp [sanitizeOutcome, replyMsg], rfl, ?_⟩
    simp [sanitizeOutcome, replyMsg, toJSON, prefixLit]
  | error e =>
    have hs : (marshalError (sanitizeError e)).isSome = true := by
      unfold sanitizeError marshalError
      by_cases h : e.data.length ≠ 0 ∧ Jrpc.Json.valid e.data = false
      · simp [h]
      · simp only [h, if_false]
        by_cases hd : e.data = []
        · simp [hd]
        · have hl : e.data.length ≠ 0 := by simpa using hd
          have hv : Jrpc.Json.valid e.data = true := by
            cases hb : Jrpc.Json.valid e.data with
            | true => rfl
            | false => exact absurd ⟨hl, hb⟩ h
          simp [hv]
    obtain ⟨t, ht⟩ := Option.isSome_iff_exists.mp hs
    refine ⟨{ id := id, e := some t, batch := false }, by simp [sanitizeOutcome, replyMsg, ht], rfl, ?_⟩
    simp [sanitizeOutcome, replyMsg, ht, toJSON, prefixLit]

-- the mechanism of F18: without the sanitising step the reply to such a failure is the empty record
open Jrpc.Wire in
example : (match replyMsg [49] false (.error { code := 9, msg := [120], data := [123, 34] }) with
    | some m => toJSON m | none => []) = [] := by decide

end Jrpc.Props.C10
