import Jrpc.Model.Framing
import Jrpc.Proofs.Hdr
import Jrpc.Proofs.Raw
/-! # C11 — framing round trip: records arrive intact and in order -/
namespace Jrpc.Props.C11
open Jrpc.Framing
open Jrpc.Json (Bytes)

/-! ### Split / Line -/

/-- `Send` refuses, writing nothing, exactly the records that contain the split byte -/
theorem split_send_refuses (d : UInt8) (msg : Bytes) :
    (d ∈ msg → splitSend d msg = none) ∧ (d ∉ msg → splitSend d msg = some (msg ++ [d])) := by
  unfold splitSend; constructor <;> intro h <;> simp [h]

theorem cutAt_append (d : UInt8) (msg rest : Bytes) (h : d ∉ msg) :
    cutAt d (msg ++ d :: rest) = (msg, some rest) := by
  induction msg with
  | nil => simp [cutAt]
  | cons b r ih =>
    have hb : b ≠ d := by intro e; simp [e] at h
    have hr : d ∉ r := by intro e; simp [e] at h
    simp [cutAt, hb, ih hr]

/-- one framed record followed by anything is received intact, leaving exactly the rest -/
theorem split_recv_send (d : UInt8) (msg rest : Bytes) (h : d ∉ msg) :
    splitRecv d (msg ++ d :: rest) = (.ok msg, rest) := by
  unfold splitRecv; rw [cutAt_append d msg rest h]

/-- the sender's output for a list of records -/
def splitStream (d : UInt8) : List Bytes → Bytes
  | [] => []
  | r :: rs => r ++ d :: splitStream d rs

theorem split_recv_empty (d : UInt8) : splitRecv d [] = (.err .eof, []) := by
  simp [splitRecv, cutAt]

/-- **round trip**: for every list of records without the split byte (any other byte, any
length, including empty records) successive Recvs return exactly those records, in order, and
then `io.EOF` for ever -/
theorem split_roundtrip (d : UInt8) (rs : List Bytes) (h : ∀ r ∈ rs, d ∉ r) (k : Nat) :
    recvN (.split d) (rs.length + k) (splitStream d rs) =
      rs.map .ok ++ List.replicate k (.err .eof) := by
  induction rs with
  | nil =>
    simp only [List.length_nil, Nat.zero_add, splitStream, List.map_nil, List.nil_append]
    induction k with
    | zero => rfl
    | succ n ih => simp [recvN, recv1, split_recv_empty, List.replicate_succ, ih]
  | cons r rs ih =>
    have hr : d ∉ r := h r (by simp)
    have hrs : ∀ x ∈ rs, d ∉ x := fun x hx => h x (by simp [hx])
    have : (r :: rs).length + k = (rs.length + k) + 1 := by simp; omega
    rw [this]
    simp only [recvN, recv1, splitStream, split_recv_send d r _ hr, List.map_cons, List.cons_append]
    rw [ih hrs]

/-- the accumulation loop over `ErrBufferFull` pieces yields their concatenation, however a long
line is cut by the reader's buffer -/
theorem split_accumulate (pieces : List Bytes) (last : Bytes) :
    splitAccumulate pieces last = pieces.flatten ++ last := by
  unfold splitAccumulate
  congr 1
  have : ∀ (acc : Bytes), pieces.foldl (· ++ ·) acc = acc ++ pieces.flatten := by
    induction pieces with
    | nil => simp
    | cons p ps ih => intro acc; simp [ih, List.append_assoc]
  simpa using this []

/-! ### Header framings -/

/-- the sender's output for a list of records -/
def hdrStream (cfg : HdrCfg) : List Bytes → Bytes
  | [] => []
  | r :: rs => hdrSend cfg r ++ hdrStream cfg rs

theorem hdr_recv_empty (cfg : HdrCfg) : hdrRecv' cfg [] = (.err .eof, []) := by
  simp [hdrRecv', hdrRecv, hdrLoop, readLine]

/-- one framed message followed by anything is received intact (re-exported from the helper file):
any payload bytes, any length including 0, StrictHeader / Header / LSP with equal mime types -/
theorem hdr_recv_send (cfg : HdrCfg) (msg rest : Bytes)
    (hm : cfg.mtype = [] ∨ GoodMime cfg.mtype) (hlen : msg.length ≤ 9223372036854775807) :
    hdrRecv' cfg (hdrSend cfg msg ++ rest) = (.ok msg, rest) :=
  Jrpc.Framing.hdr_recv_send cfg msg rest hm hlen

/-- **round trip** for the header framings: every list of records (growing, shrinking, empty,
arbitrary bytes) comes back byte for byte and in order, then `io.EOF` for ever.  The result does
not depend on the receive-buffer history (`rbuf`): the model of `Recv` has no such state, and
`Tie.C11.realloc_policy` pins the reuse condition that makes that sound. -/
theorem hdr_roundtrip (cfg : HdrCfg) (rs : List Bytes)
    (hm : cfg.mtype = [] ∨ GoodMime cfg.mtype)
    (hlen : ∀ r ∈ rs, r.length ≤ 9223372036854775807) (k : Nat) :
    recvN (.hdr cfg) (rs.length + k) (hdrStream cfg rs) = rs.map .ok ++ List.replicate k (.err .eof) := by
  induction rs with
  | nil =>
    simp only [List.length_nil, Nat.zero_add, hdrStream, List.map_nil, List.nil_append]
    induction k with
    | zero => rfl
    | succ n ih => simp [recvN, recv1, hdr_recv_empty, List.replicate_succ, ih]
  | cons r rs ih =>
    have hr := hlen r (by simp)
    have hrs : ∀ x ∈ rs, x.length ≤ 9223372036854775807 := fun x hx => hlen x (by simp [hx])
    have : (r :: rs).length + k = (rs.length + k) + 1 := by simp; omega
    rw [this]
    simp only [recvN, recv1, hdrStream, hdr_recv_send cfg r _ hm hr, List.map_cons, List.cons_append]
    rw [ih hrs]

/-- the LSP mime type is one the theorem covers -/
def lspMime : Bytes := [97, 112, 112, 108, 105, 99, 97, 116, 105, 111, 110, 47, 118, 115, 99, 111, 100, 101, 45, 106, 115, 111, 110, 114, 112, 99, 59, 32, 99, 104, 97, 114, 115, 101, 116, 61, 117, 116, 102, 45, 56]  -- "application/vscode-jsonrpc; charset=utf-8"

theorem lsp_mime_good : GoodMime lspMime := by
  refine ⟨by decide, by decide, ?_, ?_⟩ <;> (intro c hc; revert hc; decide +revert)

/-! ### RawJSON -/

/-- `Send` writes `null` + newline for the empty record and the record itself otherwise -/
theorem raw_send (msg : Bytes) :
    rawSend msg = if msg = [] || isNull msg then [110, 117, 108, 108, 10] else msg := rfl

/-- the empty record round-trips through `null\n` -/
theorem raw_roundtrip_empty : rawRecv (rawSend []) = (.ok [], [10]) := by decide

/-- a JSON object or array record (checked executably: `isContainerB`) is never `null` -/
theorem container_not_null (v : Bytes) (h : isContainerB v = true) : isNull v = false := by
  cases hn : isNull v with
  | false => rfl
  | true =>
    have : v = [110, 117, 108, 108] := by simpa [isNull] using hn
    subst this
    exact absurd h (by decide)

/-- `Recv` returns a leading object / array exactly and leaves exactly what follows it -/
theorem raw_recv_send (v rest : Bytes) (h : isContainerB v = true) :
    rawRecv (rawSend v ++ rest) = (.ok v, rest) := by
  have hnn := container_not_null v h
  have hne : v ≠ [] := by intro e; subst e; simp [isContainerB] at h
  have : rawSend v = v := by simp [rawSend, hne, hnn]
  rw [this]
  exact raw_recv_container v rest (isContainerB_spec v h) hnn

theorem raw_recv_empty : rawRecv [] = (.err .eof, []) := by decide

/-- the concatenation `Send` produces for a list of records -/
def rawStream : List Bytes → Bytes
  | [] => []
  | r :: rs => rawSend r ++ rawStream rs

/-- **round trip (RawJSON)**: for every list of records that are JSON objects or arrays (every
JSON-RPC message is one), successive Recvs on the plain concatenation return exactly those
records, in order, and then `io.EOF` for ever -/
theorem raw_roundtrip (rs : List Bytes) (h : ∀ r ∈ rs, isContainerB r = true) (k : Nat) :
    recvN .raw (rs.length + k) (rawStream rs) = rs.map .ok ++ List.replicate k (.err .eof) := by
  induction rs with
  | nil =>
    simp only [List.length_nil, Nat.zero_add, rawStream, List.map_nil, List.nil_append]
    cases k with
    | zero => rfl
    | succ n => simp [recvN, recv1, raw_recv_empty]
  | cons r rs ih =>
    have hr := h r (by simp)
    have hrs : ∀ x ∈ rs, isContainerB x = true := fun x hx => h x (by simp [hx])
    have : (r :: rs).length + k = (rs.length + k) + 1 := by simp; omega
    rw [this]
    simp only [recvN, recv1, rawStream, raw_recv_send r _ hr, List.map_cons, List.cons_append]
    rw [ih hrs]

/-- premises are satisfiable: a request object, a batch array, with nested strings and escapes -/
example : isContainerB [123, 34, 97, 92, 34, 34, 58, 91, 49, 44, 123, 125, 93, 125] = true := by decide
example : isContainerB [91, 123, 125, 44, 32, 91, 93, 93] = true := by decide
example : isContainerB [49, 50] = false := by decide

/-! ### Direct (an in-memory queue of records) -/

/-- `Direct` hands records over one by one through a channel: FIFO, unframed -/
def directRecv : List Bytes → Res × List Bytes
  | [] => (.err .eof, [])
  | r :: rs => (.ok r, rs)

/-- `n` successive receives from the queue -/
def directRecvN : Nat → List Bytes → List Res
  | 0, _ => []
  | n + 1, q => (directRecv q).1 :: directRecvN n (directRecv q).2

theorem direct_roundtrip (rs : List Bytes) (k : Nat) :
    directRecvN (rs.length + k) rs = rs.map .ok ++ List.replicate k (.err .eof) := by
  induction rs with
  | nil =>
    simp only [List.length_nil, Nat.zero_add, List.map_nil, List.nil_append]
    induction k with
    | zero => rfl
    | succ n ih => simp [directRecvN, directRecv, List.replicate_succ, ih]
  | cons r rs ih =>
    have : (r :: rs).length + k = (rs.length + k) + 1 := by simp; omega
    rw [this]; simp [directRecvN, directRecv, ih]

-- non-vacuity
example : recvN (.split 10) 4 (splitStream 10 [[97], [], [98, 99]]) =
    [.ok [97], .ok [], .ok [98, 99], .err .eof] := by decide
example : recvN (.hdr ⟨[], false⟩) 2 (hdrSend ⟨[], false⟩ [104, 105]) = [.ok [104, 105], .err .eof] := by decide
example : recvN .raw 3 ([123, 125] ++ [91, 49, 93]) = [.ok [123, 125], .ok [91, 49, 93], .err .eof] := by decide

end Jrpc.Props.C11
