import Jrpc.Model.Framing
import Jrpc.Proofs.Atoi
/-! # C12 — framing robustness: arbitrary streams never crash, hang, fabricate or truncate

`Recv` is a total function of the remaining stream in the model (no crash outcome exists, no
fuel can run out: `hdrLoop` is given `length + 1` fuel and consumes a byte per line), so
"terminates without panicking" is carried by totality plus the correspondence run; the theorems
below are the content of the remaining clauses. -/
namespace Jrpc.Props.C12
open Jrpc.Framing
open Jrpc.Json (Bytes)

/-! ### Split -/

theorem cutAt_sound (d : UInt8) (s : Bytes) :
    (∀ r rest, cutAt d s = (r, some rest) → s = r ++ d :: rest ∧ d ∉ r) ∧
    (∀ r, cutAt d s = (r, none) → s = r ∧ d ∉ r) := by
  induction s with
  | nil => simp [cutAt]
  | cons b t ih =>
    unfold cutAt
    by_cases hb : b = d
    · subst hb; simp
    · simp only [hb, if_false]
      constructor
      · intro r rest h
        cases hc : cutAt d t with
        | mk x y =>
          rw [hc] at h; simp only [Prod.mk.injEq] at h
          obtain ⟨h1, h2⟩ := h
          subst h1; subst h2
          obtain ⟨e, ne⟩ := ih.1 x rest hc
          refine ⟨by rw [e]; simp, ?_⟩
          simp [ne, Ne.symm hb]
      · intro r h
        cases hc : cutAt d t with
        | mk x y =>
          rw [hc] at h; simp only [Prod.mk.injEq] at h
          obtain ⟨h1, h2⟩ := h
          subst h1; subst h2
          obtain ⟨e, ne⟩ := ih.2 x hc
          refine ⟨by rw [← e], ?_⟩
          simp [ne, Ne.symm hb]

/-- **soundness of Split.Recv**: whatever the stream, a returned record is exactly the bytes of
the stream up to the next delimiter — never fabricated, reordered or shortened — and a final
record cut off by end of stream is returned whole together with an error -/
theorem split_recv_sound (d : UInt8) (s : Bytes) :
    match splitRecv d s with
    | (.ok r, rest) => s = r ++ d :: rest ∧ d ∉ r
    | (.okErr r e, rest) => e = .eof ∧ rest = [] ∧ s = r ∧ r ≠ [] ∧ d ∉ r
    | (.err e, rest) => e = .eof ∧ rest = [] ∧ s = []
    | (.mismatch _ _, _) => False := by
  unfold splitRecv
  have hs := cutAt_sound d s
  cases hc : cutAt d s with
  | mk r o =>
    cases o with
    | some rest => exact hs.1 r rest hc
    | none =>
      obtain ⟨e, ne⟩ := hs.2 r hc
      cases r with
      | nil => simp [e]
      | cons a t => simp [e, ne]

/-- a record is never silently shortened: without a delimiter the outcome carries an error -/
theorem split_truncated_final_is_error (d : UInt8) (s : Bytes) (h : d ∉ s) (hne : s ≠ []) :
    splitRecv d s = (.okErr s .eof, []) := by
  have hs := split_recv_sound d s
  cases hc : splitRecv d s with
  | mk r rest =>
    rw [hc] at hs
    cases r with
    | ok x => simp only at hs; rw [hs.1] at h; simp at h
    | okErr x e => simp only at hs; obtain ⟨h1, h2, h3, _⟩ := hs; subst h1; subst h2; subst h3; rfl
    | err e => simp only at hs; exact absurd hs.2.2 hne
    | mismatch a b => simp only at hs

/-! ### every framing keeps failing once the stream is exhausted -/

theorem exhausted_keeps_failing (k : Kind) (n : Nat) :
    recvN k n [] = List.replicate n (.err .eof) := by
  induction n with
  | zero => rfl
  | succ m ih =>
    cases k with
    | split d => simp [recvN, recv1, splitRecv, cutAt, List.replicate_succ, ih]
    | hdr cfg => simp [recvN, recv1, hdrRecv', hdrRecv, hdrLoop, readLine, List.replicate_succ, ih]
    | raw => simp [recvN, recv1, rawRecv, rawScan, List.replicate_succ]

/-! ### header rules -/

/-- an absurd or overflowing Content-Length is an *error*: `atoi` is total, and yields a number
only inside the 64-bit range -/
theorem length_in_range (bs : Bytes) (n : Int) (h : atoi bs = some n) :
    -9223372036854775808 ≤ n ∧ n ≤ 9223372036854775807 := by
  unfold atoi at h
  simp only at h
  split at h
  · simp at h
  · split at h
    · simp at h
    · rename_i m _
      split at h
      · split at h
        · simp at h; omega
        · simp at h
      · split at h
        · simp at h; omega
        · simp at h

/-- Content-Length must be decimal: anything containing a non-digit after the optional sign is
rejected (so `0x10`, `1e3`, `1_0`, ` 3`, `3.0` are errors) -/
theorem length_decimal (bs : Bytes) (c : UInt8) (hc : c ∈ (signSplit bs).2)
    (hnd : Jrpc.Json.isDigit c = false) : atoi bs = none := by
  have key : ∀ (xs : Bytes) (a : Nat), c ∈ xs → digitsVal xs a = none := by
    intro xs
    induction xs with
    | nil => simp
    | cons x r ih =>
      intro a hm
      unfold digitsVal
      by_cases hx : Jrpc.Json.isDigit x = true
      · simp only [hx, if_true]
        rcases List.mem_cons.mp hm with e | e
        · subst e; simp [hnd] at hx
        · exact ih _ e
      · simp [hx]
  unfold atoi
  simp only
  split
  · rfl
  · rw [key _ 0 hc]

/-- a missing, empty, negative or non-decimal length never reaches the body read -/
theorem hdr_bad_length_is_error (cfg : HdrCfg) (s : Bytes) (ct cl rest : Bytes)
    (hl : hdrLoop (s.length + 1) s [] [] = .ok (ct, cl, rest))
    (hbad : cl = [] ∨ atoi cl = none ∨ ∃ n, atoi cl = some n ∧ n < 0) :
    ∃ e, (hdrRecv cfg s).1 = .err e ∧ (e = .missingLength ∨ e = .invalidLength) := by
  unfold hdrRecv
  rw [hl]
  rcases hbad with h | h | ⟨n, h, hn⟩
  · simp [h]
  · by_cases hc : cl = []
    · simp [hc]
    · simp [hc, h]
  · by_cases hc : cl = []
    · simp [hc]
    · simp [hc, h, hn]

/-- up-front allocation never exceeds 2 MiB whatever length the header declares: beyond
`maxPrealloc` the payload is read incrementally and memory grows only with bytes received -/
theorem alloc_bounded_by_input (dl size : Nat) : hdrAlloc dl size ≤ 2 * maxPrealloc := by
  unfold hdrAlloc hdrIncremental maxPrealloc
  by_cases h : (size : Int) > 1048576
  · simp [h]
  · simp only [h, decide_false, Bool.false_eq_true, if_false]
    split
    · omega
    · omega

/-- the body read returns exactly the next `size` bytes, or an error when the stream is shorter -/
theorem hdr_body_sound (size : Nat) (rest : Bytes) :
    match hdrBody size rest with
    | (.ok data, rest') => rest = data ++ rest' ∧ data.length = size
    | (.error e, rest') => rest.length < size ∧ rest' = [] ∧ (e = .eof ∨ e = .unexpectedEOF) := by
  unfold hdrBody
  by_cases h : size ≤ rest.length
  · simp [h]
  · simp only [h, if_false]
    by_cases h2 : size > maxPrealloc
    · simp [h2]; omega
    · simp only [h2, if_false]
      by_cases h3 : rest = []
      · simp [h3]; omega
      · simp [h3]; omega

/-- Content-Type policy: StrictHeader reports a mismatch (with the message) unless the types are
equal; Header / LSP additionally accept an absent type; a present-and-different type is an error
under every policy -/
theorem ctype_policy (cfg : HdrCfg) (s ct cl rest data rest' : Bytes) (n : Int)
    (hl : hdrLoop (s.length + 1) s [] [] = .ok (ct, cl, rest)) (hc : cl ≠ [])
    (ha : atoi cl = some n) (hn : ¬ n < 0) (hb : hdrBody n.toNat rest = (.ok data, rest')) :
    hdrRecv cfg s =
      (if ct = cfg.mtype then (.ok data, rest')
       else if cfg.optional && ct = [] then (.ok data, rest')
       else (.mismatch data ct, rest')) := by
  unfold hdrRecv
  rw [hl]
  simp [hc, ha, hn, hb]

-- non-vacuity / the findings as concrete facts about the (repaired) model
example : (hdrRecv' ⟨[], false⟩ (contentLengthLit ++ [57, 50, 50, 51, 51, 55, 50, 48, 51, 54, 56, 53, 52, 55, 55, 53, 56, 48, 55] ++ crlf ++ crlf ++ [120])).1
    = .err .unexpectedEOF := by decide   -- Content-Length: 9223372036854775807 → error, not a crash
example : recvN (.split 10) 3 [97, 98, 99, 10, 100, 101, 102] = [.ok [97, 98, 99], .okErr [100, 101, 102] .eof, .err .eof] := by decide
example : atoi [49, 56, 52, 52, 54, 55, 52, 52, 48, 55, 51, 55, 48, 57, 53, 53, 49, 54, 49, 53] = none := by decide

end Jrpc.Props.C12
