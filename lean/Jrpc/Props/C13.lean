import Jrpc.Model.Wire
import Jrpc.Proofs.RoundTrip
/-! # C13 — wire encoding: emitted messages are one-line valid JSON-RPC that parse back -/
namespace Jrpc.Props.C13
open Jrpc.Wire Jrpc.Json

/-- no control byte (< 0x20): the message fits on one line of every framing -/
def Clean (bs : Bytes) : Prop := ∀ b ∈ bs, 32 ≤ b

theorem clean_append {a b : Bytes} (ha : Clean a) (hb : Clean b) : Clean (a ++ b) := by
  intro x hx; rcases List.mem_append.mp hx with h | h
  · exact ha x h
  · exact hb x h

theorem hexDigitByte_ge (n : Nat) (h : n < 16) : 32 ≤ hexDigitByte n := by
  have : ∀ k : Fin 16, 32 ≤ hexDigitByte k.val := by decide
  exact this ⟨n, h⟩

theorem clean_iff (l : Bytes) : Clean l ↔ l.all (fun b => decide (32 ≤ b)) = true := by
  simp [Clean, List.all_eq_true]

theorem escByte_clean (c : UInt8) : Clean (escByte c) := by
  have hd1 : c.toNat / 16 < 16 := by have := c.toNat_lt; omega
  have hd2 : c.toNat % 16 < 16 := Nat.mod_lt _ (by decide)
  have g1 := hexDigitByte_ge _ hd1
  have g2 := hexDigitByte_ge _ hd2
  rw [clean_iff]
  unfold escByte
  by_cases h1 : c = 34; · simp [h1]
  by_cases h2 : c = 92; · simp [h2]
  by_cases h3 : c = 8; · simp [h3]
  by_cases h4 : c = 12; · simp [h4]
  by_cases h5 : c = 10; · simp [h5]
  by_cases h6 : c = 13; · simp [h6]
  by_cases h7 : c = 9; · simp [h7]
  simp only [h1, h2, h3, h4, h5, h6, h7, beq_iff_eq, if_false]
  by_cases hl : c < 32
  · simp [hl, g1, g2]
  · by_cases h60 : c = 60; · subst h60; decide
    by_cases h62 : c = 62; · subst h62; decide
    by_cases h38 : c = 38; · subst h38; decide
    simp [hl, h60, h62, h38]
    exact UInt8.not_lt.mp hl

/-- **`json.Marshal` of any method name yields no control byte**: quotes, backslashes, control
characters, HTML metacharacters, U+2028/9 are all escaped -/
theorem quote_clean (s : Bytes) : Clean (quote s) := by
  have body : ∀ s, Clean (quoteBody s) := by
    intro s
    induction s using quoteBody.induct with
    | case1 r ih => rw [quoteBody]; exact clean_append (by rw [clean_iff]; decide) ih
    | case2 r ih => rw [quoteBody]; exact clean_append (by rw [clean_iff]; decide) ih
    | case3 c r h1 h2 ih => rw [quoteBody.eq_3 c r h1 h2]; exact clean_append (escByte_clean c) ih
    | case4 => intro b hb; simp [quoteBody] at hb
  have q : quote s = [34] ++ quoteBody s ++ [34] := by simp [quote]
  rw [q]
  exact clean_append (clean_append (by rw [clean_iff]; decide) (body s)) (by rw [clean_iff]; decide)

/-- every emitted message carries `"jsonrpc":"2.0"` first -/
theorem emit_versioned (j : OutMsg) : ∃ rest, toJSON j = prefixLit ++ rest := by
  unfold toJSON; exact ⟨_, by rw [List.append_assoc, List.append_assoc]⟩

/-- **single line**: if the pre-encoded parts (id, params, result, error object — compact output
of `json.Marshal` by its contract) contain no control byte, neither does the message, whatever
the method name -/
theorem emit_single_line (j : OutMsg) (hid : Clean j.id) (hp : Clean j.p) (hr : Clean j.r)
    (he : ∀ e, j.e = some e → Clean e) : Clean (toJSON j) := by
  have lits : Clean prefixLit ∧ Clean idLit ∧ Clean methodLit ∧ Clean paramsLit ∧ Clean resultLit ∧ Clean errorLit := by
    refine ⟨?_, ?_, ?_, ?_, ?_, ?_⟩ <;> (intro b hb; revert b; decide)
  obtain ⟨l0, l1, l2, l3, l4, l5⟩ := lits
  have nil : Clean ([] : Bytes) := by intro b hb; simp at hb
  have close : Clean ([125] : Bytes) := by intro b hb; simp at hb; subst hb; decide
  unfold toJSON
  refine clean_append (clean_append (clean_append l0 ?_) ?_) close
  · split
    · exact nil
    · exact clean_append l1 hid
  · split
    · refine clean_append (clean_append l2 (quote_clean _)) ?_
      split
      · exact nil
      · exact clean_append l3 hp
    · split
      · exact clean_append l4 hr
      · cases h : j.e with
        | none => exact nil
        | some e => exact clean_append l5 (he e h)

theorem joinComma_clean (l : List Bytes) (h : ∀ x ∈ l, Clean x) : Clean (joinComma l) := by
  cases l with
  | nil => intro b hb; simp [joinComma] at hb
  | cons x r =>
    unfold joinComma
    refine clean_append (h x (by simp)) ?_
    intro b hb
    simp only [List.mem_flatten, List.mem_map] at hb
    obtain ⟨l', ⟨y, hy, rfl⟩, hb⟩ := hb
    simp only [List.mem_cons] at hb
    rcases hb with e | hb
    · subst e; decide
    · exact h y (by simp [hy]) b hb

/-- batches too -/
theorem emit_batch_single_line (js : List OutMsg) (h : ∀ j ∈ js, Clean (toJSON j)) : Clean (toJSONs js) := by
  have wrap : ∀ x : Bytes, Clean x → Clean (91 :: x ++ [93]) := by
    intro x hx
    have q : (91 :: x ++ [93] : Bytes) = [91] ++ x ++ [93] := by simp
    rw [q]
    exact clean_append (clean_append (by rw [clean_iff]; decide) hx) (by rw [clean_iff]; decide)
  unfold toJSONs
  split
  · rename_i j
    split
    · exact h j (by simp)
    · exact wrap _ (h j (by simp))
  · apply wrap
    apply joinComma_clean
    intro x hx
    obtain ⟨j, hj, rfl⟩ := List.mem_map.mp hx
    exact h j hj

/-- a single non-batch message is sent bare; anything else as an array -/
theorem batch_shape (j : OutMsg) : (j.batch = false → toJSONs [j] = toJSON j) ∧
    (j.batch = true → toJSONs [j] = 91 :: toJSON j ++ [93]) := by
  constructor <;> intro h <;> simp [toJSONs, h]

/-! ### ParseRequests -/

theorem cutStep_state (c : Cut) (b : UInt8) :
    (cutStep c b).map (·.s) = step c.s b := by
  unfold cutStep
  cases h : step c.s b with
  | none => rfl
  | some s' =>
    simp only
    repeat' split
    all_goals rfl

theorem cutRun_some (c : Cut) (bs : Bytes) (h : (run c.s bs).isSome) : (cutRun c bs).isSome := by
  induction bs generalizing c with
  | nil => simp [cutRun]
  | cons b r ih =>
    simp only [run, cutRun] at h ⊢
    have hs := cutStep_state c b
    cases hc : cutStep c b with
    | none =>
      rw [hc] at hs; simp at hs
      rw [← hs] at h; simp at h
    | some c' =>
      rw [hc] at hs; simp at hs
      rw [← hs] at h
      simp only [Option.bind_some] at h ⊢
      exact ih c' h

/-- **ParseRequests is total and reports a top-level error exactly when the input is not valid
JSON** -/
theorem pieces_some_of_valid (data : Bytes) (hv : valid data = true) : ∃ es, pieces data = some es := by
  unfold pieces
  simp only [hv, Bool.not_true, Bool.false_eq_true, if_false]
  have hr : (run start data).isSome := by
    unfold valid at hv
    cases hrun : run start data with
    | none => simp [hrun] at hv
    | some s => simp
  have := cutRun_some ⟨start, [], false, []⟩ data hr
  cases hc : cutRun ⟨start, [], false, []⟩ data with
  | none => simp [hc] at this
  | some c => exact ⟨_, rfl⟩

theorem envelope_invalid_iff (data : Bytes) : envelope data = .invalid ↔ valid data = false := by
  unfold envelope
  by_cases hv : valid data = true
  · simp only [hv, Bool.not_true, Bool.false_eq_true, if_false]
    by_cases hfb : (firstByte data != 91) = true
    · simp [hfb]
    · obtain ⟨es, hes⟩ := pieces_some_of_valid data hv
      have : elements data = some es := by unfold elements; simp only [hfb, if_false]; exact hes
      simp [hfb, this]
  · have hv' : valid data = false := by simpa using hv
    simp [hv']

theorem parseRequests_error_iff_not_json (data : Bytes) :
    parseRequests data = none ↔ valid data = false := by
  rw [← envelope_invalid_iff]
  unfold parseRequests
  cases envelope data <;> simp

/-- one entry per batch member, in order; a non-array text is a single entry -/
theorem parseRequests_one_entry_per_member (data : Bytes) (rs : List Bytes) (h : envelope data = .batch rs) :
    parseRequests data = some (rs.map fun r => parseMember (memberView r)) := by
  simp [parseRequests, h]

/-- an entry is flagged exactly when the server's member parser flags it, and with the codes the
server answers: both go through `parseMember`, and `classify` passes a deferred error through -/
theorem parseRequests_flags_match_server (cfg : Cfg) (j : Msg) (h : j.errs ≠ [])
    (hd : ¬ (fixID j.id != [] && ([] : List Bytes).contains (fixID j.id)) = true) :
    classify cfg [] j = .fail j.errs := by
  unfold classify
  simp [h]

/-- **`ParseRequests` flags exactly the members the server refuses before looking for a handler**,
with the same codes: a deferred parse error, or a missing method name ("If a request is valid, its
Error field is nil" - a member without a method is not a request; a proxy such as the HTTP bridge
must answer it itself and never forward it: finding F19) -/
theorem parsed_flag_is_server_verdict (cfg : Cfg) (j : Msg) (h : parsedFlag j ≠ []) :
    classify cfg [] j = .fail (parsedFlag j) := by
  unfold parsedFlag at h ⊢
  unfold classify
  by_cases he : j.errs = []
  · by_cases hm : j.m = []
    · simp [he, hm]
    · simp [he, hm] at h
  · simp [he]

/-- and an unflagged member has a method name and no deferred error: what a proxy forwards is a
request -/
theorem unflagged_is_request (j : Msg) (h : parsedFlag j = []) : j.errs = [] ∧ j.m ≠ [] := by
  unfold parsedFlag at h
  by_cases he : j.errs = []
  · by_cases hm : j.m = []
    · simp [he, hm] at h
    · exact ⟨he, hm⟩
  · simp [he] at h

/-! ### outbound parameters -/

/-- whatever value is marshalled, a transmitted request has either no `params` member or one whose
text starts (after blanks) with `[` or `{`; in particular never `"params":null` or a scalar -/
theorem request_params_structured (id m : Bytes) (mp : Option Bytes) (b : Bool) (j : OutMsg)
    (h : requestOut id m mp b = some j) :
    j.id = id ∧ j.m = m ∧ (j.p = [] ∨ firstByte j.p = 91 ∨ firstByte j.p = 123) := by
  unfold requestOut at h
  cases mp with
  | none => simp at h; subst h; simp
  | some bits =>
    simp only at h
    cases ho : outParams bits with
    | leaveOut => rw [ho] at h; simp at h; subst h; simp
    | refuse => rw [ho] at h; simp at h
    | keep p =>
      rw [ho] at h; simp at h; subst h
      refine ⟨rfl, rfl, Or.inr ?_⟩
      unfold outParams at ho
      by_cases hn : isNull bits = true
      · simp [hn] at ho
      · simp only [hn, Bool.false_eq_true, if_false] at ho
        by_cases hc : (firstByte bits != 91 && firstByte bits != 123) = true
        · simp [hc] at ho
        · simp only [hc, Bool.false_eq_true, if_false] at ho
          injection ho with ho; subst ho
          simp only [Bool.and_eq_true, bne_iff_ne, ne_eq, not_and, Decidable.not_not] at hc
          by_cases h91 : firstByte bits = 91
          · exact Or.inl h91
          · exact Or.inr (hc h91)

/-- the library's own member parser accepts the transmitted parameters without error and keeps
their text unchanged (so they parse back JSON-equal) -/
theorem request_params_parse_back (id m : Bytes) (mp : Option Bytes) (b : Bool) (j : OutMsg)
    (h : requestOut id m mp b = some j) (hp : j.p ≠ []) :
    scanParams (some j.p) = (j.p, []) := by
  obtain ⟨_, _, hs⟩ := request_params_structured id m mp b j h
  have hfb : firstByte j.p = 91 ∨ firstByte j.p = 123 := by
    rcases hs with h0 | h1
    · exact absurd h0 hp
    · exact h1
  have hnn : isNull j.p = false := by
    cases hn : isNull j.p with
    | false => rfl
    | true =>
      have : j.p = [110, 117, 108, 108] := by simpa [isNull] using hn
      rw [this] at hfb; revert hfb; decide
  unfold scanParams
  simp only [hnn, Bool.false_eq_true, if_false]
  rcases hfb with h | h <;> simp [h]

/-- a value that marshals to `null` (a nil pointer, `json.RawMessage("null")`) sends no member;
a scalar is refused -/
example : requestOut [49] [109] (some [110, 117, 108, 108]) = some { id := [49], m := [109] } := by decide
example : requestOut [49] [109] (some [32, 91, 93]) = some { id := [49], m := [109], p := [32, 91, 93] } := by decide
example : requestOut [49] [109] (some [53]) = none := by decide

/-! ### emitted requests parse back -/

/-- **emit / parse round trip for requests.** For EVERY method name (any bytes: quotes, control
characters, U+2028/9, non-BMP ...), every id and every params text that are single trimmed JSON
values (what `json.Marshal` yields; `partB` is the executable test) - the id a string or number,
the params an array or object - the bytes the encoder emits are split by the decoder into exactly
the members written, the keys decode to `jsonrpc`, `id`, `method`, `params`, and the library's own
member parser returns the same id, the same method and the same params text with no error -/
theorem emit_parse_roundtrip (j : OutMsg) (hm : j.m ≠ [])
    (hid : j.id = [] ∨ (partB j.id = true ∧ isValidID j.id = true))
    (hp : j.p = [] ∨ (partB j.p = true ∧ (firstByte j.p = 91 ∨ firstByte j.p = 123))) :
    parseMember (memberView (toJSON j)) =
      { v := version, id := j.id, m := j.m, p := j.p, hasE := false, r := [], extra := false, errs := [] } :=
  parse_emitted_request j hm (hid.imp id (fun h => ⟨partB_spec _ h.1, h.2⟩)) (hp.imp id (fun h => ⟨partB_spec _ h.1, h.2⟩))

/-- **emit / parse round trip for successful responses**: the same for `{"jsonrpc":"2.0","id":…,
"result":…}` - the id and the result text come back unchanged, no error is flagged -/
theorem emit_parse_roundtrip_result (j : OutMsg) (hm : j.m = []) (hid : j.id ≠ []) (hr : j.r ≠ [])
    (pid : partB j.id = true) (hvid : isValidID j.id = true) (pr : partB j.r = true) :
    parseMember (memberView (toJSON j)) =
      { v := version, id := j.id, m := [], p := [], hasE := false, r := j.r, extra := false, errs := [] } :=
  parse_emitted_result j hm hid hr (partB_spec _ pid) hvid (partB_spec _ pr)

/-- **a relabelled response** (`Response.SetID` followed by `MarshalJSON`, as a proxy such as
`jhttp.Bridge` does - any number of times): the encoding is computed from the current id, so it
parses back to exactly the id that was set last and to the unchanged result -/
theorem relabelled_response_roundtrip (j : OutMsg) (x : Bytes) (hm : j.m = []) (hx : x ≠ []) (hr : j.r ≠ [])
    (px : partB x = true) (hvx : isValidID x = true) (pr : partB j.r = true) :
    parseMember (memberView (toJSON { j with id := x })) =
      { v := version, id := x, m := [], p := [], hasE := false, r := j.r, extra := false, errs := [] } :=
  emit_parse_roundtrip_result { j with id := x } hm hx hr px hvx pr

/-- relabelling twice is relabelling once with the last id: nothing of an earlier id (or of an
earlier encoding) survives -/
theorem relabel_last_wins (j : OutMsg) (x y : Bytes) :
    toJSON { ({ j with id := x } : OutMsg) with id := y } = toJSON { j with id := y } := rfl

/-- **emit / parse round trip for error responses**: `{"jsonrpc":"2.0","id":…,"error":{"code":c,
"message":…,"data":…}}` with any message text, a code text that is an int32 literal and optional
data: the error object is split into exactly its members, the decoder accepts it (`errorValueOK`)
and the response parses back with the same id, `error` set and no error flagged. (`partB` of the
whole error text is a hypothesis here; the oracle evaluates it on every error object emitted.) -/
theorem emit_parse_roundtrip_error (j : OutMsg) (c msg d : Bytes) (hm : j.m = []) (hid : j.id ≠ []) (hr : j.r = [])
    (he : j.e = some (objText (errorMembers c msg d)))
    (pid : partB j.id = true) (hvid : isValidID j.id = true)
    (pc : partB c = true) (hc : int32Literal c = true) (pd : d = [] ∨ partB d = true)
    (pe : partB (objText (errorMembers c msg d)) = true) :
    parseMember (memberView (toJSON j)) =
      { v := version, id := j.id, m := [], p := [], hasE := true, r := [], extra := false, errs := [] } :=
  parse_emitted_error j c msg d hm hid hr he (partB_spec _ pid) hvid (partB_spec _ pc) hc (pd.imp id (partB_spec _)) (partB_spec _ pe)

/-- the marshalled `Error` object of the model is that object text -/
theorem error_object_shape (code : Int) (msg d : Bytes) :
    errorJSON code msg d = objText (errorMembers (toString code).toUTF8.toList msg d) := errorJSON_eq code msg d

/-- the string escaping is lossless: decoding a quoted method name (or key) gives it back -/
theorem quote_roundtrip (x : Bytes) : unquote (quote x) = some x := unquote_quote x

/-- and the emitted text is valid JSON whose members are exactly the ones written -/
theorem emit_members (j : OutMsg) (hm : j.m ≠ [])
    (hid : j.id = [] ∨ partB j.id = true) (hp : j.p = [] ∨ partB j.p = true) :
    members (toJSON j) = some (requestMembers j) :=
  members_request j hm (hid.imp id (partB_spec _)) (hp.imp id (partB_spec _))

-- the premises are satisfiable: a nested params value with strings, escapes, numbers; ids
example : partB [91, 49, 44, 123, 34, 97, 92, 34, 34, 58, 91, 45, 49, 46, 53, 101, 51, 44, 110, 117, 108, 108, 93, 125, 93] = true := by decide
example : partB [52, 50] = true ∧ isValidID [52, 50] = true := by decide
example : partB [34, 120, 34] = true ∧ isValidID [34, 120, 34] = true := by decide
example : partB [32, 91, 93] = false ∧ partB [91, 93, 32] = false ∧ partB [91, 93, 93] = false := by decide

-- non-vacuity
example : toJSON { id := [49], m := [109, 34, 10] } =
    prefixLit ++ idLit ++ [49] ++ methodLit ++ [34, 109, 92, 34, 92, 110, 34] ++ [125] := by decide
example : valid (toJSON { id := [49], m := [109, 34, 10], p := [91, 93] }) = true := by decide

end Jrpc.Props.C13
