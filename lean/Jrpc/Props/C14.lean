import Jrpc.Model.Errors
/-! # C14 — errors keep their code, message and data from handler to caller -/
namespace Jrpc.Props.C14
open Jrpc.Errors

/-- `ErrorCode(c.Err()) == c` for every code other than `NoError`. -/
theorem code_err_roundtrip (c : Code) (h : c ≠ NoError) : errorCode (codeErr c) = c := by
  simp [codeErr, h, errorCode, firstCoder]

/-- `NoError.Err()` is nil and classifies as `NoError`. -/
theorem code_err_noerror : codeErr NoError = none ∧ errorCode none = NoError := by
  simp [codeErr, errorCode]

/-- The classification of the caller's error equals that of the handler's error, for every error
tree — except the one documented remapping: an error that is not itself an `*Error` but whose
`ErrCoder` reports `NoError` is sent as `InternalError`. -/
theorem errorcode_end_to_end (e : Err) (h : errorCode (some e) ≠ NoError) :
    errorCode (some (fromWire (toWire e))) = errorCode (some e) := by
  have key : ∀ (c : Code) (m : String) (d : Option String),
      errorCode (some (fromWire ⟨c, m, d⟩)) = c := by
    intro c m d
    unfold fromWire
    split
    · rename_i hc; simp at hc; subst hc; simp [errorCode, firstCoder, hasCanceled]
    · split
      · rename_i hc; simp at hc; subst hc
        simp [errorCode, firstCoder, hasCanceled, hasDeadline]
      · simp [errorCode, firstCoder]
  cases e with
  | jerr c m d => simp only [toWire]; rw [key]; simp [errorCode, firstCoder]
  | coder c m => simp only [toWire]; simp [h, key]
  | canceled => simp only [toWire]; simp [h, key]
  | deadline => simp only [toWire]; simp [h, key]
  | plain m => simp only [toWire]; simp [h, key]
  | wrap m i => simp only [toWire]; simp [h, key]
  | join a b => simp only [toWire]; simp [h, key]

/-- Top-level `*Error` with `NoError` code also keeps it (no remap for `*Error`). -/
theorem jerr_code_always_kept (c : Code) (m : String) (d : Option String) :
    (toWire (.jerr c m d)).code = c := rfl

/-- The remapping itself: a non-`*Error` whose classification is `NoError` goes out as InternalError. -/
theorem noerror_coder_is_internal (e : Err) (hj : ∀ c m d, e ≠ .jerr c m d)
    (h : errorCode (some e) = NoError) : (toWire e).code = InternalError := by
  cases e <;> simp_all [toWire]

/-- An `*Error`'s code, message and data arrive unchanged (codes other than the two context codes,
which are covered by `ctx_sentinels_preserved`). -/
theorem error_fields_preserved (c : Code) (m : String) (d : Option String)
    (h1 : c ≠ Cancelled) (h2 : c ≠ DeadlineExceeded) :
    fromWire (toWire (.jerr c m d)) = .jerr c m d := by
  simp [toWire, fromWire, h1, h2]

/-- `context.Canceled` / `context.DeadlineExceeded`, also wrapped or joined, surface on the client
as exactly those sentinels. -/
theorem ctx_sentinels_preserved (e : Err) :
    (errorCode (some e) = Cancelled → fromWire (toWire e) = .canceled) ∧
    (errorCode (some e) = DeadlineExceeded → fromWire (toWire e) = .deadline) := by
  have hne1 : Cancelled ≠ NoError := by decide
  have hne2 : DeadlineExceeded ≠ NoError := by decide
  have hne3 : DeadlineExceeded ≠ Cancelled := by decide
  constructor
  · intro h
    cases e with
    | jerr c m d => simp [errorCode, firstCoder] at h; subst h; simp [toWire, fromWire]
    | coder c m => simp only [toWire]; simp [h, hne1, fromWire]
    | canceled => simp only [toWire]; simp [h, hne1, fromWire]
    | deadline => simp only [toWire]; simp [h, hne1, fromWire]
    | plain m => simp only [toWire]; simp [h, hne1, fromWire]
    | wrap m i => simp only [toWire]; simp [h, hne1, fromWire]
    | join a b => simp only [toWire]; simp [h, hne1, fromWire]
  · intro h
    cases e with
    | jerr c m d => simp [errorCode, firstCoder] at h; subst h; simp [toWire, fromWire, hne3]
    | coder c m => simp only [toWire]; simp [h, hne2, hne3, fromWire]
    | canceled => simp only [toWire]; simp [h, hne2, hne3, fromWire]
    | deadline => simp only [toWire]; simp [h, hne2, hne3, fromWire]
    | plain m => simp only [toWire]; simp [h, hne2, hne3, fromWire]
    | wrap m i => simp only [toWire]; simp [h, hne2, hne3, fromWire]
    | join a b => simp only [toWire]; simp [h, hne2, hne3, fromWire]

/-- Wrapped / joined context errors do classify as the context codes (the hypothesis of
`ctx_sentinels_preserved` is met by every tree without an `ErrCoder` that contains the sentinel). -/
theorem wrapped_canceled_classified (e : Err) (h1 : firstCoder e = none) (h2 : hasCanceled e = true) :
    errorCode (some e) = Cancelled := by
  simp [errorCode, h1, h2]

/-- A result that cannot be marshalled becomes an error response — never a result, never nothing. -/
theorem unmarshalable_result_is_error (why : String) :
    ∃ w, serverReply (.unmarshalable why) = .error w ∧ w.code = SystemError := by
  refine ⟨_, rfl, ?_⟩
  simp [toWire, errorCode, firstCoder, hasCanceled, hasDeadline, SystemError, NoError]

/-- Every handler failure becomes an error reply; every success a result reply. -/
theorem reply_kind (o : Outcome) :
    (∃ r, o = .ok r ∧ serverReply o = .result r) ∨ (∃ w, serverReply o = .error w) := by
  cases o with
  | ok r => exact Or.inl ⟨r, rfl, rfl⟩
  | unmarshalable w => exact Or.inr ⟨_, rfl⟩
  | fail e => exact Or.inr ⟨_, rfl⟩

/-- `WithData` leaves code and message alone and returns the receiver itself when there is
nothing to attach (aliasing of the receiver's memory is checked by the correspondence run). -/
theorem withData_pure (e : WireErr) (v : Option (Option String)) :
    (withData e v).code = e.code ∧ (withData e v).msg = e.msg ∧
    ((v = none ∨ v = some none) → withData e v = e) := by
  cases v with
  | none => simp [withData]
  | some o => cases o <;> simp [withData]

/-- The nine predefined codes are pairwise distinct (needed by every statement above). -/
theorem codes_distinct :
    [ParseError, InvalidRequest, MethodNotFound, InvalidParams, InternalError, NoError,
     SystemError, Cancelled, DeadlineExceeded].Nodup := by decide

-- non-vacuity: concrete trees meeting the hypotheses
example : errorCode (some (.wrap "w" (.join (.plain "p") .canceled))) = Cancelled := by decide
example : errorCode (some (.wrap "w" (.coder 7 ""))) ≠ NoError := by decide
example : errorCode (some (.wrap "w" (.jerr NoError "" none))) = NoError := by decide

end Jrpc.Props.C14
