import Jrpc.Model.Handler
/-! # C15 / C16 — handler.New/Check/Wrap, Positional, Args, Obj -/
namespace Jrpc.Props.C15
open Jrpc.Handler
open Jrpc.Json (Bytes)

/-- **Check accepts exactly the documented signature schemes** and rejects every other value -/
theorem check_iff_documented (s : Sig) : (check s).isSome ↔ Documented s := by
  constructor
  · intro h
    obtain ⟨isF, ins, v, outs⟩ := s
    unfold check at h
    simp only at h
    cases isF with
    | false => simp at h
    | true =>
      simp only [Bool.not_true, Bool.false_eq_true, if_false] at h
      match ins, outs, v, h with
      | [], _, _, h => simp at h
      | [a], outs, v, h =>
        cases a <;> simp at h
        cases v <;> simp at h
        match outs, h with
        | [], h => simp at h
        | [y], _ => cases y <;> first | exact .noArgErr | exact .noArgVal _
        | [y, z], h => cases z <;> simp at h; exact .noArgValErr y
        | _ :: _ :: _ :: _, h => simp at h
      | [a, x], outs, v, h =>
        cases a <;> simp at h
        cases v <;> simp at h
        match outs, h with
        | [], h => simp at h
        | [y], _ => cases y <;> first | exact .argErr x | exact .argVal x _
        | [y, z], h => cases z <;> simp at h; exact .argValErr x y
        | _ :: _ :: _ :: _, h => simp at h
      | _ :: _ :: _ :: _, _, _, h => simp at h
  · intro h
    cases h <;> simp [check]

/-- a variadic function is never accepted -/
theorem variadic_rejected (s : Sig) (h : s.variadic = true) : check s = none := by
  unfold check; simp only; repeat' split
  all_goals first | rfl | simp_all

/-- **the function is called exactly once with the decoded params, or not at all with
InvalidParams**: the adapter's action is one of a single call (no argument / the request / the
zero value / the value decoded from exactly one text) or a refusal — there is no path that calls
twice or calls after a failed translation -/
theorem wrap_calls_once_or_invalid (i : Info) (o : Opts) (p : Bytes) :
    match wrapAction i o p with
    | .noParamsError => i.hasArg = false ∧ p ≠ []
    | .callNoArg => i.hasArg = false ∧ p = []
    | .callReq => i.hasArg = true ∧ i.argIsReq = true
    | .callZero => i.hasArg = true ∧ p = []
    | .decode _ t => i.hasArg = true ∧ p ≠ [] ∧ (t = p ∨ (o.names ≠ [] ∧ o.allowArray = true ∧ translate o.names p = some t))
    | .invalid => i.hasArg = true ∧ o.names ≠ [] ∧ o.allowArray = true ∧ translate o.names p = none := by
  unfold wrapAction
  by_cases h1 : i.hasArg = true
  · simp only [h1, Bool.not_true, Bool.false_eq_true, if_false]
    by_cases h2 : i.argIsReq = true
    · simp [h2]
    · simp only [h2, Bool.false_eq_true, if_false]
      by_cases h3 : p = []
      · simp [h3]
      · simp only [h3, if_false]
        by_cases h4 : (o.names ≠ [] && o.allowArray) = true
        · simp only [h4, if_true]
          have h4' : o.names ≠ [] ∧ o.allowArray = true := by simpa using h4
          cases ht : translate o.names p with
          | none => simp [h4'.1, h4'.2]
          | some t => simp [h3, h4'.1, h4'.2]
        · simp only [h4, Bool.false_eq_true, if_false]; simp [h3]
  · have h1' : i.hasArg = false := by simpa using h1
    simp only [h1', Bool.not_false, if_true]
    by_cases h3 : p = [] <;> simp [h3]

/-- **unknown fields are rejected whenever strict checking was requested with SetStrict or the
parameter type has DisallowUnknownFields — in every wrapper case** (with and without the array
translation) -/
theorem strict_honoured (i : Info) (o : Opts) (p t : Bytes) (s : Bool)
    (h : wrapAction i o p = .decode s t) : s = (o.strictSet || o.implStrict) := by
  have key : ∀ a b : Bool, (a && !b || b) = (a || b) := by intro a b; cases a <;> cases b <;> rfl
  unfold wrapAction at h
  simp only [key] at h
  by_cases h1 : i.hasArg = true
  · simp only [h1, Bool.not_true, Bool.false_eq_true, if_false] at h
    by_cases h2 : i.argIsReq = true
    · simp [h2] at h
    · simp only [h2, Bool.false_eq_true, if_false] at h
      by_cases h3 : p = []
      · simp [h3] at h
      · simp only [h3, if_false] at h
        by_cases h4 : (o.names ≠ [] && o.allowArray) = true
        · simp only [h4, if_true] at h
          cases ht : translate o.names p with
          | none => simp [ht] at h
          | some t' => simp [ht] at h; exact h.1.symm
        · simp only [h4, Bool.false_eq_true, if_false, Action.decode.injEq] at h
          exact h.1.symm
  · have h1' : i.hasArg = false := by simpa using h1
    simp only [h1', Bool.not_false, if_true] at h
    split at h <;> simp at h

/-- **array mapping**: an array of exactly as many elements as the struct has positional names is
the object with those names; any other array is refused; `AllowArray(false)` leaves arrays to the
decoder untouched -/
theorem array_mapping (names : List Bytes) (data : Bytes) (h : Jrpc.Json.firstByte data = 91) :
    translate names data =
      (match Jrpc.Json.elements data with
       | none => none
       | some elts => if elts.length = names.length then some (123 :: objectOf names elts ++ [125]) else none) := by
  unfold translate; simp only [h, bne_self_eq_false, Bool.false_eq_true, if_false]; rfl

theorem non_array_passthrough (names : List Bytes) (data : Bytes) (h : Jrpc.Json.firstByte data ≠ 91) :
    translate names data = some data := by
  unfold translate; simp [h]

theorem no_array_mode (i : Info) (o : Opts) (p : Bytes) (h1 : i.hasArg = true) (h2 : i.argIsReq = false)
    (h3 : p ≠ []) (h4 : o.allowArray = false) : wrapAction i o p = .decode (o.strictSet || o.implStrict) p := by
  unfold wrapAction
  simp only [h1, h2, h3, h4, Bool.not_true, Bool.false_eq_true, if_false, Bool.and_false]
  cases o.strictSet <;> cases o.implStrict <;> rfl

/-! ### C16 -/

/-- **Args decodes position by position with exact length; nil slots are skipped** -/
theorem args_exact_length (targets : List Bool) (data : Bytes) (elts : List Bytes)
    (h : argsElements data = some elts) :
    (elts.length ≠ targets.length → argsUnmarshal targets data = .wrongLength) ∧
    (elts.length = targets.length → ∃ ps, argsUnmarshal targets data = .decodeEach ps ∧
      ∀ p ∈ ps, targets.getD p.1 false = true ∧ elts[p.1]? = some p.2) := by
  unfold argsUnmarshal
  rw [h]
  constructor
  · intro hne; simp [hne]
  · intro heq
    simp only [heq, ne_eq, not_true_eq_false, if_false]
    refine ⟨_, rfl, ?_⟩
    intro p hp
    have hp' := List.mem_filter.mp hp
    refine ⟨by simpa using hp'.2, ?_⟩
    obtain ⟨i, v⟩ := p
    have := List.of_mem_zip hp'.1
    have hz : ((List.range targets.length).zip elts)[i]? = some (i, v) ∨ True := Or.inr trivial
    -- membership in zip of range gives index equality
    have hm := hp'.1
    rw [List.mem_iff_getElem?] at hm
    obtain ⟨k, hk⟩ := hm
    rw [List.getElem?_zip_eq_some] at hk
    have hk1 := hk.1
    have hki : k = i := by
      have hlt : k < targets.length := by
        by_cases hl : k < targets.length
        · exact hl
        · rw [List.getElem?_eq_none (by simpa using hl)] at hk1; simp at hk1
      rw [List.getElem?_range hlt] at hk1
      simpa using hk1
    subst hki; exact hk.2

theorem args_not_array (targets : List Bool) (data : Bytes) (h : argsElements data = none) :
    argsUnmarshal targets data = .notArray := by unfold argsUnmarshal; rw [h]

/-- `null` counts as an array without elements (encoding/json leaves the element slice nil): it
is accepted by an `Args` without slots and by no other -/
theorem args_null (targets : List Bool) (data : Bytes) (h : isNullText data = true) :
    argsUnmarshal targets data = if targets.length = 0 then .decodeEach [] else .wrongLength := by
  unfold argsUnmarshal argsElements
  simp only [h, if_true]
  cases targets with
  | nil => simp
  | cons t ts => simp

/-- an `Args` without slots accepts nothing but an empty array (or `null`): any array with an
element, and anything that is not an array, is refused -/
theorem args_empty_exact (data : Bytes) :
    (∃ ps, argsUnmarshal [] data = .decodeEach ps) ↔ argsElements data = some [] := by
  unfold argsUnmarshal
  cases h : argsElements data with
  | none => simp
  | some elts =>
    cases elts with
    | nil => simp
    | cons e es => simp

/-- **Obj decodes only keys present in the map and touches no other target** -/
theorem obj_only_present_keys (keys : List Bytes) (fields : List (Bytes × Bytes)) :
    ∀ p ∈ objUnmarshal keys fields, p.1 ∈ keys ∧ Jrpc.Json.lookupLastRaw p.1 fields = some p.2 := by
  intro p hp
  unfold objUnmarshal at hp
  obtain ⟨k, hk, hv⟩ := List.mem_filterMap.mp hp
  cases hl : Jrpc.Json.lookupLastRaw k fields with
  | none => simp [hl] at hv
  | some v => simp [hl] at hv; subst hv; exact ⟨hk, hl⟩

/-- Positional defers to Check for a context-only function and otherwise needs one name per
non-context parameter and a non-variadic function -/
theorem positional_rejects_bad_arity (s : Sig) (n : Nat) (h : s.ins.length ≥ 2)
    (hbad : n ≠ s.ins.length - 1 ∨ s.variadic = true) : positionalOK s n = false := by
  unfold positionalOK
  have : ¬ s.ins.length = 1 := by omega
  simp only [this, if_false]
  rcases hbad with h1 | h1
  · simp [h1]
  · simp [h1]

-- non-vacuity
example : (check ⟨true, [.ctx, .other], false, [.other, .err]⟩).isSome = true := by decide
example : check ⟨true, [.ctx, .other], true, [.err]⟩ = none := by decide
example : translate [[97], [98]] [91, 49, 44, 50, 93] = some [123, 34, 97, 34, 58, 49, 44, 34, 98, 34, 58, 50, 125] := by decide
example : translate [[97], [98]] [91, 49, 93] = none := by decide

end Jrpc.Props.C15
