import Jrpc.Model.Dispatch
/-! # C17 — method dispatch: exact names, first-dot service split, reserved rpc.* names -/
namespace Jrpc.Props.C17
open Jrpc.Dispatch

/-! ### splitting at the first dot -/

theorem split_none_iff (m : Name) : splitFirstDot m = none ↔ dot ∉ m := by
  induction m with
  | nil => simp [splitFirstDot]
  | cons b r ih =>
    unfold splitFirstDot
    by_cases h : b = dot
    · simp [h]
    · simp only [h, if_false]
      cases hs : splitFirstDot r with
      | none => simp [hs] at ih; simp [ih, Ne.symm h]
      | some p => simp [hs] at ih; simp [ih]

/-- the split happens at the FIRST dot only: whatever `rest` contains -/
theorem split_first (s rest : Name) (h : dot ∉ s) :
    splitFirstDot (s ++ dot :: rest) = some (s, rest) := by
  induction s with
  | nil => simp [splitFirstDot]
  | cons b r ih =>
    have hb : b ≠ dot := by intro e; simp [e] at h
    have hr : dot ∉ r := by intro e; simp [e] at h
    simp [splitFirstDot, hb, ih hr]

/-! ### Map -/

/-- `Map` matches the whole name: a hit returns the handler stored under exactly that name -/
theorem map_exact {H : Type} (es : List (Name × H)) (m : Name) (h : H) :
    mapAssign es m = some h → (m, h) ∈ es := by
  unfold mapAssign
  induction es with
  | nil => simp [lookup]
  | cons e r ih =>
    obtain ⟨k, v⟩ := e
    unfold lookup
    by_cases hk : k = m
    · simp [hk]; intro hv; exact Or.inl hv.symm
    · simp [hk]; intro hv; exact Or.inr (ih hv)

theorem map_miss {H : Type} (es : List (Name × H)) (m : Name) (hm : ∀ e ∈ es, e.1 ≠ m) :
    mapAssign es m = none := by
  unfold mapAssign
  induction es with
  | nil => simp [lookup]
  | cons e r ih =>
    obtain ⟨k, v⟩ := e
    have hk : k ≠ m := hm (k, v) (by simp)
    simp [lookup, hk]
    exact ih (fun e he => hm e (by simp [he]))

theorem map_hit {H : Type} (es : List (Name × H)) (m : Name) (h : H)
    (hnd : (es.map (·.1)).Nodup) (hin : (m, h) ∈ es) : mapAssign es m = some h := by
  unfold mapAssign
  induction es with
  | nil => simp at hin
  | cons e r ih =>
    obtain ⟨k, v⟩ := e
    simp only [List.map_cons, List.nodup_cons] at hnd
    simp only [List.mem_cons, Prod.mk.injEq] at hin
    unfold lookup
    rcases hin with ⟨h1, h2⟩ | hin
    · simp [h1, h2]
    · have : k ≠ m := by
        intro e; apply hnd.1; rw [e]; exact List.mem_map.mpr ⟨(m, h), hin, rfl⟩
      simp [this]; exact ih hnd.2 hin

/-! ### ServiceMap -/

theorem servicemap_first_dot {H : Type} (es : List (Name × Assigner H)) (s rest : Name)
    (h : dot ∉ s) :
    svcAssign es (s ++ dot :: rest) = (lookup s es).bind (fun a => a rest) := by
  unfold svcAssign
  rw [split_first s rest h]
  cases hl : lookup s es <;> simp [hl]

theorem no_dot_fails {H : Type} (es : List (Name × Assigner H)) (m : Name) (h : dot ∉ m) :
    svcAssign es m = none := by
  unfold svcAssign
  rw [(split_none_iff m).mpr h]

theorem unknown_service_fails {H : Type} (es : List (Name × Assigner H)) (s rest : Name)
    (h : dot ∉ s) (hs : lookup s es = none) : svcAssign es (s ++ dot :: rest) = none := by
  rw [servicemap_first_dot es s rest h, hs]; rfl

/-- nesting: a service map inside a service map splits the remainder again at ITS first dot -/
theorem servicemap_nested {H : Type} (outer inner : List (Name × Assigner H)) (s t rest : Name)
    (hs : dot ∉ s) (ht : dot ∉ t) (ho : lookup s outer = some (svcAssign inner)) :
    svcAssign outer (s ++ dot :: (t ++ dot :: rest)) = (lookup t inner).bind (fun a => a rest) := by
  rw [servicemap_first_dot outer s _ hs, ho]
  simp only [Option.bind]
  exact servicemap_first_dot inner t rest ht

/-! ### the reserved prefix -/

theorem builtin_gate {H : Type} (mux : Assigner H) (name : Name)
    (hp : hasPrefix reservedPrefix name = true) :
    serverAssign true mux name = (if name = rpcServerInfo then .builtinInfo else .notFound) := by
  simp [serverAssign, hp]

/-- with built-ins on, a reserved name never reaches the assigner, whatever the assigner maps it to -/
theorem reserved_withheld {H : Type} (mux mux' : Assigner H) (name : Name)
    (hp : hasPrefix reservedPrefix name = true) :
    serverAssign true mux name = serverAssign true mux' name := by
  simp [serverAssign, hp]

theorem unreserved_passthrough {H : Type} (b : Bool) (mux : Assigner H) (name : Name)
    (hp : hasPrefix reservedPrefix name = false) :
    serverAssign b mux name = (match mux name with | some h => .user h | none => .notFound) := by
  simp only [serverAssign, hp, Bool.and_false]; rfl

theorem disable_builtin_passthrough {H : Type} (mux : Assigner H) (name : Name) :
    serverAssign false mux name = (match mux name with | some h => .user h | none => .notFound) := by
  simp only [serverAssign, Bool.false_and]; rfl

theorem hasPrefix_iff (p n : Name) : hasPrefix p n = true ↔ ∃ r, n = p ++ r := by
  induction p generalizing n with
  | nil => simp [hasPrefix]
  | cons a ps ih =>
    cases n with
    | nil => simp [hasPrefix]
    | cons b bs =>
      simp only [hasPrefix, Bool.and_eq_true, beq_iff_eq, ih, List.cons_append, List.cons.injEq]
      constructor
      · rintro ⟨h, r, hr⟩; exact ⟨r, h.symm, hr⟩
      · rintro ⟨r, h, hr⟩; exact ⟨h.symm, r, hr⟩

/-- "rpc", "RPC.x", "xrpc." are not reserved; "rpc.", "rpc.x", "rpc..": are -/
theorem prefix_examples :
    hasPrefix reservedPrefix [114, 112, 99] = false ∧
    hasPrefix reservedPrefix [82, 80, 67, 46, 120] = false ∧
    hasPrefix reservedPrefix [120, 114, 112, 99, 46] = false ∧
    hasPrefix reservedPrefix [114, 112, 99, 46] = true ∧
    hasPrefix reservedPrefix [114, 112, 99, 46, 120] = true ∧
    hasPrefix reservedPrefix rpcServerInfo = true := by decide

/-! ### Names -/

theorem bytesLe_total (a b : Name) : (bytesLe a b || bytesLe b a) = true := by
  induction a generalizing b with
  | nil => simp [bytesLe]
  | cons x xs ih =>
    cases b with
    | nil => simp [bytesLe]
    | cons y ys =>
      simp only [bytesLe]
      by_cases h1 : x < y
      · simp [h1]
      · by_cases h2 : y < x
        · simp [h1, h2]
        · simp [h1, h2]; simpa using ih ys

theorem bytesLe_trans (a b c : Name) : bytesLe a b = true → bytesLe b c = true → bytesLe a c = true := by
  induction a generalizing b c with
  | nil => simp [bytesLe]
  | cons x xs ih =>
    cases b with
    | nil => simp [bytesLe]
    | cons y ys =>
      cases c with
      | nil => simp [bytesLe]
      | cons z zs =>
        simp only [bytesLe]
        intro h1 h2
        by_cases hxy : x < y
        · by_cases hyz : y < z
          · have : x < z := UInt8.lt_trans hxy hyz
            simp [this]
          · by_cases hzy : z < y
            · simp [hyz, hzy] at h2
            · have : y = z := UInt8.le_antisymm (UInt8.not_lt.mp hzy) (UInt8.not_lt.mp hyz)
              subst this; simp [hxy]
        · by_cases hyx : y < x
          · simp [hxy, hyx] at h1
          · have : x = y := UInt8.le_antisymm (UInt8.not_lt.mp hyx) (UInt8.not_lt.mp hxy)
            subst this
            simp only [hxy, if_false] at h1
            by_cases hxz : x < z
            · simp [hxz]
            · by_cases hzx : z < x
              · simp [hxz, hzx] at h2
              · simp only [hxz, hzx, if_false] at h2 ⊢
                exact ih ys zs h1 h2

/-- `Names` is sorted (bytewise) and lists every composed name exactly as often as it occurs -/
theorem names_sorted_complete (l : List Name) :
    (sortNames l).Pairwise (fun a b => bytesLe a b = true) ∧ (sortNames l).Perm l := by
  constructor
  · exact List.pairwise_mergeSort (le := bytesLe)
      (fun a b c => bytesLe_trans a b c) (fun a b => bytesLe_total a b) l
  · exact List.mergeSort_perm l bytesLe

theorem svcNames_sorted (es : List (Name × Option (List Name))) :
    (svcNames es).Pairwise (fun a b => bytesLe a b = true) := (names_sorted_complete _).1

theorem svcNames_complete (es : List (Name × Option (List Name))) (svc n : Name) (ns : List Name)
    (h1 : (svc, some ns) ∈ es) (h2 : n ∈ ns) : (svc ++ [dot] ++ n) ∈ svcNames es := by
  unfold svcNames
  rw [(names_sorted_complete _).2.mem_iff]
  simp only [List.mem_flatMap]
  refine ⟨(svc, some ns), h1, ?_⟩
  simp only [List.mem_map]
  exact ⟨n, h2, rfl⟩

-- non-vacuity
example : svcAssign [([97], mapAssign [([98, 46, 99], 7)])] [97, 46, 98, 46, 99] = some 7 := by decide
example : serverAssign true (mapAssign [([114, 112, 99], 1)]) [114, 112, 99] = .user 1 := by decide
example : bytesLe [107, 118, 45, 114, 46, 103] [107, 118, 46, 103] = true := by decide  -- "kv-r.g" ≤ "kv.g"

end Jrpc.Props.C17
