import Jrpc.Model.Http
/-! # C18 — HTTP bridge: each caller gets exactly its own responses with its own ids -/
namespace Jrpc.Props.C18
open Jrpc.Http
open Jrpc.Json (Bytes)

def numCalls (ms : List Member) : Nat := (inboundIDs ms).length

theorem specs_calls (ms : List Member) : ((specs ms).filter (!·)).length = numCalls ms := by
  induction ms with
  | nil => rfl
  | cons m r ih =>
    cases m <;> simp [specs, inboundIDs, numCalls] at * <;> omega

/-- **the re-issued batch has one call entry per call in the body, in order**, so the i-th
response of `Batch` (responses come back in spec order with notifications omitted, C04
`batch_order`) is relabelled with the i-th caller id — the index shift caused by notifications
and invalid members mixed with calls cannot misalign ids -/
theorem own_ids (ms : List Member) :
    replyIDs ms (numCalls ms) = staticErrors ms ++ inboundIDs ms := by
  unfold replyIDs numCalls; rw [List.take_length]

/-- the reply has exactly one object per call and per statically invalid member -/
theorem reply_count (ms : List Member) :
    (replyIDs ms (numCalls ms)).length = (ms.filter fun m => match m with | .note => false | _ => true).length := by
  rw [own_ids]
  induction ms with
  | nil => rfl
  | cons m r ih =>
    cases m with
    | invalid id => simp only [staticErrors, inboundIDs, List.length_append, List.length_cons, List.filter_cons] at ih ⊢; simp; omega
    | call id => simp only [staticErrors, inboundIDs, List.length_append, List.length_cons, List.filter_cons] at ih ⊢; simp; omega
    | note => simp only [staticErrors, inboundIDs, List.filter_cons] at ih ⊢; simpa using ih

/-- every id in the reply is an id the caller wrote in this very body (or `null` for a member
without one): what other HTTP callers use is irrelevant, because nothing but `ms` enters -/
theorem ids_from_own_body (ms : List Member) (id : Bytes) (h : id ∈ replyIDs ms (numCalls ms)) :
    Member.call id ∈ ms ∨ Member.invalid id ∈ ms ∨ (id = [110, 117, 108, 108] ∧ Member.invalid [] ∈ ms) := by
  rw [own_ids] at h
  induction ms with
  | nil => simp [staticErrors, inboundIDs] at h
  | cons m r ih =>
    cases m with
    | invalid i =>
      simp only [staticErrors, inboundIDs, List.cons_append, List.mem_cons] at h
      rcases h with h | h
      · by_cases hi : i = []
        · subst hi; simp at h; exact Or.inr (Or.inr ⟨h, by simp⟩)
        · simp [hi] at h; subst h; exact Or.inr (Or.inl (by simp))
      · rcases ih h with a | a | a
        · exact Or.inl (List.mem_cons_of_mem _ a)
        · exact Or.inr (Or.inl (List.mem_cons_of_mem _ a))
        · exact Or.inr (Or.inr ⟨a.1, List.mem_cons_of_mem _ a.2⟩)
    | call i =>
      simp only [staticErrors, inboundIDs, List.mem_append, List.mem_cons] at h
      rcases h with h | h | h
      · rcases ih (List.mem_append_left _ h) with a | a | a
        · exact Or.inl (List.mem_cons_of_mem _ a)
        · exact Or.inr (Or.inl (List.mem_cons_of_mem _ a))
        · exact Or.inr (Or.inr ⟨a.1, List.mem_cons_of_mem _ a.2⟩)
      · subst h; exact Or.inl (by simp)
      · rcases ih (List.mem_append_right _ h) with a | a | a
        · exact Or.inl (List.mem_cons_of_mem _ a)
        · exact Or.inr (Or.inl (List.mem_cons_of_mem _ a))
        · exact Or.inr (Or.inr ⟨a.1, List.mem_cons_of_mem _ a.2⟩)
    | note =>
      simp only [staticErrors, inboundIDs] at h
      rcases ih h with a | a | a
      · exact Or.inl (List.mem_cons_of_mem _ a)
      · exact Or.inr (Or.inl (List.mem_cons_of_mem _ a))
      · exact Or.inr (Or.inr ⟨a.1, List.mem_cons_of_mem _ a.2⟩)

/-- **shape and status**: 204 with an empty body iff there is no response object; one object for
one response; an array otherwise -/
theorem shape_and_status (n : Nat) :
    (shape n = .noContent ↔ n = 0) ∧ (shape n = .single ↔ n = 1) ∧ (shape n = .array ↔ n ≥ 2) := by
  unfold shape
  refine ⟨?_, ?_, ?_⟩
  · constructor
    · intro h; by_cases h0 : n = 0
      · exact h0
      · simp [h0] at h; split at h <;> simp at h
    · intro h; simp [h]
  · constructor
    · intro h; by_cases h0 : n = 0
      · simp [h0] at h
      · by_cases h1 : n = 1
        · exact h1
        · simp [h0, h1] at h
    · intro h; simp [h]
  · constructor
    · intro h; by_cases h0 : n = 0
      · simp [h0] at h
      · by_cases h1 : n = 1
        · simp [h1] at h
        · omega
    · intro h
      have h0 : n ≠ 0 := by omega
      have h1 : n ≠ 1 := by omega
      simp [h0, h1]

/-- **statically invalid members do not reach a handler**: they are not among the specs re-issued -/
theorem static_errors_no_handler (ms : List Member) :
    (specs ms).length = (ms.filter fun m => match m with | .invalid _ => false | _ => true).length := by
  induction ms with
  | nil => rfl
  | cons m r ih => cases m <;> simp [specs, List.filter_cons] at * <;> omega

/-- **the gate**: anything but POST is 405; a media type other than application/json, or a charset
other than utf-8 / utf8, is 415 — none of these reaches `serveInternal` -/
theorem gate_rules (method mt : Bytes) (cs : Option Bytes) :
    (method ≠ [80, 79, 83, 84] → gate method mt cs = 405) ∧
    (method = [80, 79, 83, 84] → mt ≠ [97, 112, 112, 108, 105, 99, 97, 116, 105, 111, 110, 47, 106, 115, 111, 110] → gate method mt cs = 415) := by
  unfold gate
  constructor
  · intro h; simp [h]
  · intro h1 h2; simp [h1, h2]

-- non-vacuity: calls mixed with a notification and an invalid member keep their own ids
example : replyIDs [.call [49], .note, .invalid [], .call [34, 97, 34], .invalid [55]] 2 =
    [[110, 117, 108, 108], [55], [49], [34, 97, 34]] := by decide

end Jrpc.Props.C18
