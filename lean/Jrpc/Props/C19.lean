import Jrpc.Model.Http
/-! # C19 — HTTP Getter, query parsing and HTTP client channel -/
namespace Jrpc.Props.C19
open Jrpc.Http
open Jrpc.Json (Bytes isDigit)

/-- **status mapping of the Getter** -/
theorem status_map :
    getterStatus .ok = 200 ∧ getterStatus .parseFail = 400 ∧ getterStatus .methodNotFound = 404 ∧ getterStatus .otherError = 500 := by decide

/-- **a query value is typed as a number only if it is an optionally signed string of decimal
digits with an optional fraction** — whatever `ParseFloat` would accept beyond that (NaN, Inf,
hexadecimal floats, exponents, underscores) stays a literal string -/
theorem float_cases (ff : Bytes → Bool) (s : Bytes) : classify ff s = .float → (isDecimal s && ff s) = true := by
  unfold classify
  simp only
  repeat' split
  all_goals (intro h; first | assumption | (simp at h))

theorem number_only_if_decimal (ff : Bytes → Bool) (s : Bytes) (h : classify ff s = .float) : isDecimal s = true := by
  have := float_cases ff s h
  simp only [Bool.and_eq_true] at this; exact this.1

theorem int_cases (ff : Bytes → Bool) (s : Bytes) : classify ff s = .int → intOK s = true := by
  unfold classify
  simp only
  repeat' split
  all_goals (intro h; first | assumption | (simp at h))

theorem digitsVal_all (xs : Bytes) (a n : Nat) (h : Jrpc.Framing.digitsVal xs a = some n) : xs.all isDigit = true := by
  induction xs generalizing a with
  | nil => rfl
  | cons c r ih =>
    unfold Jrpc.Framing.digitsVal at h
    by_cases hc : isDigit c = true
    · simp only [hc, if_true] at h
      simp [hc, ih _ h]
    · simp [hc] at h

/-- an integer-typed value has integer syntax: optional sign, at least one digit, digits only -/
theorem int_syntax (ff : Bytes → Bool) (s : Bytes) (h : classify ff s = .int) :
    (Jrpc.Framing.signSplit s).2 ≠ [] ∧ (Jrpc.Framing.signSplit s).2.all isDigit = true := by
  have hi : intOK s = true := int_cases ff s h
  unfold intOK Jrpc.Framing.atoi at hi
  simp only at hi
  by_cases he : (Jrpc.Framing.signSplit s).2 = []
  · simp [he] at hi
  · refine ⟨he, ?_⟩
    simp only [he, if_false] at hi
    cases hd : Jrpc.Framing.digitsVal (Jrpc.Framing.signSplit s).2 0 with
    | none => simp [hd] at hi
    | some n => exact digitsVal_all _ 0 n hd

/-- **parameters are always marshalable**: NaN and the infinities are never produced — the float
type is reached only through decimal syntax, on which `ParseFloat` yields a finite value or fails -/
theorem params_marshalable (ff : Bytes → Bool) (s : Bytes) :
    classify ff s = .float → isDecimal s = true ∧ ff s = true := by
  intro h
  have := float_cases ff s h
  simp only [Bool.and_eq_true] at this; exact this

/-- decimal syntax contains nothing but digits, one optional dot and a leading sign: no `e`, `x`,
`_`, `n`, `i` … -/
theorem decimal_alphabet (s : Bytes) (h : isDecimal s = true) :
    ∀ c ∈ (Jrpc.Framing.signSplit s).2, isDigit c = true ∨ c = 46 := by
  unfold isDecimal at h
  simp only [Bool.and_eq_true, List.all_eq_true, Bool.or_eq_true, beq_iff_eq] at h
  exact h.1.1

/-- the typing rules are mutually exclusive in the documented order: a double-quoted value is a
string (or an error), never a number or a constant -/
theorem dq_is_string (ff : Bytes → Bool) (s : Bytes) (h : s.length ≥ 2) (h1 : s.head? = some 34) (h2 : s.getLast? = some 34) :
    (∃ d, classify ff s = .str d) ∨ classify ff s = .err := by
  unfold classify
  simp only [h, h1, h2, decide_true, beq_self_eq_true, Bool.and_self, if_true]
  split
  · split
    · exact Or.inl ⟨_, rfl⟩
    · exact Or.inr rfl
  · exact Or.inr rfl

theorem constants (ff : Bytes → Bool) :
    classify ff [116, 114, 117, 101] = .ctrue ∧ classify ff [102, 97, 108, 115, 101] = .cfalse ∧
    classify ff [110, 117, 108, 108] = .cnull := by
  refine ⟨?_, ?_, ?_⟩ <;> simp [classify, intOK, Jrpc.Framing.atoi, Jrpc.Framing.signSplit, Jrpc.Framing.digitsVal, isDigit, isDecimal]

/-! ### the HTTP client channel never leaks a response body -/

def CInv (s : Chan) : Prop := s.opened = s.closedBodies + bodies s.waiting ∧ (s.closed = true → s.waiting = [])

theorem bodies_append (a b : List Resp) : bodies (a ++ b) = bodies a + bodies b := by
  simp [bodies, List.filter_append]

theorem cinv_step (s : Chan) (e : CEv) (h : CInv s) : ∀ s', cstep s e = some s' → CInv s' := by
  intro s' hs
  obtain ⟨h1, h2⟩ := h
  cases e with
  | send =>
    simp only [cstep] at hs
    split at hs <;> (simp only [Option.some.injEq] at hs; subst hs; exact ⟨h1, h2⟩)
  | doReturn r =>
    simp only [cstep] at hs
    split at hs
    · simp at hs
    · cases r with
      | noContent =>
        simp only [Option.some.injEq] at hs; subst hs
        exact ⟨by simp only; omega, h2⟩
      | body =>
        simp only at hs
        split at hs
        · simp only [Option.some.injEq] at hs; subst hs
          exact ⟨by simp only; omega, h2⟩
        · rename_i hc
          simp only [Option.some.injEq] at hs; subst hs
          refine ⟨?_, fun hcl => absurd hcl hc⟩
          simp only [bodies_append]
          have : bodies [Resp.body] = 1 := by decide
          omega
      | fail =>
        simp only at hs
        split at hs
        · simp only [Option.some.injEq] at hs; subst hs; exact ⟨h1, h2⟩
        · rename_i hc
          simp only [Option.some.injEq] at hs; subst hs
          refine ⟨?_, fun hcl => absurd hcl hc⟩
          simp only [bodies_append]
          have : bodies [Resp.fail] = 0 := by decide
          omega
  | recv =>
    simp only [cstep] at hs
    split at hs
    · simp at hs
    · rename_i hc
      cases hw : s.waiting with
      | nil => simp [hw] at hs
      | cons x r =>
        simp only [hw] at hs
        rw [hw] at h1
        by_cases hx : x = Resp.body
        · simp only [hx, if_true, Option.some.injEq] at hs; subst hs
          refine ⟨?_, fun hcl => absurd hcl hc⟩
          subst hx
          simp only [bodies, List.filter_cons] at h1 ⊢
          simp at h1 ⊢; omega
        · simp only [hx, if_false, Option.some.injEq] at hs; subst hs
          refine ⟨?_, fun hcl => absurd hcl hc⟩
          have : (x == Resp.body) = false := by simpa using hx
          simp only [bodies, List.filter_cons, this] at h1 ⊢
          exact h1
  | close =>
    simp only [cstep, Option.some.injEq] at hs; subst hs
    exact ⟨by simp only [bodies, List.filter_nil, List.length_nil]; simp only [bodies] at h1; omega, fun _ => rfl⟩

theorem cinv_run (es : List CEv) (s s' : Chan) (h : CInv s) (hr : crun s es = some s') : CInv s' := by
  induction es generalizing s with
  | nil => simp [crun] at hr; subst hr; exact h
  | cons e es ih =>
    simp only [crun] at hr
    cases hs : cstep s e with
    | none => simp [hs] at hr
    | some s1 => simp [hs] at hr; exact ih s1 (cinv_step s e h s1 hs) hr

/-- **closing the channel leaves no HTTP response body unclosed**: in every run, once the channel
is closed every body that was obtained has been closed (requests still in flight are drained as
their `Do` returns), for every order of sends, completions, receives and the close -/
theorem httpchan_no_leak (es : List CEv) (s : Chan) (hr : crun {} es = some s) (hc : s.closed = true) :
    s.opened = s.closedBodies := by
  have h := cinv_run es {} s (by constructor <;> simp [bodies]) hr
  have := h.2 hc
  have h1 := h.1
  rw [this] at h1
  simpa [bodies] using h1

/-- and no request goroutine is left: after Close, `Send` starts nothing -/
theorem closed_refuses_send (s : Chan) (h : s.closed = true) :
    ∃ s', cstep s .send = some s' ∧ s'.inflight = s.inflight := by
  simp [cstep, h]

-- non-vacuity
example : (crun {} [.send, .send, .send, .doReturn .body, .doReturn .noContent, .close, .doReturn .body]).map
    (fun s => (s.opened, s.closedBodies, s.inflight)) = some (3, 3, 0) := by decide
example : classify (fun _ => true) [45, 49, 57, 46, 52] = .float := by decide          -- -19.4
example : classify (fun _ => true) [49, 101, 53] = .lit := by decide                  -- 1e5
example : classify (fun _ => true) [78, 97, 78] = .lit := by decide                   -- NaN
example : classify (fun _ => true) [48, 120, 49, 112, 45, 50] = .lit := by decide     -- 0x1p-2

end Jrpc.Props.C19
