import Jrpc.Model.Loop
/-! # C20 — server.Loop: fresh service and exactly one Finish per connection; exits last -/
namespace Jrpc.Props.C20
open Jrpc.Loop

/-- per-connection bookkeeping that holds in every reachable state -/
def ConnInv (c : Conn) : Prop :=
  (c.phase = .accepted → c.services = 0 ∧ c.finishes = 0 ∧ c.closedByLoop = false) ∧
  (c.phase ≠ .accepted → c.services = 1) ∧
  (c.phase = .finished → c.finishes = 1) ∧
  (c.phase ≠ .finished → c.finishes = 0) ∧
  (c.phase = .failed → c.closedByLoop = true) ∧
  (c.phase ≠ .failed → c.closedByLoop = false)

def Inv (s : St) : Prop :=
  (∀ c ∈ s.conns, ConnInv c) ∧ (s.returned.isSome → s.acceptFailed.isSome ∧ s.conns.all done = true)

theorem mem_set {c x : Conn} {l : List Conn} {k : Nat} (h : x ∈ l.set k c) : x = c ∨ x ∈ l := by
  rcases List.mem_or_eq_of_mem_set h with e | e
  · exact Or.inr e
  · exact Or.inl e

theorem get_mem {l : List Conn} {k : Nat} {c : Conn} (h : l[k]? = some c) : c ∈ l := List.mem_of_getElem? h

theorem all_done_set (l : List Conn) (k : Nat) (c c' : Conn) (hk : l[k]? = some c) (hnd : done c = false)
    (h : l.all done = true) : False := by
  have := List.all_eq_true.mp h c (get_mem hk)
  rw [hnd] at this; simp at this

theorem inv_step (s : St) (e : Ev) (h : Inv s) : ∀ s', step s e = some s' → Inv s' := by
  intro s' hs
  obtain ⟨hc, hr⟩ := h
  -- a returned loop has every goroutine done and the accepter failed: no event but ctxCancel changes anything
  have upd : ∀ (k : Nat) (c c' : Conn), s.conns[k]? = some c → done c = false → ConnInv c' →
      Inv { s with conns := setConn s.conns k c' } := by
    intro k c c' hk hnd hci
    refine ⟨?_, ?_⟩
    · intro x hx
      rcases mem_set hx with e | e
      · subst e; exact hci
      · exact hc x e
    · intro hret
      exact absurd (hr hret).2 (fun hall => all_done_set s.conns k c c' hk hnd hall)
  cases e with
  | accept =>
    simp only [step] at hs
    split at hs
    · simp at hs
    · rename_i hf
      simp only [Option.some.injEq] at hs; subst hs
      refine ⟨?_, ?_⟩
      · intro x hx
        rcases List.mem_append.mp hx with e | e
        · exact hc x e
        · simp at e; subst e; simp [ConnInv]
      · intro hret; have := (hr hret).1; simp_all
  | svcNew k =>
    simp only [step] at hs
    cases hk : s.conns[k]? with
    | none => simp [hk] at hs
    | some c =>
      simp only [hk] at hs
      split at hs
      · rename_i hp
        simp only [Option.some.injEq] at hs; subst hs
        have hi := hc c (get_mem hk)
        apply upd k c _ hk (by simp [done, hp])
        have := hi.1 hp
        simp [ConnInv, this.1, this.2.1, this.2.2]
      · simp at hs
  | assigner k ok =>
    simp only [step] at hs
    cases hk : s.conns[k]? with
    | none => simp [hk] at hs
    | some c =>
      simp only [hk] at hs
      split at hs
      · rename_i hp
        have hi := hc c (get_mem hk)
        have hs1 : c.services = 1 := hi.2.1 (by rw [hp]; decide)
        have hf0 : c.finishes = 0 := hi.2.2.2.1 (by rw [hp]; decide)
        cases ok with
        | true =>
          simp only [if_true, Option.some.injEq] at hs; subst hs
          apply upd k c _ hk (by simp [done, hp])
          have hcl : c.closedByLoop = false := hi.2.2.2.2.2 (by rw [hp]; decide)
          simp [ConnInv, hs1, hf0, hcl]
        | false =>
          simp only [Bool.false_eq_true, if_false, Option.some.injEq] at hs; subst hs
          apply upd k c _ hk (by simp [done, hp])
          simp [ConnInv, hs1, hf0]
      · simp at hs
  | srvExit k =>
    simp only [step] at hs
    cases hk : s.conns[k]? with
    | none => simp [hk] at hs
    | some c =>
      simp only [hk] at hs
      split at hs
      · rename_i hp
        simp only [Option.some.injEq] at hs; subst hs
        have hi := hc c (get_mem hk)
        apply upd k c _ hk (by simp [done, hp])
        have hs1 : c.services = 1 := hi.2.1 (by rw [hp]; decide)
        have hf0 : c.finishes = 0 := hi.2.2.2.1 (by rw [hp]; decide)
        have hcl : c.closedByLoop = false := hi.2.2.2.2.2 (by rw [hp]; decide)
        simp [ConnInv, hs1, hf0, hcl]
      · simp at hs
  | finish k =>
    simp only [step] at hs
    cases hk : s.conns[k]? with
    | none => simp [hk] at hs
    | some c =>
      simp only [hk] at hs
      split at hs
      · rename_i hp
        simp only [Option.some.injEq] at hs; subst hs
        have hi := hc c (get_mem hk)
        apply upd k c _ hk (by simp [done, hp])
        have hs1 : c.services = 1 := hi.2.1 (by rw [hp]; decide)
        have hf0 : c.finishes = 0 := hi.2.2.2.1 (by rw [hp]; decide)
        have hcl : c.closedByLoop = false := hi.2.2.2.2.2 (by rw [hp]; decide)
        simp [ConnInv, hs1, hf0, hcl]
      · simp at hs
  | ctxCancel =>
    simp only [step, Option.some.injEq] at hs; subst hs; exact ⟨hc, hr⟩
  | watcherStop k =>
    simp only [step] at hs
    cases hk : s.conns[k]? with
    | none => simp [hk] at hs
    | some c =>
      simp only [hk] at hs
      split at hs
      · rename_i hp
        simp only [Bool.and_eq_true, decide_eq_true_eq] at hp
        simp only [Option.some.injEq] at hs; subst hs
        have hi := hc c (get_mem hk)
        apply upd k c _ hk (by simp [done, hp.2])
        obtain ⟨a, b, c1, d, e, f⟩ := hi
        exact ⟨a, b, c1, d, e, f⟩
      · simp at hs
  | acceptFail closing =>
    simp only [step] at hs
    split at hs
    · simp at hs
    · simp only [Option.some.injEq] at hs; subst hs
      exact ⟨hc, fun hret => ⟨by simp, (hr hret).2⟩⟩
  | ret =>
    simp only [step] at hs
    cases hf : s.acceptFailed with
    | none => simp [hf] at hs
    | some closing =>
      simp only [hf] at hs
      split at hs
      · rename_i hg
        simp only [Bool.and_eq_true] at hg
        simp only [Option.some.injEq] at hs; subst hs
        exact ⟨hc, fun _ => ⟨by simp [hf], hg.2⟩⟩
      · simp at hs

theorem inv_run (es : List Ev) (s s' : St) (h : Inv s) (hr : run s es = some s') : Inv s' := by
  induction es generalizing s with
  | nil => simp [run] at hr; subst hr; exact h
  | cons e es ih =>
    simp only [run] at hr
    cases hs : step s e with
    | none => simp [hs] at hr
    | some s1 => simp [hs] at hr; exact ih s1 (inv_step s e h s1 hs) hr

theorem inv_init : Inv {} := ⟨by simp, by simp⟩

/-- **one fresh service per accepted connection**: `newService` has been called exactly once for
every connection that got past acceptance, never twice, and never for a connection still queued -/
theorem fresh_service (es : List Ev) (s : St) (hr : run {} es = some s) :
    ∀ c ∈ s.conns, c.services ≤ 1 ∧ (c.phase ≠ .accepted → c.services = 1) := by
  intro c hc
  have h := (inv_run es {} s inv_init hr).1 c hc
  refine ⟨?_, h.2.1⟩
  by_cases hp : c.phase = .accepted
  · rw [(h.1 hp).1]; omega
  · rw [h.2.1 hp]; omega

/-- **exactly one Finish per started server, and only after it has exited**; a connection whose
Assigner failed gets no server, no Finish, and is closed by Loop -/
theorem finish_once_after_exit (es : List Ev) (s : St) (hr : run {} es = some s) :
    ∀ c ∈ s.conns, c.finishes ≤ 1 ∧ (c.finishes = 1 ↔ c.phase = .finished) ∧
      (c.phase = .failed → c.finishes = 0 ∧ c.closedByLoop = true) := by
  intro c hc
  have h := (inv_run es {} s inv_init hr).1 c hc
  refine ⟨?_, ⟨?_, h.2.2.1⟩, ?_⟩
  · by_cases hp : c.phase = .finished
    · rw [h.2.2.1 hp]; omega
    · rw [h.2.2.2.1 hp]; omega
  · intro hf
    by_cases hp : c.phase = .finished
    · exact hp
    · rw [h.2.2.2.1 hp] at hf; omega
  · intro hp
    exact ⟨h.2.2.2.1 (by rw [hp]; decide), h.2.2.2.2.1 hp⟩

/-- `Finish` is enabled only in the `exited` phase, i.e. after that server's `WaitStatus` returned -/
theorem finish_needs_exit (s : St) (k : Nat) (s' : St) (h : step s (.finish k) = some s') :
    ∃ c, s.conns[k]? = some c ∧ c.phase = .exited := by
  simp only [step] at h
  cases hk : s.conns[k]? with
  | none => simp [hk] at h
  | some c =>
    simp only [hk] at h
    split at h
    · exact ⟨c, rfl, by assumption⟩
    · simp at h

/-- **Loop returns last**: when Loop has returned, every per-connection goroutine is done — each
started server has exited and been finished, each failed service's connection has been closed -/
theorem returns_last (es : List Ev) (s : St) (hr : run {} es = some s) (h : s.returned.isSome) :
    ∀ c ∈ s.conns, c.phase = .finished ∨ c.phase = .failed := by
  intro c hc
  have := ((inv_run es {} s inv_init hr).2 h).2
  have hd := List.all_eq_true.mp this c hc
  simp only [done, Bool.or_eq_true, decide_eq_true_eq] at hd
  exact hd.symm

/-- **return value**: nil for a closed-listener error, the accepter's error otherwise -/
theorem return_value (s : St) (s' : St) (h : step s .ret = some s') :
    ∃ closing, s.acceptFailed = some closing ∧ s'.returned = some (if closing then .nilErr else .err) := by
  simp only [step] at h
  cases hf : s.acceptFailed with
  | none => simp [hf] at h
  | some closing =>
    simp only [hf] at h
    split at h
    · simp only [Option.some.injEq] at h; subst h; exact ⟨closing, rfl, rfl⟩
    · simp at h

/-- when the context ends, the watcher of every serving connection may stop its server -/
theorem ctx_stops_all (s : St) (k : Nat) (c : Conn) (hk : s.conns[k]? = some c) (hp : c.phase = .serving)
    (hctx : s.ctxDone = true) : ∃ s', step s (.watcherStop k) = some s' := by
  simp [step, hk, hctx, hp]

-- non-vacuity
example : ((run {} [.accept, .accept, .svcNew 0, .assigner 0 true, .svcNew 1, .assigner 1 false, .ctxCancel, .watcherStop 0,
    .acceptFail true, .srvExit 0, .finish 0, .ret]).map (·.returned)) = some (some .nilErr) := by decide
example : run {} [.accept, .svcNew 0, .assigner 0 true, .acceptFail false, .ret] = none := by decide  -- not before the server is finished

end Jrpc.Props.C20
