import Jrpc.Gen.Funcs
import Jrpc.Model.Wire
/-! # Tie for C01: the reply entries `tasks.responses` builds

The only way the encoding of a reply batch can fail is an `*Error` whose data is not JSON
(`Props.C01.reply_batch_encodes` needs `responses` to drop such data). This file proves that the
condition under which server.go replaces the error by one without data is the model's. -/
namespace Jrpc.Tie.C01
open Jrpc.Wire Jrpc.Gen

/-- server.go `tasks.responses`: `if len(e.Data) != 0 && !json.Valid(e.Data) { e = &Error{Code, Message} }` -/
theorem drop_error_data_matches (e : ErrVal) :
    sanitizeError e =
      if Funcs.dropErrorData (e.data.length : Int) (Jrpc.Json.valid e.data) = true
      then { code := e.code, msg := e.msg } else e := by
  unfold sanitizeError Funcs.dropErrorData
  cases hv : Jrpc.Json.valid e.data <;> by_cases hl : e.data.length = 0 <;> simp [hl]

/-- and only then: an error whose data is absent or valid is passed on untouched -/
theorem keeps_encodable (n : Int) (v : Bool) : Funcs.dropErrorData n v = (n != 0 && !v) := by
  unfold Funcs.dropErrorData
  by_cases h : n = 0 <;> cases v <;> simp [h, bne]

end Jrpc.Tie.C01
