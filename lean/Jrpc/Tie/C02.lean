import Jrpc.Gen.Consts
import Jrpc.Gen.Funcs
import Jrpc.Model.Wire
/-! # Tie obligations for C02 / C01 / C13: the small predicates and constants of json.go,
server.go and error.go in the *current source* are the ones the wire model uses. -/
namespace Jrpc.Tie.C02
open Jrpc.Gen Jrpc.GoPrelude Jrpc.Wire

theorem byte_eq (a : UInt8) (k : Nat) (hk : k < 256) : (((a.toNat : Int) == (k : Int)) = true) ↔ a = k.toUInt8 := by
  simp only [beq_iff_eq]
  constructor
  · intro h
    have : a.toNat = k := by omega
    apply UInt8.toNat_inj.mp
    simp [this, Nat.mod_eq_of_lt hk]
  · intro h; subst h; simp [Nat.mod_eq_of_lt hk]

/-- the length test and four byte tests, as json.go has written `isNull` -/
theorem isNull_by_bytes (v : List UInt8) :
    ((((((GoLen.len v) == 4) && ((GoIdx.idx v 0) == 110)) && ((GoIdx.idx v 1) == 117)) && ((GoIdx.idx v 2) == 108)) && ((GoIdx.idx v 3) == 108)) = Wire.isNull v := by
  unfold Wire.isNull
  rcases v with _ | ⟨a, _ | ⟨b, _ | ⟨c, _ | ⟨d, _ | ⟨e, r⟩⟩⟩⟩⟩
  · simp [GoLen.len]
  · simp [GoLen.len]
  · simp [GoLen.len]
  · simp [GoLen.len]
  · simp only [GoLen.len, GoIdx.idx, List.length_cons, List.length_nil, List.getD_cons_zero,
      List.getD_cons_succ]
    have ha := byte_eq a 110 (by decide)
    have hb := byte_eq b 117 (by decide)
    have hc := byte_eq c 108 (by decide)
    have hd := byte_eq d 108 (by decide)
    by_cases h1 : a = 110 <;> by_cases h2 : b = 117 <;> by_cases h3 : c = 108 <;> by_cases h4 : d = 108 <;>
      simp_all
  · simp [GoLen.len]; omega

/-- `isNull` of json.go = the model's `isNull` - whether it is written as those byte tests or as
a comparison with the text `null` -/
theorem isNull_matches (v : List UInt8) : Funcs.isNull v = Wire.isNull v := by
  first
  | exact isNull_by_bytes v
  | (unfold Funcs.isNull Wire.isNull; apply Bool.eq_iff_iff.mpr; simp; done)

/-- `fixID` of json.go = the model's -/
theorem fixID_matches (v : List UInt8) : Funcs.fixID v = Wire.fixID v := by
  unfold Funcs.fixID Wire.fixID
  rw [isNull_matches]
  by_cases h : Wire.isNull v = true <;> simp [h]

/-- `isValidVersion` compares with the constant "2.0" -/
theorem version_matches (v : List UInt8) : Funcs.isValidVersion v = (v == Wire.version) := rfl

/-- `isRequestOrNotification` / `isNotification` of json.go = the model's -/
theorem isRequest_matches (j : Msg) :
    Funcs.isRequestOrNotification j.m (if j.hasE then some () else none) j.r = j.isRequestOrNotification := by
  unfold Funcs.isRequestOrNotification Msg.isRequestOrNotification
  cases j.hasE <;> simp [GoNil.isNil]

theorem isNotification_matches (j : Msg) :
    Funcs.isNotification j.id j.m (if j.hasE then some () else none) j.r = j.isNotification := by
  unfold Funcs.isNotification Msg.isNotification
  rw [isRequest_matches, fixID_matches]
  simp [GoNil.isNil]

/-- `tasks.responses` skips an id-less member unless its code is −32700 / −32600 -/
theorem responses_skip_matches (c : Int) :
    Funcs.responsesSkip c = !(c == Wire.ParseError || c == Wire.InvalidRequest) := by
  unfold Funcs.responsesSkip
  have h1 : Consts.ParseError = Wire.ParseError := rfl
  have h2 : Consts.InvalidRequest = Wire.InvalidRequest := rfl
  have hd : Wire.ParseError ≠ Wire.InvalidRequest := by decide
  by_cases a : c = Wire.ParseError <;> by_cases b : c = Wire.InvalidRequest <;> simp_all [bne, hd, hd.symm]

/-- `filterBatchLocked` drops exactly the unmatched reply-shaped members on a push server -/
theorem drop_matches (cfg : Cfg) (j : Msg) (hnr : j.isRequestOrNotification = false) :
    Funcs.dropsUnmatchedReply cfg.allowPush j.m (if j.hasE then some () else none) j.r = !keepMember cfg j := by
  unfold Funcs.dropsUnmatchedReply keepMember
  rw [hnr]
  cases j.hasE <;> cases cfg.allowPush <;> cases hr : j.r <;> simp [GoNil.isNil]

/-- a single non-batch message is sent bare, anything else as an array -/
theorem toJSON_single_matches (n : Int) (b : Bool) : Funcs.toJSONSingle n b = (n == 1 && !b) := by
  unfold Funcs.toJSONSingle
  by_cases h : n = 1 <;> cases b <;> simp [h, bne]

/-- the protocol error sentinels carry the codes the model answers with -/
theorem sentinel_codes :
    Consts.errInvalidRequest.1 = Wire.ParseError ∧ Consts.errEmptyBatch.1 = Wire.InvalidRequest ∧
    Consts.errEmptyMethod.1 = Wire.InvalidRequest ∧ Consts.errDuplicateID.1 = Wire.InvalidRequest ∧
    Consts.errNoSuchMethod.1 = Wire.MethodNotFound := by decide

/-- an error object always has `code` and `message` members -/
theorem error_has_message : Consts.errorTags.take 2 = [("Code", "code", false), ("Message", "message", false)] := by decide

/-! ### firstByte (decides batch vs single, and the shape of params) -/

theorem dropWhile_head_false {α} (p : α → Bool) (l : List α) (x : α) (xs : List α)
    (h : l.dropWhile p = x :: xs) : p x = false := by
  induction l with
  | nil => simp at h
  | cons a l ih =>
    simp only [List.dropWhile] at h
    split at h
    · exact ih h
    · rename_i hp; injection h with h1 _; subst h1; simpa using hp

theorem dropWhile_snoc {α} (p : α → Bool) (l : List α) (x : α) (hx : p x = false) :
    ∃ zs, (l ++ [x]).dropWhile p = zs ++ [x] := by
  induction l with
  | nil => exact ⟨[], by simp [List.dropWhile, hx]⟩
  | cons a l ih =>
    by_cases hp : p a = true
    · obtain ⟨zs, hz⟩ := ih
      exact ⟨zs, by simp [List.dropWhile, hp, hz]⟩
    · exact ⟨a :: l, by simp [List.dropWhile, hp]⟩

theorem Jrpc.Json.trimRight_cons (x : UInt8) (xs : List UInt8) (hx : Jrpc.Json.isAsciiSpace x = false) :
    ∃ ys, Jrpc.Json.trimRight (x :: xs) = x :: ys := by
  unfold Jrpc.Json.trimRight
  obtain ⟨zs, hz⟩ := dropWhile_snoc Jrpc.Json.isAsciiSpace xs.reverse x hx
  refine ⟨zs.reverse, ?_⟩
  simp only [List.reverse_cons, hz, List.reverse_append, List.reverse_cons, List.reverse_nil, List.nil_append,
    List.singleton_append]

/-- `firstByte` of json.go (translated; `bytes.TrimSpace` = the model's `trimSpace`) is the model's `firstByte` -/
theorem firstByte_matches (b : List UInt8) :
    Funcs.firstByte b Jrpc.Json.trimSpace = ((Jrpc.Json.firstByte b).toNat : Int) := by
  unfold Funcs.firstByte Jrpc.Json.firstByte Jrpc.Json.trimSpace
  cases ht : Jrpc.Json.trimLeft b with
  | nil => simp [Jrpc.Json.trimRight, GoLen.len]
  | cons x xs =>
    have hx : Jrpc.Json.isAsciiSpace x = false := dropWhile_head_false _ _ _ _ ht
    obtain ⟨ys, hy⟩ := Jrpc.Json.trimRight_cons x xs hx
    simp only [hy, GoLen.len, GoIdx.idx, List.length_cons, List.getD_cons_zero]
    have : ¬ ((ys.length : Int) + 1 = 0) := by omega
    simp [this]

end Jrpc.Tie.C02
