import Jrpc.Gen.Facts
import Jrpc.Tie.Util
/-! # Tie obligations for C03: who touches the barrier and the queue in the current source.
The Barrier machine has exactly these writers: `read` enqueues; `nextRequest` pops;
`waitForBarrier` waits then adds (outside the lock); each notification signals once after its
handler returned; `stopLocked` rebuilds the queue. -/
namespace Jrpc.Tie.C03
open Jrpc.Gen.Facts Jrpc.Tie

/-- the notification barrier: one Wait and one Add (before a batch is released), two Done sites
(inline and goroutine path of a batch), none of them under the mutex -/
theorem barrier_writers :
    cnt "s.nbar" "Wait" = 1 ∧ cnt "s.nbar" "Add" = 1 ∧ cnt "s.nbar" "Done" = 2 ∧ total "s.nbar" = 4 ∧
    noneLocked "s.nbar" = true := by decide

/-- the inbound queue: two producers (the reader; the rebuild at stop), one consumer, one clear;
every access under the mutex -/
theorem queue_writers :
    cnt "s.inq" "Add" = 2 ∧ cnt "s.inq" "Pop" = 1 ∧ cnt "s.inq" "Clear" = 1 ∧ total "s.inq" = 4 ∧
    allLocked "s.inq" = true := by decide

/-- goroutines of the server: reader + dispatcher, one per batch, one per extra task of a batch,
one watcher per callback - five `go` statements, one of them `go s.waitCallback(…)` -/
theorem server_goroutines : goCount "server.go" = 5 ∧ goNamed "s.waitCallback" = 1 := by decide

end Jrpc.Tie.C03
