import Jrpc.Gen.Facts
/-! # Tie obligations for C03: who touches the barrier and the queue in the current source.
The Barrier machine has exactly these writers: `read` enqueues; `nextRequest` pops;
`waitForBarrier` waits then adds (outside the lock); each notification signals once after its
handler returned; `stopLocked` rebuilds the queue. -/
namespace Jrpc.Tie.C03
open Jrpc.Gen.Facts

def ops (field : String) : List (String × String × Bool) :=
  (writers.filter fun s => s.field == field).map fun s => (s.fn, s.what, s.locked)

/-- the notification barrier: waited and raised only in `waitForBarrier` (lock released), lowered
only in the per-batch closure of `dispatchLocked` (two sites: inline and goroutine path) -/
theorem barrier_writers :
    ops "s.nbar" = [("dispatchLocked", "Done", false), ("dispatchLocked", "Done", false),
      ("waitForBarrier", "Add", false), ("waitForBarrier", "Wait", false)] := by decide

/-- the inbound queue: one producer (`read`), one consumer (`nextRequest`), rebuilt by `stopLocked`;
every access under the mutex -/
theorem queue_writers :
    ops "s.inq" = [("nextRequest", "Pop", true), ("read", "Add", true),
      ("stopLocked", "Add", true), ("stopLocked", "Clear", true)] := by decide

/-- goroutines of the server: reader + dispatcher (Start), one per batch (serve), one per extra
task of a batch (dispatchLocked), one watcher per callback (pushReq) -/
theorem server_goroutines :
    (goStmts.filter (·.file == "server.go")).map (fun s => (s.fn, s.what)) =
      [("Start", "func"), ("Start", "func"), ("dispatchLocked", "func"), ("pushReq", "s.waitCallback"), ("serve", "func")] := by decide

end Jrpc.Tie.C03
