import Jrpc.Gen.Facts
import Jrpc.Gen.Funcs
/-! # Tie obligations for C04 / C05: who touches the client's guarded state in the current source. -/
namespace Jrpc.Tie.C04
open Jrpc.Gen Jrpc.Gen.Facts Jrpc.GoPrelude

def ops (field : String) : List (String × String × Bool) :=
  (writers.filter fun s => s.field == field).map fun s => (s.fn, s.what, s.locked)

/-- the pending set: registered only in `send` (after the transmit, under the same lock), removed
only by `deliverLocked` and `waitComplete`, always under the mutex — the one remover is the one
writer of the request's slot -/
theorem pending_writers :
    ops "c.pending" = [("deliverLocked", "delete", true), ("send", "assign", true), ("waitComplete", "delete", true)] := by decide

/-- the id counter is advanced only in `req`, under the mutex -/
theorem id_counter : ops "c.nextID" = [("req", "assign", true)] := by decide

/-- stop state is written only by `stopLocked` -/
theorem stop_state :
    ops "c.err" = [("stopLocked", "assign", true)] ∧ ops "c.ch" = [("stopLocked", "assign", true)] := by decide

/-- goroutines of the client: one reader (NewClient), one delivery goroutine per inbound message
(accept), one per callback (handleRequestLocked), one context watcher per request (send) -/
theorem client_goroutines :
    (goStmts.filter (·.file == "client.go")).map (fun s => (s.fn, s.what)) =
      [("NewClient", "func"), ("accept", "func"), ("handleRequestLocked", "func"), ("send", "c.waitComplete")] := by decide

/-- context errors are mapped back to the sentinels by `filterError` -/
theorem filter_error (c : Int) :
    Funcs.filterError c = (if c == Consts.Cancelled then .canceled else if c == Consts.DeadlineExceeded then .deadline else .same) := rfl

end Jrpc.Tie.C04
