import Jrpc.Gen.Facts
import Jrpc.Gen.Funcs
import Jrpc.Tie.Util
/-! # Tie obligations for C04 / C05: who touches the client's guarded state in the current source. -/
namespace Jrpc.Tie.C04
open Jrpc.Gen Jrpc.Gen.Facts Jrpc.GoPrelude Jrpc.Tie

/-- the pending set: one registration; removals only in the delivery path and in the context
watcher - two sites, or several sites inside those two functions (a removal copied into the
branches of one of them) - always under the mutex: the one remover is the one writer of the
request's slot (that `deliverLocked` removes the entry on every completing path is
`Tie.Decide.deliver_completes_iff`) -/
theorem pending_writers :
    cnt "c.pending" "assign" = 1 ∧
    (cnt "c.pending" "delete" = 2 ∨ (fnsOf "c.pending" "delete" = ["deliverLocked", "waitComplete"])) ∧
    total "c.pending" = 1 + cnt "c.pending" "delete" ∧ allLocked "c.pending" = true := by decide

/-- the id counter is advanced at one site, under the mutex -/
theorem id_counter : cnt "c.nextID" "assign" = 1 ∧ total "c.nextID" = 1 ∧ allLocked "c.nextID" = true := by decide

/-- stop state is written at one site each, under the mutex -/
theorem stop_state :
    total "c.err" = 1 ∧ allLocked "c.err" = true ∧ total "c.ch" = 1 ∧ allLocked "c.ch" = true := by decide

/-- goroutines of the client: one reader, one delivery goroutine per inbound message, one per
callback, one context watcher per request - four `go` statements, one of them `go c.waitComplete(…)` -/
theorem client_goroutines : goCount "client.go" = 4 ∧ goNamed "c.waitComplete" = 1 := by decide

/-- context errors are mapped back to the sentinels by `filterError` -/
theorem filter_error (c : Int) :
    Funcs.filterError c = (if c == Consts.Cancelled then .canceled else if c == Consts.DeadlineExceeded then .deadline else .same) := rfl

end Jrpc.Tie.C04
