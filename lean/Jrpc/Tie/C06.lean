import Jrpc.Gen.Facts
import Jrpc.Gen.Funcs
import Jrpc.Model.Sem
/-! # Tie obligations for C06 / C07 -/
namespace Jrpc.Tie.C06
open Jrpc.Gen Jrpc.Gen.Facts

/-- `ServerOptions.concurrency` is the model's floor/default rule -/
theorem concurrency_matches (sNil : Bool) (conc ncpu : Int) :
    Funcs.concurrency sNil conc ncpu = Jrpc.Sem.concurrency sNil conc ncpu := rfl

/-- the semaphore is used at exactly one acquire and one release site, both in `invoke` -/
theorem sem_sites : semSites.map (fun s => (s.fn, s.what)) = [("invoke", "Acquire"), ("invoke", "Release")] := by decide

/-- in `invoke` the acquire statement precedes the handler call, and the release is deferred right
after it (so every path that acquired releases exactly once, when the handler has returned) -/
theorem invoke_order : invokeOrder.1 < invokeOrder.2.2.2 ∧ invokeOrder.2.1 = invokeOrder.1 + 1 ∧ invokeOrder.2.2.1 = true := by decide

def ops (field : String) : List (String × String × Bool) :=
  (writers.filter fun s => s.field == field).map fun s => (s.fn, s.what, s.locked)

/-- the id table: reserved in `setContext`, released in `cancelLocked` (delivery, unassigned
method) and `stopLocked`; `CancelRequest` does not write it; every access under the mutex -/
theorem used_writers :
    ops "s.used" = [("cancelLocked", "delete", true), ("setContext", "assign", true), ("stopLocked", "delete", true)] := by decide

end Jrpc.Tie.C06
