import Jrpc.Gen.Facts
import Jrpc.Gen.Funcs
import Jrpc.Model.Sem
import Jrpc.Tie.Util
/-! # Tie obligations for C06 / C07 -/
namespace Jrpc.Tie.C06
open Jrpc.Gen Jrpc.Gen.Facts Jrpc.Tie

/-- `ServerOptions.concurrency` is the model's floor/default rule -/
theorem concurrency_matches (sNil : Bool) (conc ncpu : Int) :
    Funcs.concurrency sNil conc ncpu = Jrpc.Sem.concurrency sNil conc ncpu := by
  -- independent of how the source spells the guard (`s == nil || c < 1`, its negation, a switch)
  unfold Funcs.concurrency Jrpc.Sem.concurrency
  cases sNil <;> by_cases h : conc < 1 <;> simp [h] <;> omega

/-- the semaphore is used at exactly one acquire and one release site, both in `invoke` -/
theorem sem_sites : semSites.map (·.what) = ["Acquire", "Release"] := by decide

/-- in `invoke` the acquire statement precedes the handler call, and the release is deferred right
after it (so every path that acquired releases exactly once, when the handler has returned) -/
theorem invoke_order : invokeOrder.1 < invokeOrder.2.2.2 ∧ invokeOrder.2.1 = invokeOrder.1 + 1 ∧ invokeOrder.2.2.1 = true := by decide

/-- the id table: one reservation site, two release sites (per request; at stop); every access under
the mutex (`CancelRequest` does not write it) -/
theorem used_writers :
    cnt "s.used" "assign" = 1 ∧ cnt "s.used" "delete" = 2 ∧ total "s.used" = 3 ∧ allLocked "s.used" = true := by decide

end Jrpc.Tie.C06
