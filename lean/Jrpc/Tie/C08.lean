import Jrpc.Gen.Facts
/-! # Tie for C08 (and C05 / C20): "has fully exited" is what the wait groups say it is

`Server.WaitStatus` (`s.wg.Wait()`), the per-message `wg.Wait()` before `deliver`, and
`Client.Close` (`c.done.Wait()`) return when their counter is zero. That means "every goroutine has
returned" only if each goroutine is counted BEFORE it is started: an `Add` inside the goroutine
races with the `Wait` (the counter can be seen at zero although a goroutine is about to run). -/
namespace Jrpc.Tie.C08
open Jrpc.Gen.Facts

/-- every goroutine of server.go / client.go that announces its end with `defer X.Done()` is
registered with `X.Add(..)` before its `go` statement, in the same statement list -/
theorem goroutines_registered_before_start :
    goRegistration.all (fun r => r.2.2.2) = true := by decide

/-- and these are all of them: the server's two service goroutines and one per inbound message
on `s.wg`, one per handler on the per-message group, and the client's reader, one per delivery and
one per callback on `c.done` -/
theorem registered_goroutines :
    (goRegistration.filter (fun r => r.2.2.1 == "s.wg")).length = 3 ∧
    (goRegistration.filter (fun r => r.2.2.1 == "wg")).length = 1 ∧
    (goRegistration.filter (fun r => r.2.2.1 == "c.done")).length = 3 := by decide

end Jrpc.Tie.C08
