import Jrpc.Gen.Facts
import Jrpc.Gen.Funcs
import Jrpc.Model.Wire
/-! # Tie obligations for C09 -/
namespace Jrpc.Tie.C09
open Jrpc.Gen Jrpc.Gen.Facts Jrpc.GoPrelude

def ops (field : String) : List (String × String × Bool) :=
  (writers.filter fun s => s.field == field).map fun s => (s.fn, s.what, s.locked)

/-- the callback table: an entry is added only in `pushReq` and removed only by the reply
interception (`filterBatchLocked`) or the watcher (`waitCallback`), always under the mutex; the id
counter is advanced only in `pushReq` -/
theorem callback_table_writers :
    ops "s.call" = [("filterBatchLocked", "delete", true), ("pushReq", "assign", true), ("waitCallback", "delete", true)] ∧
    ops "s.callID" = [("pushReq", "assign", true)] := by decide

/-- one watcher goroutine per callback, started in `pushReq` -/
theorem one_watcher :
    (goStmts.filter fun s => s.what == "s.waitCallback").map (·.fn) = ["pushReq"] := by decide

/-- `AllowPush` is honoured as given (nil options mean no push) -/
theorem allow_push (sNil allow : Bool) : Funcs.allowPush sNil allow = (!sNil && allow) := rfl

/-- on a push-enabled server an unmatched reply-shaped member (no method, and a result or an error)
is dropped in the reader -/
theorem drops_unmatched (m r : List UInt8) (e : Option Unit) :
    Funcs.dropsUnmatchedReply true m e r = (m == [] && (e.isSome || r != [])) := by
  unfold Funcs.dropsUnmatchedReply
  cases e <;> cases r <;> simp [GoNil.isNil]

end Jrpc.Tie.C09
