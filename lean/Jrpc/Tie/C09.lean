import Jrpc.Gen.Facts
import Jrpc.Gen.Funcs
import Jrpc.Model.Wire
import Jrpc.Tie.Util
/-! # Tie obligations for C09 -/
namespace Jrpc.Tie.C09
open Jrpc.Gen Jrpc.Gen.Facts Jrpc.GoPrelude Jrpc.Tie

/-- the callback table: one site adds an entry, two remove one (reply interception; context watcher),
always under the mutex; the id counter is advanced at one site -/
theorem callback_table_writers :
    cnt "s.call" "assign" = 1 ∧ cnt "s.call" "delete" = 2 ∧ total "s.call" = 3 ∧ allLocked "s.call" = true ∧
    total "s.callID" = 1 ∧ allLocked "s.callID" = true := by decide

/-- one watcher goroutine per callback -/
theorem one_watcher : goNamed "s.waitCallback" = 1 := by decide

/-- `AllowPush` is honoured as given (nil options mean no push) -/
theorem allow_push (sNil allow : Bool) : Funcs.allowPush sNil allow = (!sNil && allow) := by
  unfold Funcs.allowPush
  cases sNil <;> cases allow <;> simp

/-- on a push-enabled server an unmatched reply-shaped member (no method, and a result or an error)
is dropped in the reader -/
theorem drops_unmatched (m r : List UInt8) (e : Option Unit) :
    Funcs.dropsUnmatchedReply true m e r = (m == [] && (e.isSome || r != [])) := by
  unfold Funcs.dropsUnmatchedReply
  cases e <;> cases r <;> simp [GoNil.isNil]

end Jrpc.Tie.C09
