import Jrpc.Gen.Facts
/-! # Tie obligations for C10: the guards of the Discipline machine are facts of the current source. -/
namespace Jrpc.Tie.C10
open Jrpc.Gen.Facts

/-- every Send and every Close on a channel value, in server.go / client.go / json.go, lies
inside a critical section of the owner's mutex (the lock-domination walk of go2lean; the server's
Sends go through `encode`, whose body has exactly one `ch.Send`) -/
theorem sends_and_closes_under_lock :
    (chanSites.filter fun s => s.what != "Recv").all (·.locked) = true ∧ encodeSendCount = 1 := by decide

/-- Recv is called only by the two reader loops, outside the lock -/
theorem recv_sites :
    (chanSites.filter fun s => s.what == "Recv").map (fun s => (s.file, s.fn, s.locked)) =
      [("server.go", "read", false), ("client.go", "accept", false)] := by decide

/-- the complete inventory (a new Send / Close site anywhere changes this list) -/
theorem site_inventory :
    chanSites.map (fun s => (s.fn, s.what)) =
      [("deliver", "Send(via encode)"), ("pushErrorLocked", "Send(via encode)"), ("pushReq", "Send(via encode)"), ("read", "Recv"),
       ("stopLocked", "Close"), ("accept", "Recv"), ("handleRequestLocked", "Send"), ("send", "Send"),
       ("stopLocked", "Close")] := by decide

/-- exactly one reader goroutine per Start / NewClient -/
theorem reader_goroutines :
    (goStmts.filter fun s => s.fn == "Start" || s.fn == "NewClient").map (fun s => (s.file, s.fn)) =
      [("server.go", "Start"), ("server.go", "Start"), ("client.go", "NewClient")] := by decide

/-- Close happens once per start: both `stopLocked` are idempotent (`ch == nil` guard first), close
once, and clear the channel afterwards -/
theorem close_once_per_start :
    stopGuards = [("server.go", true, 1, true), ("client.go", true, 1, true)] := by decide

end Jrpc.Tie.C10
