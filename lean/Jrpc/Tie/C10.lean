import Jrpc.Gen.Facts
import Jrpc.Gen.Funcs
import Jrpc.Model.Wire
import Jrpc.Tie.Util
/-! # Tie obligations for C10: the guards of the Discipline machine are facts of the current source. -/
namespace Jrpc.Tie.C10
open Jrpc.Gen.Facts Jrpc.Tie

/-- every Send and every Close on a channel value, in server.go / client.go / json.go, lies
inside a critical section of the owner's mutex (the lock-domination walk of go2lean; the server's
Sends go through `encode`, whose body has exactly one `ch.Send`) -/
theorem sends_and_closes_under_lock :
    (chanSites.filter fun s => s.what != "Recv").all (·.locked) = true ∧ encodeSendCount = 1 := by decide

/-- Recv is called at one site per side, outside the lock -/
theorem recv_sites :
    chanCount "server.go" "Recv" = 1 ∧ chanCount "client.go" "Recv" = 1 ∧
    ((chanSites.filter fun s => s.what == "Recv").all (!·.locked)) = true := by decide

/-- the complete inventory (a new Send / Close site anywhere changes these counts): the server sends
through `encode` at three sites and closes at one; the client sends at two and closes at one -/
theorem site_inventory :
    chanCount "server.go" "Send(via encode)" = 3 ∧ chanCount "server.go" "Send" = 0 ∧ chanCount "server.go" "Close" = 1 ∧
    chanCount "client.go" "Send" = 2 ∧ chanCount "client.go" "Close" = 1 ∧ chanSites.length = 9 := by decide

/-- goroutine inventory: five `go` statements in server.go, four in client.go -/
theorem reader_goroutines : goCount "server.go" = 5 ∧ goCount "client.go" = 4 := by decide

/-- Close happens once per start: both `stopLocked` are idempotent (`ch == nil` guard first), close
once, and clear the channel afterwards -/
theorem close_once_per_start :
    stopGuards = [("server.go", true, 1, true), ("client.go", true, 1, true)] := by decide

/-- opts.go `handleCallback` drops an error's data exactly when the model's `sanitizeError` does
(`Props.C10.callback_reply_is_message` rests on it) -/
theorem callback_drop_error_data_matches (e : Jrpc.Wire.ErrVal) :
    Jrpc.Wire.sanitizeError e =
      if Jrpc.Gen.Funcs.dropCallbackErrorData (e.data.length : Int) (Jrpc.Json.valid e.data) = true
      then { code := e.code, msg := e.msg } else e := by
  unfold Jrpc.Wire.sanitizeError Jrpc.Gen.Funcs.dropCallbackErrorData
  cases hv : Jrpc.Json.valid e.data <;> by_cases hl : e.data.length = 0 <;> simp [hl]

end Jrpc.Tie.C10
