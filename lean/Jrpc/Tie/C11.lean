import Jrpc.Gen.Consts
import Jrpc.Gen.Funcs
import Jrpc.Model.Framing
/-! # Tie obligations for C11 / C12: literals and conditions of the current `channel` sources. -/
namespace Jrpc.Tie.C11
open Jrpc.Gen Jrpc.Framing

/-- `hdr.Send` writes exactly these literals (ctype is built in `StrictHeader`) -/
theorem send_literals : Consts.hdrSendLiterals = ["", "Content-Length: ", "\r\n\r\n"] := by decide

/-- `hdr.Recv` matches exactly these two (lower-cased) field names -/
theorem recv_fields : Consts.hdrRecvFields = ["content-type", "content-length"] := by decide

theorem prealloc_bound : Consts.maxPrealloc = (maxPrealloc : Int) := by decide

/-- receive-buffer reuse policy and the incremental-read threshold are the model's -/
theorem realloc_policy (dl size : Int) : Funcs.hdrRealloc dl size = hdrRealloc dl size := rfl
theorem incremental_policy (size : Int) : Funcs.hdrIncremental size = hdrIncremental size := rfl

/-- a length is rejected iff `Atoi` failed or it is negative -/
theorem bad_length (e : Bool) (size : Int) : Funcs.hdrBadLength e size = (e || decide (size < 0)) := by
  unfold Funcs.hdrBadLength
  cases e <;> by_cases h : size < 0 <;> simp [h]

end Jrpc.Tie.C11
