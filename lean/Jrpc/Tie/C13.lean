import Jrpc.Gen.Facts
import Jrpc.Gen.Funcs
import Jrpc.Model.Wire
/-! # Tie obligations for C13 -/
namespace Jrpc.Tie.C13
open Jrpc.Gen

/-- the server reader, the client reader and the exported `ParseRequests` all decode inbound
bytes with the one envelope parser (so `ParseRequests` flags exactly what a Server would) -/
theorem one_parser :
    Facts.envelopeParserCallers = ["client.go:accept", "json.go:ParseRequests", "server.go:read"] := by decide

/-- single non-batch message bare, anything else an array -/
theorem toJSON_single (n : Int) (b : Bool) : Funcs.toJSONSingle n b = (n == 1 && !b) := rfl

end Jrpc.Tie.C13
