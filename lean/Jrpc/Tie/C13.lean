import Jrpc.Gen.Facts
import Jrpc.Gen.Funcs
import Jrpc.Model.Wire
import Jrpc.Tie.C02
/-! # Tie obligations for C13 -/
namespace Jrpc.Tie.C13
open Jrpc.Gen

/-- the server reader, the client reader and the exported `ParseRequests` all decode inbound
bytes with the one envelope parser (so `ParseRequests` flags exactly what a Server would) -/
theorem one_parser :
    Facts.envelopeParserCallers = ["client.go:accept", "json.go:ParseRequests", "server.go:read"] := by decide

/-- single non-batch message bare, anything else an array -/
theorem toJSON_single (n : Int) (b : Bool) : Funcs.toJSONSingle n b = (n == 1 && !b) := rfl

private theorem fb_cond (u : UInt8) :
    ((((u.toNat : Int)) != 91) && (((u.toNat : Int)) != 123)) = (u != 91 && u != 123) := by
  have h1 : ((u.toNat : Int) != 91) = (u != 91) := by
    have : ((u.toNat : Int) = 91) ↔ u = 91 := by
      rw [← UInt8.toNat_inj]; simp; omega
    simp only [bne]; congr 1; rw [Bool.eq_iff_iff]; simpa using this
  have h2 : ((u.toNat : Int) != 123) = (u != 123) := by
    have : ((u.toNat : Int) = 123) ↔ u = 123 := by
      rw [← UInt8.toNat_inj]; simp; omega
    simp only [bne]; congr 1; rw [Bool.eq_iff_iff]; simpa using this
  rw [h1, h2]

/-- `Client.marshalParams`, after `json.Marshal`: null → member omitted, array/object → sent, else refused -/
theorem marshalParams_tail (b : List UInt8) :
    Funcs.marshalParamsTail b (fun x => ((Jrpc.Json.firstByte x).toNat : Int)) = Jrpc.Wire.outParams b := by
  unfold Funcs.marshalParamsTail Jrpc.Wire.outParams
  rw [Jrpc.Tie.C02.isNull_matches]; simp only [fb_cond]

/-- `Server.pushReq` applies the same policy to pushed notifications and callbacks -/
theorem pushParams_tail (b : List UInt8) :
    Funcs.pushParamsTail b (fun x => ((Jrpc.Json.firstByte x).toNat : Int)) = Jrpc.Wire.outParams b := by
  unfold Funcs.pushParamsTail Jrpc.Wire.outParams
  rw [Jrpc.Tie.C02.isNull_matches]; simp only [fb_cond]

end Jrpc.Tie.C13
