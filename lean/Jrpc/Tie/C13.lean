import Jrpc.Gen.Facts
import Jrpc.Gen.Funcs
import Jrpc.Model.Wire
import Jrpc.Tie.C02
/-! # Tie obligations for C13 -/
namespace Jrpc.Tie.C13
open Jrpc.Gen

/-- the server reader, the client reader and the exported `ParseRequests` all decode inbound
bytes with the one envelope parser (so `ParseRequests` flags exactly what a Server would) -/
theorem one_parser :
    Facts.envelopeParserCallers = ["client.go:accept", "json.go:ParseRequests", "server.go:read"] := by decide

/-- single non-batch message bare, anything else an array -/
theorem toJSON_single (n : Int) (b : Bool) : Funcs.toJSONSingle n b = (n == 1 && !b) := by
  unfold Funcs.toJSONSingle
  by_cases h : n = 1 <;> cases b <;> simp [h, bne]

private theorem fb_iff (u : UInt8) (k : Nat) (hk : k < 256) : ((u.toNat : Int) = (k : Int)) ↔ u = k.toUInt8 := by
  rw [← UInt8.toNat_inj]; simp [Nat.mod_eq_of_lt hk]; omega

private theorem fb_eq (u : UInt8) (k : Nat) (hk : k < 256) : ((u.toNat : Int) == (k : Int)) = (u == k.toUInt8) := by
  rw [Bool.eq_iff_iff]; simpa using fb_iff u k hk

/-- the shape-independent core: whatever way the source spells the test on the first byte (`!=`
chain, `==` chain, switch), the decision is the model's -/
private theorem decide_by_cases (b : List UInt8) (f : List UInt8 → (List UInt8 → Int) → Jrpc.GoPrelude.ParamsDecision)
    (hnull : Jrpc.Wire.isNull b = true → f b (fun x => ((Jrpc.Json.firstByte x).toNat : Int)) = .leaveOut)
    (hkeep : Jrpc.Wire.isNull b = false → (Jrpc.Json.firstByte b = 91 ∨ Jrpc.Json.firstByte b = 123) →
      f b (fun x => ((Jrpc.Json.firstByte x).toNat : Int)) = .keep b)
    (hrefuse : Jrpc.Wire.isNull b = false → Jrpc.Json.firstByte b ≠ 91 → Jrpc.Json.firstByte b ≠ 123 →
      f b (fun x => ((Jrpc.Json.firstByte x).toNat : Int)) = .refuse) :
    f b (fun x => ((Jrpc.Json.firstByte x).toNat : Int)) = Jrpc.Wire.outParams b := by
  unfold Jrpc.Wire.outParams
  cases hn : Jrpc.Wire.isNull b with
  | true => simp [hnull hn]
  | false =>
    by_cases h91 : Jrpc.Json.firstByte b = 91
    · simp [hkeep hn (Or.inl h91), h91]
    · by_cases h123 : Jrpc.Json.firstByte b = 123
      · simp [hkeep hn (Or.inr h123), h123]
      · simp [hrefuse hn h91 h123, h91, h123]

/-- `Client.marshalParams`, after `json.Marshal`: null → member omitted, array/object → sent, else refused -/
theorem marshalParams_tail (b : List UInt8) :
    Funcs.marshalParamsTail b (fun x => ((Jrpc.Json.firstByte x).toNat : Int)) = Jrpc.Wire.outParams b := by
  have e91 := fb_eq (Jrpc.Json.firstByte b) 91 (by decide)
  have e123 := fb_eq (Jrpc.Json.firstByte b) 123 (by decide)
  apply decide_by_cases b Funcs.marshalParamsTail
  · intro hn; simp [Funcs.marshalParamsTail, Jrpc.Tie.C02.isNull_matches, hn]
  · intro hn hk
    rcases hk with h | h <;> simp [Funcs.marshalParamsTail, Jrpc.Tie.C02.isNull_matches, hn, h]
  · intro hn h1 h2
    have a : (Jrpc.Json.firstByte b == 91) = false := by simpa using h1
    have c : (Jrpc.Json.firstByte b == 123) = false := by simpa using h2
    have p91 : ¬ (((Jrpc.Json.firstByte b).toNat : Int) = 91) := fun h => h1 ((fb_iff _ 91 (by decide)).mp h)
    have p123 : ¬ (((Jrpc.Json.firstByte b).toNat : Int) = 123) := fun h => h2 ((fb_iff _ 123 (by decide)).mp h)
    simp [Funcs.marshalParamsTail, Jrpc.Tie.C02.isNull_matches, hn, bne, e91, e123, a, c, p91, p123]

/-- `Server.pushReq` applies the same policy to pushed notifications and callbacks -/
theorem pushParams_tail (b : List UInt8) :
    Funcs.pushParamsTail b (fun x => ((Jrpc.Json.firstByte x).toNat : Int)) = Jrpc.Wire.outParams b := by
  have e91 := fb_eq (Jrpc.Json.firstByte b) 91 (by decide)
  have e123 := fb_eq (Jrpc.Json.firstByte b) 123 (by decide)
  apply decide_by_cases b Funcs.pushParamsTail
  · intro hn; simp [Funcs.pushParamsTail, Jrpc.Tie.C02.isNull_matches, hn]
  · intro hn hk
    rcases hk with h | h <;> simp [Funcs.pushParamsTail, Jrpc.Tie.C02.isNull_matches, hn, h]
  · intro hn h1 h2
    have a : (Jrpc.Json.firstByte b == 91) = false := by simpa using h1
    have c : (Jrpc.Json.firstByte b == 123) = false := by simpa using h2
    have p91 : ¬ (((Jrpc.Json.firstByte b).toNat : Int) = 91) := fun h => h1 ((fb_iff _ 91 (by decide)).mp h)
    have p123 : ¬ (((Jrpc.Json.firstByte b).toNat : Int) = 123) := fun h => h2 ((fb_iff _ 123 (by decide)).mp h)
    simp [Funcs.pushParamsTail, Jrpc.Tie.C02.isNull_matches, hn, bne, e91, e123, a, c, p91, p123]

end Jrpc.Tie.C13
