import Jrpc.Gen.Consts
import Jrpc.Gen.Funcs
import Jrpc.Model.Errors
/-! # Tie obligations for C14: the constants and small functions of the *current source*
(regenerated into `Jrpc.Gen` on every run) are the ones the model and its theorems use. -/
namespace Jrpc.Tie.C14
open Jrpc.Gen Jrpc.GoPrelude Jrpc.Errors

/-- the nine code constants of code.go have the model's values -/
theorem codes_match :
    Consts.ParseError = ParseError ∧ Consts.InvalidRequest = InvalidRequest ∧
    Consts.MethodNotFound = MethodNotFound ∧ Consts.InvalidParams = InvalidParams ∧
    Consts.InternalError = InternalError ∧ Consts.NoError = NoError ∧
    Consts.SystemError = SystemError ∧ Consts.Cancelled = Cancelled ∧
    Consts.DeadlineExceeded = DeadlineExceeded := by decide

/-- and are pairwise distinct in the source -/
theorem source_codes_distinct :
    [Consts.ParseError, Consts.InvalidRequest, Consts.MethodNotFound, Consts.InvalidParams,
     Consts.InternalError, Consts.NoError, Consts.SystemError, Consts.Cancelled,
     Consts.DeadlineExceeded].Nodup := by decide

/-- `filterError` of base.go is the case split of the model's `fromWire` -/
theorem filterError_matches (w : WireErr) :
    (Funcs.filterError w.code = .canceled → fromWire w = .canceled) ∧
    (Funcs.filterError w.code = .deadline → fromWire w = .deadline) ∧
    (Funcs.filterError w.code = .same → fromWire w = .jerr w.code w.msg w.data) := by
  unfold Funcs.filterError fromWire
  have h1 : Consts.Cancelled = Cancelled := rfl
  have h2 : Consts.DeadlineExceeded = DeadlineExceeded := rfl
  rw [h1, h2]
  by_cases a : w.code = Cancelled
  · simp [a]
  · by_cases b : w.code = DeadlineExceeded
    · have hne : DeadlineExceeded ≠ Cancelled := by decide
      simp [b, hne]
    · simp [a, b]

/-- `Code.Err` of code.go is the model's `codeErr` (nil iff NoError; otherwise a coder for c) -/
theorem codeErr_matches (c : Int) :
    (Funcs.codeErr c = none ↔ codeErr c = none) ∧
    (∀ d, Funcs.codeErr c = some d → d = c ∧ firstCoder ((codeErr c).getD .canceled) = some c) := by
  unfold Funcs.codeErr codeErr
  have h : Consts.NoError = NoError := rfl
  rw [h]
  by_cases a : c = NoError
  · simp [a]
  · simp [a, firstCoder]

/-- the JSON object of an error always has "code" and "message" and omits empty "data" -/
theorem error_tags :
    Consts.errorTags = [("Code", "code", false), ("Message", "message", false), ("Data", "data", true)] := by
  decide

end Jrpc.Tie.C14
