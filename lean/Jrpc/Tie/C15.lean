import Jrpc.Gen.Consts
import Jrpc.Model.Handler
/-! # Tie obligations for C15 / C16: InvalidParams is the code the adapters report. -/
namespace Jrpc.Tie.C15
open Jrpc.Gen

theorem invalid_params_sentinel : Consts.errInvalidParams = ((-32602 : Int), "invalid parameters") := by decide
theorem invalid_params_code : Consts.InvalidParams = -32602 := by decide

end Jrpc.Tie.C15
