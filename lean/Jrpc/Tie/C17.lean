import Jrpc.Gen.Consts
import Jrpc.Model.Dispatch
/-! # Tie obligations for C17: the reserved prefix and the built-in name of the current source. -/
namespace Jrpc.Tie.C17
open Jrpc.Gen Jrpc.Dispatch

/-- `assignLocked` tests `s.builtin && strings.HasPrefix(name, "rpc.")` (go2lean fails if the
gate has any other form) with exactly the model's prefix -/
theorem reserved_prefix_matches : Consts.reservedPrefix = reservedPrefix := by decide

/-- the only name answered inside the gate is `rpc.serverInfo` -/
theorem builtin_names_match : Consts.builtinNames = [rpcServerInfo] := by decide

theorem server_info_name : Consts.rpcServerInfo_bytes = rpcServerInfo := by decide

end Jrpc.Tie.C17
