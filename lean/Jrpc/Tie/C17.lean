import Jrpc.Gen.Consts
import Jrpc.Gen.Funcs
import Jrpc.Model.Dispatch
/-! # Tie obligations for C17: the reserved-name gate of `Server.assignLocked` in the current source
is the model's, for every name. -/
namespace Jrpc.Tie.C17
open Jrpc.Gen Jrpc.Dispatch Jrpc.GoPrelude

/-- the model's gate as a three-way answer -/
def modelGate (builtin : Bool) (name : Name) : GateOut :=
  if builtin && hasPrefix reservedPrefix name then
    (if name = rpcServerInfo then .serverInfo else .nobody)
  else .assigner

/-- `serverAssign` consults the assigner exactly when the gate says so, answers `rpc.serverInfo`
itself and nothing else under the prefix -/
theorem modelGate_spec {H : Type} (builtin : Bool) (mux : Assigner H) (name : Name) :
    (modelGate builtin name = .assigner →
      serverAssign builtin mux name = (match mux name with | some h => .user h | none => .notFound)) ∧
    (modelGate builtin name = .serverInfo → serverAssign builtin mux name = .builtinInfo) ∧
    (modelGate builtin name = .nobody → serverAssign builtin mux name = .notFound) := by
  unfold modelGate serverAssign
  cases hg : (builtin && hasPrefix reservedPrefix name) with
  | true =>
    by_cases hn : name = rpcServerInfo
    · simp only [hn, if_true]
      refine ⟨fun h => by simp at h, fun _ => by simp, fun h => by simp at h⟩
    · simp only [hn, if_false]
      refine ⟨fun h => by simp at h, fun h => by simp at h, fun _ => by simp⟩
  | false =>
    simp only [Bool.false_eq_true, if_false]
    refine ⟨fun _ => rfl, fun h => by simp at h, fun h => by simp at h⟩

/-- **the gate of the current source** (translated by go2lean together with the helpers it returns
through, whatever the spelling: `a && b`, `!a || !b` with an early return, a switch, a constant for
the prefix) **is the model's gate, for every name** -/
theorem assign_gate_matches (builtin : Bool) (name : Name) :
    Funcs.assignGate builtin name (fun s p => hasPrefix p s) = modelGate builtin name := by
  have hp : (([114, 112, 99, 46] : List UInt8)) = reservedPrefix := rfl
  have hi : (([114, 112, 99, 46, 115, 101, 114, 118, 101, 114, 73, 110, 102, 111] : List UInt8)) = rpcServerInfo := rfl
  unfold Funcs.assignGate modelGate
  simp only [hp, hi]
  have hpi : hasPrefix reservedPrefix rpcServerInfo = true := by decide
  cases builtin
  · simp
  · by_cases h2 : name = rpcServerInfo
    · subst h2; simp [hpi]
    · by_cases h1 : hasPrefix reservedPrefix name = true <;> simp [h1, h2]

theorem server_info_name : Consts.rpcServerInfo_bytes = rpcServerInfo := by decide

end Jrpc.Tie.C17
