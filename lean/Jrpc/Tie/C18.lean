import Jrpc.Gen.Funcs
import Jrpc.Gen.Consts
import Jrpc.Model.Http
/-! # Tie obligations for C18 / C19 / C20 -/
namespace Jrpc.Tie.C18
open Jrpc.Gen Jrpc.GoPrelude Jrpc.Http

/-- `parseConstant` of getter.go recognises exactly `true`, `false`, `null` -/
theorem parse_constant (s : List UInt8) :
    Funcs.parseConstant s =
      (if s = [116, 114, 117, 101] then some .ctrue else if s = [102, 97, 108, 115, 101] then some .cfalse
       else if s = [110, 117, 108, 108] then some .cnull else none) := by
  unfold Funcs.parseConstant
  by_cases a : s = [116, 114, 117, 101]
  · simp [a]
  · by_cases b : s = [102, 97, 108, 115, 101]
    · simp [b]
    · by_cases c : s = [110, 117, 108, 108] <;> simp [a, b, c]

/-- the codes the Getter's status switch and the bridge rely on -/
theorem codes : Consts.MethodNotFound = -32601 ∧ Consts.ParseError = -32700 := by decide

end Jrpc.Tie.C18
