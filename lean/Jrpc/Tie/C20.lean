import Jrpc.Gen.Facts
/-! # Tie obligations for C20: the structure of `server.Loop` in the current source. -/
namespace Jrpc.Tie.C20
open Jrpc.Gen.Facts

/-- the per-connection goroutine: newService, Assigner, (on failure: close the channel), Start, a
watcher calling Stop, WaitStatus, Finish — in this order, each once -/
theorem loop_call_sequence :
    loopCalls = ["newService", "Assigner", "Close", "Start", "Stop", "WaitStatus", "Finish"] := by decide

/-- the wait group is raised before the goroutine is started and waited for before Loop returns -/
theorem loop_waits : loopWg = (true, true) := by decide

/-- what counts as a closed-listener / closed-connection error (mapped to a nil return by Loop and
to a clean `Closed` status by the server): exactly `channel.ErrClosed` and `net.ErrClosed` -
not `io.EOF`, not a truncated stream -/
theorem closing_errors : isErrClosingSentinels = ["ErrClosed", "net.ErrClosed"] := by decide

end Jrpc.Tie.C20
