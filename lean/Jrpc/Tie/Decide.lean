import Jrpc.Gen.Funcs
import Jrpc.Model.Wire
import Jrpc.Model.Errors
import Jrpc.Model.Client
import Jrpc.Tie.C02
/-! # Tie obligations for two decision procedures translated as a whole

* `Client.deliverLocked` (C04 / C05): which request, if any, an inbound member completes.
* the loop body of `tasks.responses` (C01 / C02 / C14): which reply, if any, a task produces.
Both are regenerated from the current source into `Gen.Funcs` and proved equal, for all inputs,
to flat specifications and to the corresponding pieces of the models. -/
namespace Jrpc.Tie.Decide
open Jrpc.Gen Jrpc.GoPrelude Jrpc.Wire

/-! ### Client.deliverLocked -/

/-- **`deliverLocked` of the current source**: a request or notification goes to the callback path;
otherwise the member completes the request registered under its *normalised* id - which is removed
from the pending set before its slot is written - and is discarded when there is none -/
theorem deliver_matches (isReq invalid : Bool) (rawID : List UInt8) (has : List UInt8 → Bool) :
    Funcs.deliverAct isReq rawID invalid has =
      (if isReq then .callback
       else if has (Wire.fixID rawID) then .complete (Wire.fixID rawID) true invalid
       else .discard) := by
  unfold Funcs.deliverAct
  rw [Jrpc.Tie.C02.fixID_matches]
  cases isReq <;> cases invalid <;> cases h : has (Wire.fixID rawID) <;> simp [h]

/-- a member completes a request iff it is a reply whose normalised id is pending; then it is that
entry, and the entry has been deleted -/
theorem deliver_completes_iff (isReq invalid : Bool) (rawID k : List UInt8) (d e : Bool) (has : List UInt8 → Bool) :
    Funcs.deliverAct isReq rawID invalid has = .complete k d e ↔
      (isReq = false ∧ has (Wire.fixID rawID) = true ∧ k = Wire.fixID rawID ∧ d = true ∧ e = invalid) := by
  rw [deliver_matches]
  cases isReq <;> cases h : has (Wire.fixID rawID) <;> simp [eq_comm]

/-- the model's delivery step is this decision: with the pending set as the lookup, the model's
`deliver` writes a slot exactly when the source completes a request, and removes the entry -/
theorem model_deliver_agrees (s : Jrpc.Client.St) (id payload : Nat) :
    (Jrpc.Client.step s (.deliver id payload)).slots ≠ s.slots ↔ id ∈ s.pending := by
  simp only [Jrpc.Client.step]
  by_cases h : id ∈ s.pending <;> simp [h]

/-! ### tasks.responses -/

/-- **the loop body of `tasks.responses` of the current source**, flat: an id-less task is answered
only for −32700 / −32600 (with id `null`); the payload is the value, the `*Error` (without data
that cannot be encoded), or a new error object whose code is the error's code, −32603 if it has none -/
theorem response_matches (idNil mNil errNil isJ dataValid : Bool) (id : List UInt8) (dataLen errCode : Int) :
    Funcs.responseFor idNil id mNil errNil isJ dataLen dataValid errCode =
      (if idNil && (errCode != Consts.ParseError && errCode != Consts.InvalidRequest) then none
       else some ⟨if idNil then Wire.nullText else id, mNil,
          if errNil then .result
          else if isJ then (if dataLen != 0 && !dataValid then .stripped else .asIs)
          else .coded (if errCode != Consts.NoError then errCode else Consts.InternalError)⟩) := by
  have hn : Wire.nullText = [110, 117, 108, 108] := rfl
  have d1 : Consts.ParseError ≠ Consts.InvalidRequest := by decide
  have d2 : Consts.ParseError ≠ Consts.NoError := by decide
  have d3 : Consts.InvalidRequest ≠ Consts.NoError := by decide
  unfold Funcs.responseFor
  rw [hn]
  cases idNil <;> cases mNil <;> cases errNil <;> cases isJ <;> cases dataValid <;>
    by_cases h1 : errCode = Consts.ParseError <;> by_cases h2 : errCode = Consts.InvalidRequest <;>
    by_cases h3 : errCode = Consts.NoError <;> by_cases h4 : dataLen = 0 <;>
    simp_all [d1, d2, d3, d1.symm, d2.symm, d3.symm]

/-- a reply is produced exactly when the wire model's `respond` produces one (for a single code) -/
theorem response_some_iff_respond (j : Msg) (c : Int) (mNil errNil isJ dataValid : Bool) (dataLen : Int) :
    (Funcs.responseFor (Wire.fixID j.id == []) (Wire.fixID j.id) mNil errNil isJ dataLen dataValid c).isSome =
      (respond j (.fail [c])).isSome := by
  rw [response_matches]
  have h1 : Consts.ParseError = Wire.ParseError := rfl
  have h2 : Consts.InvalidRequest = Wire.InvalidRequest := rfl
  rw [h1, h2]
  unfold respond
  by_cases hid : Wire.fixID j.id = [] <;> by_cases a : c = Wire.ParseError <;> by_cases b : c = Wire.InvalidRequest <;>
    simp [hid, a, b]

/-- and carries `null` or the member's id, as `respond` does -/
theorem response_id_is_respond (j : Msg) (c : Int) (mNil errNil isJ dataValid : Bool) (dataLen : Int) (r : RespOut)
    (h : Funcs.responseFor (Wire.fixID j.id == []) (Wire.fixID j.id) mNil errNil isJ dataLen dataValid c = some r) :
    ∃ e, respond j (.fail [c]) = some e ∧ e.id = r.id := by
  rw [response_matches] at h
  have h1 : Consts.ParseError = Wire.ParseError := rfl
  have h2 : Consts.InvalidRequest = Wire.InvalidRequest := rfl
  rw [h1, h2] at h
  unfold respond
  by_cases hid : Wire.fixID j.id = [] <;> by_cases a : c = Wire.ParseError <;> by_cases b : c = Wire.InvalidRequest <;>
    simp_all <;> (subst h; simp)

/-- the data of an `*Error` is dropped exactly when the model's `sanitizeError` drops it -/
theorem response_strip_is_sanitize (e : ErrVal) (id : List UInt8) (c : Int) :
    (Funcs.responseFor false id false false true (e.data.length : Int) (Jrpc.Json.valid e.data) c =
        some ⟨id, false, .stripped⟩ ↔ sanitizeError e ≠ e ∨ (e.data.length ≠ 0 ∧ Jrpc.Json.valid e.data = false)) ∧
    (Funcs.responseFor false id false false true (e.data.length : Int) (Jrpc.Json.valid e.data) c =
        some ⟨id, false, .asIs⟩ ↔ ¬ (e.data.length ≠ 0 ∧ Jrpc.Json.valid e.data = false)) := by
  rw [response_matches]
  unfold sanitizeError
  by_cases hl : e.data.length = 0 <;> cases hv : Jrpc.Json.valid e.data <;> simp [hl, hv]
  all_goals omega

/-- for an error that is not an `*Error`, the reply's code is the one the error model's `toWire`
gives: `ErrorCode` of the error, −32603 when it has none -/
theorem response_code_is_toWire (e : Jrpc.Errors.Err) (id : List UInt8) (dl : Int) (dv : Bool)
    (hj : ∀ c m d, e ≠ .jerr c m d) :
    Funcs.responseFor false id false false false dl dv (Jrpc.Errors.errorCode (some e)) =
      some ⟨id, false, .coded (Jrpc.Errors.toWire e).code⟩ := by
  rw [response_matches]
  have h1 : Consts.NoError = Jrpc.Errors.NoError := rfl
  have h2 : Consts.InternalError = Jrpc.Errors.InternalError := rfl
  rw [h1, h2]
  cases e with
  | jerr c m d => exact absurd rfl (hj c m d)
  | _ =>
    simp only [Jrpc.Errors.toWire]
    generalize Jrpc.Errors.errorCode _ = c
    by_cases hc : c = Jrpc.Errors.NoError <;> simp [hc]

/-! ### Server.filterBatchLocked -/

/-- **the loop body of `filterBatchLocked` of the current source**: requests and notifications are
kept whatever their id; a reply goes to the callback pending under its *normalised* id, whose
entry is removed first; with no such callback it is dropped on a push-enabled server when it is
reply-shaped, and kept (to be answered as an error) otherwise -/
theorem filter_matches (isReq allowP : Bool) (rawID m r : List UInt8) (e : Option Unit) (has : List UInt8 → Bool) :
    Funcs.filterAct isReq rawID m e r allowP has =
      (if isReq then .keep
       else if has (Wire.fixID rawID) then .deliver (Wire.fixID rawID) true
       else if allowP && m == [] && (e.isSome || r != []) then .drop
       else .keep) := by
  unfold Funcs.filterAct
  rw [Jrpc.Tie.C02.fixID_matches]
  cases isReq <;> cases allowP <;> cases h : has (Wire.fixID rawID) <;> cases e <;> cases m <;> cases r <;>
    simp [h, GoNil.isNil]

/-- a request is never taken for the reply to a callback, even when it carries the id of one -/
theorem request_never_consumed (allowP : Bool) (rawID m r : List UInt8) (e : Option Unit) (has : List UInt8 → Bool) :
    Funcs.filterAct true rawID m e r allowP has = .keep := by
  rw [filter_matches]; rfl

/-- with no callback pending under its id, what happens to a member is the wire model's `keepMember` -/
theorem filter_is_keepMember (cfg : Cfg) (j : Msg) (has : List UInt8 → Bool) (hno : has (Wire.fixID j.id) = false) :
    Funcs.filterAct j.isRequestOrNotification j.id j.m (if j.hasE then some () else none) j.r cfg.allowPush has =
      (if keepMember cfg j then .keep else .drop) := by
  rw [filter_matches, hno]
  unfold keepMember
  cases h1 : j.isRequestOrNotification <;> cases cfg.allowPush <;> cases j.hasE <;> cases hm : j.m <;> cases hr : j.r <;> simp

/-! ### the translated code run on concrete cases (non-vacuity) -/

/-- a reply with id `1` completes the request pending under `1`; `null` is "no id" and matches nothing;
a server request goes to the callback path; an unknown id is discarded -/
example :
    Funcs.deliverAct false [49] false (fun k => k == [49]) = .complete [49] true false ∧
    Funcs.deliverAct false [49] true (fun k => k == [49]) = .complete [49] true true ∧
    Funcs.deliverAct false [110, 117, 108, 108] false (fun k => k == [49]) = .discard ∧
    Funcs.deliverAct true [49] false (fun k => k == [49]) = .callback ∧
    Funcs.deliverAct false [50] false (fun k => k == [49]) = .discard := by decide

/-- a notification that failed with −32601 gets no reply, one that failed validation gets `null`;
a call whose handler returned a plain error gets −32603... unless the error has a code -/
example :
    Funcs.responseFor true [] false false false 0 true (-32601) = none ∧
    Funcs.responseFor true [] true false true 0 true (-32600) = some ⟨[110, 117, 108, 108], true, .asIs⟩ ∧
    Funcs.responseFor false [55] false false false 0 true (-32099) = some ⟨[55], false, .coded (-32603)⟩ ∧
    Funcs.responseFor false [55] false false false 0 true (-32098) = some ⟨[55], false, .coded (-32098)⟩ ∧
    Funcs.responseFor false [55] false false true 3 false 7 = some ⟨[55], false, .stripped⟩ ∧
    Funcs.responseFor false [55] false true false 0 true (-32099) = some ⟨[55], false, .result⟩ := by decide

/-- a call that happens to carry the id of a pending callback is kept; the reply to it is delivered;
an unmatched reply is dropped with push enabled and kept without -/
example :
    Funcs.filterAct true [49] [109] none [] true (fun k => k == [49]) = .keep ∧
    Funcs.filterAct false [49] [] none [53] true (fun k => k == [49]) = .deliver [49] true ∧
    Funcs.filterAct false [50] [] none [53] true (fun k => k == [49]) = .drop ∧
    Funcs.filterAct false [50] [] none [53] false (fun k => k == [49]) = .keep := by decide

end Jrpc.Tie.Decide
