import Jrpc.Tie.C02
/-! # Tie obligations for the member parser and the encoder, translated as a whole

`go2lean` translates the body of the `for key, val := range obj` loop of `jmessage.parseJSON`
(`Gen.Funcs.parseField`), the statements after it (`parsePost`) and `jmessage.toJSON` from the
*current source*. Go iterates over a map in an unspecified order; the theorem below is for
**every** enumeration of the map's entries: whatever the order, the state the translated code
ends in carries the fields the model's `parseObject` computes, and its deferred error is one of
the codes the model admits (none iff the model admits none). -/
namespace Jrpc.Tie.Parse
open Jrpc.Gen Jrpc.GoPrelude Jrpc.Wire Jrpc.Tie.C02

/-- `json.Unmarshal(val, &s)` for a string field holding `old` -/
def unmStrM (val old : List UInt8) : List UInt8 × Bool :=
  match decodeString val with
  | some s => (if Wire.isNull val then old else s, false)
  | none => (old, true)

/-- `json.Unmarshal(val, &e)` for an `*Error` field: `null` clears it, a well-typed object sets
it, anything else fails *and* leaves it allocated -/
def unmErrM (val : List UInt8) (_old : Option Unit) : Option Unit × Bool :=
  if errorValueOK val then (if Wire.isNull val then none else some (), false) else (some (), true)

def fbM (b : List UInt8) : Int := ((Jrpc.Json.firstByte b).toNat : Int)

/-- the translated loop run over one enumeration of the map's entries, then the post-checks -/
def genParse (kvs : List (List UInt8 × List UInt8)) : Funcs.ParseSt :=
  Funcs.parsePost (kvs.foldl (fun st kv => Funcs.parseField unmStrM unmErrM fbM st kv.1 kv.2) {})

def fieldErrs (l : List (List UInt8 × List UInt8)) : List Code :=
  (scanString (lookupLast kJsonrpc l)).2 ++ (scanID (lookupLast kId l)).2 ++
  (scanString (lookupLast kMethod l)).2 ++ (scanParams (lookupLast kParams l)).2 ++
  (scanError (lookupLast kError l)).2

def unknownKey (kv : List UInt8 × List UInt8) : Bool := !knownKeys.contains kv.1

/-- what the loop has established after the entries `l` -/
structure Inv (l : List (List UInt8 × List UInt8)) (st : Funcs.ParseSt) : Prop where
  v : st.v = (scanString (lookupLast kJsonrpc l)).1
  id : st.id = (scanID (lookupLast kId l)).1
  m : st.m = (scanString (lookupLast kMethod l)).1
  p : st.p = (scanParams (lookupLast kParams l)).1
  e : st.e.isSome = (scanError (lookupLast kError l)).1
  r : st.r = (lookupLast kResult l).getD []
  extra : (st.extra ≠ []) ↔ l.any unknownKey = true
  errNone : st.err = none → fieldErrs l = []
  errSome : ∀ c, st.err = some c → c ∈ fieldErrs l

theorem lookupLast_snoc (k k' v : List UInt8) (l : List (List UInt8 × List UInt8)) :
    lookupLast k (l ++ [(k', v)]) = if k' = k then some v else lookupLast k l := by
  induction l with
  | nil => simp [lookupLast]
  | cons a l ih =>
    obtain ⟨ka, va⟩ := a
    simp only [List.cons_append, lookupLast, ih]
    by_cases h : k' = k
    · simp [h]
    · simp [h]

theorem lookupLast_none_of_not_mem (k : List UInt8) (l : List (List UInt8 × List UInt8))
    (h : k ∉ l.map Prod.fst) : lookupLast k l = none := by
  induction l with
  | nil => rfl
  | cons a l ih =>
    obtain ⟨ka, va⟩ := a
    simp only [List.map_cons, List.mem_cons, not_or] at h
    simp only [lookupLast, ih h.2]
    simp [Ne.symm h.1]

theorem lookupLast_isSome_iff (k : List UInt8) (l : List (List UInt8 × List UInt8)) :
    (lookupLast k l).isSome = true ↔ k ∈ l.map Prod.fst := by
  induction l with
  | nil => simp [lookupLast]
  | cons a l ih =>
    obtain ⟨ka, va⟩ := a
    simp only [lookupLast, List.map_cons, List.mem_cons]
    cases h : lookupLast k l with
    | some x =>
      have : k ∈ l.map Prod.fst := ih.mp (by simp [h])
      simp [this]
    | none =>
      have : k ∉ l.map Prod.fst := fun hm => by simpa [h] using ih.mpr hm
      by_cases hk : ka = k
      · simp [hk]
      · simp [hk, this, Ne.symm hk]

theorem fbM_eq (b : List UInt8) : fbM b = Funcs.firstByte b Jrpc.Json.trimSpace := (firstByte_matches b).symm

theorem Inv_init : Inv [] {} := by
  constructor <;> simp [lookupLast, scanString, scanID, scanParams, scanError, fieldErrs]

theorem idByte (c : UInt8) :
    ((((c.toNat : Int) == 34) || ((c.toNat : Int) == 45)) || ((decide ((c.toNat : Int) ≥ 48)) && (decide ((c.toNat : Int) ≤ 57)))) =
      (c == 34 || c == 45 || (decide (48 ≤ c) && decide (c ≤ 57))) := by
  apply Bool.eq_iff_iff.mpr
  simp only [Bool.or_eq_true, Bool.and_eq_true, beq_iff_eq, decide_eq_true_eq, UInt8.le_iff_toNat_le, ← UInt8.toNat_inj]
  have : (34 : UInt8).toNat = 34 := rfl
  have : (45 : UInt8).toNat = 45 := rfl
  have : (48 : UInt8).toNat = 48 := rfl
  have : (57 : UInt8).toNat = 57 := rfl
  omega

/-- `isValidID` of json.go = the model's -/
theorem isValidID_matches (v : List UInt8) : Funcs.isValidID v = Wire.isValidID v := by
  unfold Funcs.isValidID Wire.isValidID
  rw [isNull_matches]
  cases v with
  | nil => simp [GoLen.len]
  | cons c r =>
    have hlen : ((GoLen.len (c :: r) : Int) == 0) = false := by
      simp [GoLen.len]; omega
    have hl2 : ((c :: r).length = 0) = False := by simp
    simp only [hlen, hl2, GoIdx.idx, List.getD_cons_zero, Bool.false_or, decide_false]
    rw [idByte c]
    have e1 : (c == 34) = decide (c = 34) := by by_cases h : c = 34 <;> simp [h]
    have e2 : (c == 45) = decide (c = 45) := by by_cases h : c = 45 <;> simp [h]
    cases Wire.isNull (c :: r) <;> simp [e1, e2]

/-! ### what the translated loop body does for each key -/

abbrev pf := Funcs.parseField unmStrM unmErrM fbM

/-! comparisons of the member names with the literals of the translated switch (any case order) -/
theorem keq_kJsonrpc_kJsonrpc : (kJsonrpc == ([106, 115, 111, 110, 114, 112, 99] : List UInt8)) = true := by decide
theorem keq_kJsonrpc_kId : (kJsonrpc == ([105, 100] : List UInt8)) = false := by decide
theorem keq_kJsonrpc_kMethod : (kJsonrpc == ([109, 101, 116, 104, 111, 100] : List UInt8)) = false := by decide
theorem keq_kJsonrpc_kParams : (kJsonrpc == ([112, 97, 114, 97, 109, 115] : List UInt8)) = false := by decide
theorem keq_kJsonrpc_kError : (kJsonrpc == ([101, 114, 114, 111, 114] : List UInt8)) = false := by decide
theorem keq_kJsonrpc_kResult : (kJsonrpc == ([114, 101, 115, 117, 108, 116] : List UInt8)) = false := by decide
theorem keq_kId_kJsonrpc : (kId == ([106, 115, 111, 110, 114, 112, 99] : List UInt8)) = false := by decide
theorem keq_kId_kId : (kId == ([105, 100] : List UInt8)) = true := by decide
theorem keq_kId_kMethod : (kId == ([109, 101, 116, 104, 111, 100] : List UInt8)) = false := by decide
theorem keq_kId_kParams : (kId == ([112, 97, 114, 97, 109, 115] : List UInt8)) = false := by decide
theorem keq_kId_kError : (kId == ([101, 114, 114, 111, 114] : List UInt8)) = false := by decide
theorem keq_kId_kResult : (kId == ([114, 101, 115, 117, 108, 116] : List UInt8)) = false := by decide
theorem keq_kMethod_kJsonrpc : (kMethod == ([106, 115, 111, 110, 114, 112, 99] : List UInt8)) = false := by decide
theorem keq_kMethod_kId : (kMethod == ([105, 100] : List UInt8)) = false := by decide
theorem keq_kMethod_kMethod : (kMethod == ([109, 101, 116, 104, 111, 100] : List UInt8)) = true := by decide
theorem keq_kMethod_kParams : (kMethod == ([112, 97, 114, 97, 109, 115] : List UInt8)) = false := by decide
theorem keq_kMethod_kError : (kMethod == ([101, 114, 114, 111, 114] : List UInt8)) = false := by decide
theorem keq_kMethod_kResult : (kMethod == ([114, 101, 115, 117, 108, 116] : List UInt8)) = false := by decide
theorem keq_kParams_kJsonrpc : (kParams == ([106, 115, 111, 110, 114, 112, 99] : List UInt8)) = false := by decide
theorem keq_kParams_kId : (kParams == ([105, 100] : List UInt8)) = false := by decide
theorem keq_kParams_kMethod : (kParams == ([109, 101, 116, 104, 111, 100] : List UInt8)) = false := by decide
theorem keq_kParams_kParams : (kParams == ([112, 97, 114, 97, 109, 115] : List UInt8)) = true := by decide
theorem keq_kParams_kError : (kParams == ([101, 114, 114, 111, 114] : List UInt8)) = false := by decide
theorem keq_kParams_kResult : (kParams == ([114, 101, 115, 117, 108, 116] : List UInt8)) = false := by decide
theorem keq_kError_kJsonrpc : (kError == ([106, 115, 111, 110, 114, 112, 99] : List UInt8)) = false := by decide
theorem keq_kError_kId : (kError == ([105, 100] : List UInt8)) = false := by decide
theorem keq_kError_kMethod : (kError == ([109, 101, 116, 104, 111, 100] : List UInt8)) = false := by decide
theorem keq_kError_kParams : (kError == ([112, 97, 114, 97, 109, 115] : List UInt8)) = false := by decide
theorem keq_kError_kError : (kError == ([101, 114, 114, 111, 114] : List UInt8)) = true := by decide
theorem keq_kError_kResult : (kError == ([114, 101, 115, 117, 108, 116] : List UInt8)) = false := by decide
theorem keq_kResult_kJsonrpc : (kResult == ([106, 115, 111, 110, 114, 112, 99] : List UInt8)) = false := by decide
theorem keq_kResult_kId : (kResult == ([105, 100] : List UInt8)) = false := by decide
theorem keq_kResult_kMethod : (kResult == ([109, 101, 116, 104, 111, 100] : List UInt8)) = false := by decide
theorem keq_kResult_kParams : (kResult == ([112, 97, 114, 97, 109, 115] : List UInt8)) = false := by decide
theorem keq_kResult_kError : (kResult == ([101, 114, 114, 111, 114] : List UInt8)) = false := by decide
theorem keq_kResult_kResult : (kResult == ([114, 101, 115, 117, 108, 116] : List UInt8)) = true := by decide

macro "pf_reduce" : tactic => `(tactic|
  (unfold pf Funcs.parseField
   simp only [keq_kJsonrpc_kJsonrpc, keq_kJsonrpc_kId, keq_kJsonrpc_kMethod, keq_kJsonrpc_kParams, keq_kJsonrpc_kError, keq_kJsonrpc_kResult, keq_kId_kJsonrpc, keq_kId_kId, keq_kId_kMethod, keq_kId_kParams, keq_kId_kError, keq_kId_kResult, keq_kMethod_kJsonrpc, keq_kMethod_kId, keq_kMethod_kMethod, keq_kMethod_kParams, keq_kMethod_kError, keq_kMethod_kResult, keq_kParams_kJsonrpc, keq_kParams_kId, keq_kParams_kMethod, keq_kParams_kParams, keq_kParams_kError, keq_kParams_kResult, keq_kError_kJsonrpc, keq_kError_kId, keq_kError_kMethod, keq_kError_kParams, keq_kError_kError, keq_kError_kResult, keq_kResult_kJsonrpc, keq_kResult_kId, keq_kResult_kMethod, keq_kResult_kParams, keq_kResult_kError, keq_kResult_kResult, Bool.false_eq_true, Bool.or_false, Bool.false_or, Bool.or_true, Bool.true_or, if_true, if_false]))

theorem pf_jsonrpc (st : Funcs.ParseSt) (v : List UInt8) :
    pf st kJsonrpc v =
      (let st' := { st with v := (unmStrM v st.v).1 }
       if (unmStrM v st.v).2 then Funcs.psFail st' Consts.ParseError else st') := by
  pf_reduce
  all_goals (cases h : (unmStrM v st.v).2 <;> simp [h])

theorem pf_id (st : Funcs.ParseSt) (v : List UInt8) :
    pf st kId v = if Funcs.isValidID v then { st with id := v } else Funcs.psFail st Consts.InvalidRequest := by
  pf_reduce
  all_goals (cases h : Funcs.isValidID v <;> simp [h])

theorem pf_method (st : Funcs.ParseSt) (v : List UInt8) :
    pf st kMethod v =
      (let st' := { st with m := (unmStrM v st.m).1 }
       if (unmStrM v st.m).2 then Funcs.psFail st' Consts.ParseError else st') := by
  pf_reduce
  all_goals (cases h : (unmStrM v st.m).2 <;> simp [h])

theorem pf_result (st : Funcs.ParseSt) (v : List UInt8) : pf st kResult v = { st with r := v } := by
  pf_reduce
  all_goals (first | rfl | simp)

theorem pf_error (st : Funcs.ParseSt) (v : List UInt8) :
    pf st kError v =
      (let st' := { st with e := (unmErrM v st.e).1 }
       if (unmErrM v st.e).2 then Funcs.psFail st' Consts.ParseError else st') := by
  pf_reduce
  all_goals (cases h : (unmErrM v st.e).2 <;> simp [h])

theorem fbM_nil : fbM [] = 0 := by decide

/-- (`st.p = []`: each key occurs once in a map, so the field still has its reset value when the
`params` member is met - a refactoring may rely on that) -/
theorem pf_params (st : Funcs.ParseSt) (v : List UInt8) (hp0 : st.p = []) :
    pf st kParams v =
      (let st' := if !Funcs.isNull v then { st with p := v } else st
       if (fbM st'.p != 0 && fbM st'.p != 91) && fbM st'.p != 123 then Funcs.psFail st' Consts.InvalidRequest else st') := by
  pf_reduce
  all_goals (cases h : Funcs.isNull v <;> simp [h, hp0, fbM_nil])

theorem pf_other (st : Funcs.ParseSt) (k v : List UInt8) (hk : knownKeys.contains k = false) :
    pf st k v = { st with extra := st.extra ++ [k] } := by
  simp only [knownKeys, List.contains_cons, List.contains_nil, Bool.or_false, Bool.or_eq_false_iff] at hk
  obtain ⟨h1, h2, h3, h4, h5, h6⟩ := hk
  unfold pf Funcs.parseField
  simp only [kJsonrpc, kId, kMethod, kParams, kError, kResult] at h1 h2 h3 h4 h5 h6
  simp [h1, h2, h3, h4, h5, h6]

theorem keys_ne : kJsonrpc ≠ kId ∧ kJsonrpc ≠ kMethod ∧ kJsonrpc ≠ kParams ∧ kJsonrpc ≠ kError ∧ kJsonrpc ≠ kResult ∧
    kId ≠ kMethod ∧ kId ≠ kParams ∧ kId ≠ kError ∧ kId ≠ kResult ∧ kMethod ≠ kParams ∧ kMethod ≠ kError ∧
    kMethod ≠ kResult ∧ kParams ≠ kError ∧ kParams ≠ kResult ∧ kError ≠ kResult := by decide

theorem known_contains : knownKeys.contains kJsonrpc = true ∧ knownKeys.contains kId = true ∧
    knownKeys.contains kMethod = true ∧ knownKeys.contains kParams = true ∧ knownKeys.contains kError = true ∧
    knownKeys.contains kResult = true := by decide

theorem psFail_fields (st : Funcs.ParseSt) (c : Int) :
    (Funcs.psFail st c).v = st.v ∧ (Funcs.psFail st c).id = st.id ∧ (Funcs.psFail st c).m = st.m ∧
    (Funcs.psFail st c).p = st.p ∧ (Funcs.psFail st c).e = st.e ∧ (Funcs.psFail st c).r = st.r ∧
    (Funcs.psFail st c).extra = st.extra ∧
    (Funcs.psFail st c).err = (if st.err.isNone then some c else st.err) := by
  unfold Funcs.psFail
  cases h : st.err <;> simp [GoNil.isNil, h]

theorem any_snoc_unknown (l : List (List UInt8 × List UInt8)) (k v : List UInt8) :
    (l ++ [(k, v)]).any unknownKey = (l.any unknownKey || !knownKeys.contains k) := by
  simp [unknownKey]

theorem scanString_ok (v x : List UInt8) (hd : decodeString v = some x) : scanString (some v) = (x, []) := by
  simp [scanString, hd]
theorem scanString_bad (v : List UInt8) (hd : decodeString v = none) : scanString (some v) = ([], [ParseError]) := by
  simp [scanString, hd]
theorem scanString_none : scanString none = ([], []) := rfl
theorem scanID_none : scanID none = ([], []) := rfl
theorem scanParams_none : scanParams none = ([], []) := rfl
theorem scanError_none : scanError none = (false, []) := rfl

theorem fb_cond (p : List UInt8) :
    (((fbM p != 0) && (fbM p != 91)) && (fbM p != 123)) =
      (Jrpc.Json.firstByte p != 0 && Jrpc.Json.firstByte p != 91 && Jrpc.Json.firstByte p != 123) := by
  unfold fbM
  generalize Jrpc.Json.firstByte p = c
  apply Bool.eq_iff_iff.mpr
  simp only [Bool.and_eq_true, bne_iff_ne, ne_eq, ← UInt8.toNat_inj]
  have : (0 : UInt8).toNat = 0 := rfl
  have : (91 : UInt8).toNat = 91 := rfl
  have : (123 : UInt8).toNat = 123 := rfl
  omega

theorem decodeString_null (v : List UInt8) (h : Wire.isNull v = true) : decodeString v = some [] := by
  simp [decodeString, h]

set_option linter.unusedSimpArgs false in
theorem Inv_step (l : List (List UInt8 × List UInt8)) (st : Funcs.ParseSt) (k v : List UInt8)
    (h : Inv l st) (hk : k ∉ l.map Prod.fst) : Inv (l ++ [(k, v)]) (pf st k v) := by
  have hnone := lookupLast_none_of_not_mem k l hk
  obtain ⟨n1, n2, n3, n4, n5, n6, n7, n8, n9, n10, n11, n12, n13, n14, n15⟩ := keys_ne
  obtain ⟨c1, c2, c3, c4, c5, c6⟩ := known_contains
  obtain ⟨hv, hid, hm, hp, he, hr, hx, hen, hes⟩ := h
  have m1 : kJsonrpc ∈ knownKeys ∧ kId ∈ knownKeys ∧ kMethod ∈ knownKeys ∧ kParams ∈ knownKeys ∧ kError ∈ knownKeys ∧
      kResult ∈ knownKeys := by decide
  have hP : Consts.ParseError = Wire.ParseError := rfl
  have hI : Consts.InvalidRequest = Wire.InvalidRequest := rfl
  by_cases k1 : k = kJsonrpc
  · subst k1
    rw [pf_jsonrpc]
    have hv0 : st.v = [] := by simpa [hnone, scanString] using hv
    have hfe : fieldErrs (l ++ [(kJsonrpc, v)]) = (scanString (some v)).2 ++ fieldErrs l := by
      simp [fieldErrs, lookupLast_snoc, hnone, scanString, n1, n2, n3, n4, n5]
    cases hd : decodeString v <;> cases hE : st.err <;>
      constructor <;>
        simp [unmStrM, hd, hE, hv0, lookupLast_snoc, psFail_fields, scanString, hfe, n1, n2, n3, n4, n5, hid, hm, hp, he, hr,
          any_snoc_unknown, unknownKey, c1, m1, hx, hP, hI] <;>
        first
        | exact hen hE
        | exact Or.inr (hes _ hE)
        | exact hes _ hE
        | (intro hn; rw [decodeString_null v hn] at hd; simp at hd; first | exact hd | exact hd.symm)
  simp only [fieldErrs] at hen hes
  by_cases k2 : k = kId
  · subst k2
    rw [pf_id, isValidID_matches]
    have hid0 : st.id = [] := by simpa [hnone, scanID] using hid
    cases hd : Wire.isValidID v <;> cases hE : st.err <;>
      constructor <;>
        simp [hd, hE, hid0, lookupLast_snoc, psFail_fields, scanID, fieldErrs, hnone, n1, n1.symm, n6, n7, n8, n9, hv, hm, hp, he, hr,
          unknownKey, m1, hx, hP, hI] <;>
        first
        | (have h1 := hen hE; simp at h1; simp [h1]; done)
        | (have h2 := hes _ hE; simp at h2; simp [h2]; done)
        | (have h2 := hes _ hE; simp [hnone, scanID] at h2; rcases h2 with h | h | h | h <;> simp [h]; done)
  by_cases k3 : k = kMethod
  · subst k3
    rw [pf_method]
    have hm0 : st.m = [] := by simpa [hnone, scanString] using hm
    cases hd : decodeString v <;> cases hE : st.err <;>
      constructor <;>
        simp [unmStrM, hd, hE, hm0, lookupLast_snoc, psFail_fields, scanString_ok, scanString_bad, scanString_none, fieldErrs,
          hnone, n2, n2.symm, n6, n6.symm, n10, n11, n12, hv, hid, hp, he, hr, unknownKey, m1, hx, hP, hI] <;>
        first
        | done
        | (have h1 := hen hE; simp at h1; simp [h1]; done)
        | (have h2 := hes _ hE; simp at h2; simp [h2]; done)
        | (have h2 := hes _ hE; simp [hnone, scanID_none, scanString_none, scanParams_none, scanError_none] at h2; rcases h2 with h | h | h | h <;> simp [h]; done)
        | (intro hn; rw [decodeString_null v hn] at hd; simp at hd; first | exact hd | exact hd.symm)
  by_cases k6 : k = kResult
  · subst k6
    rw [pf_result]
    cases hE : st.err <;>
      constructor <;>
        simp [hE, lookupLast_snoc, fieldErrs, hnone, n5, n5.symm, n9, n9.symm, n12, n12.symm, n14, n14.symm, n15, n15.symm,
          hv, hid, hm, hp, he, unknownKey, m1, hx] <;>
        first
        | done
        | (have h1 := hen hE; simp at h1; simp [h1]; done)
        | (have h2 := hes _ hE; simp at h2; simp [h2]; done)
        | (have h2 := hes _ hE; simp [hnone, scanID_none, scanString_none, scanParams_none, scanError_none] at h2; rcases h2 with h | h | h | h <;> simp [h]; done)
  by_cases k5 : k = kError
  · subst k5
    rw [pf_error]
    have he0 : st.e = none := by
      have : st.e.isSome = false := by simpa [hnone, scanError_none] using he
      cases h : st.e <;> simp_all
    cases hd : errorValueOK v <;> cases hn : Wire.isNull v <;> cases hE : st.err <;>
      constructor <;>
        simp [unmErrM, hd, hn, hE, he0, scanError, lookupLast_snoc, psFail_fields, fieldErrs, hnone, n4, n4.symm, n8, n8.symm, n11, n11.symm,
          n13, n13.symm, n15, hv, hid, hm, hp, hr, unknownKey, m1, hx, hP, hI] <;>
        first
        | done
        | (have h1 := hen hE; simp at h1; simp [h1]; done)
        | (have h2 := hes _ hE; simp at h2; simp [h2]; done)
        | (have h2 := hes _ hE; simp [hnone, scanID_none, scanString_none, scanParams_none, scanError_none] at h2; rcases h2 with h | h | h | h <;> simp [h]; done)
  by_cases k4 : k = kParams
  · subst k4
    have hp0 : st.p = [] := by simpa [hnone, scanParams_none] using hp
    rw [pf_params st v hp0, isNull_matches]
    have hsp : scanParams (some v) =
        ((if Wire.isNull v then [] else v),
         (if (Jrpc.Json.firstByte (if Wire.isNull v then [] else v) != 0 && Jrpc.Json.firstByte (if Wire.isNull v then [] else v) != 91 &&
              Jrpc.Json.firstByte (if Wire.isNull v then [] else v) != 123) then [InvalidRequest] else [])) := by
      simp [scanParams]
    cases hn : Wire.isNull v <;> cases hE : st.err <;>
      simp only [hn, Bool.not_true, Bool.not_false, Bool.false_eq_true, if_true, if_false, fb_cond, hp0] <;>
      split <;>
      constructor <;>
        simp_all [lookupLast_snoc, psFail_fields, fieldErrs, n3, n3.symm, n7, n7.symm, n10, n10.symm,
          n13, n14, unknownKey, m1, hP, hI, scanParams_none] <;>
        first
        | done
        | (rcases hes with h | h | h | h <;> simp [h]; done)
  -- an unknown key
  have hc : knownKeys.contains k = false := by
    simp [knownKeys, k1, k2, k3, k4, k5, k6]
  have hm' : k ∉ knownKeys := by simpa using hc
  rw [pf_other st k v hc]
  cases hE : st.err <;>
    constructor <;>
      simp [hE, lookupLast_snoc, fieldErrs, k1, k2, k3, k4, k5, k6,
        hv, hid, hm, hp, he, hr, unknownKey, hm', hc] <;>
    first
    | done
    | (have h1 := hen hE; simp at h1; simp [h1]; done)
    | (have h2 := hes _ hE; simp at h2; simp [h2]; done)

theorem Inv_fold (rest l : List (List UInt8 × List UInt8)) (st : Funcs.ParseSt) (h : Inv l st)
    (hnd : ((l ++ rest).map Prod.fst).Nodup) :
    Inv (l ++ rest) (rest.foldl (fun st kv => pf st kv.1 kv.2) st) := by
  induction rest generalizing l st with
  | nil => simpa using h
  | cons kv rest ih =>
    obtain ⟨k, v⟩ := kv
    have hk : k ∉ l.map Prod.fst := by
      intro hmem
      rw [List.map_append, List.nodup_append] at hnd
      exact hnd.2.2 k hmem k (by simp) rfl
    have := ih (l ++ [(k, v)]) (pf st k v) (Inv_step l st k v h hk) (by simpa using hnd)
    simpa using this

/-- what the loop and the post-checks leave behind, against the model -/
structure Agrees (st : Funcs.ParseSt) (j : Msg) : Prop where
  v : st.v = j.v
  id : st.id = j.id
  m : st.m = j.m
  p : st.p = j.p
  e : st.e.isSome = j.hasE
  r : st.r = j.r
  extra : (st.extra ≠ []) ↔ j.extra = true
  errNone : st.err = none ↔ j.errs = []
  errSome : ∀ c, st.err = some c → c ∈ j.errs

theorem parseObject_errs (l : List (List UInt8 × List UInt8)) :
    (parseObject l).errs = if fieldErrs l != [] then fieldErrs l else
      postChecks (parseObject l).v (parseObject l).m (parseObject l).hasE (parseObject l).r (parseObject l).extra := by
  simp [parseObject, fieldErrs]

set_option linter.unusedSimpArgs false in
theorem parsePost_agrees (l : List (List UInt8 × List UInt8)) (st : Funcs.ParseSt) (h : Inv l st) :
    Agrees (Funcs.parsePost st) (parseObject l) := by
  obtain ⟨hv, hid, hm, hp, he, hr, hx, hen, hes⟩ := h
  have hI : Consts.InvalidRequest = Wire.InvalidRequest := rfl
  have jv : (parseObject l).v = st.v := by simp [parseObject, hv]
  have jid : (parseObject l).id = st.id := by simp [parseObject, hid]
  have jm : (parseObject l).m = st.m := by simp [parseObject, hm]
  have jp : (parseObject l).p = st.p := by simp [parseObject, hp]
  have je : (parseObject l).hasE = st.e.isSome := by simp [parseObject, he]
  have jr : (parseObject l).r = st.r := by simp [parseObject, hr]
  have jx : (parseObject l).extra = l.any unknownKey := by
    simp only [parseObject]
    congr 1
  have hxb : ((GoLen.len st.extra : Int) != 0) = l.any unknownKey := by
    apply Bool.eq_iff_iff.mpr
    rw [← hx]
    cases st.extra <;> simp [GoLen.len]
    omega
  have hxb' : (decide ((GoLen.len st.extra : Int) > 0)) = l.any unknownKey := by
    rw [← hxb]
    cases st.extra <;> simp [GoLen.len]
    omega
  have hxb'' : ((GoLen.len st.extra : Int) == 0) = !(l.any unknownKey) := by
    rw [← hxb]
    simp [bne]
  have hpost : ∀ s : Funcs.ParseSt, (Funcs.parsePost s).v = s.v ∧ (Funcs.parsePost s).id = s.id ∧ (Funcs.parsePost s).m = s.m ∧
      (Funcs.parsePost s).p = s.p ∧ (Funcs.parsePost s).e = s.e ∧ (Funcs.parsePost s).r = s.r ∧ (Funcs.parsePost s).extra = s.extra := by
    intro s
    unfold Funcs.parsePost
    simp only []
    repeat' split
    all_goals simp [psFail_fields]
  obtain ⟨p1, p2, p3, p4, p5, p6, p7⟩ := hpost st
  have herr : (Funcs.parsePost st).err =
      match st.err with
      | some c => some c
      | none => (postChecks st.v st.m st.e.isSome st.r (l.any unknownKey)).head? := by
    have hver : Wire.version = [50, 46, 48] := rfl
    unfold Funcs.parsePost postChecks
    simp only [version_matches]
    cases hE : st.err <;> cases hev : st.e <;> cases hrr : st.r <;> cases hmm : st.m <;>
      by_cases hvv : st.v = ([50, 46, 48] : List UInt8) <;> cases hany : l.any unknownKey <;>
      simp [psFail_fields, hE, hev, hrr, hmm, hvv, hxb, hany, GoNil.isNil, hI, Funcs.psFail, hver, hxb', hxb'']
  refine ⟨by rw [p1, jv], by rw [p2, jid], by rw [p3, jm], by rw [p4, jp], by rw [p5, je], by rw [p6, jr], ?_, ?_, ?_⟩
  · rw [p7, jx]; exact hx
  · rw [herr, parseObject_errs, jv, jm, je, jr, jx]
    cases hE : st.err with
    | some c =>
      have := hes c hE
      have hne : fieldErrs l ≠ [] := fun h0 => by simp [h0] at this
      simp [hne]
    | none =>
      simp [hen hE]
  · intro c hc
    rw [herr] at hc
    rw [parseObject_errs, jv, jm, je, jr, jx]
    cases hE : st.err with
    | some c' =>
      rw [hE] at hc
      have hcc : c' = c := by simpa using hc
      subst hcc
      have := hes c' hE
      have hne : fieldErrs l ≠ [] := fun h0 => by simp [h0] at this
      simpa [hne] using this
    | none =>
      rw [hE] at hc
      simp only [hen hE, bne_self_eq_false, Bool.false_eq_true, if_false]
      exact List.mem_of_mem_head? hc

theorem parseObject_congr (f g : List (List UInt8 × List UInt8))
    (h : ∀ k, lookupLast k f = lookupLast k g) : parseObject f = parseObject g := by
  have hx : (f.any fun (k, _) => !knownKeys.contains k) = (g.any fun (k, _) => !knownKeys.contains k) := by
    apply Bool.eq_iff_iff.mpr
    simp only [List.any_eq_true, Prod.exists]
    constructor
    · rintro ⟨k, v, hm, hk⟩
      have : k ∈ g.map Prod.fst := (lookupLast_isSome_iff k g).mp (by
        rw [← h k]; exact (lookupLast_isSome_iff k f).mpr (List.mem_map.mpr ⟨(k, v), hm, rfl⟩))
      obtain ⟨⟨k', v'⟩, hm', hk'⟩ := List.mem_map.mp this
      simp only at hk'; subst hk'
      exact ⟨k', v', hm', hk⟩
    · rintro ⟨k, v, hm, hk⟩
      have : k ∈ f.map Prod.fst := (lookupLast_isSome_iff k f).mp (by
        rw [h k]; exact (lookupLast_isSome_iff k g).mpr (List.mem_map.mpr ⟨(k, v), hm, rfl⟩))
      obtain ⟨⟨k', v'⟩, hm', hk'⟩ := List.mem_map.mp this
      simp only at hk'; subst hk'
      exact ⟨k', v', hm', hk⟩
  unfold parseObject
  simp only [h, hx]

/-- **`jmessage.parseJSON` of the current source, for every map iteration order.** `fields` are the
members of the JSON object as written (duplicates kept); `kvs` is *any* enumeration of the Go map
`json.Unmarshal` builds from them (distinct keys, each with the value of its last occurrence). Running
the translated loop body over `kvs` and then the translated post-checks yields the model's
message: same version, id, method, params, error-presence, result, unknown-key flag; no deferred
error iff the model admits none; and a deferred error's code is one the model admits. -/
theorem parseJSON_every_order (fields kvs : List (List UInt8 × List UInt8))
    (hnd : (kvs.map Prod.fst).Nodup) (hmap : ∀ k, lookupLast k kvs = lookupLast k fields) :
    Agrees (genParse kvs) (parseObject fields) := by
  rw [← parseObject_congr kvs fields hmap]
  have := Inv_fold kvs [] {} Inv_init (by simpa using hnd)
  exact parsePost_agrees kvs _ (by simpa using this)

/-- the loop starts from a reset message -/
theorem parseJSON_resets : Funcs.parseJSONResets = true := by decide

/-- non-vacuity: a request with id, params and an unknown key, enumerated in two different orders -/
example :
    let a : List (List UInt8 × List UInt8) := [(kJsonrpc, [34, 50, 46, 48, 34]), (kId, [55]), (kMethod, [34, 120, 34]), ([122], [49])]
    (genParse a).err = some (-32600) ∧ (genParse a.reverse).err = some (-32600) ∧ (genParse a).m = [120] ∧
      (parseObject a).errs = [-32600] := by decide

/-- non-vacuity: two field errors; which one is kept depends on the order, both are admitted by the model -/
example :
    let a : List (List UInt8 × List UInt8) := [(kJsonrpc, [49]), (kId, [116, 114, 117, 101])]
    (genParse a).err = some (-32700) ∧ (genParse a.reverse).err = some (-32600) ∧
      (parseObject a).errs = [-32700, -32600] := by decide

/-! ### the encoder -/

/-- `jmessage.toJSON` of the current source, as a whole, is the model's encoder: for every message,
with `json.Marshal` of the method name = `quote` and the error object already marshalled -/
theorem toJSON_matches (j : OutMsg) :
    Funcs.toJSON j.id j.m j.p j.r j.e (fun s => some (Jrpc.Json.quote s)) (fun e => e) = some (Wire.toJSON j) := by
  have l1 : prefixLit = [123, 34, 106, 115, 111, 110, 114, 112, 99, 34, 58, 34, 50, 46, 48, 34] := by decide
  have l2 : idLit = [44, 34, 105, 100, 34, 58] := by decide
  have l3 : methodLit = [44, 34, 109, 101, 116, 104, 111, 100, 34, 58] := by decide
  have l4 : paramsLit = [44, 34, 112, 97, 114, 97, 109, 115, 34, 58] := by decide
  have l5 : resultLit = [44, 34, 114, 101, 115, 117, 108, 116, 34, 58] := by decide
  have l6 : errorLit = [44, 34, 101, 114, 114, 111, 114, 34, 58] := by decide
  have hlen : ∀ x : List UInt8, ((GoLen.len x : Int) != 0) = !x.isEmpty := by
    intro x; cases x <;> simp [GoLen.len]; omega
  unfold Funcs.toJSON Wire.toJSON
  rw [l1, l2, l3, l4, l5, l6]
  simp only [hlen]
  obtain ⟨id, m, p, r, e, b⟩ := j
  cases id <;> cases m <;> cases p <;> cases r <;> cases e <;> simp [GoNil.isNil]

/-- an encoder failure can only come from `json.Marshal` of the error value -/
theorem toJSON_fails_only_on_error {E : Type} (id m p r : List UInt8) (e : Option E) (me : Option E → Option (List UInt8))
    (h : Funcs.toJSON id m p r e (fun s => some (Jrpc.Json.quote s)) me = none) : me e = none ∧ e.isSome = true := by
  unfold Funcs.toJSON at h
  cases he : me e <;> cases e <;> simp_all [GoNil.isNil]
  all_goals (repeat' split at h) <;> simp_all

end Jrpc.Tie.Parse
