import Jrpc.Gen.Funcs
import Jrpc.Model.Http
import Jrpc.Tie.Parse
import Jrpc.Tie.C18
/-! # Tie obligations for the value typing of `jhttp.ParseQuery` (C19)

`go2lean` translates, from the current jhttp/getter.go: `isDecimal` as a whole (its byte loop as
a fold with an early exit), `parseNumber` as a whole, the quote tests of `parseJSONString` and
`parseQuoted64`, and the order of the cascade in `ParseQuery`. They are proved equal to what the
model's `classify` does, for every value. -/
namespace Jrpc.Tie.Query
open Jrpc.Gen Jrpc.GoPrelude Jrpc.Http
open Jrpc.Json (Bytes isDigit)

/-- one round of the loop of `isDecimal`, as the model reads it -/
def stepM (st : Option (Int × Int)) (c : UInt8) : Option (Int × Int) :=
  match st with
  | none => none
  | some (d, t) => if isDigit c then some (d + 1, t) else if c == 46 then some (d, t + 1) else none

theorem fold_none (l : Bytes) : l.foldl stepM none = none := by
  induction l with
  | nil => rfl
  | cons c l ih => simpa [List.foldl, stepM] using ih

theorem fold_some (l : Bytes) (d t : Int) :
    l.foldl stepM (some (d, t)) =
      if l.all (fun c => isDigit c || c == 46) then
        some (d + ((l.filter isDigit).length : Int), t + ((l.filter (· == 46)).length : Int))
      else none := by
  induction l generalizing d t with
  | nil => simp
  | cons c l ih =>
    simp only [List.foldl, stepM]
    by_cases hd : isDigit c = true
    · have hne : (c == 46) = false := by
        simp only [isDigit, Bool.and_eq_true, decide_eq_true_eq, UInt8.le_iff_toNat_le] at hd
        have : (48 : UInt8).toNat = 48 := rfl
        have : (46 : UInt8).toNat = 46 := rfl
        apply Bool.eq_false_iff.mpr
        intro h
        have : c = 46 := by simpa using h
        subst this
        omega
      simp only [hd, if_true, ih, List.all_cons, Bool.true_or, Bool.true_and, List.filter_cons, hne,
        Bool.false_eq_true, if_false, List.length_cons]
      split <;> simp <;> omega
    · simp only [hd, Bool.false_eq_true, if_false, List.all_cons, Bool.false_or, List.filter_cons]
      by_cases h46 : (c == 46) = true
      · simp only [h46, if_true, ih, Bool.true_and, List.length_cons]
        split <;> simp <;> omega
      · simp [h46, fold_none]

theorem digitByte (c : UInt8) :
    ((decide ((c.toNat : Int) ≥ 48)) && (decide ((c.toNat : Int) ≤ 57))) = isDigit c := by
  apply Bool.eq_iff_iff.mpr
  simp only [isDigit, Bool.and_eq_true, decide_eq_true_eq, UInt8.le_iff_toNat_le]
  have : (48 : UInt8).toNat = 48 := rfl
  have : (57 : UInt8).toNat = 57 := rfl
  omega

theorem dotByte (c : UInt8) : (((c.toNat : Int) == 46)) = (c == 46) := by
  apply Bool.eq_iff_iff.mpr
  simp only [beq_iff_eq, ← UInt8.toNat_inj]
  have : (46 : UInt8).toNat = 46 := rfl
  omega

/-- stripping one leading sign, as getter.go writes it, is the model's `signSplit` -/
theorem strip_matches (s : Bytes) :
    (if ((s != ([] : List UInt8)) && ((((GoIdx.idx s 0) == 43) || ((GoIdx.idx s 0) == 45)))) then (s.drop 1) else s) =
      (Jrpc.Framing.signSplit s).2 := by
  cases s with
  | nil => simp [Jrpc.Framing.signSplit]
  | cons c r =>
    have h43 := Jrpc.Tie.C02.byte_eq c 43 (by decide)
    have h45 := Jrpc.Tie.C02.byte_eq c 45 (by decide)
    simp only [GoIdx.idx, List.getD_cons_zero]
    by_cases a : c = 43
    · subst a; simp [Jrpc.Framing.signSplit]
    · by_cases b : c = 45
      · subst b; simp [Jrpc.Framing.signSplit]
      · have e1 : (((c.toNat : Int) == 43)) = false := by
          apply Bool.eq_false_iff.mpr; intro h; exact a (by simpa using h43.mp (by simpa using h))
        have e2 : (((c.toNat : Int) == 45)) = false := by
          apply Bool.eq_false_iff.mpr; intro h; exact b (by simpa using h45.mp (by simpa using h))
        simp only [e1, e2, Bool.or_false, Bool.and_false, Bool.false_eq_true, if_false]
        unfold Jrpc.Framing.signSplit
        split
        · rename_i h; injection h with h1; exact absurd h1 a
        · rename_i h; injection h with h1; exact absurd h1 b
        · rfl

theorem step_matches (st : Option (Int × Int)) (c : UInt8) : Funcs.isDecimalStep st c = stepM st c := by
  cases st with
  | none => rfl
  | some p =>
    obtain ⟨d, t⟩ := p
    simp only [Funcs.isDecimalStep, stepM, digitByte, dotByte]

theorem fold_matches (l : Bytes) (init : Option (Int × Int)) :
    l.foldl Funcs.isDecimalStep init = l.foldl stepM init := by
  induction l generalizing init with
  | nil => rfl
  | cons c l ih => simp only [List.foldl, step_matches, ih]

/-- **`isDecimal` of the current source = the model's**, for every value -/
theorem isDecimal_matches (s : Bytes) : Funcs.isDecimal s = Http.isDecimal s := by
  unfold Funcs.isDecimal Http.isDecimal
  simp only [strip_matches, fold_matches, fold_some]
  generalize (Jrpc.Framing.signSplit s).2 = body
  by_cases hall : body.all (fun c => isDigit c || c == 46) = true
  · simp only [hall, if_true, Bool.true_and]
    apply Bool.eq_iff_iff.mpr
    simp only [Bool.and_eq_true, decide_eq_true_eq]
    omega
  · simp [hall]

/-- **`parseNumber` of the current source** is the two number lines of the model's cascade -/
theorem parseNumber_matches (s : Bytes) (intOK floatOK dec : Bytes → Bool) :
    Funcs.parseNumber s intOK floatOK dec =
      (if intOK s then .int else if dec s && floatOK s then .float else .none) := by
  unfold Funcs.parseNumber
  cases intOK s <;> cases dec s <;> cases floatOK s <;> simp

theorem quoted_general (s : Bytes) (k : Nat) (hk : k < 256) :
    (((decide ((GoLen.len s : Int) ≥ 2)) && ((GoIdx.idx s 0) == (k : Int))) && ((GoIdx.last s) == (k : Int))) =
      (decide (s.length ≥ 2) && s.head? == some k.toUInt8 && s.getLast? == some k.toUInt8) := by
  cases s with
  | nil => simp [GoLen.len]
  | cons c r =>
    obtain ⟨l, hl⟩ : ∃ l, (c :: r).getLast? = some l := ⟨(c :: r).getLast (by simp), by simp [List.getLast?_eq_some_getLast]⟩
    have hc := Jrpc.Tie.C02.byte_eq c k hk
    have hlb := Jrpc.Tie.C02.byte_eq l k hk
    simp only [GoLen.len, GoIdx.idx, GoIdx.last, hl, Option.getD_some, List.getD_cons_zero, List.head?_cons, List.length_cons]
    apply Bool.eq_iff_iff.mpr
    simp only [Bool.and_eq_true, decide_eq_true_eq, hc, hlb, beq_iff_eq, Option.some.injEq]
    constructor <;> rintro ⟨⟨a, b⟩, c⟩ <;> exact ⟨⟨by omega, b⟩, c⟩

theorem half_general (s : Bytes) (k : Nat) (hk : k < 256) :
    ((s != ([] : List UInt8)) && ((((GoIdx.idx s 0) == (k : Int)) || ((GoIdx.last s) == (k : Int))))) =
      (decide (s ≠ []) && (s.head? == some k.toUInt8 || s.getLast? == some k.toUInt8)) := by
  cases s with
  | nil => simp
  | cons c r =>
    obtain ⟨l, hl⟩ : ∃ l, (c :: r).getLast? = some l := ⟨(c :: r).getLast (by simp), by simp [List.getLast?_eq_some_getLast]⟩
    have hc := Jrpc.Tie.C02.byte_eq c k hk
    have hlb := Jrpc.Tie.C02.byte_eq l k hk
    simp only [GoIdx.idx, GoIdx.last, hl, Option.getD_some, List.getD_cons_zero, List.head?_cons]
    apply Bool.eq_iff_iff.mpr
    simp only [Bool.and_eq_true, Bool.or_eq_true, decide_eq_true_eq, hc, hlb, beq_iff_eq, Option.some.injEq, bne_iff_ne]

/-- the quote tests of `parseJSONString` / `parseQuoted64` are the ones in the model's `classify` -/
theorem jsonStringQuoted_matches (s : Bytes) :
    Funcs.jsonStringQuoted s = (decide (s.length ≥ 2) && s.head? == some 34 && s.getLast? == some 34) :=
  quoted_general s 34 (by decide)
theorem jsonStringHalf_matches (s : Bytes) :
    Funcs.jsonStringHalf s = (decide (s ≠ []) && (s.head? == some 34 || s.getLast? == some 34)) :=
  half_general s 34 (by decide)
theorem quoted64Quoted_matches (s : Bytes) :
    Funcs.quoted64Quoted s = (decide (s.length ≥ 2) && s.head? == some 39 && s.getLast? == some 39) :=
  quoted_general s 39 (by decide)
theorem quoted64Half_matches (s : Bytes) :
    Funcs.quoted64Half s = (decide (s ≠ []) && (s.head? == some 39 || s.getLast? == some 39)) :=
  half_general s 39 (by decide)

/-- the cascade of `ParseQuery` consults the parsers in the order of the model's `classify`:
JSON string (refuse / accept), number, constant, base64 bytes (refuse / accept), literal -/
theorem cascade_order :
    Funcs.queryCascade = [("parseJSONString", "err"), ("parseJSONString", "ok"), ("parseNumber", "ok"),
      ("parseConstant", "ok"), ("parseQuoted64", "err"), ("parseQuoted64", "ok"), ("", "literal")] := by decide

/-- the model's cascade, written with the translated tests and the translated `parseNumber`: for
every value the source's decisions select the branch `classify` takes -/
theorem classify_by_source (floatFinite : Bytes → Bool) (s : Bytes) :
    classify floatFinite s =
      (if Funcs.jsonStringQuoted s then
        (if Jrpc.Json.valid s then (match Jrpc.Json.unquote s with | some d => .str d | none => .err) else .err)
       else if Funcs.jsonStringHalf s then .err
       else match Funcs.parseNumber s intOK floatFinite Funcs.isDecimal with
         | .int => .int
         | .float => .float
         | .none =>
           match Funcs.parseConstant s with
           | some .ctrue => .ctrue
           | some .cfalse => .cfalse
           | some .cnull => .cnull
           | none =>
             if Funcs.quoted64Quoted s then (if b64ok (trimEq ((s.drop 1).dropLast)) then .bytes64 else .err)
             else if Funcs.quoted64Half s then .err else .lit) := by
  rw [jsonStringQuoted_matches, jsonStringHalf_matches, quoted64Quoted_matches, quoted64Half_matches, parseNumber_matches,
    Jrpc.Tie.C18.parse_constant]
  have hd : Funcs.isDecimal = Http.isDecimal := funext isDecimal_matches
  rw [hd]
  unfold classify
  simp only []
  by_cases h1 : (decide (s.length ≥ 2) && s.head? == some 34 && s.getLast? == some 34) = true
  · simp only [h1, if_true]
    first | rfl | (cases Jrpc.Json.unquote s <;> rfl)
  · simp only [h1, Bool.false_eq_true, if_false]
    by_cases h2 : (decide (s ≠ []) && (s.head? == some 34 || s.getLast? == some 34)) = true
    · simp only [h2, if_true]
    · simp only [h2, Bool.false_eq_true, if_false]
      cases hi : intOK s
      · cases hf : (Http.isDecimal s && floatFinite s)
        · simp only [Bool.false_eq_true, if_false]
          by_cases c1 : s = [116, 114, 117, 101]
          · simp [c1]
          · by_cases c2 : s = [102, 97, 108, 115, 101]
            · simp [c2]
            · by_cases c3 : s = [110, 117, 108, 108]
              · simp [c3]
              · simp only [c1, c2, c3, if_false]
        · simp only [if_true, Bool.false_eq_true, if_false]
      · simp only [if_true]

/-- non-vacuity: the translated loop accepts `-1.5`, `+7`, refuses `1e3`, `1.2.3`, `-`, `0x10` -/
example : Funcs.isDecimal [45, 49, 46, 53] = true ∧ Funcs.isDecimal [43, 55] = true ∧ Funcs.isDecimal [49, 101, 51] = false ∧
    Funcs.isDecimal [49, 46, 50, 46, 51] = false ∧ Funcs.isDecimal [45] = false ∧ Funcs.isDecimal [48, 120, 49, 48] = false := by decide

end Jrpc.Tie.Query
