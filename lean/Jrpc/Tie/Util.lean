import Jrpc.Gen.Facts
/-! Counting helpers for the structural ties. The inventories are compared by *what is done to a
field, how often, and whether under the owner's mutex* - not by the names of the functions that do
it - so that renaming a function, extracting a helper or moving statements between functions does
not break an obligation, while a new, a missing or an unlocked access does. -/
namespace Jrpc.Tie
open Jrpc.Gen.Facts

def opsOf (field : String) : List Site := writers.filter fun s => s.field == field
/-- number of `what` operations on `field` -/
def cnt (field what : String) : Nat := ((opsOf field).filter fun s => s.what == what).length
def total (field : String) : Nat := (opsOf field).length
/-- the functions that perform `what` on `field` (each once, in source order) -/
def fnsOf (field what : String) : List String := (((opsOf field).filter fun s => s.what == what).map (·.fn)).eraseDups
def allLocked (field : String) : Bool := (opsOf field).all (·.locked)
def noneLocked (field : String) : Bool := (opsOf field).all (!·.locked)

/-- number of `go` statements in a file -/
def goCount (file : String) : Nat := (goStmts.filter (·.file == file)).length
/-- ... that start the given method (`go s.waitCallback(…)`) rather than a function literal -/
def goNamed (what : String) : Nat := (goStmts.filter (·.what == what)).length

/-- channel operations of one kind in a file -/
def chanCount (file what : String) : Nat := (chanSites.filter fun s => s.file == file && s.what == what).length

end Jrpc.Tie
