import Jrpc.Oracle.Util
import Jrpc.Oracle.C14
import Jrpc.Oracle.C17
import Jrpc.Oracle.C12
import Jrpc.Oracle.C02
import Jrpc.Oracle.C13
import Jrpc.Oracle.C03
import Jrpc.Oracle.C06
import Jrpc.Oracle.C09
import Jrpc.Oracle.C04
import Jrpc.Oracle.C15
import Jrpc.Oracle.C18
/-! The model oracle: one line in, one line out. First token selects the sub-command. -/
open Jrpc.Oracle

def dispatch (line : String) : String :=
  match tokens line with
  | "c14" :: r => C14.handle r
  | "c17" :: r => C17.handle r
  | "c17n" :: r => C17.handleNames r
  | "c12" :: r => C12.handle r
  | "c11s" :: r => C12.handleSend r
  | "c02" :: r => C02.handle r
  | "c13p" :: r => C02.handleParse r
  | "c13e" :: r => C13.handle r
  | "c13q" :: r => C13.handleParams r
  | "c13b" :: r => C13.handlePart r
  | "c13x" :: r => C13.handleErrParts r
  | "c03" :: r => C03.handle r
  | "c06" :: r => C06.handleSem r
  | "c07" :: r => C06.handleIds r
  | "c09" :: r => C09.handle r
  | "c04" :: r => C04.handle r
  | "c15k" :: r => C15.handleCheck r
  | "c15w" :: r => C15.handleWrap r
  | "c16p" :: r => C15.handlePositional r
  | "c16a" :: r => C15.handleArgs r
  | "c19q" :: r => C18.handleQuery r
  | "c19c" :: r => C18.handleChan r
  | "c18" :: r => C18.handleBridge r
  | "c20" :: r => C18.handleLoop r
  | _ => "bad-op"

partial def loop (h : IO.FS.Stream) (out : IO.FS.Stream) : IO Unit := do
  let line ← h.getLine
  if line.isEmpty then return ()
  out.putStrLn (dispatch ((line.splitOn "\n").head!))
  loop h out

def main : IO Unit := do
  let out ← IO.getStdout
  loop (← IO.getStdin) out
  out.flush
