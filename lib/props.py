"""Registry of property checks: Lean modules/namespaces holding the proof obligations, the harness
test that runs correspondence + search, and per-property notes for the evidence file."""

COMMON_ASSUME = [
    "encoding/json, bufio, io, strconv, errors, context, reflect, net/http, mime, x/sync/semaphore, mds/queue are modelled by contract, not verified",
]

PROPS = {
    "C14": dict(
        lean_modules=["Jrpc.Props.C14", "Jrpc.Tie.C14"],
        namespaces=["Jrpc.Props.C14", "Jrpc.Tie.C14"],
        harness_test="TestC14",
        level_text="Machine-checked Lean theorems over a model of ErrorCode / Code.Err / the error branch of tasks.responses / the Error JSON object / filterError, for ALL error trees (wrap/join of *Error, ErrCoder, context sentinels, plain) and all codes; the model's constants and small functions are re-derived from /repo on every run (Tie.C14) and its behaviour is compared with the real server+client on generated trees.",
        level_note="Trusted: Lean kernel (axioms propext/Quot.sound/Classical.choice only), go2lean, the correspondence harness; errors.As/Is traversal order and encoding/json transport are modelled, not verified. WithData aliasing (receiver memory untouched) is established by the correspondence run only.",
        min_theorems=10,
        trusted_base=["errors.As / errors.Is pre-order traversal semantics as documented (modelled)",
                      "json transport of the error object by encoding/json (validated by the correspondence run)"],
        assumptions=COMMON_ASSUME + ["error messages are valid UTF-8 (json.Marshal replaces invalid bytes)",
                                     "user-built Error.Data is valid JSON"],
    ),
    "C17": dict(
        lean_modules=["Jrpc.Props.C17", "Jrpc.Tie.C17"],
        namespaces=["Jrpc.Props.C17", "Jrpc.Tie.C17"],
        harness_test="TestC17",
        min_theorems=15,
        level_text="Machine-checked Lean theorems over a model of Map.Assign, ServiceMap.Assign (split at the FIRST dot, arbitrary nesting by composition), Names (bytewise sorted permutation of all composed names) and the reserved-prefix gate of assignLocked, for ALL byte-string method names; the reserved prefix / built-in name come from the current source (Tie.C17; go2lean fails if the gate is no longer `s.builtin && HasPrefix(name, lit)`), and the model is compared with a real Server on an exhaustive name space.",
        level_note="Trusted: Lean kernel, go2lean, harness; Go map lookup and sort.Strings are modelled (list lookup on duplicate-free keys; merge sort on bytewise order). Context population (InboundRequest / ServerFromContext) is checked on the implementation only.",
        trusted_base=["Go map lookup, strings.SplitN, strings.HasPrefix, sort.Strings as documented (modelled)"],
        assumptions=COMMON_ASSUME + ["method names are non-empty (an empty method is not a request: C02)"],
    ),
    "C11": dict(
        lean_modules=["Jrpc.Props.C11", "Jrpc.Tie.C11"],
        namespaces=["Jrpc.Props.C11", "Jrpc.Tie.C11"],
        harness_test="TestC11",
        min_theorems=15,
        level_text="Machine-checked Lean theorems: Split/Line and StrictHeader/Header/LSP round trips for EVERY record list (any bytes, any lengths incl. 0, growing and shrinking: split_roundtrip, hdr_roundtrip via atoi(itoa n)=n and a line-by-line analysis of the header loop), Send refusing the split byte, fragment-independence of the Split accumulation loop, Direct as a FIFO; RawJSON round trip is proved for the empty record and validated by correspondence for containers/strings (raw_roundtrip is partial). Literals / buffer policy are re-derived from /repo (Tie.C11); the model is compared with the real channels under scripted fragmentation (1-byte reads, data+EOF, all cut sets of small streams in thorough).",
        level_note="Trusted: Lean kernel, go2lean, harness; bufio.Reader (ReadSlice/ReadString), io.ReadFull, io.CopyN, json.Decoder deliver by delimiter/count/value regardless of fragmentation (contract, exercised by the chunk-controlled reader). RawJSON container round trip is established by correspondence only.",
        trusted_base=["bufio.Reader / io.ReadFull / io.CopyN / json.Decoder fragmentation-independence contracts"],
        assumptions=COMMON_ASSUME + ["mime types are non-empty, free of newlines and of leading/trailing blanks (GoodMime) or empty", "aliasing of the reused receive buffer is documented behaviour; results are copied immediately"],
        timeout={"quick": 900, "thorough": 3000},
    ),
    "C12": dict(
        lean_modules=["Jrpc.Props.C12", "Jrpc.Tie.C11"],
        namespaces=["Jrpc.Props.C12", "Jrpc.Tie.C11"],
        harness_test="TestC12",
        min_theorems=14,
        level_text="Recv of every framing is a total Lean function of the remaining stream (reference decoder written from the package documentation); theorems: Split soundness (a record is exactly the bytes up to the next delimiter; an unterminated tail is returned whole WITH an error), exhausted streams keep failing for every framing, Content-Length accepted only as in-range decimal (length_in_range, length_decimal), bad/missing length never reaches the body read, up-front allocation bounded by 2 MiB for any declared length, body read exact, Content-Type policy. The decoder is compared with the real channels on adversarial streams (absurd lengths in a memory-limited worker process).",
        level_note="Trusted: Lean kernel, go2lean, harness; memory growth inside bytes.Buffer / json.Decoder is proportional to input by their contracts; strings.TrimSpace / ToLower are modelled on ASCII (no non-ASCII rune lowers into the two field names; Unicode blanks are outside the explored alphabet).",
        trusted_base=["strconv.Atoi, strings.TrimSpace/TrimRight/SplitN/ToLower on ASCII as documented (modelled)"],
        assumptions=COMMON_ASSUME,
        timeout={"quick": 900, "thorough": 3000},
    ),
    "C02": dict(
        lean_modules=["Jrpc.Props.C02", "Jrpc.Tie.C02"],
        namespaces=["Jrpc.Props.C02", "Jrpc.Tie.C02"],
        harness_test="TestC02",
        min_theorems=20,
        level_text="Machine-checked Lean theorems over the wire model (envelope -> member field scan with deferred error -> reader filter -> checkAndAssign -> responses -> reply shape), for EVERY member view (any keys / raw values) and every byte string: undecodable => one {null,-32700}; [] => one -32600; member errors only -32700/-32600; -32601 only for a well-formed request without handler; handler only for valid requests; id echo is the member's string/number id else null; notifications silent; null id == absent; unmatched reply dropped on a push server; array iff inbound array. The predicates/constants are re-derived from /repo (Tie.C02) and the model is compared with a real Server on the field-variant product, batches and junk, with a liveness probe after each record.",
        level_note="Trusted: Lean kernel, go2lean, harness. The byte layer (scanner automaton, element/member splitting, string unquoting) mirrors encoding/json and is validated by the correspondence run, not proved equal to it. Map iteration order is modelled as a set of admissible codes.",
        trusted_base=["encoding/json: validity, RawMessage boundaries, map decoding (last duplicate wins), struct decoding of the Error object (validated by correspondence)"],
        assumptions=COMMON_ASSUME + ["the server has nothing in flight when the record arrives (C07 covers id reservations across requests)", "handler-supplied Error.Data is valid JSON"],
    ),
    "C13": dict(
        lean_modules=["Jrpc.Props.C13", "Jrpc.Tie.C13", "Jrpc.Tie.C02"],
        namespaces=["Jrpc.Props.C13", "Jrpc.Tie.C13"],
        harness_test="TestC13",
        min_theorems=14,
        level_text="Machine-checked Lean theorems over the byte-level model of the hand-written encoder (jmessage.toJSON / jmessages.toJSON) and of json.Marshal's string escaping: every emitted message starts with \"jsonrpc\":\"2.0\" and contains NO control byte for ANY method name (quote_clean, emit_single_line, emit_batch_single_line) given compact pre-encoded parts; batch shape; ParseRequests is total, errs iff the input is not valid JSON (via the scanner automaton), yields one entry per member in order, and flags with the server's codes. The encoder model is compared byte-for-byte with bytes captured from client requests/batches, server results/errors, pushes and callbacks; each message is also checked by an independent strict validator and re-parsed with ParseRequests. emit_parse_roundtrip is established by that correspondence only (partial).",
        level_note="Trusted: Lean kernel, go2lean, harness; json.Marshal of params/result values yields compact valid JSON (contract); the parse-back of emitted messages (id/method/params equal) is checked on the implementation, not proved.",
        trusted_base=["json.Marshal: compact, valid output for values; string escaping as modelled (validated byte-for-byte)"],
        assumptions=COMMON_ASSUME + ["method names are valid UTF-8 and non-empty"],
    ),
}
