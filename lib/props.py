"""Registry of property checks: Lean modules/namespaces holding the proof obligations, the harness
test that runs correspondence + search, and per-property notes for the evidence file."""

COMMON_ASSUME = [
    "encoding/json, bufio, io, strconv, errors, context, reflect, net/http, mime, x/sync/semaphore, mds/queue are modelled by contract, not verified",
]

PROPS = {
    "C14": dict(
        lean_modules=["Jrpc.Props.C14", "Jrpc.Tie.C14"],
        namespaces=["Jrpc.Props.C14", "Jrpc.Tie.C14"],
        harness_test="TestC14",
        level_text="Machine-checked Lean theorems over a model of ErrorCode / Code.Err / the error branch of tasks.responses / the Error JSON object / filterError, for ALL error trees (wrap/join of *Error, ErrCoder, context sentinels, plain) and all codes; the model's constants and small functions are re-derived from /repo on every run (Tie.C14) and its behaviour is compared with the real server+client on generated trees.",
        level_note="Trusted: Lean kernel (axioms propext/Quot.sound/Classical.choice only), go2lean, the correspondence harness; errors.As/Is traversal order and encoding/json transport are modelled, not verified. WithData aliasing (receiver memory untouched) is established by the correspondence run only.",
        min_theorems=10,
        trusted_base=["errors.As / errors.Is pre-order traversal semantics as documented (modelled)",
                      "json transport of the error object by encoding/json (validated by the correspondence run)"],
        assumptions=COMMON_ASSUME + ["error messages are valid UTF-8 (json.Marshal replaces invalid bytes)",
                                     "user-built Error.Data is valid JSON"],
    ),
}
