"""Registry of property checks: Lean modules/namespaces holding the proof obligations, the harness
test that runs correspondence + search, and per-property notes for the evidence file."""

COMMON_ASSUME = [
    "encoding/json, bufio, io, strconv, errors, context, reflect, net/http, mime, x/sync/semaphore, mds/queue are modelled by contract, not verified",
]

PROPS = {
    "C14": dict(
        lean_modules=["Jrpc.Props.C14", "Jrpc.Tie.C14"],
        namespaces=["Jrpc.Props.C14", "Jrpc.Tie.C14"],
        harness_test="TestC14",
        level_text="Machine-checked Lean theorems over a model of ErrorCode / Code.Err / the error branch of tasks.responses / the Error JSON object / filterError, for ALL error trees (wrap/join of *Error, ErrCoder, context sentinels, plain) and all codes; the model's constants and small functions are re-derived from /repo on every run (Tie.C14) and its behaviour is compared with the real server+client on generated trees.",
        level_note="Trusted: Lean kernel (axioms propext/Quot.sound/Classical.choice only), go2lean, the correspondence harness; errors.As/Is traversal order and encoding/json transport are modelled, not verified. WithData aliasing (receiver memory untouched) is established by the correspondence run only.",
        min_theorems=10,
        trusted_base=["errors.As / errors.Is pre-order traversal semantics as documented (modelled)",
                      "json transport of the error object by encoding/json (validated by the correspondence run)"],
        assumptions=COMMON_ASSUME + ["error messages are valid UTF-8 (json.Marshal replaces invalid bytes)",
                                     "user-built Error.Data is valid JSON"],
    ),
    "C17": dict(
        lean_modules=["Jrpc.Props.C17", "Jrpc.Tie.C17"],
        namespaces=["Jrpc.Props.C17", "Jrpc.Tie.C17"],
        harness_test="TestC17",
        min_theorems=15,
        level_text="Machine-checked Lean theorems over a model of Map.Assign, ServiceMap.Assign (split at the FIRST dot, arbitrary nesting by composition), Names (bytewise sorted permutation of all composed names) and the reserved-prefix gate of assignLocked, for ALL byte-string method names; the reserved prefix / built-in name come from the current source (Tie.C17; go2lean fails if the gate is no longer `s.builtin && HasPrefix(name, lit)`), and the model is compared with a real Server on an exhaustive name space.",
        level_note="Trusted: Lean kernel, go2lean, harness; Go map lookup and sort.Strings are modelled (list lookup on duplicate-free keys; merge sort on bytewise order). Context population (InboundRequest / ServerFromContext) is checked on the implementation only.",
        trusted_base=["Go map lookup, strings.SplitN, strings.HasPrefix, sort.Strings as documented (modelled)"],
        assumptions=COMMON_ASSUME + ["method names are non-empty (an empty method is not a request: C02)"],
    ),
}
