package main

// Decision procedures translated as a whole: functions whose effect is a choice between a few
// actions (plus bookkeeping the translation records as flags).
//
//   - Client.deliverLocked (client.go): what is done with one inbound member - handed to the callback
//     path, discarded, or used to complete the pending request registered under its (normalised) id,
//     which is removed from the pending set before its slot is written.
//   - the body of the loop of tasks.responses (server.go): which reply, if any, one task produces.

import (
	"fmt"
	"go/ast"
	"go/parser"
	"go/token"
	"regexp"
	"strings"
)

// onlyLoop checks that a function consists of the declaration of its result list, one range loop and
// the return of that list (log calls aside): nothing before or after the loop can change what the
// translated loop body decides.
func onlyLoop(fd *ast.FuncDecl, who string) {
	for _, st := range fd.Body.List {
		switch v := st.(type) {
		case *ast.RangeStmt:
			continue
		case *ast.DeclStmt:
			if strings.HasSuffix(src(v), " jmessages") {
				continue
			}
		case *ast.AssignStmt:
			if v.Tok == token.DEFINE && len(v.Rhs) == 1 && strings.HasPrefix(src(v.Rhs[0]), "make(jmessages") {
				continue
			}
		case *ast.ReturnStmt:
			if len(v.Results) == 1 {
				if _, ok := v.Results[0].(*ast.Ident); ok {
					continue
				}
			}
		case *ast.ExprStmt:
			if call, ok := v.X.(*ast.CallExpr); ok && strings.HasSuffix(src(call.Fun), ".log") {
				continue
			}
		}
		fail("%s: statement outside the loop: %q", who, src(st))
	}
}

// loopOver finds the loop of a function over a list, in either form - `for _, x := range xs` or
// `for i := range len(xs) { x := xs[i]; ...` - and returns the element variable and the body.
func loopOver(fd *ast.FuncDecl, who string) (elem string, body []ast.Stmt) {
	for _, st := range fd.Body.List {
		rs, ok := st.(*ast.RangeStmt)
		if !ok {
			continue
		}
		if rs.Value != nil {
			return src(rs.Value), rs.Body.List
		}
		if call, ok := rs.X.(*ast.CallExpr); ok && src(call.Fun) == "len" && len(call.Args) == 1 && rs.Key != nil && len(rs.Body.List) > 0 {
			if as, ok := rs.Body.List[0].(*ast.AssignStmt); ok && as.Tok == token.DEFINE && len(as.Lhs) == 1 && len(as.Rhs) == 1 &&
				src(as.Rhs[0]) == src(call.Args[0])+"["+src(rs.Key)+"]" {
				return src(as.Lhs[0]), rs.Body.List[1:]
			}
		}
	}
	fail("%s: loop over the list not found", who)
	return "", nil
}

// switchToIf turns a tagless switch into the equivalent if / else-if chain.
func switchToIf(sw *ast.SwitchStmt) ast.Stmt {
	var def *ast.BlockStmt
	var arms []*ast.CaseClause
	for _, cs := range sw.Body.List {
		cc := cs.(*ast.CaseClause)
		if cc.List == nil {
			def = &ast.BlockStmt{List: cc.Body}
		} else {
			arms = append(arms, cc)
		}
	}
	var out ast.Stmt
	if def != nil {
		out = def
	}
	for i := len(arms) - 1; i >= 0; i-- {
		cond := arms[i].List[0]
		for _, more := range arms[i].List[1:] {
			cond = &ast.BinaryExpr{X: cond, Op: token.LOR, Y: more}
		}
		out = &ast.IfStmt{Cond: cond, Body: &ast.BlockStmt{List: arms[i].Body}, Else: out}
	}
	return out
}

// inlineAliases removes `x := <field path or ErrorCode(..)>` statements at the top level of a block,
// for locals that are never assigned again, and substitutes the definition for every use (on the
// source text, which is parsed again).
func inlineAliases(list []ast.Stmt, who string) []ast.Stmt {
	count := map[string]int{}
	for _, st := range list {
		ast.Inspect(st, func(n ast.Node) bool {
			switch v := n.(type) {
			case *ast.AssignStmt:
				for _, l := range v.Lhs {
					if id, ok := l.(*ast.Ident); ok {
						count[id.Name]++
					}
				}
			case *ast.IncDecStmt:
				if id, ok := v.X.(*ast.Ident); ok {
					count[id.Name] += 2
				}
			}
			return true
		})
	}
	pure := regexp.MustCompile(`^(\w+(\.\w+)+|ErrorCode\(\w+(\.\w+)*\))$`)
	alias := map[string]string{}
	var keep []ast.Stmt
	for _, st := range list {
		if as, ok := st.(*ast.AssignStmt); ok && as.Tok == token.DEFINE && len(as.Lhs) == 1 && len(as.Rhs) == 1 {
			if id, ok := as.Lhs[0].(*ast.Ident); ok && count[id.Name] == 1 && pure.MatchString(src(as.Rhs[0])) {
				alias[id.Name] = src(as.Rhs[0])
				continue
			}
		}
		keep = append(keep, st)
	}
	if len(alias) == 0 {
		return list
	}
	var sb strings.Builder
	sb.WriteString("package p\nfunc _() {\n")
	for _, st := range keep {
		sb.WriteString(src(st))
		sb.WriteString("\n")
	}
	sb.WriteString("}\n")
	text := sb.String()
	for name, def := range alias {
		re := regexp.MustCompile(`(^|[^.\w])` + regexp.QuoteMeta(name) + `\b(\s*:[^=])?`)
		text = re.ReplaceAllStringFunc(text, func(m string) string {
			sub := re.FindStringSubmatch(m)
			if sub[2] != "" { // a composite-literal key of that name
				return m
			}
			return sub[1] + def
		})
	}
	f, err := parser.ParseFile(fset, "", text, 0)
	if err != nil {
		fail("%s: could not inline local aliases: %v", who, err)
	}
	return f.Decls[0].(*ast.FuncDecl).Body.List
}

func emitDeliver(fs *strings.Builder, p *pkg, c *consts, funcs map[string]string) {
	fd, file := findFunc(p, "Client", "deliverLocked")
	if fd == nil {
		fail("Client.deliverLocked not found")
	}
	who := file + ":deliverLocked"
	if fd.Type.Params.NumFields() != 1 {
		fail("%s: expected one parameter", who)
	}
	mv := fd.Type.Params.List[0].Names[0].Name // the message
	// continuation style: the statements after an `if` are translated once per branch, each branch
	// with its own bindings of the locals
	type env struct {
		atoms   map[string]string
		key     string            // Lean expression of the key the pending entry was looked up under
		pv      string            // the local holding the pending entry
		deleted string
		act     string
		vals    map[string]string // local -> "msg" (the member itself) / "errlit" (its validation error as a message)
	}
	clone := func(e env) env {
		a, v := map[string]string{}, map[string]string{}
		for k, x := range e.atoms {
			a[k] = x
		}
		for k, x := range e.vals {
			v[k] = x
		}
		e.atoms, e.vals = a, v
		return e
	}
	e0 := env{atoms: map[string]string{
		mv + ".isRequestOrNotification()": "isReq", mv + ".ID": "rawID",
		mv + ".err != nil": "invalid", mv + ".err == nil": "(!invalid)",
	}, deleted: "false", vals: map[string]string{}}
	msgValue := func(x ast.Expr, e env) string {
		t := src(x)
		if t == mv {
			return "msg"
		}
		if v, ok := e.vals[t]; ok {
			return v
		}
		if strings.HasPrefix(t, "&jmessage{") && strings.Contains(t, "E: "+mv+".err") && strings.Contains(t, "ID: "+mv+".ID") {
			return "errlit"
		}
		return ""
	}
	finish := func(e env) string {
		if e.act == "" {
			return "DeliverAct.discard"
		}
		return e.act
	}
	var walk func(list []ast.Stmt, e env, ind string, onReturn func(x ast.Expr, e env, ind string) string) string
	walk = func(list []ast.Stmt, e env, ind string, onReturn func(x ast.Expr, e env, ind string) string) string {
		if len(list) == 0 {
			if onReturn != nil {
				fail("%s: a helper ends without returning", who)
			}
			return finish(e)
		}
		st, rest := list[0], list[1:]
		t := &tr{atoms: e.atoms, c: c, funcs: funcs, who: who}
		switch v := st.(type) {
		case *ast.ReturnStmt:
			if len(v.Results) == 0 && onReturn == nil {
				return finish(e)
			}
			if len(v.Results) == 1 && onReturn != nil {
				return onReturn(v.Results[0], e, ind)
			}
		case *ast.SwitchStmt:
			if v.Tag == nil && v.Init == nil {
				if conv := switchToIf(v); conv != nil {
					return walk(append([]ast.Stmt{conv}, rest...), e, ind, onReturn)
				}
			}
		case *ast.ExprStmt:
			call, ok := v.X.(*ast.CallExpr)
			if !ok {
				break
			}
			switch {
			case src(call.Fun) == "c.log":
				return walk(rest, e, ind, onReturn)
			case src(call.Fun) == "c.handleRequestLocked" && len(call.Args) == 1 && src(call.Args[0]) == mv:
				ne := clone(e)
				ne.act = "DeliverAct.callback"
				return walk(rest, ne, ind, onReturn)
			case src(call.Fun) == "delete" && len(call.Args) == 2 && src(call.Args[0]) == "c.pending":
				if e.key == "" || t.expr(call.Args[1]) != e.key {
					fail("%s: deletes a pending entry other than the one it looked up", who)
				}
				ne := clone(e)
				ne.deleted = "true"
				return walk(rest, ne, ind, onReturn)
			}
		case *ast.SendStmt:
			if e.pv != "" && src(v.Chan) == e.pv+".ch" {
				ne := clone(e)
				switch msgValue(v.Value, e) {
				case "msg":
					ne.act = "DeliverAct.complete " + e.key + " " + e.deleted + " false"
				case "errlit":
					ne.act = "DeliverAct.complete " + e.key + " " + e.deleted + " true"
				default:
					fail("%s: sends %q to the waiting request", who, src(v.Value))
				}
				return walk(rest, ne, ind, onReturn)
			}
		case *ast.AssignStmt:
			// p := c.helper(id): an unexported method that looks the entry up (and may remove it) is inlined,
			// each of its returns continuing here
			if v.Tok == token.DEFINE && len(v.Lhs) == 1 && len(v.Rhs) == 1 && onReturn == nil {
				if call, ok := v.Rhs[0].(*ast.CallExpr); ok {
					if sel, ok := call.Fun.(*ast.SelectorExpr); ok && src(sel.X) == "c" && !ast.IsExported(sel.Sel.Name) {
						if hd, _ := findFunc(p, "Client", sel.Sel.Name); hd != nil && hd.Body != nil && hd.Type.Params.NumFields() == len(call.Args) {
							he := clone(e)
							k := 0
							for _, f := range hd.Type.Params.List {
								for _, nm := range f.Names {
									he.atoms[nm.Name] = t.expr(call.Args[k])
									k++
								}
							}
							lhs := src(v.Lhs[0])
							return walk(hd.Body.List, he, ind, func(x ast.Expr, re env, ind string) string {
								if re.pv == "" || src(x) != re.pv {
									fail("%s: helper %s returns %q", who, sel.Sel.Name, src(x))
								}
								ne := clone(e)
								ne.pv, ne.key, ne.deleted = lhs, re.key, re.deleted
								ne.atoms[lhs+" == nil"] = re.atoms[re.pv+" == nil"]
								ne.atoms[lhs+" != nil"] = re.atoms[re.pv+" != nil"]
								return walk(rest, ne, ind, nil)
							})
						}
					}
				}
			}
			if len(v.Lhs) == len(v.Rhs) {
				ne := clone(e)
				pre := ""
				okAll := true
				for i := range v.Lhs {
					lhs := src(v.Lhs[i])
					if _, isIdent := v.Lhs[i].(*ast.Ident); !isIdent {
						okAll = false
						break
					}
					if ix, ok := v.Rhs[i].(*ast.IndexExpr); ok && src(ix.X) == "c.pending" { // p := c.pending[id]
						ne.pv, ne.key = lhs, t.expr(ix.Index)
						ne.atoms[lhs+" == nil"] = "(!(pendingHas " + ne.key + "))"
						ne.atoms[lhs+" != nil"] = "(pendingHas " + ne.key + ")"
						continue
					}
					if mvl := msgValue(v.Rhs[i], e); mvl != "" {
						ne.vals[lhs] = mvl
						continue
					}
					if bl, ok := v.Rhs[i].(*ast.BasicLit); ok && bl.Kind == token.STRING {
						continue // a log text
					}
					if v.Tok == token.DEFINE && len(v.Lhs) == 1 {
						pre = "let " + lhs + " := " + t.expr(v.Rhs[i]) + "\n" + ind
						continue
					}
					okAll = false
				}
				if okAll {
					return pre + walk(rest, ne, ind, onReturn)
				}
			}
		case *ast.IfStmt:
			if v.Init == nil {
				cond := t.expr(v.Cond)
				thenPart := walk(append(append([]ast.Stmt{}, v.Body.List...), rest...), clone(e), ind+"  ", onReturn)
				var elsePart string
				switch el := v.Else.(type) {
				case nil:
					elsePart = walk(rest, clone(e), ind+"  ", onReturn)
				case *ast.BlockStmt:
					elsePart = walk(append(append([]ast.Stmt{}, el.List...), rest...), clone(e), ind+"  ", onReturn)
				case *ast.IfStmt:
					elsePart = walk(append([]ast.Stmt{el}, rest...), clone(e), ind+"  ", onReturn)
				}
				return "if " + cond + " then\n" + ind + "  " + thenPart + "\n" + ind + "else\n" + ind + "  " + elsePart
			}
		}
		fail("%s: unsupported statement %q", who, src(st))
		return ""
	}
	body := walk(fd.Body.List, e0, "  ", nil)
	fmt.Fprintf(fs, "/-- %s: `Client.deliverLocked` as a whole: what is done with one inbound member. `pendingHas k` = a request is registered under key `k`; `complete k deleted asError` = the slot of the request under `k` is written (with the member, or with its validation error) after the entry was (`deleted`) removed from the pending set -/\n"+
		"def deliverAct (isReq : Bool) (rawID : List UInt8) (invalid : Bool) (pendingHas : List UInt8 → Bool) : DeliverAct :=\n  %s\n\n", file, body)
}

// emitResponses translates the body of the loop of tasks.responses: the reply one task produces.
// The translation is in continuation style (the statements after an `if` are translated once per
// branch), so locals may be reassigned freely: each branch carries its own bindings. A call of an
// unexported helper `rsp.E = f(task.err)` is inlined, each of its `return`s continuing with the
// rest of the loop body.
func emitResponses(fs *strings.Builder, p *pkg, c *consts, funcs map[string]string) {
	fd, file := findFunc(p, "tasks", "responses")
	if fd == nil {
		fail("tasks.responses not found")
	}
	who := file + ":responses"
	onlyLoop(fd, who)
	tv, loopBody := loopOver(fd, who)
	type env struct {
		atoms   map[string]string // Go source text -> Lean
		errv    string            // Go expression denoting the task's error in this scope
		rv      string            // the reply under construction
		ev      string            // the *Error bound by a type assertion
		evState string            // "asIs" / "stripped"
		id      string            // Lean expression for the reply's id text
		notExec string
		out     string
	}
	clone := func(e env) env {
		m := map[string]string{}
		for k, v := range e.atoms {
			m[k] = v
		}
		e.atoms = m
		return e
	}
	bindErr := func(e *env, name string) { // `name` denotes the task's error
		e.errv = name
		e.atoms[name+" == nil"] = "errNil"
		e.atoms[name+" != nil"] = "(!errNil)"
		e.atoms["ErrorCode("+name+")"] = "errCode"
	}
	e0 := env{atoms: map[string]string{
		tv + ".hreq.id == nil": "idNil", tv + ".hreq.id != nil": "(!idNil)", tv + ".hreq.id": "id",
		tv + ".m == nil": "mNil", tv + ".m != nil": "(!mNil)",
	}, notExec: "false"}
	bindErr(&e0, tv+".err")
	mk := func(e env) *tr { return &tr{atoms: e.atoms, c: c, funcs: funcs, who: who} }
	// the *Error value an expression denotes, in terms of RespErr
	var errValue func(x ast.Expr, e env) (string, bool)
	errValue = func(x ast.Expr, e env) (string, bool) {
		if e.ev != "" && src(x) == e.ev {
			return "RespErr." + e.evState, true
		}
		un, ok := x.(*ast.UnaryExpr)
		if !ok || un.Op != token.AND {
			return "", false
		}
		lit, ok := un.X.(*ast.CompositeLit)
		if !ok || src(lit.Type) != "Error" {
			return "", false
		}
		code, msg, other := "", "", false
		for _, el := range lit.Elts {
			kv, ok := el.(*ast.KeyValueExpr)
			if !ok {
				return "", false
			}
			switch src(kv.Key) {
			case "Code":
				code = src(kv.Value)
			case "Message":
				msg = src(kv.Value)
			default:
				other = true
			}
		}
		if other {
			return "", false
		}
		if e.ev != "" && code == e.ev+".Code" && msg == e.ev+".Message" {
			return "RespErr.stripped", true // the same error without its data
		}
		if msg == e.errv+".Error()" {
			for _, el := range lit.Elts {
				if kv := el.(*ast.KeyValueExpr); src(kv.Key) == "Code" {
					return "(RespErr.coded " + mk(e).expr(kv.Value) + ")", true
				}
			}
		}
		return "", false
	}
	var walk func(list []ast.Stmt, e env, ind string, onReturn func(x ast.Expr, e env, ind string) string) string
	walk = func(list []ast.Stmt, e env, ind string, onReturn func(x ast.Expr, e env, ind string) string) string {
		if len(list) == 0 {
			fail("%s: a path ends without appending the reply (or returning from a helper)", who)
		}
		s0, rest := list[0], list[1:]
		t := mk(e)
		switch v := s0.(type) {
		case *ast.BranchStmt:
			if v.Tok == token.CONTINUE && onReturn == nil {
				return "none"
			}
		case *ast.ReturnStmt:
			if onReturn != nil && len(v.Results) == 1 {
				return onReturn(v.Results[0], e, ind)
			}
		case *ast.ExprStmt:
			if call, ok := v.X.(*ast.CallExpr); ok && strings.HasSuffix(src(call.Fun), ".LogResponse") {
				return walk(rest, e, ind, onReturn) // logging does not change the reply
			}
		case *ast.SwitchStmt:
			if v.Tag == nil && v.Init == nil {
				if conv := switchToIf(v); conv != nil {
					return walk(append([]ast.Stmt{conv}, rest...), e, ind, onReturn)
				}
			}
		case *ast.TypeSwitchStmt:
			// `switch x := err.(type) { case nil: .. case *Error: .. default: .. }`
			if as, ok := v.Assign.(*ast.AssignStmt); ok && v.Init == nil && len(as.Lhs) == 1 && src(as.Rhs[0]) == e.errv+".(type)" {
				bound := src(as.Lhs[0])
				var nilBody, jBody, defBody []ast.Stmt
				okShape := true
				for _, cs := range v.Body.List {
					cc := cs.(*ast.CaseClause)
					switch {
					case cc.List == nil:
						defBody = cc.Body
					case len(cc.List) == 1 && src(cc.List[0]) == "nil":
						nilBody = cc.Body
					case len(cc.List) == 1 && src(cc.List[0]) == "*Error":
						jBody = cc.Body
					default:
						okShape = false
					}
				}
				if okShape && jBody != nil && defBody != nil {
					je := clone(e)
					je.ev, je.evState = bound, "asIs"
					je.atoms["len("+bound+".Data)"] = "dataLen"
					je.atoms["json.Valid("+bound+".Data)"] = "dataValid"
					de := clone(e)
					bindErr(&de, bound)
					out := "if isJ then\n" + ind + "    " + walk(append(append([]ast.Stmt{}, jBody...), rest...), je, ind+"    ", onReturn) + "\n" + ind + "  else\n" + ind + "    " +
						walk(append(append([]ast.Stmt{}, defBody...), rest...), de, ind+"    ", onReturn)
					nilPart := out
					if nilBody != nil {
						nilPart = walk(append(append([]ast.Stmt{}, nilBody...), rest...), clone(e), ind+"  ", onReturn)
					}
					return "if errNil then\n" + ind + "  " + nilPart + "\n" + ind + "else\n" + ind + "  " + out
				}
			}
		case *ast.AssignStmt:
			if len(v.Lhs) == 1 && len(v.Rhs) == 1 {
				lhs, rhs := src(v.Lhs[0]), src(v.Rhs[0])
				_, lhsIsIdent := v.Lhs[0].(*ast.Ident)
				switch {
				case v.Tok == token.DEFINE && strings.HasPrefix(rhs, "&jmessage{"):
					lit := v.Rhs[0].(*ast.UnaryExpr).X.(*ast.CompositeLit)
					idExpr, batchOK := "", false
					for _, el := range lit.Elts {
						kv, ok := el.(*ast.KeyValueExpr)
						if !ok {
							fail("%s: unsupported reply literal %q", who, rhs)
						}
						switch src(kv.Key) {
						case "ID":
							idExpr = src(kv.Value)
						case "batch":
							batchOK = src(kv.Value) == tv+".batch"
						default:
							fail("%s: the reply literal sets %s", who, src(kv.Key))
						}
					}
					if idExpr == "" || !batchOK {
						fail("%s: the reply is not built from the task's id and batch flag: %q", who, rhs)
					}
					ne := clone(e)
					ne.rv = lhs
					ne.id = t.expr(lit.Elts[0].(*ast.KeyValueExpr).Value)
					for _, el := range lit.Elts {
						if kv := el.(*ast.KeyValueExpr); src(kv.Key) == "ID" {
							ne.id = t.expr(kv.Value)
						}
					}
					if nilness, ok := e.atoms[idExpr+" == nil"]; ok {
						ne.atoms[lhs+".ID == nil"] = nilness
					} else {
						fail("%s: cannot tell whether the reply's id %q is nil", who, idExpr)
					}
					return walk(rest, ne, ind, onReturn)
				case e.rv != "" && lhs == e.rv+".ID":
					ne := clone(e)
					ne.id = t.expr(v.Rhs[0])
					ne.atoms[lhs+" == nil"] = "false"
					return walk(rest, ne, ind, onReturn)
				case e.rv != "" && lhs == e.rv+".err" && rhs == "errTaskNotExecuted":
					ne := clone(e)
					ne.notExec = "true"
					return walk(rest, ne, ind, onReturn)
				case e.rv != "" && lhs == e.rv+".R" && rhs == tv+".val":
					ne := clone(e)
					ne.out = "RespErr.result"
					return walk(rest, ne, ind, onReturn)
				case e.rv != "" && lhs == e.rv+".E":
					if o, ok := errValue(v.Rhs[0], e); ok {
						ne := clone(e)
						ne.out = o
						return walk(rest, ne, ind, onReturn)
					}
					// rsp.E = helper(task.err)
					if call, ok := v.Rhs[0].(*ast.CallExpr); ok && len(call.Args) == 1 && src(call.Args[0]) == e.errv {
						if id, ok := call.Fun.(*ast.Ident); ok && !ast.IsExported(id.Name) {
							if hd, _ := findFunc(p, "", id.Name); hd != nil && hd.Body != nil && hd.Type.Params.NumFields() == 1 && onReturn == nil {
								he := clone(e)
								bindErr(&he, hd.Type.Params.List[0].Names[0].Name)
								return walk(hd.Body.List, he, ind, func(x ast.Expr, re env, ind string) string {
									o, ok := errValue(x, re)
									if !ok {
										fail("%s: helper %s returns %q", who, id.Name, src(x))
									}
									ne := clone(e)
									ne.out = o
									return walk(rest, ne, ind, nil)
								})
							}
						}
					}
				case lhs == "rsps" && rhs == "append(rsps, "+e.rv+")" && onReturn == nil:
					if e.out == "" {
						fail("%s: a reply is appended without result or error", who)
					}
					return "some ⟨" + e.id + ", " + e.notExec + ", " + e.out + "⟩"
				case e.ev != "" && lhs == e.ev && v.Tok == token.ASSIGN:
					if o, ok := errValue(v.Rhs[0], e); ok && o == "RespErr.stripped" {
						ne := clone(e)
						ne.evState = "stripped"
						return walk(rest, ne, ind, onReturn)
					}
				case lhsIsIdent:
					// a local: bound to the Lean value of its right-hand side in this branch
					ne := clone(e)
					if nilness, ok := e.atoms[rhs+" == nil"]; ok {
						ne.atoms[lhs+" == nil"] = nilness
						ne.atoms[lhs+" != nil"] = "(!" + nilness + ")"
					} else if strings.HasPrefix(rhs, "json.RawMessage(\"") {
						ne.atoms[lhs+" == nil"] = "false"
						ne.atoms[lhs+" != nil"] = "true"
					}
					ne.atoms[lhs] = t.expr(v.Rhs[0])
					return walk(rest, ne, ind, onReturn)
				}
			}
		case *ast.IfStmt:
			prefix := ""
			var cond string
			te := clone(e)
			if as, ok := v.Init.(*ast.AssignStmt); ok && len(as.Lhs) == 2 && len(as.Rhs) == 1 && src(as.Rhs[0]) == e.errv+".(*Error)" && src(v.Cond) == src(as.Lhs[1]) {
				// `e, ok := err.(*Error); ok`: the error is an *Error
				te.ev, te.evState = src(as.Lhs[0]), "asIs"
				cond = "isJ"
				te.atoms["len("+te.ev+".Data)"] = "dataLen"
				te.atoms["json.Valid("+te.ev+".Data)"] = "dataValid"
			} else {
				if v.Init != nil {
					as, ok := v.Init.(*ast.AssignStmt)
					if !ok || as.Tok != token.DEFINE || len(as.Lhs) != 1 || len(as.Rhs) != 1 {
						fail("%s: unsupported init %q", who, src(v.Init))
					}
					te.atoms[src(as.Lhs[0])] = t.expr(as.Rhs[0])
				}
				cond = mk(te).expr(v.Cond)
			}
			thenPart := walk(append(append([]ast.Stmt{}, v.Body.List...), rest...), te, ind+"  ", onReturn)
			var elsePart string
			switch el := v.Else.(type) {
			case nil:
				elsePart = walk(rest, clone(e), ind+"  ", onReturn)
			case *ast.BlockStmt:
				elsePart = walk(append(append([]ast.Stmt{}, el.List...), rest...), clone(e), ind+"  ", onReturn)
			case *ast.IfStmt:
				elsePart = walk(append([]ast.Stmt{el}, rest...), clone(e), ind+"  ", onReturn)
			}
			return prefix + "if " + cond + " then\n" + ind + "  " + thenPart + "\n" + ind + "else\n" + ind + "  " + elsePart
		}
		fail("%s: unsupported statement %q", who, src(s0))
		return ""
	}
	body := walk(loopBody, e0, "  ", nil)
	fmt.Fprintf(fs, "/-- %s: the body of the loop of `tasks.responses` as a whole: the reply one task produces (`none` = no reply). `errCode` is `ErrorCode(task.err)`, `isJ` = the error is an `*Error`, `dataLen` / `dataValid` describe its data -/\n"+
		"def responseFor (idNil : Bool) (id : List UInt8) (mNil errNil isJ : Bool) (dataLen : Int) (dataValid : Bool) (errCode : Int) : Option RespOut :=\n  %s\n\n", file, body)
}


// emitFilter translates the body of the loop of Server.filterBatchLocked: what the reader does with
// one member of an inbound record before it is queued - kept for the dispatcher, handed to the
// pending callback registered under its (normalised) id (which is removed from the table first), or
// dropped.
func emitFilter(fs *strings.Builder, p *pkg, c *consts, funcs map[string]string) {
	fd, file := findFunc(p, "Server", "filterBatchLocked")
	if fd == nil {
		fail("Server.filterBatchLocked not found")
	}
	who := file + ":filterBatchLocked"
	onlyLoop(fd, who)
	mv, loopBody := loopOver(fd, who)
	keepVar := ""
	for _, st := range fd.Body.List {
		if as, ok := st.(*ast.AssignStmt); ok && as.Tok == token.DEFINE && len(as.Lhs) == 1 && strings.HasPrefix(src(as.Rhs[0]), "make(jmessages") {
			keepVar = src(as.Lhs[0])
		}
		if ds, ok := st.(*ast.DeclStmt); ok && strings.HasSuffix(src(ds), " jmessages") {
			keepVar = strings.TrimSuffix(strings.TrimPrefix(src(ds), "var "), " jmessages")
		}
	}
	if keepVar == "" {
		fail("%s: the list of kept members was not found", who)
	}
	type env struct {
		atoms   map[string]string
		key     string // Lean expression of the key the callback was looked up under
		pv      string // local holding the pending callback
		deleted string
		act     string
		mvs     map[string]bool // names that denote the member in this scope
	}
	clone := func(e env) env {
		a := map[string]string{}
		for k, x := range e.atoms {
			a[k] = x
		}
		e.atoms = a
		m := map[string]bool{}
		for k := range e.mvs {
			m[k] = true
		}
		e.mvs = m
		return e
	}
	e0 := env{atoms: map[string]string{
		mv + ".isRequestOrNotification()": "isReq", mv + ".ID": "rawID", "s.allowP": "allowP",
		mv + ".M": "m", mv + ".E": "e", mv + ".R": "r", `""`: "([] : List UInt8)",
	}, deleted: "false", mvs: map[string]bool{mv: true}}
	finish := func(e env) string {
		if e.act == "" {
			return "FilterAct.drop"
		}
		return e.act
	}
	type retFn func(x ast.Expr, e env, ind string) string
	var walk func(list []ast.Stmt, e env, ind string, onReturn retFn) string
	walk = func(list []ast.Stmt, e env, ind string, onReturn retFn) string {
		if len(list) == 0 {
			if onReturn != nil {
				fail("%s: a helper ends without returning", who)
			}
			return finish(e)
		}
		st, rest := list[0], list[1:]
		t := &tr{atoms: e.atoms, c: c, funcs: funcs, who: who}
		switch v := st.(type) {
		case *ast.ReturnStmt:
			if onReturn != nil && len(v.Results) == 1 {
				return onReturn(v.Results[0], e, ind)
			}
		case *ast.BranchStmt:
			if v.Tok == token.CONTINUE && onReturn == nil {
				return finish(e)
			}
		case *ast.SwitchStmt:
			if v.Tag == nil && v.Init == nil {
				if conv := switchToIf(v); conv != nil {
					return walk(append([]ast.Stmt{conv}, rest...), e, ind, onReturn)
				}
			}
		case *ast.ExprStmt:
			call, ok := v.X.(*ast.CallExpr)
			if !ok {
				break
			}
			switch {
			case src(call.Fun) == "s.log":
				return walk(rest, e, ind, onReturn)
			case src(call.Fun) == "delete" && len(call.Args) == 2 && src(call.Args[0]) == "s.call":
				if e.key == "" || t.expr(call.Args[1]) != e.key {
					fail("%s: deletes a callback entry other than the one it looked up", who)
				}
				ne := clone(e)
				ne.deleted = "true"
				return walk(rest, ne, ind, onReturn)
			}
		case *ast.SendStmt:
			if e.pv != "" && src(v.Chan) == e.pv+".ch" && e.mvs[src(v.Value)] {
				ne := clone(e)
				ne.act = "FilterAct.deliver " + e.key + " " + e.deleted
				return walk(rest, ne, ind, onReturn)
			}
		case *ast.AssignStmt:
			if len(v.Lhs) == 1 && len(v.Rhs) == 1 {
				lhs, rhs := src(v.Lhs[0]), src(v.Rhs[0])
				if lhs == keepVar && rhs == "append("+keepVar+", "+mv+")" {
					ne := clone(e)
					ne.act = "FilterAct.keep"
					return walk(rest, ne, ind, onReturn)
				}
				if ix, ok := v.Rhs[0].(*ast.IndexExpr); ok && src(ix.X) == "s.call" && v.Tok == token.DEFINE {
					ne := clone(e)
					ne.pv, ne.key = lhs, t.expr(ix.Index)
					ne.atoms[lhs+" == nil"] = "(!(callHas " + ne.key + "))"
					ne.atoms[lhs+" != nil"] = "(callHas " + ne.key + ")"
					return walk(rest, ne, ind, onReturn)
				}
				if _, isIdent := v.Lhs[0].(*ast.Ident); isIdent && v.Tok == token.DEFINE {
					ne := clone(e)
					ne.atoms["s.call["+lhs+"] != nil"] = "(callHas " + lhs + ")"
					ne.atoms["s.call["+lhs+"] == nil"] = "(!(callHas " + lhs + "))"
					return "let " + lhs + " := " + t.expr(v.Rhs[0]) + "\n" + ind + walk(rest, ne, ind, onReturn)
				}
			}
			if len(v.Lhs) == 2 && len(v.Rhs) == 1 && v.Tok == token.DEFINE { // rsp, ok := s.call[id]
				if ix, ok := v.Rhs[0].(*ast.IndexExpr); ok && src(ix.X) == "s.call" {
					ne := clone(e)
					ne.pv, ne.key = src(v.Lhs[0]), t.expr(ix.Index)
					ne.atoms[src(v.Lhs[1])] = "(callHas " + ne.key + ")"
					ne.atoms[ne.pv+" != nil"] = "(callHas " + ne.key + ")"
					ne.atoms[ne.pv+" == nil"] = "(!(callHas " + ne.key + "))"
					return walk(rest, ne, ind, onReturn)
				}
			}
		case *ast.IfStmt:
			// `if s.helper(id, msg) {A} else {B}`: an unexported boolean method that looks the callback up
			// (and may hand the member over) is inlined; `return true` continues with A, `return false` with B
			if call, ok := v.Cond.(*ast.CallExpr); ok && v.Init == nil && onReturn == nil {
				if sel, ok := call.Fun.(*ast.SelectorExpr); ok && src(sel.X) == "s" && !ast.IsExported(sel.Sel.Name) {
					if hd, _ := findFunc(p, "Server", sel.Sel.Name); hd != nil && hd.Body != nil && hd.Type.Params.NumFields() == len(call.Args) {
						he := clone(e)
						k := 0
						for _, f := range hd.Type.Params.List {
							for _, nm := range f.Names {
								if e.mvs[src(call.Args[k])] {
									he.mvs[nm.Name] = true
								} else if nm.Name != src(call.Args[k]) || e.atoms[nm.Name] != "" {
									he.atoms[nm.Name] = t.expr(call.Args[k])
								}
								k++
							}
						}
						thenList := append(append([]ast.Stmt{}, v.Body.List...), rest...)
						var elseList []ast.Stmt
						switch el := v.Else.(type) {
						case nil:
							elseList = rest
						case *ast.BlockStmt:
							elseList = append(append([]ast.Stmt{}, el.List...), rest...)
						case *ast.IfStmt:
							elseList = append([]ast.Stmt{el}, rest...)
						}
						return walk(hd.Body.List, he, ind, func(x ast.Expr, re env, ind string) string {
							ne := clone(e)
							ne.act, ne.key, ne.deleted = re.act, re.key, re.deleted
							switch src(x) {
							case "true":
								return walk(thenList, ne, ind, nil)
							case "false":
								return walk(elseList, ne, ind, nil)
							}
							fail("%s: helper %s returns %q", who, sel.Sel.Name, src(x))
							return ""
						})
					}
				}
			}
			te := clone(e)
			if v.Init != nil {
				as, ok := v.Init.(*ast.AssignStmt)
				if !ok || as.Tok != token.DEFINE || len(as.Rhs) != 1 {
					fail("%s: unsupported init %q", who, src(v.Init))
				}
				ix, ok := as.Rhs[0].(*ast.IndexExpr)
				if !ok || src(ix.X) != "s.call" {
					fail("%s: unsupported init %q", who, src(v.Init))
				}
				te.pv, te.key = src(as.Lhs[0]), t.expr(ix.Index)
				te.atoms[te.pv+" != nil"] = "(callHas " + te.key + ")"
				te.atoms[te.pv+" == nil"] = "(!(callHas " + te.key + "))"
				if len(as.Lhs) == 2 {
					te.atoms[src(as.Lhs[1])] = "(callHas " + te.key + ")"
				}
			}
			cond := (&tr{atoms: te.atoms, c: c, funcs: funcs, who: who}).expr(v.Cond)
			thenPart := walk(append(append([]ast.Stmt{}, v.Body.List...), rest...), te, ind+"  ", onReturn)
			var elsePart string
			switch el := v.Else.(type) {
			case nil:
				elsePart = walk(rest, clone(e), ind+"  ", onReturn)
			case *ast.BlockStmt:
				elsePart = walk(append(append([]ast.Stmt{}, el.List...), rest...), clone(e), ind+"  ", onReturn)
			case *ast.IfStmt:
				elsePart = walk(append([]ast.Stmt{el}, rest...), clone(e), ind+"  ", onReturn)
			}
			return "if " + cond + " then\n" + ind + "  " + thenPart + "\n" + ind + "else\n" + ind + "  " + elsePart
		}
		fail("%s: unsupported statement %q", who, src(st))
		return ""
	}
	body := walk(loopBody, e0, "  ", nil)
	fmt.Fprintf(fs, "/-- %s: the body of the loop of `Server.filterBatchLocked` as a whole: what the reader does with one member. `callHas k` = a callback is pending under key `k`; `deliver k deleted` = the member is handed to that callback after its entry was (`deleted`) removed -/\n"+
		"def filterAct (isReq : Bool) (rawID m : List UInt8) (e : Option Unit) (r : List UInt8) (allowP : Bool) (callHas : List UInt8 → Bool) : FilterAct :=\n  %s\n\n", file, body)
}
