package main

// jhttp/getter.go: the value typing of ParseQuery, translated from the current source.
//
//   - parseNumber as a whole (`strconv.ParseInt` / `strconv.ParseFloat` succeeding are oracles),
//   - isDecimal as a whole, including its byte loop (a fold over the bytes with an early exit),
//   - the quote tests of parseJSONString and parseQuoted64,
//   - the order of the cascade in ParseQuery's loop body.

import (
	"fmt"
	"go/ast"
	"go/token"
	"strconv"
	"strings"
)

// rewriteErrChecks removes `x, err := f(..)` statements for the callees in oracles and replaces the
// `err == nil` / `err != nil` tests that follow by placeholder identifiers bound (through atoms) to
// the oracle of the callee that produced that `err`. It also records which callee bound each result
// variable.
func rewriteErrChecks(list []ast.Stmt, oracles map[string]string, atoms map[string]string, bound map[string]string, who string) []ast.Stmt {
	cur := ""
	n := 0
	var out []ast.Stmt
	var fixCond func(e ast.Expr) ast.Expr
	fixCond = func(e ast.Expr) ast.Expr {
		switch src(e) {
		case "err == nil":
			if cur == "" {
				fail("%s: `err` tested before it is bound by a modelled call", who)
			}
			n++
			id := fmt.Sprintf("__ok%d", n)
			atoms[id] = cur
			return ast.NewIdent(id)
		case "err != nil":
			if cur == "" {
				fail("%s: `err` tested before it is bound by a modelled call", who)
			}
			n++
			id := fmt.Sprintf("__ok%d", n)
			atoms[id] = "(!" + cur + ")"
			return ast.NewIdent(id)
		}
		return e
	}
	for _, st := range list {
		if as, ok := st.(*ast.AssignStmt); ok && len(as.Lhs) == 2 && len(as.Rhs) == 1 && src(as.Lhs[1]) == "err" {
			if call, isCall := as.Rhs[0].(*ast.CallExpr); isCall {
				if o, known := oracles[src(call.Fun)]; known {
					if len(call.Args) < 1 {
						fail("%s: %s without argument", who, src(call.Fun))
					}
					cur = "(" + o + " " + src(call.Args[0]) + ")"
					bound[src(as.Lhs[0])] = src(call.Fun)
					continue
				}
			}
			fail("%s: unsupported call %q", who, src(st))
		}
		if is, ok := st.(*ast.IfStmt); ok {
			cp := *is
			if as, isAs := is.Init.(*ast.AssignStmt); isAs && len(as.Lhs) == 2 && len(as.Rhs) == 1 && src(as.Lhs[1]) == "err" {
				// `if x, err := f(..); err == nil {` is the assignment followed by the test
				call, isCall := as.Rhs[0].(*ast.CallExpr)
				if !isCall || len(call.Args) < 1 {
					fail("%s: unsupported init %q", who, src(is.Init))
				}
				o, known := oracles[src(call.Fun)]
				if !known {
					fail("%s: unsupported call %q", who, src(is.Init))
				}
				cur = "(" + o + " " + src(call.Args[0]) + ")"
				bound[src(as.Lhs[0])] = src(call.Fun)
				cp.Init = nil
			}
			if cp.Init == nil {
				cp.Cond = fixCond(is.Cond)
			}
			out = append(out, &cp)
			continue
		}
		out = append(out, st)
	}
	return out
}

func emitParseNumber(fs *strings.Builder, p *pkg, c *consts, funcs map[string]string) {
	fd, file := findFunc(p, "", "parseNumber")
	if fd == nil {
		fail("parseNumber not found")
	}
	atoms := map[string]string{"return nil, false": "NumOut.none"}
	bound := map[string]string{}
	list := rewriteErrChecks(fd.Body.List, map[string]string{"strconv.ParseInt": "parseIntOK", "strconv.ParseFloat": "parseFloatOK"}, atoms, bound, file+":parseNumber")
	for v, callee := range bound {
		switch callee {
		case "strconv.ParseInt":
			atoms["return "+v+", true"] = "NumOut.int"
		case "strconv.ParseFloat":
			atoms["return "+v+", true"] = "NumOut.float"
		}
	}
	fn := map[string]string{}
	for k, v := range funcs {
		fn[k] = v
	}
	fn["isDecimal"] = "isDecimal"
	t := &tr{atoms: atoms, c: c, funcs: fn, who: file + ":parseNumber"}
	fmt.Fprintf(fs, "/-- %s: `parseNumber` as a whole; `parseIntOK` / `parseFloatOK` say whether `strconv.ParseInt(s, 10, 64)` / `strconv.ParseFloat(s, 64)` succeed -/\n"+
		"def parseNumber (s : List UInt8) (parseIntOK parseFloatOK isDecimal : List UInt8 → Bool) : NumOut :=\n  %s\n\n", file, t.stmts(list, "  "))
}

// emitByteLoop translates a function of the shape
//
//	[if COND { s = s[k:] }]  x1, .., xn := 0, .., 0
//	for i := 0; i < len(s); i++ { switch { case C1: xj++ ... default: return CONST } }
//	return EXPR
//
// into a fold over the bytes of s whose state is `none` after the early return.
func emitByteLoop(fs *strings.Builder, p *pkg, c *consts, funcs map[string]string, name, lean string) {
	fd, file := findFunc(p, "", name)
	if fd == nil {
		fail("%s not found", name)
	}
	who := file + ":" + name
	if fd.Type.Params.NumFields() != 1 || len(fd.Type.Params.List[0].Names) != 1 {
		fail("%s: expected one parameter", who)
	}
	sv := fd.Type.Params.List[0].Names[0].Name
	t := &tr{atoms: map[string]string{`""`: "([] : List UInt8)"}, c: c, funcs: funcs, who: who}
	var sb strings.Builder
	list := fd.Body.List
	// optional prefix strip
	for len(list) > 0 {
		is, ok := list[0].(*ast.IfStmt)
		if !ok {
			break
		}
		if is.Init != nil || is.Else != nil || len(is.Body.List) != 1 {
			fail("%s: unsupported if %q", who, src(is))
		}
		as, ok := is.Body.List[0].(*ast.AssignStmt)
		if !ok || as.Tok != token.ASSIGN || len(as.Lhs) != 1 || src(as.Lhs[0]) != sv {
			fail("%s: unsupported statement %q", who, src(is.Body.List[0]))
		}
		sl, ok := as.Rhs[0].(*ast.SliceExpr)
		if !ok || src(sl.X) != sv || sl.High != nil || sl.Low == nil {
			fail("%s: unsupported slice %q", who, src(as.Rhs[0]))
		}
		k, ok := evalInt(sl.Low, c)
		if !ok || k < 0 {
			fail("%s: unsupported slice bound %q", who, src(sl.Low))
		}
		fmt.Fprintf(&sb, "let %s := if %s then (%s.drop %d) else %s\n  ", sv, t.expr(is.Cond), sv, k, sv)
		list = list[1:]
	}
	if len(list) != 3 {
		fail("%s: expected counters, loop, return", who)
	}
	def, ok := list[0].(*ast.AssignStmt)
	if !ok || def.Tok != token.DEFINE || len(def.Lhs) != len(def.Rhs) {
		fail("%s: expected `x, y := 0, 0`", who)
	}
	var vars []string
	for i, l := range def.Lhs {
		if n, ok := evalInt(def.Rhs[i], c); !ok || n != 0 {
			fail("%s: counter %s does not start at 0", who, src(l))
		}
		vars = append(vars, src(l))
	}
	// `for i := 0; i < len(s); i++`, `for i := range len(s)` (index) or `for _, c := range []byte(s)` / `range s` is NOT
	// accepted (that iterates over runes)
	var body *ast.BlockStmt
	iv := ""
	switch loop := list[1].(type) {
	case *ast.ForStmt:
		if loop.Init == nil || loop.Cond == nil || loop.Post == nil {
			fail("%s: expected a counted loop", who)
		}
		init, ok := loop.Init.(*ast.AssignStmt)
		if !ok || len(init.Lhs) != 1 || src(init.Rhs[0]) != "0" {
			fail("%s: loop does not start at 0", who)
		}
		iv = src(init.Lhs[0])
		if src(loop.Cond) != iv+" < len("+sv+")" || src(loop.Post) != iv+"++" {
			fail("%s: loop is not `for %s := 0; %s < len(%s); %s++`", who, iv, iv, sv, iv)
		}
		body = loop.Body
	case *ast.RangeStmt:
		if src(loop.X) != "len("+sv+")" || loop.Key == nil || loop.Value != nil || loop.Tok != token.DEFINE {
			fail("%s: expected `for i := range len(%s)`", who, sv)
		}
		iv = src(loop.Key)
		body = loop.Body
	default:
		fail("%s: expected a counted loop", who)
	}
	if len(body.List) != 1 {
		fail("%s: loop body is not a single switch", who)
	}
	sw, ok := body.List[0].(*ast.SwitchStmt)
	if !ok || sw.Tag != nil {
		fail("%s: loop body is not a tagless switch", who)
	}
	tuple := "(" + strings.Join(vars, ", ") + ")"
	batoms := map[string]string{sv + "[" + iv + "]": "(c.toNat : Int)"}
	if sw.Init != nil { // `switch c := s[i]; {`
		as, ok := sw.Init.(*ast.AssignStmt)
		if !ok || as.Tok != token.DEFINE || len(as.Lhs) != 1 || len(as.Rhs) != 1 || src(as.Rhs[0]) != sv+"["+iv+"]" {
			fail("%s: unsupported switch init %q", who, src(sw.Init))
		}
		batoms[src(as.Lhs[0])] = "(c.toNat : Int)"
	}
	bt := &tr{atoms: batoms, c: c, funcs: funcs, who: who}
	action := func(body []ast.Stmt) string {
		if len(body) != 1 {
			fail("%s: unsupported case body", who)
		}
		switch v := body[0].(type) {
		case *ast.IncDecStmt:
			if v.Tok == token.INC {
				var parts []string
				hit := false
				for _, x := range vars {
					if x == src(v.X) {
						parts = append(parts, "("+x+" + 1)")
						hit = true
					} else {
						parts = append(parts, x)
					}
				}
				if hit {
					return "some (" + strings.Join(parts, ", ") + ")"
				}
			}
		case *ast.ReturnStmt:
			if src0(v.Results) == "false" {
				return "none"
			}
		}
		fail("%s: unsupported case body %q", who, src(body[0]))
		return ""
	}
	out := "some " + tuple // a switch without default leaves the state alone
	var arms [][2]string
	for _, cs := range sw.Body.List {
		cc := cs.(*ast.CaseClause)
		if cc.List == nil {
			out = action(cc.Body)
			continue
		}
		var conds []string
		for _, ce := range cc.List {
			conds = append(conds, bt.expr(ce))
		}
		arms = append(arms, [2]string{strings.Join(conds, " || "), action(cc.Body)})
	}
	for i := len(arms) - 1; i >= 0; i-- {
		out = "if " + arms[i][0] + " then " + arms[i][1] + " else " + out
	}
	ret, ok := list[2].(*ast.ReturnStmt)
	if !ok || len(ret.Results) != 1 {
		fail("%s: expected a final return", who)
	}
	zeros := make([]string, len(vars))
	for i := range zeros {
		zeros[i] = "(0 : Int)"
	}
	fmt.Fprintf(fs, "/-- %s: one round of the byte loop of `%s`; the state is `none` after the early `return false` -/\n"+
		"def %sStep (st : Option (%s)) (c : UInt8) : Option (%s) :=\n  match st with\n  | none => none\n  | some %s => %s\n\n",
		file, name, lean, strings.Join(intTypes(len(vars)), " × "), strings.Join(intTypes(len(vars)), " × "), tuple, out)
	fmt.Fprintf(fs, "/-- %s: `%s` as a whole: the byte loop is a fold of `%sStep` -/\n"+
		"def %s (%s : List UInt8) : Bool :=\n  %smatch %s.foldl %sStep (some (%s)) with\n  | none => false\n  | some %s => %s\n\n",
		file, name, lean, lean, sv, sb.String(), sv, lean, strings.Join(zeros, ", "), tuple, t.expr(ret.Results[0]))
}

func intTypes(n int) []string {
	out := make([]string, n)
	for i := range out {
		out[i] = "Int"
	}
	return out
}

// emitQuoteConds extracts the two tests of parseJSONString / parseQuoted64: "is a quoted value" and
// "has a quote at one end only".
func emitQuoteConds(fs *strings.Builder, p *pkg, c *consts, funcs map[string]string, name, lean string) {
	fd, file := findFunc(p, "", name)
	if fd == nil {
		fail("%s not found", name)
	}
	who := file + ":" + name
	if len(fd.Body.List) < 1 {
		fail("%s: empty body", who)
	}
	is, ok := fd.Body.List[0].(*ast.IfStmt)
	if !ok || is.Init != nil {
		fail("%s: does not start with the quote test", who)
	}
	el, ok := is.Else.(*ast.IfStmt)
	if !ok || el.Init != nil || el.Else != nil {
		fail("%s: no `else if` for a quote at one end only", who)
	}
	if n := len(el.Body.List); n != 1 || !strings.Contains(src(el.Body.List[0]), "errors.New(") {
		fail("%s: the one-sided quote is not reported as an error", who)
	}
	sv := fd.Type.Params.List[0].Names[0].Name
	atoms := map[string]string{sv + "[len(" + sv + ")-1]": "(GoIdx.last " + sv + ")", `""`: "([] : List UInt8)"}
	t := &tr{atoms: atoms, c: c, funcs: funcs, who: who}
	fmt.Fprintf(fs, "/-- %s: `%s`: the value is quoted: `%s` -/\ndef %sQuoted (%s : List UInt8) : Bool :=\n  %s\n\n", file, name, src(is.Cond), lean, sv, t.expr(is.Cond))
	fmt.Fprintf(fs, "/-- %s: `%s`: a quote at one end only (an error): `%s` -/\ndef %sHalf (%s : List UInt8) : Bool :=\n  %s\n\n", file, name, src(el.Cond), lean, sv, t.expr(el.Cond))
}

// emitQueryCascade records the order of the cascade that types one query value - the if / else-if
// chain in ParseQuery's loop body, or the sequence of ifs in an unexported helper the loop calls:
// which parser is consulted, and whether the branch is its error or its success.
func emitQueryCascade(fs *strings.Builder, p *pkg) {
	fd, file := findFunc(p, "", "ParseQuery")
	if fd == nil {
		fail("ParseQuery not found")
	}
	var loop *ast.RangeStmt
	for _, st := range fd.Body.List {
		if rs, ok := st.(*ast.RangeStmt); ok && src(rs.X) == "req.Form" {
			loop = rs
		}
	}
	if loop == nil {
		fail("%s:ParseQuery: `range req.Form` not found", file)
	}
	who := file + ":ParseQuery"
	stmts := loop.Body.List
	val := "val"
	for _, st := range stmts {
		if as, ok := st.(*ast.AssignStmt); ok && as.Tok == token.DEFINE && len(as.Lhs) == 1 && len(as.Rhs) == 1 && src(as.Rhs[0]) == "req.Form.Get(key)" {
			val = src(as.Lhs[0])
		}
	}
	stores := func(st ast.Stmt, v string) bool { // the branch hands the parser's value on
		t := src(st)
		return strings.HasPrefix(t, "params[key] = ") || strings.HasPrefix(t, "return ") && strings.HasSuffix(t, ", nil") && !strings.Contains(t, "Errorf") && !strings.Contains(t, "errors.")
	}
	refuses := func(st ast.Stmt) bool {
		t := src(st)
		return strings.HasPrefix(t, "return ") && strings.Contains(t, "fmt.Errorf(")
	}
	hasChain := func(list []ast.Stmt) bool {
		for _, st := range list {
			if is, ok := st.(*ast.IfStmt); ok && is.Init != nil && strings.Contains(src(is.Init), "parseJSONString(") {
				return true
			}
			if as, ok := st.(*ast.AssignStmt); ok && strings.Contains(src(as), "parseJSONString(") {
				return true
			}
		}
		return false
	}
	if !hasChain(stmts) {
		// the loop hands the value to a helper: `x, err := helper(key, req.Form.Get(key))`
		found := false
		ast.Inspect(loop.Body, func(n ast.Node) bool {
			call, ok := n.(*ast.CallExpr)
			if !ok || found {
				return true
			}
			id, ok := call.Fun.(*ast.Ident)
			if !ok || ast.IsExported(id.Name) {
				return true
			}
			hd, _ := findFunc(p, "", id.Name)
			if hd == nil || hd.Body == nil || !hasChain(hd.Body.List) {
				return true
			}
			// the parameter that receives the value
			var names []string
			for _, f := range hd.Type.Params.List {
				for _, nm := range f.Names {
					names = append(names, nm.Name)
				}
			}
			for i, a := range call.Args {
				if i < len(names) && (strings.Contains(src(a), "Form.Get(") || src(a) == "val") {
					val = names[i]
				}
			}
			stmts, found, who = hd.Body.List, true, file+":"+id.Name
			return false
		})
		if !found {
			fail("%s: the typing cascade was not found", who)
		}
	}
	// one pass over the statements, whatever their arrangement (an if / else-if chain with init
	// statements, a sequence of ifs that return, flat guards that `continue`): an assignment or init
	// `x, ok[, err] := parseY(val)` makes parseY the parser being consulted; a test of its `err`
	// refuses the query, a test of its `ok` hands its value on
	var items []string
	cur, okVar := "", ""
	done := false
	bind := func(st ast.Stmt) bool {
		as, ok := st.(*ast.AssignStmt)
		if !ok || len(as.Rhs) != 1 || len(as.Lhs) < 2 {
			return false
		}
		call, ok := as.Rhs[0].(*ast.CallExpr)
		if !ok || len(call.Args) != 1 || src(call.Args[0]) != val {
			return false
		}
		if _, isIdent := call.Fun.(*ast.Ident); !isIdent {
			return false
		}
		cur, okVar = src(call.Fun), src(as.Lhs[1])
		return true
	}
	var visit func(st ast.Stmt)
	visit = func(st ast.Stmt) {
		if done || st == nil {
			return
		}
		switch v := st.(type) {
		case *ast.BlockStmt:
			for _, x := range v.List {
				visit(x)
			}
		case *ast.AssignStmt:
			if bind(v) {
				return
			}
			if src(v) == "params[key] = "+val && cur != "" {
				items = append(items, `("", "literal")`)
				done = true
			}
		case *ast.ReturnStmt:
			if src(v) == "return "+val+", nil" && cur != "" {
				items = append(items, `("", "literal")`)
				done = true
			}
		case *ast.IfStmt:
			if v.Init != nil && !bind(v.Init) {
				if cur != "" {
					fail("%s: unsupported init %q", who, src(v.Init))
				}
				return
			}
			if cur == "" {
				return
			}
			switch src(v.Cond) {
			case "err != nil":
				if n := len(v.Body.List); n != 1 || !refuses(v.Body.List[0]) {
					fail("%s: the error branch of %s does not return the error", who, cur)
				}
				items = append(items, "("+strconv.Quote(cur)+`, "err")`)
			case okVar:
				if n := len(v.Body.List); n < 1 || !stores(v.Body.List[0], "") {
					fail("%s: the success branch of %s does not hand the value on", who, cur)
				}
				items = append(items, "("+strconv.Quote(cur)+`, "ok")`)
			default:
				fail("%s: unsupported condition %q", who, src(v.Cond))
			}
			visit(v.Else)
		}
	}
	for _, st := range stmts {
		visit(st)
	}
	if !done {
		fail("%s: the cascade does not end with the literal value", who)
	}
	fmt.Fprintf(fs, "/-- %s: the cascade that types one query value: parser consulted, branch taken (`err` = the query is refused, `ok` = the parser's value is handed on) -/\ndef queryCascade : List (String × String) := [%s]\n\n", who, strings.Join(items, ", "))
}
