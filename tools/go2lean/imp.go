package main

// Imperative fragments translated as a whole:
//
//   - jmessage.parseJSON (json.go): the body of its `for key, val := range obj` loop becomes the
//     state transformer `parseField`, the statements after the loop become `parsePost`; the state
//     is the record of everything the function assigns (the message's fields, `extra`, `j.err`).
//     The map iteration itself is not translated: Tie.C02 proves the model's member parser equal to
//     the fold of `parseField` over the entries *in every order*.
//   - jmessage.toJSON (json.go): the buffer-building encoder, as a function to `Option Bytes`.
//
// Supported statements: assignments to a state variable, `x = append(x, e)`, `j.fail(code, text)`,
// `j.err = Errorf(code, ..)...`, if / else (with `x := e` init), `if json.Unmarshal(v, &field) != nil`,
// switch on a tag, `sb.WriteString / Write / WriteByte`, `x, err := json.Marshal(e)` followed by
// `if err != nil { return nil, err }`, `return sb.Bytes(), nil`. Anything else fails the extraction.

import (
	"fmt"
	"go/ast"
	"go/token"
	"strings"
)

type imp struct {
	p        *pkg
	t        *tr
	fields   map[string]string // Go lvalue text -> field of the Lean state record
	unm      map[string]string // Go lvalue text -> unmarshal oracle for that target
	failCall string            // e.g. "j.fail"
	errLv    string            // e.g. "j.err"
}

func (m *imp) set(lv, val string) string {
	return "{ st with " + m.fields[lv] + " := " + val + " }"
}

// block translates a statement list into a Lean term for the state after it, in terms of the
// variable `st`, in continuation style: the statements after an `if` / `switch` are translated once
// per branch, so a branch may leave early. `end` yields the term for falling off the end of the
// list, `exit` the term for `continue` / a bare `return` (leave the loop body or the inlined helper).
func (m *imp) block(list []ast.Stmt, ind string) string {
	st := func(string) string { return "st" }
	return m.seq(list, ind, st, st)
}

func (m *imp) seq(list []ast.Stmt, ind string, end, exit func(ind string) string) string {
	if len(list) == 0 {
		return end(ind)
	}
	s, rest := list[0], list[1:]
	next := func(ind string) string { return m.seq(rest, ind, end, exit) }
	switch v := s.(type) {
	case *ast.BranchStmt:
		if v.Tok == token.CONTINUE {
			return exit(ind)
		}
	case *ast.ReturnStmt:
		if len(v.Results) == 0 {
			return exit(ind)
		}
	case *ast.AssignStmt:
		if v.Tok == token.DEFINE && len(v.Lhs) == 1 && len(v.Rhs) == 1 {
			return "let " + src(v.Lhs[0]) + " := " + m.t.expr(v.Rhs[0]) + "\n" + ind + next(ind)
		}
	case *ast.BlockStmt:
		return m.seq(append(append([]ast.Stmt{}, v.List...), rest...), ind, end, exit)
	case *ast.ExprStmt:
		// j.helper(args): an unexported method of the message is inlined; its bare `return` continues here
		if call, ok := v.X.(*ast.CallExpr); ok && src(call.Fun) != m.failCall {
			if sel, ok := call.Fun.(*ast.SelectorExpr); ok && src(sel.X) == "j" && !ast.IsExported(sel.Sel.Name) && m.p != nil {
				if hd, _ := findFunc(m.p, "jmessage", sel.Sel.Name); hd != nil && hd.Body != nil && hd.Type.Params.NumFields() == len(call.Args) {
					saved := map[string]string{}
					k := 0
					for _, f := range hd.Type.Params.List {
						for _, nm := range f.Names {
							if old, had := m.t.atoms[nm.Name]; had {
								saved[nm.Name] = old
							}
							if src(call.Args[k]) != nm.Name {
								m.t.atoms[nm.Name] = m.t.expr(call.Args[k])
							}
							if f2, ok := m.fields[src(call.Args[k])]; ok {
								m.fields[nm.Name] = f2
							}
							k++
						}
					}
					_ = saved
					return m.seq(hd.Body.List, ind, next, next)
				}
			}
		}
	case *ast.IfStmt:
		prefix := ""
		if v.Init != nil {
			as, ok := v.Init.(*ast.AssignStmt)
			if !ok || as.Tok != token.DEFINE || len(as.Lhs) != 1 || len(as.Rhs) != 1 {
				fail("%s: if with init statement %q unsupported", m.t.who, src(v.Init))
			}
			prefix = "let " + src(as.Lhs[0]) + " := " + m.t.expr(as.Rhs[0]) + "\n" + ind
		}
		var cond string
		if val, target, ok := isUnmarshalFailed(v.Cond); ok {
			oracle, known := m.unm[target]
			if !known {
				fail("%s: json.Unmarshal into %q is not modelled", m.t.who, target)
			}
			prefix += "let u := (" + oracle + " " + m.t.expr(val) + " st." + m.fields[target] + ")\n" + ind +
				"let st := " + m.set(target, "u.1") + "\n" + ind
			cond = "u.2"
		} else {
			cond = m.t.expr(v.Cond)
		}
		thenPart := m.seq(append(append([]ast.Stmt{}, v.Body.List...), rest...), ind+"  ", end, exit)
		var elsePart string
		switch e := v.Else.(type) {
		case nil:
			elsePart = m.seq(rest, ind+"  ", end, exit)
		case *ast.BlockStmt:
			elsePart = m.seq(append(append([]ast.Stmt{}, e.List...), rest...), ind+"  ", end, exit)
		case *ast.IfStmt:
			elsePart = m.seq(append([]ast.Stmt{e}, rest...), ind+"  ", end, exit)
		}
		return prefix + "if " + cond + " then\n" + ind + "  " + thenPart + "\n" + ind + "else\n" + ind + "  " + elsePart
	case *ast.SwitchStmt:
		if v.Init != nil || v.Tag == nil {
			fail("%s: switch without tag / with init unsupported here", m.t.who)
		}
		tag := m.t.expr(v.Tag)
		out := ""
		hasDef := false
		type arm struct {
			cond string
			body []ast.Stmt
		}
		var arms []arm
		for _, cs := range v.Body.List {
			cc := cs.(*ast.CaseClause)
			if cc.List == nil {
				out, hasDef = m.seq(append(append([]ast.Stmt{}, cc.Body...), rest...), ind+"  ", end, exit), true
				continue
			}
			var conds []string
			for _, ce := range cc.List {
				conds = append(conds, "("+tag+" == "+m.t.expr(ce)+")")
			}
			arms = append(arms, arm{strings.Join(conds, " || "), cc.Body})
		}
		if !hasDef {
			out = m.seq(rest, ind+"  ", end, exit)
		}
		for i := len(arms) - 1; i >= 0; i-- {
			out = "if " + arms[i].cond + " then\n" + ind + "  " + m.seq(append(append([]ast.Stmt{}, arms[i].body...), rest...), ind+"  ", end, exit) + "\n" + ind + "else\n" + ind + "  " + out
		}
		return out
	}
	// a simple state update
	return "let st := " + m.stmt(s, ind+"  ") + "\n" + ind + next(ind)
}

func isUnmarshalFailed(e ast.Expr) (val ast.Expr, target string, ok bool) {
	be, isBin := e.(*ast.BinaryExpr)
	if !isBin || be.Op != token.NEQ || src(be.Y) != "nil" {
		return nil, "", false
	}
	call, isCall := be.X.(*ast.CallExpr)
	if !isCall || src(call.Fun) != "json.Unmarshal" || len(call.Args) != 2 {
		return nil, "", false
	}
	un, isUn := call.Args[1].(*ast.UnaryExpr)
	if !isUn || un.Op != token.AND {
		return nil, "", false
	}
	return call.Args[0], src(un.X), true
}

func (m *imp) stmt(s ast.Stmt, ind string) string {
	switch v := s.(type) {
	case *ast.AssignStmt:
		if v.Tok == token.ASSIGN && len(v.Lhs) == 1 && len(v.Rhs) == 1 {
			lv := src(v.Lhs[0])
			if _, ok := m.fields[lv]; ok {
				if call, isCall := v.Rhs[0].(*ast.CallExpr); isCall && src(call.Fun) == "append" && len(call.Args) == 2 && src(call.Args[0]) == lv {
					return m.set(lv, "(st."+m.fields[lv]+" ++ ["+m.t.expr(call.Args[1])+"])")
				}
				if lv == m.errLv {
					var code ast.Expr
					ast.Inspect(v.Rhs[0], func(n ast.Node) bool {
						if call, isCall := n.(*ast.CallExpr); isCall && src(call.Fun) == "Errorf" && len(call.Args) >= 1 {
							code = call.Args[0]
						}
						if lit, isLit := n.(*ast.CompositeLit); isLit && src(lit.Type) == "Error" {
							for _, el := range lit.Elts {
								if kv, isKV := el.(*ast.KeyValueExpr); isKV && src(kv.Key) == "Code" {
									code = kv.Value
								}
							}
						}
						return true
					})
					if code == nil {
						fail("%s: error value %q has no recognisable code", m.t.who, src(v.Rhs[0]))
					}
					return m.set(lv, "(some "+m.t.expr(code)+")")
				}
				return m.set(lv, m.t.expr(v.Rhs[0]))
			}
		}
	case *ast.ExprStmt:
		if call, ok := v.X.(*ast.CallExpr); ok && src(call.Fun) == m.failCall && len(call.Args) == 2 {
			return "(psFail st " + m.t.expr(call.Args[0]) + ")"
		}
	case *ast.BlockStmt:
		return "(" + m.block(v.List, ind) + ")"
	case *ast.IfStmt:
		prefix := ""
		if v.Init != nil {
			as, ok := v.Init.(*ast.AssignStmt)
			if !ok || as.Tok != token.DEFINE || len(as.Lhs) != 1 || len(as.Rhs) != 1 {
				fail("%s: if with init statement %q unsupported", m.t.who, src(v.Init))
			}
			prefix = "let " + src(as.Lhs[0]) + " := " + m.t.expr(as.Rhs[0]) + "\n" + ind
		}
		var cond string
		if val, target, ok := isUnmarshalFailed(v.Cond); ok {
			oracle, known := m.unm[target]
			if !known {
				fail("%s: json.Unmarshal into %q is not modelled", m.t.who, target)
			}
			prefix += "let u := (" + oracle + " " + m.t.expr(val) + " st." + m.fields[target] + ")\n" + ind +
				"let st := " + m.set(target, "u.1") + "\n" + ind
			cond = "u.2"
		} else {
			cond = m.t.expr(v.Cond)
		}
		thenPart := m.block(v.Body.List, ind+"  ")
		elsePart := "st"
		switch e := v.Else.(type) {
		case *ast.BlockStmt:
			elsePart = m.block(e.List, ind+"  ")
		case *ast.IfStmt:
			elsePart = m.stmt(e, ind+"  ")
		}
		return "(" + prefix + "if " + cond + " then\n" + ind + "  " + thenPart + "\n" + ind + "else\n" + ind + "  " + elsePart + ")"
	case *ast.SwitchStmt:
		if v.Init != nil || v.Tag == nil {
			fail("%s: switch without tag / with init unsupported here", m.t.who)
		}
		tag := m.t.expr(v.Tag)
		out := "st"
		type arm struct {
			cond string
			body []ast.Stmt
		}
		var arms []arm
		for _, cs := range v.Body.List {
			cc := cs.(*ast.CaseClause)
			if cc.List == nil {
				out = m.block(cc.Body, ind+"  ")
				continue
			}
			var conds []string
			for _, ce := range cc.List {
				conds = append(conds, "("+tag+" == "+m.t.expr(ce)+")")
			}
			arms = append(arms, arm{strings.Join(conds, " || "), cc.Body})
		}
		for i := len(arms) - 1; i >= 0; i-- {
			out = "if " + arms[i].cond + " then\n" + ind + "  " + m.block(arms[i].body, ind+"  ") + "\n" + ind + "else\n" + ind + "  " + out
		}
		return "(" + out + ")"
	}
	fail("%s: unsupported statement %q", m.t.who, src(s))
	return ""
}

// emitParseJSON writes ParseSt, psFail, parseField, parsePost, parseJSONResets.
func emitParseJSON(fs *strings.Builder, p *pkg, c *consts, funcs map[string]string) {
	fd, file := findFunc(p, "jmessage", "parseJSON")
	if fd == nil {
		fail("jmessage.parseJSON not found")
	}
	var loop *ast.RangeStmt
	at := -1
	for i, st := range fd.Body.List {
		if rs, ok := st.(*ast.RangeStmt); ok && src(rs.X) == "obj" {
			loop, at = rs, i
		}
	}
	if loop == nil || src(loop.Key) != "key" || src(loop.Value) != "val" {
		fail("%s:parseJSON: `for key, val := range obj` not found", file)
	}
	resets := false
	for _, st := range fd.Body.List[:at] {
		if src(st) == "*j = jmessage{}" {
			resets = true
		}
	}
	post := fd.Body.List[at+1:]
	if n := len(post); n == 0 || src(post[n-1]) != "return nil" {
		fail("%s:parseJSON: does not end in `return nil`", file)
	}
	post = post[:len(post)-1]
	fn := map[string]string{}
	for k, v := range funcs {
		fn[k] = v
	}
	fn["firstByte"] = "firstByte"
	atoms := map[string]string{"j.V": "st.v", "j.ID": "st.id", "j.M": "st.m", "j.P": "st.p", "j.E": "st.e", "j.R": "st.r",
		"extra": "st.extra", "j.err": "st.err", `""`: "([] : List UInt8)"}
	m := &imp{
		p:      p,
		t:      &tr{atoms: atoms, c: c, funcs: fn, who: file + ":parseJSON"},
		fields: map[string]string{"j.V": "v", "j.ID": "id", "j.M": "m", "j.P": "p", "j.E": "e", "j.R": "r", "extra": "extra", "j.err": "err"},
		unm:    map[string]string{"j.V": "unmStr", "j.M": "unmStr", "j.E": "unmErr"},
		failCall: "j.fail", errLv: "j.err",
	}
	body := m.block(loop.Body.List, "  ")
	postBody := m.block(post, "  ")
	// `fail` keeps the first error
	ff, _ := findFunc(p, "jmessage", "fail")
	if ff == nil || len(ff.Body.List) != 1 {
		fail("jmessage.fail not found / unexpected shape")
	}
	is, ok := ff.Body.List[0].(*ast.IfStmt)
	if !ok || src(is.Cond) != "j.err == nil" || len(is.Body.List) != 1 || !strings.HasPrefix(src(is.Body.List[0]), "j.err = &Error{Code: code") || is.Else != nil {
		fail("%s:fail: expected `if j.err == nil { j.err = &Error{Code: code, ...} }`", file)
	}
	fmt.Fprintf(fs, `/-- everything %s: `+"`jmessage.parseJSON`"+` assigns: the message's fields, the unknown keys, the deferred error's code -/
structure ParseSt where
  v : List UInt8 := []
  id : List UInt8 := []
  m : List UInt8 := []
  p : List UInt8 := []
  e : Option Unit := none
  r : List UInt8 := []
  extra : List (List UInt8) := []
  err : Option Int := none
  deriving DecidableEq, Repr

/-- %s: `+"`jmessage.fail`"+`: the first error is kept -/
def psFail (st : ParseSt) (code : Int) : ParseSt :=
  if (GoNil.isNil st.err) then { st with err := (some code) } else st

/-- %s: body of the `+"`for key, val := range obj`"+` loop of `+"`jmessage.parseJSON`"+`. `+"`unmStr val old`"+` / `+"`unmErr val old`"+` are
`+"`json.Unmarshal(val, &field)`"+` for a string / *Error field holding `+"`old`"+`: (new value, failed) -/
def parseField (unmStr : List UInt8 → List UInt8 → List UInt8 × Bool) (unmErr : List UInt8 → Option Unit → Option Unit × Bool)
    (firstByte : List UInt8 → Int) (st : ParseSt) (key val : List UInt8) : ParseSt :=
  %s

/-- %s: the statements of `+"`jmessage.parseJSON`"+` after the loop -/
def parsePost (st : ParseSt) : ParseSt :=
  %s

/-- %s: `+"`jmessage.parseJSON`"+` resets the message (`+"`*j = jmessage{}`"+`) before the loop -/
def parseJSONResets : Bool := %v

`, file, file, file, body, file, postBody, file, resets)
}

// buf translates a buffer-building function in continuation style into `Option (List UInt8)`.
type buf struct {
	t       *tr
	p       *pkg
	name    string            // the buffer variable (found at its `var X bytes.Buffer` declaration)
	marshal map[string]string // argument text of json.Marshal -> oracle
}

// helperWrites inlines a call `f(&buf, args...)` of an unexported function of the package whose body
// only writes to its first parameter: one `let buf := buf ++ ..` line per write.
func (b *buf) helperWrites(call *ast.CallExpr, ind string) (string, bool) {
	id, ok := call.Fun.(*ast.Ident)
	if !ok || ast.IsExported(id.Name) || len(call.Args) < 1 || src(call.Args[0]) != "&"+b.name {
		return "", false
	}
	fd, _ := findFunc(b.p, "", id.Name)
	if fd == nil || fd.Body == nil {
		return "", false
	}
	var params []string
	for _, f := range fd.Type.Params.List {
		for _, n := range f.Names {
			params = append(params, n.Name)
		}
	}
	if len(params) != len(call.Args) {
		return "", false
	}
	atoms := map[string]string{}
	for k, v := range b.t.atoms {
		atoms[k] = v
	}
	for i := 1; i < len(params); i++ {
		atoms[params[i]] = b.t.expr(call.Args[i])
	}
	ht := &tr{atoms: atoms, c: b.t.c, funcs: b.t.funcs, who: b.t.who + ":" + id.Name}
	var sb strings.Builder
	for _, st := range fd.Body.List {
		es, ok := st.(*ast.ExprStmt)
		if !ok {
			fail("%s: helper %s: unsupported statement %q", b.t.who, id.Name, src(st))
		}
		c, ok := es.X.(*ast.CallExpr)
		if !ok || len(c.Args) != 1 {
			fail("%s: helper %s: unsupported statement %q", b.t.who, id.Name, src(st))
		}
		switch src(c.Fun) {
		case params[0] + ".WriteString", params[0] + ".Write":
			fmt.Fprintf(&sb, "let %s := %s ++ %s\n%s", b.name, b.name, ht.expr(c.Args[0]), ind)
		case params[0] + ".WriteByte":
			n, ok := evalInt(c.Args[0], b.t.c)
			if !ok || n < 0 || n > 255 {
				fail("%s: helper %s: WriteByte argument %q", b.t.who, id.Name, src(c.Args[0]))
			}
			fmt.Fprintf(&sb, "let %s := %s ++ [(%d : UInt8)]\n%s", b.name, b.name, n, ind)
		default:
			fail("%s: helper %s: unsupported statement %q", b.t.who, id.Name, src(st))
		}
	}
	return sb.String(), true
}

func (b *buf) stmts(list []ast.Stmt, ind string) string {
	if len(list) == 0 {
		fail("%s: control reaches the end without return", b.t.who)
	}
	s, rest := list[0], list[1:]
	switch v := s.(type) {
	case *ast.DeclStmt:
		if txt := src(v); b.name == "" && strings.HasPrefix(txt, "var ") && strings.HasSuffix(txt, " bytes.Buffer") {
			b.name = strings.TrimSuffix(strings.TrimPrefix(txt, "var "), " bytes.Buffer")
			return "let " + b.name + " : List UInt8 := []\n" + ind + b.stmts(rest, ind)
		}
	case *ast.ExprStmt:
		if call, ok := v.X.(*ast.CallExpr); ok {
			if lines, ok := b.helperWrites(call, ind); ok {
				return lines + b.stmts(rest, ind)
			}
		}
		if call, ok := v.X.(*ast.CallExpr); ok && len(call.Args) == 1 {
			switch src(call.Fun) {
			case b.name + ".WriteString", b.name + ".Write":
				return "let " + b.name + " := " + b.name + " ++ " + b.t.expr(call.Args[0]) + "\n" + ind + b.stmts(rest, ind)
			case b.name + ".WriteByte":
				n, ok := evalInt(call.Args[0], b.t.c)
				if !ok || n < 0 || n > 255 {
					fail("%s: WriteByte argument %q", b.t.who, src(call.Args[0]))
				}
				return fmt.Sprintf("let %s := %s ++ [(%d : UInt8)]\n%s%s", b.name, b.name, n, ind, b.stmts(rest, ind))
			}
		}
	case *ast.AssignStmt:
		if v.Tok == token.DEFINE && len(v.Lhs) == 2 && len(v.Rhs) == 1 && src(v.Lhs[1]) == "err" {
			if call, ok := v.Rhs[0].(*ast.CallExpr); ok && src(call.Fun) == "json.Marshal" && len(call.Args) == 1 {
				oracle, known := b.marshal[src(call.Args[0])]
				if !known {
					fail("%s: json.Marshal(%s) is not modelled", b.t.who, src(call.Args[0]))
				}
				if len(rest) == 0 || !strings.HasPrefix(src(rest[0]), "if err != nil {\n\treturn nil, err") {
					fail("%s: json.Marshal result is not checked at once", b.t.who)
				}
				return "match (" + oracle + " " + b.t.expr(call.Args[0]) + ") with\n" + ind + "| none => none\n" + ind + "| some " + src(v.Lhs[0]) + " =>\n" + ind + "  " + b.stmts(rest[1:], ind+"  ")
			}
		}
	case *ast.ReturnStmt:
		if src0(v.Results) == b.name+".Bytes(), nil" {
			return "some " + b.name
		}
	case *ast.IfStmt:
		if v.Init == nil {
			var elsePart string
			switch el := v.Else.(type) {
			case nil:
				elsePart = b.stmts(rest, ind+"  ")
			case *ast.BlockStmt:
				elsePart = b.stmts(append(append([]ast.Stmt{}, el.List...), rest...), ind+"  ")
			case *ast.IfStmt:
				elsePart = b.stmts(append([]ast.Stmt{el}, rest...), ind+"  ")
			}
			return "if " + b.t.expr(v.Cond) + " then\n" + ind + "  " + b.stmts(append(append([]ast.Stmt{}, v.Body.List...), rest...), ind+"  ") + "\n" + ind + "else\n" + ind + "  " + elsePart
		}
	case *ast.SwitchStmt:
		if v.Init == nil && v.Tag == nil {
			out := ""
			hasDef := false
			type arm struct {
				cond string
				body []ast.Stmt
			}
			var arms []arm
			for _, cs := range v.Body.List {
				cc := cs.(*ast.CaseClause)
				if cc.List == nil {
					out, hasDef = b.stmts(append(append([]ast.Stmt{}, cc.Body...), rest...), ind+"  "), true
					continue
				}
				var conds []string
				for _, ce := range cc.List {
					conds = append(conds, b.t.expr(ce))
				}
				arms = append(arms, arm{strings.Join(conds, " || "), cc.Body})
			}
			if !hasDef {
				out = b.stmts(rest, ind+"  ")
			}
			for i := len(arms) - 1; i >= 0; i-- {
				out = "if " + arms[i].cond + " then\n" + ind + "  " + b.stmts(append(append([]ast.Stmt{}, arms[i].body...), rest...), ind+"  ") + "\n" + ind + "else\n" + ind + "  " + out
			}
			return out
		}
	}
	fail("%s: unsupported statement %q", b.t.who, src(s))
	return ""
}

func emitToJSON(fs *strings.Builder, p *pkg, c *consts, funcs map[string]string) {
	fd, file := findFunc(p, "jmessage", "toJSON")
	if fd == nil {
		fail("jmessage.toJSON not found")
	}
	atoms := map[string]string{"j.ID": "id", "j.M": "m", "j.P": "p", "j.R": "r", "j.E": "e", `""`: "([] : List UInt8)"}
	b := &buf{t: &tr{atoms: atoms, c: c, funcs: funcs, who: file + ":toJSON"}, p: p,
		marshal: map[string]string{"j.M": "marshalStr", "j.E": "marshalErr"}}
	fmt.Fprintf(fs, "/-- %s: `jmessage.toJSON` as a whole; `marshalStr` / `marshalErr` are `json.Marshal` of the method name / the error value -/\n"+
		"def toJSON {E : Type} (id m p r : List UInt8) (e : Option E) (marshalStr : List UInt8 → Option (List UInt8)) (marshalErr : Option E → Option (List UInt8)) : Option (List UInt8) :=\n  %s\n\n",
		file, b.stmts(fd.Body.List, "  "))
}
